import RallyModel.Throughput
import Mathlib.Tactic.Linarith
import Mathlib.Data.Rat.Floor
/-!
Helper lemmas for C06 (`ThroughputCalculator`): rounding facts, the stable sort, field lemmas of the
`TaskStats` operations, the loop invariant of `calculate_task_throughput`, and the invariant that
holds between successive `calculate` calls.
-/
namespace Throughput

/-! ## `Dbl` facts -/

theorem pow2_pos (e : Int) : 0 < Dbl.pow2 e := by
  unfold Dbl.pow2
  split
  · exact_mod_cast Nat.pos_of_ne_zero (by positivity)
  · apply div_pos one_pos
    exact_mod_cast Nat.pos_of_ne_zero (by positivity)

theorem rhe_nonneg {q : Rat} (h : 0 ≤ q) : 0 ≤ Dbl.rhe q := by
  have hf : 0 ≤ q.floor := by
    rw [Rat.le_floor_iff]; exact_mod_cast h
  unfold Dbl.rhe
  simp only
  split_ifs <;> omega

theorem fl_nonneg {q : Rat} (h : 0 ≤ q) : 0 ≤ Dbl.fl q := by
  unfold Dbl.fl
  split_ifs with h0
  · exact le_refl _
  · simp only
    apply mul_nonneg
    · exact_mod_cast rhe_nonneg (div_nonneg h (le_of_lt (pow2_pos _)))
    · exact le_of_lt (pow2_pos _)

theorem fdiv_nonneg {a b : Rat} (ha : 0 ≤ a) (hb : 0 < b) : 0 ≤ Dbl.fdiv a b :=
  fl_nonneg (div_nonneg ha (le_of_lt hb))

theorem ofNat_nonneg (n : Nat) : 0 ≤ Dbl.ofNat n := fl_nonneg (by exact_mod_cast Nat.zero_le n)

theorem pyMax_eq (a b : Rat) : pyMax a b = max a b := by
  unfold pyMax
  split_ifs with h
  · exact (max_eq_right (le_of_lt h)).symm
  · exact (max_eq_left (not_lt.mp h)).symm

/-! ## counting and sorting -/

/-- elapsed time of a sample as the code computes it: `sample.absolute_time - start_time` (on doubles) -/
def elapsed (start : Rat) (s : TSample) : Rat := Dbl.fsub s.abs start

@[simp] theorem sumOps_nil : sumOps [] = 0 := rfl
@[simp] theorem sumOps_cons (s : TSample) (l : List TSample) : sumOps (s :: l) = s.ops + sumOps l := rfl

@[simp] theorem sumOps_append (a b : List TSample) : sumOps (a ++ b) = sumOps a + sumOps b := by
  induction a with
  | nil => simp
  | cons s l ih => simp [ih, Nat.add_assoc]

theorem sumOps_perm {a b : List TSample} (h : a.Perm b) : sumOps a = sumOps b := by
  induction h with
  | nil => rfl
  | cons x _ ih => simp [ih]
  | swap x y l => simp; omega
  | trans _ _ ih1 ih2 => exact ih1.trans ih2

theorem insertByAbs_perm (s : TSample) (l : List TSample) : (insertByAbs s l).Perm (s :: l) := by
  induction l with
  | nil => exact List.Perm.refl _
  | cons t ts ih =>
    unfold insertByAbs
    split
    · exact ((List.Perm.cons t ih).trans (List.Perm.swap s t ts))
    · exact List.Perm.refl _

theorem sortByAbs_perm (l : List TSample) : (sortByAbs l).Perm l := by
  induction l with
  | nil => exact List.Perm.refl _
  | cons s l ih =>
    unfold sortByAbs
    exact (insertByAbs_perm s _).trans (List.Perm.cons s ih)

/-- ascending absolute time -/
def Sorted (l : List TSample) : Prop := l.Pairwise (fun a b => a.abs ≤ b.abs)

theorem insertByAbs_sorted (s : TSample) {l : List TSample} (h : Sorted l) : Sorted (insertByAbs s l) := by
  induction l with
  | nil => simp [insertByAbs, Sorted]
  | cons t ts ih =>
    unfold Sorted at h ⊢
    rw [List.pairwise_cons] at h
    unfold insertByAbs
    split
    next hlt =>
      rw [List.pairwise_cons]
      refine ⟨?_, ih h.2⟩
      intro b hb
      have := (insertByAbs_perm s ts).mem_iff.mp hb
      rcases List.mem_cons.mp this with rfl | hb'
      · exact le_of_lt hlt
      · exact h.1 b hb'
    next hnl =>
      have hst : s.abs ≤ t.abs := not_lt.mp hnl
      rw [List.pairwise_cons]
      refine ⟨?_, List.pairwise_cons.mpr h⟩
      intro b hb
      rcases List.mem_cons.mp hb with rfl | hb'
      · exact hst
      · exact le_trans hst (h.1 b hb')

theorem sortByAbs_sorted (l : List TSample) : Sorted (sortByAbs l) := by
  induction l with
  | nil => simp [sortByAbs, Sorted]
  | cons s l ih => unfold sortByAbs; exact insertByAbs_sorted s ih

/-! ## field lemmas -/

@[simp] theorem touch_start (c : TaskStats) (s : TSample) : (touch c s).start = c.start := by
  unfold touch TaskStats.updateInterval TaskStats.maybeUpdateSampleType; split <;> rfl
@[simp] theorem touch_bucket (c : TaskStats) (s : TSample) : (touch c s).bucket = c.bucket := by
  unfold touch TaskStats.updateInterval TaskStats.maybeUpdateSampleType; split <;> rfl
@[simp] theorem touch_bucketInterval (c : TaskStats) (s : TSample) : (touch c s).bucketInterval = c.bucketInterval := by
  unfold touch TaskStats.updateInterval TaskStats.maybeUpdateSampleType; split <;> rfl
@[simp] theorem touch_total (c : TaskStats) (s : TSample) : (touch c s).total = c.total := by
  unfold touch TaskStats.updateInterval TaskStats.maybeUpdateSampleType; split <;> rfl
@[simp] theorem touch_unprocessed (c : TaskStats) (s : TSample) : (touch c s).unprocessed = c.unprocessed := by
  unfold touch TaskStats.updateInterval TaskStats.maybeUpdateSampleType; split <;> rfl
theorem touch_interval (c : TaskStats) (s : TSample) :
    (touch c s).interval = max (elapsed c.start s) c.interval := by
  unfold touch TaskStats.updateInterval TaskStats.maybeUpdateSampleType elapsed
  split <;> simp [pyMax_eq]
theorem touch_normal (c : TaskStats) (s : TSample) : (touch c s).normal = (c.normal || s.normal) := by
  unfold touch TaskStats.updateInterval TaskStats.maybeUpdateSampleType
  cases hc : c.normal <;> cases hs : s.normal <;> simp [hc]
theorem touch_hasSamples (c : TaskStats) (s : TSample) :
    (touch c s).hasSamples = (if (!c.normal && s.normal) then false else c.hasSamples) := by
  unfold touch TaskStats.updateInterval TaskStats.maybeUpdateSampleType
  split <;> simp [*]

theorem canCalculate_iff (c : TaskStats) :
    c.canCalculate = true ↔ 0 < c.interval ∧ (c.bucket : Rat) ≤ c.interval := by
  simp [TaskStats.canCalculate]

theorem canAddFinal_iff (c : TaskStats) :
    c.canAddFinal = true ↔ 0 < c.interval ∧ c.hasSamples = false := by
  simp [TaskStats.canAddFinal]

theorem canCalculate_congr {c d : TaskStats} (h1 : c.interval = d.interval) (h2 : c.bucket = d.bucket) :
    c.canCalculate = d.canCalculate := by
  simp [TaskStats.canCalculate, h1, h2]

theorem loop_nil (c : TaskStats) (n : Nat) : loop c n [] = (c, n, []) := rfl

theorem loop_cons_fin {c : TaskStats} {n : Nat} {s : TSample} {rest : List TSample}
    (h : (touch c s).canCalculate = true) :
    loop c n (s :: rest) =
      ((loop ((touch c s).finishBucket (n + s.ops)) (n + s.ops) rest).1,
       (loop ((touch c s).finishBucket (n + s.ops)) (n + s.ops) rest).2.1,
       mkOut s ((touch c s).finishBucket (n + s.ops)) ::
         (loop ((touch c s).finishBucket (n + s.ops)) (n + s.ops) rest).2.2) := by
  simp [loop, h]

theorem loop_cons_nofin {c : TaskStats} {n : Nat} {s : TSample} {rest : List TSample}
    (h : (touch c s).canCalculate = false) :
    loop c n (s :: rest) =
      loop { touch c s with unprocessed := (touch c s).unprocessed ++ [s] } (n + s.ops) rest := by
  simp [loop, h]

/-! ## the loop of `calculate_task_throughput` (`fix = true`, the current code) -/

/-- `iv` is the largest elapsed time among the samples `P` -/
def IsMaxElapsed (start : Rat) (P : List TSample) (iv : Rat) : Prop :=
  (∀ s ∈ P, elapsed start s ≤ iv) ∧ ∃ s ∈ P, elapsed start s = iv

/-- what a tuple emitted while processing the sorted list `all` of a call says, `P0` = samples counted by
    earlier calls: the samples `p` up to the emitting one are counted in addition, the rest `R` is later in time -/
def EmitSpec (start : Rat) (P0 all : List TSample) (o : Out) : Prop :=
  ∃ p R, all = p ++ R ∧ (∀ r ∈ R, o.abs ≤ r.abs) ∧
    (∃ s ∈ p, s.abs = o.abs ∧ s.rel = o.rel ∧ o.unit = s.unit ++ ['/', 's']) ∧
    ∃ iv, IsMaxElapsed start (P0 ++ p) iv ∧ 0 < iv ∧
      o.value = some (Dbl.fdiv (Dbl.ofNat (sumOps (P0 ++ p))) iv)

/-- loop invariant of `calculate_task_throughput` (`fix = true`, the current code), `pre` = samples of the call already looped over -/
structure LoopInv (start iv0 : Rat) (bucket0 : Int) (P0 T0 pre : List TSample) (cur : TaskStats) (count : Nat) : Prop where
  start_eq : cur.start = start
  acct : ∃ P, (P ++ cur.unprocessed).Perm (P0 ++ pre) ∧ cur.total = sumOps P ∧ count = sumOps P + sumOps cur.unprocessed
  bound : ∀ s ∈ T0 ++ pre, elapsed start s ≤ cur.interval
  mono : iv0 ≤ cur.interval
  attained : cur.interval = iv0 ∨ ∃ s ∈ pre, elapsed start s = cur.interval
  stuck : cur.unprocessed ≠ [] → cur.canCalculate = false
  bucket : cur.bucket = bucket0 ∨ (0 < cur.interval ∧ (bucket0 : Rat) ≤ cur.interval)

theorem loop_spec {start iv0 : Rat} {bucket0 : Int} {P0 T0 : List TSample}
    (hP0 : ∀ s ∈ P0, s ∈ T0)
    (hB3 : iv0 = 0 ∨ ∃ s ∈ T0, elapsed start s = iv0)
    (hU : (0 < iv0 ∧ (bucket0 : Rat) ≤ iv0) → ∀ s ∈ T0, s ∈ P0) :
    ∀ (rest pre : List TSample) (cur : TaskStats) (count : Nat), Sorted rest →
      LoopInv start iv0 bucket0 P0 T0 pre cur count →
      LoopInv start iv0 bucket0 P0 T0 (pre ++ rest) (loop cur count rest).1 (loop cur count rest).2.1 ∧
      ∀ o ∈ (loop cur count rest).2.2, EmitSpec start P0 (pre ++ rest) o := by
  intro rest
  induction rest with
  | nil =>
    intro pre cur count _ hinv
    simp only [loop_nil, List.append_nil]
    exact ⟨hinv, by simp⟩
  | cons s rest ih =>
    intro pre cur count hs hinv
    have hs' : Sorted rest := (List.pairwise_cons.mp hs).2
    have hsle : ∀ r ∈ rest, s.abs ≤ r.abs := (List.pairwise_cons.mp hs).1
    obtain ⟨P, hperm, htot, hcnt⟩ := hinv.acct
    have hiv1 : (touch cur s).interval = max (elapsed start s) cur.interval := by
      rw [touch_interval, hinv.start_eq]
    have hmono1 : cur.interval ≤ (touch cur s).interval := by rw [hiv1]; exact le_max_right _ _
    have hbound1 : ∀ x ∈ T0 ++ (pre ++ [s]), elapsed start x ≤ (touch cur s).interval := by
      intro x hx
      rw [← List.append_assoc] at hx
      rcases List.mem_append.mp hx with hx | hx
      · exact le_trans (hinv.bound x hx) hmono1
      · rw [List.mem_singleton.mp hx, hiv1]; exact le_max_left _ _
    have hatt1 : (touch cur s).interval = iv0 ∨ ∃ x ∈ pre ++ [s], elapsed start x = (touch cur s).interval := by
      rcases le_total (elapsed start s) cur.interval with hle | hle
      · rw [hiv1, max_eq_right hle]
        rcases hinv.attained with h | ⟨x, hx, hxe⟩
        · exact Or.inl h
        · exact Or.inr ⟨x, List.mem_append_left _ hx, hxe⟩
      · rw [hiv1, max_eq_left hle]
        exact Or.inr ⟨s, by simp, rfl⟩
    have happ : pre ++ s :: rest = (pre ++ [s]) ++ rest := by simp
    cases hc : (touch cur s).canCalculate with
    | true =>
      rw [loop_cons_fin hc]
      simp only
      obtain ⟨hpos, hbk⟩ := (canCalculate_iff _).mp hc
      rw [touch_bucket] at hbk
      have hbk0 : (bucket0 : Rat) ≤ (touch cur s).interval := by
        rcases hinv.bucket with h | ⟨_, h⟩
        · rw [← h]; exact hbk
        · exact le_trans h hmono1
      have hsum : sumOps (P0 ++ (pre ++ [s])) = count + s.ops := by
        have := sumOps_perm hperm
        simp only [sumOps_append] at this
        simp only [sumOps_append, sumOps_cons, sumOps_nil]
        omega
      -- invariant after the finished bucket
      have hinv2 : LoopInv start iv0 bucket0 P0 T0 (pre ++ [s]) ((touch cur s).finishBucket (count + s.ops)) (count + s.ops) := by
        refine ⟨?_, ⟨P0 ++ (pre ++ [s]), ?_, ?_, ?_⟩, ?_, ?_, ?_, ?_, ?_⟩
        · simp [TaskStats.finishBucket, hinv.start_eq]
        · simp [TaskStats.finishBucket]
        · simp only [TaskStats.finishBucket]; exact hsum.symm
        · simp only [TaskStats.finishBucket, sumOps_nil]; omega
        · exact hbound1
        · exact le_trans hinv.mono hmono1
        · exact hatt1
        · intro h; simp [TaskStats.finishBucket] at h
        · exact Or.inr ⟨hpos, hbk0⟩
      have hrec := ih (pre ++ [s]) _ _ hs' hinv2
      rw [happ]
      refine ⟨hrec.1, ?_⟩
      intro o ho
      rcases List.mem_cons.mp ho with rfl | ho
      · -- the tuple emitted for `s`
        refine ⟨pre ++ [s], rest, rfl, hsle, ⟨s, by simp, rfl, rfl, rfl⟩, (touch cur s).interval, ⟨?_, ?_⟩, hpos, ?_⟩
        · intro x hx
          rcases List.mem_append.mp hx with hx | hx
          · exact hbound1 x (List.mem_append_left _ (hP0 x hx))
          · exact hbound1 x (List.mem_append_right _ hx)
        · rcases hatt1 with h | ⟨x, hx, hxe⟩
          · -- the interval did not grow in this call: then nothing was carried over
            have h0 : 0 < iv0 ∧ (bucket0 : Rat) ≤ iv0 := by rw [← h]; exact ⟨hpos, hbk0⟩
            rcases hB3 with hz | ⟨x, hx, hxe⟩
            · exact absurd hz (ne_of_gt h0.1)
            · exact ⟨x, List.mem_append_left _ (hU h0 x hx), by rw [hxe, h]⟩
          · exact ⟨x, List.mem_append_right _ hx, hxe⟩
        · simp only [mkOut, TaskStats.throughput, TaskStats.finishBucket, hsum]
      · exact hrec.2 o ho
    | false =>
      rw [loop_cons_nofin hc]
      have hinv2 : LoopInv start iv0 bucket0 P0 T0 (pre ++ [s])
          { touch cur s with unprocessed := (touch cur s).unprocessed ++ [s] } (count + s.ops) := by
        refine ⟨?_, ⟨P, ?_, ?_, ?_⟩, ?_, ?_, ?_, ?_, ?_⟩
        · simp [hinv.start_eq]
        · simp only [touch_unprocessed]
          rw [← List.append_assoc, ← List.append_assoc]
          exact List.Perm.append_right [s] hperm
        · simpa using htot
        · simp only [touch_unprocessed, sumOps_append, sumOps_cons, sumOps_nil]; omega
        · exact hbound1
        · exact le_trans hinv.mono hmono1
        · exact hatt1
        · intro _
          rw [← hc]
          exact canCalculate_congr rfl rfl
        · rcases hinv.bucket with h | ⟨h1, h2⟩
          · left; simpa using h
          · right; exact ⟨lt_of_lt_of_le h1 hmono1, le_trans h2 hmono1⟩
      have hrec := ih (pre ++ [s]) _ _ hs' hinv2
      rw [happ]
      exact hrec


/-! ## one `calculate` call for one task (`fix = true`, the current code) -/

/-- invariant between successive `calculate` calls (`fix = true`, the current code); `fed` = all samples of the task so far -/
structure Inv (t : TaskStats) (fed : List TSample) : Prop where
  acct : ∃ P, (P ++ t.unprocessed).Perm fed ∧ t.total = sumOps P
  bound : ∀ s ∈ fed, elapsed t.start s ≤ t.interval
  attained : t.interval = 0 ∨ ∃ s ∈ fed, elapsed t.start s = t.interval
  stuck : t.unprocessed ≠ [] → t.canCalculate = false

def StOk : Option TaskStats → List TSample → Prop
  | none, fed => fed = []
  | some t, fed => Inv t fed

/-- meaning of one emitted tuple `o` when `fed` is everything fed so far (this call included): the counted
    samples `P` and the not yet counted ones `R` partition `fed`, nothing in `R` is earlier than `o`, the
    emitting sample is counted, and the value is `ops(P) / (largest elapsed time in P)` in double arithmetic -/
def ValueSpec (start : Rat) (fed : List TSample) (o : Out) : Prop :=
  ∃ P R, (P ++ R).Perm fed ∧ (∀ r ∈ R, o.abs ≤ r.abs) ∧
    (∃ s ∈ P, s.abs = o.abs ∧ s.rel = o.rel ∧ o.unit = s.unit ++ ['/', 's']) ∧
    ∃ iv, IsMaxElapsed start P iv ∧ 0 < iv ∧ o.value = some (Dbl.fdiv (Dbl.ofNat (sumOps P)) iv)

theorem init_inv (bi : Nat) (first : TSample) : Inv (TaskStats.init bi first) [] := by
  refine ⟨⟨[], by simp [TaskStats.init], by simp [TaskStats.init]⟩, by simp, Or.inl rfl, ?_⟩
  intro h; simp [TaskStats.init] at h

theorem processFrom_spec (cur0 : TaskStats) (fed batch : List TSample) (hinv0 : Inv cur0 fed)
    (cs : List TSample) (hne : cs ≠ [])
    (hsorted : Sorted cs) (hperm : cs.Perm (batch ++ cur0.unprocessed)) :
    Inv (processFrom true cur0 cs).1 (fed ++ batch) ∧
    (∀ o ∈ (processFrom true cur0 cs).2, ValueSpec cur0.start (fed ++ batch) o) ∧
    (processFrom true cur0 cs).1.start = cur0.start := by
  obtain ⟨P0, hP0perm, hP0tot⟩ := hinv0.acct
  have hP0sub : ∀ s ∈ P0, s ∈ fed := fun s hs => hP0perm.subset (List.mem_append_left _ hs)
  have hUsub : ∀ s ∈ cur0.unprocessed, s ∈ cs := fun s hs =>
    hperm.symm.subset (List.mem_append_right _ hs)
  have hbatchsub : ∀ s ∈ batch, s ∈ cs := fun s hs => hperm.symm.subset (List.mem_append_left _ hs)
  have hcssub : ∀ s ∈ cs, s ∈ fed ++ batch := by
    intro s hs
    rcases List.mem_append.mp (hperm.subset hs) with h | h
    · exact List.mem_append_right _ h
    · exact List.mem_append_left _ (hP0perm.subset (List.mem_append_right _ h))
  have hU : (0 < cur0.interval ∧ (cur0.bucket : Rat) ≤ cur0.interval) → ∀ s ∈ fed, s ∈ P0 := by
    intro h s hs
    have hcc : cur0.canCalculate = true := (canCalculate_iff _).mpr h
    have hnil : cur0.unprocessed = [] := by
      by_contra hne
      have := hinv0.stuck hne
      rw [hcc] at this; exact absurd this (by simp)
    rw [hnil, List.append_nil] at hP0perm
    exact hP0perm.symm.subset hs
  -- all counted-or-carried samples plus the call's samples are everything fed so far
  have hall : (P0 ++ cs).Perm (fed ++ batch) := by
    have h1 : (P0 ++ cs).Perm (P0 ++ (batch ++ cur0.unprocessed)) := List.Perm.append_left P0 hperm
    have h2 : (P0 ++ (batch ++ cur0.unprocessed)).Perm ((P0 ++ cur0.unprocessed) ++ batch) := by
      rw [List.append_assoc]
      exact List.Perm.append_left P0 List.perm_append_comm
    exact h1.trans (h2.trans (List.Perm.append_right batch hP0perm))
  have hinit : LoopInv cur0.start cur0.interval cur0.bucket P0 fed [] { cur0 with unprocessed := [] } cur0.total := by
    refine ⟨rfl, ⟨P0, by simp, hP0tot, by simp [hP0tot]⟩, ?_, le_refl _, Or.inl rfl, ?_, Or.inl rfl⟩
    · intro s hs; rw [List.append_nil] at hs; exact hinv0.bound s hs
    · intro h; simp at h
  have hloop := loop_spec hP0sub hinv0.attained hU cs [] _ _ hsorted hinit
  rw [List.nil_append] at hloop
  obtain ⟨hL, hE⟩ := hloop
  set r := loop { cur0 with unprocessed := [] } cur0.total cs with hr
  -- tuples emitted inside the loop
  have hEV : ∀ o ∈ r.2.2, ValueSpec cur0.start (fed ++ batch) o := by
    intro o ho
    obtain ⟨p, R, hpR, hR, hem, iv, hmax, hpos, hval⟩ := hE o ho
    refine ⟨P0 ++ p, R, ?_, hR, ?_, iv, hmax, hpos, hval⟩
    · rw [List.append_assoc, ← hpR]; exact hall
    · obtain ⟨s, hs, h⟩ := hem
      exact ⟨s, List.mem_append_right _ hs, h⟩
  obtain ⟨P, hPperm, hPtot, hPcnt⟩ := hL.acct
  have hcount : r.2.1 = sumOps (P0 ++ cs) := by
    rw [hPcnt, ← sumOps_append]; exact sumOps_perm hPperm
  have hboundL : ∀ s ∈ fed ++ batch, elapsed cur0.start s ≤ r.1.interval := by
    intro s hs
    rcases List.mem_append.mp hs with h | h
    · exact hL.bound s (List.mem_append_left _ h)
    · exact hL.bound s (List.mem_append_right _ (hbatchsub s h))
  have hattL : r.1.interval = 0 ∨ ∃ s ∈ fed ++ batch, elapsed cur0.start s = r.1.interval := by
    rcases hL.attained with h | ⟨x, hx, hxe⟩
    · rcases hinv0.attained with hz | ⟨x, hx, hxe⟩
      · left; rw [h, hz]
      · right; exact ⟨x, List.mem_append_left _ hx, by rw [hxe, h]⟩
    · exact Or.inr ⟨x, hcssub x hx, hxe⟩
  have hlast : ∃ last, cs.getLast? = some last ∧ last ∈ cs := by
    cases hl : cs.getLast? with
    | none => rw [List.getLast?_eq_none_iff] at hl; exact absurd hl hne
    | some last => exact ⟨last, rfl, List.mem_of_getLast? hl⟩
  obtain ⟨last, hlast, hlastmem⟩ := hlast
  have hres : processFrom true cur0 cs = ((finalStep r.1 r.2.1 last).1, r.2.2 ++ (finalStep r.1 r.2.1 last).2) := by
    simp only [processFrom, if_true, hlast]
    rfl
  rw [hres]
  simp only
  cases hf : r.1.canAddFinal with
  | false =>
    have hfs : finalStep r.1 r.2.1 last = (r.1, []) := by simp [finalStep, hf]
    rw [hfs]
    simp only [List.append_nil]
    refine ⟨⟨⟨P, hPperm.trans hall, hPtot⟩, ?_, ?_, hL.stuck⟩, ?_, ?_⟩
    · rw [hL.start_eq]; exact hboundL
    · rw [hL.start_eq]; exact hattL
    · exact hEV
    · exact hL.start_eq
  | true =>
    have hfs : finalStep r.1 r.2.1 last = (r.1.finishBucket r.2.1, [mkOut last (r.1.finishBucket r.2.1)]) := by
      simp [finalStep, hf]
    rw [hfs]
    simp only
    obtain ⟨hpos, _⟩ := (canAddFinal_iff _).mp hf
    have hstart : (r.1.finishBucket r.2.1).start = cur0.start := by
      simp [TaskStats.finishBucket, hL.start_eq]
    refine ⟨⟨⟨P0 ++ cs, ?_, ?_⟩, ?_, ?_, ?_⟩, ?_, ?_⟩
    · simpa [TaskStats.finishBucket] using hall
    · simp only [TaskStats.finishBucket]; exact hcount
    · rw [hstart]; simpa [TaskStats.finishBucket] using hboundL
    · rw [hstart]; simpa [TaskStats.finishBucket] using hattL
    · intro h; simp [TaskStats.finishBucket] at h
    · intro o ho
      rcases List.mem_append.mp ho with ho | ho
      · exact hEV o ho
      · rw [List.mem_singleton.mp ho]
        refine ⟨P0 ++ cs, [], by simpa using hall, by simp, ⟨last, List.mem_append_right _ hlastmem, rfl, rfl, rfl⟩,
          r.1.interval, ⟨?_, ?_⟩, hpos, ?_⟩
        · intro x hx
          exact hboundL x (hall.subset hx)
        · rcases hattL with hz | ⟨x, hx, hxe⟩
          · exact absurd hz (ne_of_gt hpos)
          · exact ⟨x, hall.symm.subset hx, hxe⟩
        · simp only [mkOut, TaskStats.throughput, TaskStats.finishBucket, hcount]
    · exact hstart


theorem carried_sub_fed {st : Option TaskStats} {fed : List TSample} (hst : StOk st fed) :
    ∀ s ∈ carried st, s ∈ fed := by
  cases st with
  | none => intro s hs; simp [carried] at hs
  | some t =>
    intro s hs
    obtain ⟨P, hperm, _⟩ := (hst : Inv t fed).acct
    exact hperm.subset (List.mem_append_right _ hs)

theorem calcTask_nil (fix : Bool) (bi : Nat) (st : Option TaskStats) : calcTask fix bi st [] = (st, []) := rfl

/-- one call, `fix = true` (the current code), all samples without runner throughput -/
theorem calcTask_spec (bi : Nat) (st : Option TaskStats) (fed batch : List TSample)
    (hst : StOk st fed) (hcomp : ∀ s ∈ fed ++ batch, s.tput = none) :
    StOk (calcTask true bi st batch).1 (fed ++ batch) ∧
    (∀ t', (calcTask true bi st batch).1 = some t' →
      ∀ o ∈ (calcTask true bi st batch).2, ValueSpec t'.start (fed ++ batch) o) ∧
    (∀ t, st = some t → ∃ t', (calcTask true bi st batch).1 = some t' ∧ t'.start = t.start) ∧
    ((calcTask true bi st batch).1 = none → (calcTask true bi st batch).2 = []) := by
  cases batch with
  | nil =>
    rw [calcTask_nil, List.append_nil]
    exact ⟨hst, by simp, fun t ht => ⟨t, ht, rfl⟩, fun _ => rfl⟩
  | cons b bs =>
    have hperm := sortByAbs_perm ((b :: bs) ++ carried st)
    have hsorted := sortByAbs_sorted ((b :: bs) ++ carried st)
    cases hcs : sortByAbs ((b :: bs) ++ carried st) with
    | nil =>
      rw [hcs] at hperm
      have := hperm.length_eq
      simp at this
    | cons first rest =>
      rw [hcs] at hperm hsorted
      have hfirst : first.tput = none := by
        have h1 : first ∈ (b :: bs) ++ carried st := hperm.subset (by simp)
        rcases List.mem_append.mp h1 with h | h
        · exact hcomp _ (List.mem_append_right _ h)
        · exact hcomp _ (List.mem_append_left _ (carried_sub_fed hst _ h))
      have hres : calcTask true bi st (b :: bs) =
          (some (processFrom true (startState bi st first) (first :: rest)).1,
           (processFrom true (startState bi st first) (first :: rest)).2) := by
        simp only [calcTask, hcs, hfirst, calcTaskThroughput]
      rw [hres]
      have hinv0 : Inv (startState bi st first) fed ∧ carried st = (startState bi st first).unprocessed := by
        cases st with
        | none =>
          have : fed = [] := hst
          subst this
          exact ⟨init_inv bi first, rfl⟩
        | some t => exact ⟨hst, rfl⟩
      have hp : (first :: rest).Perm ((b :: bs) ++ (startState bi st first).unprocessed) := by
        rw [← hinv0.2]; exact hperm
      obtain ⟨h1, h2, h3⟩ := processFrom_spec (startState bi st first) fed (b :: bs) hinv0.1 (first :: rest)
        (by simp) hsorted hp
      refine ⟨h1, ?_, ?_, by simp⟩
      · intro t' ht' o ho
        simp only [Option.some.injEq] at ht'
        subst ht'
        rw [h3]
        exact h2 o ho
      · intro t ht
        subst ht
        exact ⟨_, rfl, h3⟩

theorem run_nil (fix : Bool) (bi : Nat) (st : Option TaskStats) : run fix bi st [] = (st, []) := rfl
theorem run_cons (fix : Bool) (bi : Nat) (st : Option TaskStats) (b : List TSample) (bs : List (List TSample)) :
    run fix bi st (b :: bs) =
      ((run fix bi (calcTask fix bi st b).1 bs).1, (calcTask fix bi st b).2 :: (run fix bi (calcTask fix bi st b).1 bs).2) := rfl

/-- all calls, `fix = true` (the current code) -/
theorem run_spec (bi : Nat) : ∀ (batches : List (List TSample)) (st : Option TaskStats) (fed : List TSample),
    StOk st fed → (∀ s ∈ fed, s.tput = none) → (∀ b ∈ batches, ∀ s ∈ b, s.tput = none) →
    StOk (run true bi st batches).1 (fed ++ batches.flatten) ∧
    (∀ t', (run true bi st batches).1 = some t' → ∀ k outs, (run true bi st batches).2[k]? = some outs →
      ∀ o ∈ outs, ValueSpec t'.start (fed ++ (batches.take (k + 1)).flatten) o) ∧
    (∀ t, st = some t → ∃ t', (run true bi st batches).1 = some t' ∧ t'.start = t.start) := by
  intro batches
  induction batches with
  | nil =>
    intro st fed hst _ _
    rw [run_nil]
    simp only [List.flatten_nil, List.append_nil]
    exact ⟨hst, by simp, fun t ht => ⟨t, ht, rfl⟩⟩
  | cons b bs ih =>
    intro st fed hst hfed hcomp
    have hb : ∀ s ∈ fed ++ b, s.tput = none := by
      intro s hs
      rcases List.mem_append.mp hs with h | h
      · exact hfed s h
      · exact hcomp b (by simp) s h
    obtain ⟨c1, c2, c3, c4⟩ := calcTask_spec bi st fed b hst hb
    obtain ⟨i1, i2, i3⟩ := ih (calcTask true bi st b).1 (fed ++ b) c1 hb (fun b' hb' => hcomp b' (List.mem_cons_of_mem _ hb'))
    rw [run_cons]
    simp only [List.flatten_cons]
    rw [← List.append_assoc]
    refine ⟨i1, ?_, ?_⟩
    · intro t' ht' k outs hk o ho
      cases k with
      | zero =>
        simp only [List.getElem?_cons_zero, Option.some.injEq] at hk
        subst hk
        simp only [Nat.zero_add, List.take_succ_cons, List.take_zero, List.flatten_cons, List.flatten_nil, List.append_nil]
        cases h1 : (calcTask true bi st b).1 with
        | none => rw [c4 h1] at ho; simp at ho
        | some t1 =>
          obtain ⟨t'', ht'', hs''⟩ := i3 t1 h1
          rw [ht'] at ht''
          simp only [Option.some.injEq] at ht''
          subst ht''
          rw [hs'']
          exact c2 t1 h1 o ho
      | succ k =>
        simp only [List.getElem?_cons_succ] at hk
        have := i2 t' ht' k outs hk o ho
        simpa [List.take_succ_cons, List.append_assoc] using this
    · intro t ht
      obtain ⟨t1, ht1, hs1⟩ := c3 t ht
      obtain ⟨t', ht', hs'⟩ := i3 t1 ht1
      exact ⟨t', ht', hs'.trans hs1⟩


/-! ## facts that hold for both variants (`fix = true`: current code, `fix = false`: code before /repo commit d4fc0e7) -/

/-- what one pass of the loop (plus the final-sample rule) guarantees, whatever `unprocessed` held before -/
structure GLoop (c c' : TaskStats) (cs : List TSample) (outs : List Out) : Prop where
  start_eq : c'.start = c.start
  mono : c.interval ≤ c'.interval
  bound : ∀ s ∈ cs, elapsed c.start s ≤ c'.interval
  normal_mono : c.normal = true → c'.normal = true
  normal_seen : ∀ s ∈ cs, s.normal = true → c'.normal = true
  outs_le : ∀ o ∈ outs, o.normal = true → c'.normal = true
  outs_ge : c.normal = true → ∀ o ∈ outs, o.normal = true
  outs_mono : outs.Pairwise (fun a b => a.normal = true → b.normal = true)
  has : c'.hasSamples = true → (∃ o ∈ outs, o.normal = c'.normal) ∨ (c.hasSamples = true ∧ c'.normal = c.normal)
  vals : ∀ o ∈ outs, ∃ v, o.value = some v ∧ 0 ≤ v
  emitter : ∀ o ∈ outs, ∃ s ∈ cs, s.abs = o.abs ∧ s.rel = o.rel ∧ o.unit = s.unit ++ ['/', 's']
  unproc : ∀ u ∈ c'.unprocessed, u ∈ c.unprocessed ∨ u ∈ cs

theorem GLoop.refl (c : TaskStats) : GLoop c c [] [] :=
  ⟨rfl, le_refl _, by simp, id, by simp, by simp, by simp, List.Pairwise.nil, fun h => Or.inr ⟨h, rfl⟩,
   by simp, by simp, fun u hu => Or.inl hu⟩

theorem GLoop.trans {c c1 c' : TaskStats} {l1 l2 : List TSample} {o1 o2 : List Out}
    (g1 : GLoop c c1 l1 o1) (g2 : GLoop c1 c' l2 o2) : GLoop c c' (l1 ++ l2) (o1 ++ o2) := by
  refine ⟨g2.start_eq.trans g1.start_eq, le_trans g1.mono g2.mono, ?_, fun h => g2.normal_mono (g1.normal_mono h),
    ?_, ?_, ?_, ?_, ?_, ?_, ?_, ?_⟩
  · intro s hs
    rcases List.mem_append.mp hs with h | h
    · exact le_trans (g1.bound s h) g2.mono
    · rw [← g1.start_eq]; exact g2.bound s h
  · intro s hs hn
    rcases List.mem_append.mp hs with h | h
    · exact g2.normal_mono (g1.normal_seen s h hn)
    · exact g2.normal_seen s h hn
  · intro o ho hn
    rcases List.mem_append.mp ho with h | h
    · exact g2.normal_mono (g1.outs_le o h hn)
    · exact g2.outs_le o h hn
  · intro hc o ho
    rcases List.mem_append.mp ho with h | h
    · exact g1.outs_ge hc o h
    · exact g2.outs_ge (g1.normal_mono hc) o h
  · rw [List.pairwise_append]
    exact ⟨g1.outs_mono, g2.outs_mono, fun a ha b hb hn => g2.outs_ge (g1.outs_le a ha hn) b hb⟩
  · intro h
    rcases g2.has h with ⟨o, ho, hon⟩ | ⟨h1, hn1⟩
    · exact Or.inl ⟨o, List.mem_append_right _ ho, hon⟩
    · rcases g1.has h1 with ⟨o, ho, hon⟩ | ⟨h0, hn0⟩
      · exact Or.inl ⟨o, List.mem_append_left _ ho, hon.trans hn1.symm⟩
      · exact Or.inr ⟨h0, hn1.trans hn0⟩
  · intro o ho
    rcases List.mem_append.mp ho with h | h
    · exact g1.vals o h
    · exact g2.vals o h
  · intro o ho
    rcases List.mem_append.mp ho with h | h
    · obtain ⟨s, hs, hh⟩ := g1.emitter o h; exact ⟨s, List.mem_append_left _ hs, hh⟩
    · obtain ⟨s, hs, hh⟩ := g2.emitter o h; exact ⟨s, List.mem_append_right _ hs, hh⟩
  · intro u hu
    rcases g2.unproc u hu with h | h
    · rcases g1.unproc u h with h' | h'
      · exact Or.inl h'
      · exact Or.inr (List.mem_append_left _ h')
    · exact Or.inr (List.mem_append_right _ h)

theorem GLoop.congr_mem {c c' : TaskStats} {l l' : List TSample} {o : List Out}
    (g : GLoop c c' l o) (h : ∀ x, x ∈ l ↔ x ∈ l') : GLoop c c' l' o :=
  ⟨g.start_eq, g.mono, fun s hs => g.bound s ((h s).mpr hs), g.normal_mono,
   fun s hs => g.normal_seen s ((h s).mpr hs), g.outs_le, g.outs_ge, g.outs_mono, g.has, g.vals,
   fun o ho => by obtain ⟨s, hs, hh⟩ := g.emitter o ho; exact ⟨s, (h s).mp hs, hh⟩,
   fun u hu => (g.unproc u hu).imp id (fun hx => (h u).mp hx)⟩

theorem mkOut_value_nonneg (s : TSample) (c : TaskStats) (n : Nat) (hpos : 0 < c.interval) :
    ∃ v, (mkOut s (c.finishBucket n)).value = some v ∧ 0 ≤ v :=
  ⟨_, rfl, fdiv_nonneg (ofNat_nonneg _) (by simpa [TaskStats.finishBucket] using hpos)⟩

/-- a sample that completes a bucket -/
theorem gstep_fin (c : TaskStats) (n : Nat) (s : TSample) (h : (touch c s).canCalculate = true) :
    GLoop c ((touch c s).finishBucket n) [s] [mkOut s ((touch c s).finishBucket n)] := by
  obtain ⟨hpos, _⟩ := (canCalculate_iff _).mp h
  have hn : ((touch c s).finishBucket n).normal = (c.normal || s.normal) := by
    simp [TaskStats.finishBucket, touch_normal]
  refine ⟨by simp [TaskStats.finishBucket], ?_, ?_, ?_, ?_, ?_, ?_, ?_, ?_, ?_, ?_, ?_⟩
  · simp only [TaskStats.finishBucket, touch_interval]; exact le_max_right _ _
  · intro x hx
    rw [List.mem_singleton.mp hx]
    simp only [TaskStats.finishBucket, touch_interval]; exact le_max_left _ _
  · intro hc; rw [hn, hc]; rfl
  · intro x hx hxn; rw [List.mem_singleton.mp hx] at hxn; rw [hn, hxn]; simp
  · intro o ho hon; rw [List.mem_singleton.mp ho] at hon; exact hon
  · intro hc o ho; rw [List.mem_singleton.mp ho]; simp only [mkOut]; rw [hn, hc]; rfl
  · exact List.pairwise_singleton _ _
  · intro _; exact Or.inl ⟨_, List.mem_singleton.mpr rfl, rfl⟩
  · intro o ho; rw [List.mem_singleton.mp ho]; exact mkOut_value_nonneg s _ n hpos
  · intro o ho; rw [List.mem_singleton.mp ho]; exact ⟨s, by simp, rfl, rfl, rfl⟩
  · intro u hu; simp [TaskStats.finishBucket] at hu

/-- a sample that stays unprocessed -/
theorem gstep_nofin (c : TaskStats) (s : TSample) :
    GLoop c { touch c s with unprocessed := (touch c s).unprocessed ++ [s] } [s] [] := by
  refine ⟨by simp, ?_, ?_, ?_, ?_, by simp, by simp, List.Pairwise.nil, ?_, by simp, by simp, ?_⟩
  · simp only [touch_interval]; exact le_max_right _ _
  · intro x hx
    rw [List.mem_singleton.mp hx]
    simp only [touch_interval]; exact le_max_left _ _
  · intro hc; simp only [touch_normal, hc]; rfl
  · intro x hx hxn; rw [List.mem_singleton.mp hx] at hxn; simp only [touch_normal, hxn]; simp
  · intro hh
    right
    simp only [touch_hasSamples, touch_normal] at hh ⊢
    cases hc : c.normal <;> cases hs : s.normal <;> simp_all
  · intro u hu
    simp only [touch_unprocessed] at hu
    rcases List.mem_append.mp hu with h | h
    · exact Or.inl h
    · exact Or.inr h

theorem gloop : ∀ (cs : List TSample) (c : TaskStats) (n : Nat),
    GLoop c (loop c n cs).1 cs (loop c n cs).2.2 := by
  intro cs
  induction cs with
  | nil => intro c n; exact GLoop.refl c
  | cons s rest ih =>
    intro c n
    cases hc : (touch c s).canCalculate with
    | true =>
      rw [loop_cons_fin hc]
      exact (gstep_fin c (n + s.ops) s hc).trans (ih _ _)
    | false =>
      rw [loop_cons_nofin hc]
      exact (gstep_nofin c s).trans (ih _ _)

/-- the final-sample rule -/
theorem gfinal {c c' : TaskStats} {cs : List TSample} {outs : List Out} (g : GLoop c c' cs outs)
    (n : Nat) (last : TSample) (hlast : last ∈ cs) :
    GLoop c (finalStep c' n last).1 cs (outs ++ (finalStep c' n last).2) ∧
    (0 < (finalStep c' n last).1.interval → (finalStep c' n last).1.hasSamples = true) := by
  cases hf : c'.canAddFinal with
  | false =>
    have hfs : finalStep c' n last = (c', []) := by simp [finalStep, hf]
    rw [hfs]
    simp only [List.append_nil]
    refine ⟨g, ?_⟩
    intro hpos
    by_contra hh
    have : c'.canAddFinal = true := (canAddFinal_iff _).mpr ⟨hpos, by simpa using hh⟩
    rw [hf] at this; exact absurd this (by simp)
  | true =>
    have hfs : finalStep c' n last = (c'.finishBucket n, [mkOut last (c'.finishBucket n)]) := by simp [finalStep, hf]
    rw [hfs]
    obtain ⟨hpos, _⟩ := (canAddFinal_iff _).mp hf
    refine ⟨?_, fun _ => by simp [TaskStats.finishBucket]⟩
    have g2 : GLoop c' (c'.finishBucket n) [last] [mkOut last (c'.finishBucket n)] := by
      refine ⟨rfl, le_refl _, ?_, id, ?_, ?_, ?_, List.pairwise_singleton _ _, ?_, ?_, ?_, ?_⟩
      · intro x hx; rw [List.mem_singleton.mp hx, g.start_eq]; exact g.bound last hlast
      · intro x hx hxn; rw [List.mem_singleton.mp hx] at hxn; exact g.normal_seen last hlast hxn
      · intro o ho hon; rw [List.mem_singleton.mp ho] at hon; exact hon
      · intro hc o ho; rw [List.mem_singleton.mp ho]; exact hc
      · intro _; exact Or.inl ⟨_, List.mem_singleton.mpr rfl, rfl⟩
      · intro o ho; rw [List.mem_singleton.mp ho]; exact mkOut_value_nonneg last _ n hpos
      · intro o ho; rw [List.mem_singleton.mp ho]; exact ⟨last, by simp, rfl, rfl, rfl⟩
      · intro u hu; simp [TaskStats.finishBucket] at hu
    refine (g.trans g2).congr_mem ?_
    intro x
    simp only [List.mem_append, List.mem_singleton]
    constructor
    · rintro (h | h)
      · exact h
      · rw [h]; exact hlast
    · exact Or.inl


/-- invariant between calls that holds for both variants; `outs` = every tuple emitted so far -/
structure GInv (t : TaskStats) (fed : List TSample) (outs : List Out) : Prop where
  bound : ∀ s ∈ fed, elapsed t.start s ≤ t.interval
  normal_seen : ∀ s ∈ fed, s.normal = true → t.normal = true
  has_pos : 0 < t.interval → t.hasSamples = true
  has_out : t.hasSamples = true → ∃ o ∈ outs, o.normal = t.normal
  outs_le : ∀ o ∈ outs, o.normal = true → t.normal = true
  outs_mono : outs.Pairwise (fun a b => a.normal = true → b.normal = true)
  unproc : ∀ u ∈ t.unprocessed, u ∈ fed
  vals : ∀ o ∈ outs, ∃ v, o.value = some v ∧ 0 ≤ v
  emitter : ∀ o ∈ outs, ∃ s ∈ fed, s.abs = o.abs ∧ s.rel = o.rel ∧ o.unit = s.unit ++ ['/', 's']

def GOk : Option TaskStats → List TSample → List Out → Prop
  | none, fed, outs => fed = [] ∧ outs = []
  | some t, fed, outs => GInv t fed outs

theorem init_ginv (bi : Nat) (first : TSample) : GInv (TaskStats.init bi first) [] [] :=
  ⟨by simp, by simp, by simp [TaskStats.init], by simp [TaskStats.init], by simp, List.Pairwise.nil,
   by simp [TaskStats.init], by simp, by simp⟩

theorem processFrom_gspec (fix : Bool) (cur0 : TaskStats) (fed batch : List TSample) (outs0 : List Out)
    (h0 : GInv cur0 fed outs0) (cs : List TSample) (hne : cs ≠ [])
    (hmem : ∀ x, x ∈ cs ↔ x ∈ batch ∨ x ∈ cur0.unprocessed) :
    GInv (processFrom fix cur0 cs).1 (fed ++ batch) (outs0 ++ (processFrom fix cur0 cs).2) ∧
    (processFrom fix cur0 cs).1.start = cur0.start := by
  obtain ⟨last, hlast, hlastmem⟩ : ∃ last, cs.getLast? = some last ∧ last ∈ cs := by
    cases hl : cs.getLast? with
    | none => rw [List.getLast?_eq_none_iff] at hl; exact absurd hl hne
    | some last => exact ⟨last, rfl, List.mem_of_getLast? hl⟩
  obtain ⟨cur, hs, hi, hn, hh, hu, hres⟩ : ∃ cur : TaskStats, cur.start = cur0.start ∧ cur.interval = cur0.interval ∧
      cur.normal = cur0.normal ∧ cur.hasSamples = cur0.hasSamples ∧ (∀ u ∈ cur.unprocessed, u ∈ cur0.unprocessed) ∧
      processFrom fix cur0 cs =
        ((finalStep (loop cur cur.total cs).1 (loop cur cur.total cs).2.1 last).1,
         (loop cur cur.total cs).2.2 ++ (finalStep (loop cur cur.total cs).1 (loop cur cur.total cs).2.1 last).2) := by
    cases fix with
    | true => exact ⟨{ cur0 with unprocessed := [] }, rfl, rfl, rfl, rfl, by simp, by simp only [processFrom, if_true, hlast]⟩
    | false => exact ⟨cur0, rfl, rfl, rfl, rfl, fun u hu => hu, by simp [processFrom, hlast]⟩
  rw [hres]
  simp only
  obtain ⟨g, hpos⟩ := gfinal (gloop cs cur cur.total) (loop cur cur.total cs).2.1 last hlastmem
  set t' := (finalStep (loop cur cur.total cs).1 (loop cur cur.total cs).2.1 last).1
  set outs := (loop cur cur.total cs).2.2 ++ (finalStep (loop cur cur.total cs).1 (loop cur cur.total cs).2.1 last).2
  have hst : t'.start = cur0.start := g.start_eq.trans hs
  have hcsfed : ∀ x ∈ cs, x ∈ fed ++ batch := by
    intro x hx
    rcases (hmem x).mp hx with h | h
    · exact List.mem_append_right _ h
    · exact List.mem_append_left _ (h0.unproc x h)
  refine ⟨⟨?_, ?_, hpos, ?_, ?_, ?_, ?_, ?_, ?_⟩, hst⟩
  · intro s hs'
    rw [hst]
    rcases List.mem_append.mp hs' with h | h
    · exact le_trans (h0.bound s h) (by rw [← hi]; exact g.mono)
    · rw [← hs]; exact g.bound s ((hmem s).mpr (Or.inl h))
  · intro s hs' hsn
    rcases List.mem_append.mp hs' with h | h
    · exact g.normal_mono (by rw [hn]; exact h0.normal_seen s h hsn)
    · exact g.normal_seen s ((hmem s).mpr (Or.inl h)) hsn
  · intro hh'
    rcases g.has hh' with ⟨o, ho, hon⟩ | ⟨h1, hn1⟩
    · exact ⟨o, List.mem_append_right _ ho, hon⟩
    · obtain ⟨o, ho, hon⟩ := h0.has_out (by rw [← hh]; exact h1)
      exact ⟨o, List.mem_append_left _ ho, by rw [hon, hn1, hn]⟩
  · intro o ho hon
    rcases List.mem_append.mp ho with h | h
    · exact g.normal_mono (by rw [hn]; exact h0.outs_le o h hon)
    · exact g.outs_le o h hon
  · rw [List.pairwise_append]
    refine ⟨h0.outs_mono, g.outs_mono, ?_⟩
    intro a ha b hb han
    exact g.outs_ge (by rw [hn]; exact h0.outs_le a ha han) b hb
  · intro u hu'
    rcases g.unproc u hu' with h | h
    · exact List.mem_append_left _ (h0.unproc u (hu u h))
    · exact hcsfed u h
  · intro o ho
    rcases List.mem_append.mp ho with h | h
    · exact h0.vals o h
    · exact g.vals o h
  · intro o ho
    rcases List.mem_append.mp ho with h | h
    · obtain ⟨s, hs', hh'⟩ := h0.emitter o h
      exact ⟨s, List.mem_append_left _ hs', hh'⟩
    · obtain ⟨s, hs', hh'⟩ := g.emitter o h
      exact ⟨s, hcsfed s hs', hh'⟩

theorem gcarried_sub_fed {st : Option TaskStats} {fed : List TSample} {outs : List Out} (hst : GOk st fed outs) :
    ∀ s ∈ carried st, s ∈ fed := by
  cases st with
  | none => intro s hs; simp [carried] at hs
  | some t => exact (hst : GInv t fed outs).unproc

/-- one call (either variant), all samples without runner throughput -/
theorem calcTask_gspec (fix : Bool) (bi : Nat) (st : Option TaskStats) (fed batch : List TSample) (outs0 : List Out)
    (hst : GOk st fed outs0) (hcomp : ∀ s ∈ fed ++ batch, s.tput = none) :
    GOk (calcTask fix bi st batch).1 (fed ++ batch) (outs0 ++ (calcTask fix bi st batch).2) ∧
    (∀ t, st = some t → ∃ t', (calcTask fix bi st batch).1 = some t' ∧ t'.start = t.start) := by
  cases batch with
  | nil =>
    rw [calcTask_nil]
    simp only [List.append_nil]
    exact ⟨hst, fun t ht => ⟨t, ht, rfl⟩⟩
  | cons b bs =>
    have hperm := sortByAbs_perm ((b :: bs) ++ carried st)
    cases hcs : sortByAbs ((b :: bs) ++ carried st) with
    | nil =>
      rw [hcs] at hperm
      have := hperm.length_eq
      simp at this
    | cons first rest =>
      rw [hcs] at hperm
      have hfirst : first.tput = none := by
        have h1 : first ∈ (b :: bs) ++ carried st := hperm.subset (by simp)
        rcases List.mem_append.mp h1 with h | h
        · exact hcomp _ (List.mem_append_right _ h)
        · exact hcomp _ (List.mem_append_left _ (gcarried_sub_fed hst _ h))
      have hres : calcTask fix bi st (b :: bs) =
          (some (processFrom fix (startState bi st first) (first :: rest)).1,
           (processFrom fix (startState bi st first) (first :: rest)).2) := by
        simp only [calcTask, hcs, hfirst, calcTaskThroughput]
      rw [hres]
      have hinv0 : GInv (startState bi st first) fed outs0 ∧ carried st = (startState bi st first).unprocessed := by
        cases st with
        | none =>
          obtain ⟨h1, h2⟩ : fed = [] ∧ outs0 = [] := hst
          subst h1; subst h2
          exact ⟨init_ginv bi first, rfl⟩
        | some t => exact ⟨hst, rfl⟩
      have hmem : ∀ x, x ∈ first :: rest ↔ x ∈ (b :: bs) ∨ x ∈ (startState bi st first).unprocessed := by
        intro x
        rw [← hinv0.2, hperm.mem_iff, List.mem_append]
      obtain ⟨h1, h3⟩ := processFrom_gspec fix (startState bi st first) fed (b :: bs) outs0 hinv0.1 (first :: rest)
        (by simp) hmem
      refine ⟨h1, ?_⟩
      intro t ht
      subst ht
      exact ⟨_, rfl, h3⟩

/-- all calls (either variant) -/
theorem run_gspec (fix : Bool) (bi : Nat) : ∀ (batches : List (List TSample)) (st : Option TaskStats)
    (fed : List TSample) (outs0 : List Out),
    GOk st fed outs0 → (∀ s ∈ fed, s.tput = none) → (∀ b ∈ batches, ∀ s ∈ b, s.tput = none) →
    GOk (run fix bi st batches).1 (fed ++ batches.flatten) (outs0 ++ (run fix bi st batches).2.flatten) ∧
    (∀ t, st = some t → ∃ t', (run fix bi st batches).1 = some t' ∧ t'.start = t.start) := by
  intro batches
  induction batches with
  | nil =>
    intro st fed outs0 hst _ _
    rw [run_nil]
    simp only [List.flatten_nil, List.append_nil]
    exact ⟨hst, fun t ht => ⟨t, ht, rfl⟩⟩
  | cons b bs ih =>
    intro st fed outs0 hst hfed hcomp
    have hb : ∀ s ∈ fed ++ b, s.tput = none := by
      intro s hs
      rcases List.mem_append.mp hs with h | h
      · exact hfed s h
      · exact hcomp b (by simp) s h
    obtain ⟨c1, c3⟩ := calcTask_gspec fix bi st fed b outs0 hst hb
    obtain ⟨i1, i3⟩ := ih (calcTask fix bi st b).1 (fed ++ b) _ c1 hb (fun b' hb' => hcomp b' (List.mem_cons_of_mem _ hb'))
    rw [run_cons]
    simp only [List.flatten_cons]
    rw [← List.append_assoc, ← List.append_assoc]
    refine ⟨i1, ?_⟩
    intro t ht
    obtain ⟨t1, ht1, hs1⟩ := c3 t ht
    obtain ⟨t', ht', hs'⟩ := i3 t1 ht1
    exact ⟨t', ht', hs'.trans hs1⟩

/-- the calls made so far produce a prefix of the output -/
theorem run_take (fix : Bool) (bi : Nat) : ∀ (batches : List (List TSample)) (st : Option TaskStats) (n : Nat),
    (run fix bi st (batches.take n)).2 = (run fix bi st batches).2.take n := by
  intro batches
  induction batches with
  | nil => intro st n; simp [run_nil]
  | cons b bs ih =>
    intro st n
    cases n with
    | zero => simp [run_nil]
    | succ n => simp only [List.take_succ_cons, run_cons, ih]


/-! ## historical: the code before commit d4fc0e7 (`fix = false`) equals the current code unless a call that starts
    with carried samples emits nothing -/

def setU (c : TaskStats) (u : List TSample) : TaskStats := { c with unprocessed := u }

@[simp] theorem setU_unprocessed (c : TaskStats) (u : List TSample) : (setU c u).unprocessed = u := rfl
@[simp] theorem setU_setU (c : TaskStats) (u v : List TSample) : setU (setU c u) v = setU c v := rfl
@[simp] theorem setU_self (c : TaskStats) : setU c c.unprocessed = c := rfl
theorem touch_setU (c : TaskStats) (u : List TSample) (s : TSample) : touch (setU c u) s = setU (touch c s) u := by
  unfold touch TaskStats.updateInterval TaskStats.maybeUpdateSampleType setU
  split <;> rfl
theorem finishBucket_setU (c : TaskStats) (u : List TSample) (n : Nat) : (setU c u).finishBucket n = c.finishBucket n := rfl
theorem canCalculate_setU (c : TaskStats) (u : List TSample) : (setU c u).canCalculate = c.canCalculate := rfl
theorem canAddFinal_setU (c : TaskStats) (u : List TSample) : (setU c u).canAddFinal = c.canAddFinal := rfl

/-- the loop never reads `unprocessed`: it only appends to it, or clears it when a bucket completes -/
theorem loop_unprocessed : ∀ (cs : List TSample) (c : TaskStats) (n : Nat),
    loop c n cs =
      (setU (loop (setU c []) n cs).1
          (if (loop (setU c []) n cs).2.2.isEmpty then c.unprocessed ++ (loop (setU c []) n cs).1.unprocessed
           else (loop (setU c []) n cs).1.unprocessed),
        (loop (setU c []) n cs).2.1, (loop (setU c []) n cs).2.2) := by
  intro cs
  induction cs with
  | nil => intro c n; simp [loop_nil]
  | cons s rest ih =>
    intro c n
    cases hc : (touch c s).canCalculate with
    | true =>
      have hc' : (touch (setU c []) s).canCalculate = true := by rw [touch_setU, canCalculate_setU]; exact hc
      rw [loop_cons_fin hc, loop_cons_fin hc', touch_setU, finishBucket_setU]
      simp
    | false =>
      have hc' : (touch (setU c []) s).canCalculate = false := by rw [touch_setU, canCalculate_setU]; exact hc
      rw [loop_cons_nofin hc, loop_cons_nofin hc']
      have e1 : ({ touch c s with unprocessed := (touch c s).unprocessed ++ [s] } : TaskStats) =
          setU (touch c s) (c.unprocessed ++ [s]) := by simp [setU]
      have e2 : ({ touch (setU c []) s with unprocessed := (touch (setU c []) s).unprocessed ++ [s] } : TaskStats) =
          setU (touch c s) [s] := by rw [touch_setU]; simp [setU]
      rw [e1, e2, ih (setU (touch c s) (c.unprocessed ++ [s])), ih (setU (touch c s) [s])]
      simp only [setU_setU, setU_unprocessed]
      by_cases hE : (loop (setU (touch c s) []) (n + s.ops) rest).2.2.isEmpty = true <;> simp [hE]

/-- `processFrom` once the starting state is fixed -/
def processCore (cur : TaskStats) (cs : List TSample) : TaskStats × List Out :=
  match cs.getLast? with
  | none => ((loop cur cur.total cs).1, (loop cur cur.total cs).2.2)
  | some last =>
    ((finalStep (loop cur cur.total cs).1 (loop cur cur.total cs).2.1 last).1,
     (loop cur cur.total cs).2.2 ++ (finalStep (loop cur cur.total cs).1 (loop cur cur.total cs).2.1 last).2)

theorem processFrom_true (cur0 : TaskStats) (cs : List TSample) :
    processFrom true cur0 cs = processCore (setU cur0 []) cs := by
  cases hl : cs.getLast? <;> simp [processFrom, processCore, setU, hl]

theorem processFrom_false (cur0 : TaskStats) (cs : List TSample) :
    processFrom false cur0 cs = processCore cur0 cs := by
  cases hl : cs.getLast? <;> simp [processFrom, processCore, hl]

theorem finalStep_setU (c : TaskStats) (u : List TSample) (n : Nat) (last : TSample) :
    (finalStep (setU c u) n last).2 = (finalStep c n last).2 ∧
    (c.canAddFinal = true → (finalStep (setU c u) n last).1 = (finalStep c n last).1) ∧
    (c.canAddFinal = false → (finalStep (setU c u) n last).1 = setU c u ∧ (finalStep c n last) = (c, [])) := by
  unfold finalStep
  rw [canAddFinal_setU]
  cases hf : c.canAddFinal <;> simp [finishBucket_setU]

theorem processCore_outs_eq (cur0 : TaskStats) (cs : List TSample) :
    (processCore cur0 cs).2 = (processCore (setU cur0 []) cs).2 := by
  have h := loop_unprocessed cs cur0 cur0.total
  have ht : (setU cur0 []).total = cur0.total := rfl
  unfold processCore
  cases hl : cs.getLast? with
  | none => simp only [ht]; rw [h]
  | some last =>
    simp only [ht]
    rw [h]
    simp only
    rw [(finalStep_setU _ _ _ _).1]

theorem processFrom_outs_eq (cur0 : TaskStats) (cs : List TSample) :
    (processFrom false cur0 cs).2 = (processFrom true cur0 cs).2 := by
  rw [processFrom_true, processFrom_false]; exact processCore_outs_eq cur0 cs

theorem processFrom_eq (cur0 : TaskStats) (cs : List TSample)
    (hok : cur0.unprocessed = [] ∨ (processFrom true cur0 cs).2 ≠ []) :
    processFrom false cur0 cs = processFrom true cur0 cs := by
  rw [processFrom_true] at hok
  rw [processFrom_true, processFrom_false]
  rcases hok with h0 | h0
  · have : setU cur0 [] = cur0 := by rw [← h0]; rfl
    rw [this]
  · have h := loop_unprocessed cs cur0 cur0.total
    have ht : (setU cur0 []).total = cur0.total := rfl
    unfold processCore at h0 ⊢
    cases hl : cs.getLast? with
    | none =>
      rw [hl] at h0
      simp only [ht] at h0 ⊢
      rw [h]
      have hE : (loop (setU cur0 []) cur0.total cs).2.2.isEmpty = false := by
        cases hh : (loop (setU cur0 []) cur0.total cs).2.2 with
        | nil => exact absurd hh h0
        | cons _ _ => rfl
      simp [hE]
    | some last =>
      rw [hl] at h0
      simp only [ht] at h0 ⊢
      rw [h]
      simp only
      obtain ⟨f1, f2, f3⟩ := finalStep_setU (loop (setU cur0 []) cur0.total cs).1
        (if (loop (setU cur0 []) cur0.total cs).2.2.isEmpty = true then
            cur0.unprocessed ++ (loop (setU cur0 []) cur0.total cs).1.unprocessed
          else (loop (setU cur0 []) cur0.total cs).1.unprocessed) (loop (setU cur0 []) cur0.total cs).2.1 last
      rw [f1]
      cases hf : (loop (setU cur0 []) cur0.total cs).1.canAddFinal with
      | true => rw [f2 hf]
      | false =>
        obtain ⟨f3a, f3b⟩ := f3 hf
        rw [f3a, f3b]
        rw [f3b] at h0
        simp only [List.append_nil] at h0 ⊢
        have hE : (loop (setU cur0 []) cur0.total cs).2.2.isEmpty = false := by
          cases hh : (loop (setU cur0 []) cur0.total cs).2.2 with
          | nil => exact absurd hh h0
          | cons _ _ => rfl
        simp [hE]

theorem calcTask_outs_eq (bi : Nat) (st : Option TaskStats) (b : List TSample) :
    (calcTask false bi st b).2 = (calcTask true bi st b).2 := by
  cases b with
  | nil => rfl
  | cons x xs =>
    simp only [calcTask]
    split
    · rfl
    · split
      · rfl
      · exact processFrom_outs_eq _ _

theorem calcTask_eq (bi : Nat) (st : Option TaskStats) (b : List TSample)
    (hok : carried st = [] ∨ (calcTask false bi st b).2 ≠ [] ∨ b = []) :
    calcTask false bi st b = calcTask true bi st b := by
  cases b with
  | nil => rfl
  | cons x xs =>
    rw [calcTask_outs_eq] at hok
    simp only [calcTask] at hok ⊢
    split
    · rfl
    next first rest hcs =>
      rw [hcs] at hok
      simp only at hok
      split
      · rfl
      next hfirst =>
        rw [hfirst] at hok
        simp only [calcTaskThroughput] at hok ⊢
        have : processFrom false (startState bi st first) (first :: rest) =
            processFrom true (startState bi st first) (first :: rest) := by
          apply processFrom_eq
          rcases hok with h | h | h
          · left
            cases st with
            | none => rfl
            | some t => exact h
          · right; exact h
          · exact absurd h (by simp)
        rw [this]

/-- hypothesis of the partial theorems: every call that starts with carried-over samples (and has samples of
    the task) emits at least one value -/
def NoStaleCall (bi : Nat) : Option TaskStats → List (List TSample) → Prop
  | _, [] => True
  | st, b :: bs =>
    (carried st = [] ∨ (calcTask false bi st b).2 ≠ [] ∨ b = []) ∧ NoStaleCall bi (calcTask false bi st b).1 bs

theorem run_eq_of_noStale (bi : Nat) : ∀ (batches : List (List TSample)) (st : Option TaskStats),
    NoStaleCall bi st batches → run false bi st batches = run true bi st batches := by
  intro batches
  induction batches with
  | nil => intro st _; rfl
  | cons b bs ih =>
    intro st h
    obtain ⟨h1, h2⟩ := h
    rw [run_cons, run_cons, calcTask_eq bi st b h1]
    rw [calcTask_eq bi st b h1] at h2
    rw [ih _ h2]



instance (bi : Nat) : ∀ (batches : List (List TSample)) (st : Option TaskStats), Decidable (NoStaleCall bi st batches)
  | [], _ => isTrue trivial
  | b :: bs, st =>
    have := instDecidableNoStaleCall bi bs (calcTask false bi st b).1
    inferInstanceAs (Decidable ((carried st = [] ∨ (calcTask false bi st b).2 ≠ [] ∨ b = []) ∧
      NoStaleCall bi (calcTask false bi st b).1 bs))

/-! ## runner-supplied throughput -/

theorem calcTask_supplied (fix : Bool) (bi : Nat) (b : List TSample) (h : ∀ s ∈ b, s.tput ≠ none) :
    calcTask fix bi none b = (none, mapTaskThroughput (sortByAbs b)) := by
  cases b with
  | nil => rfl
  | cons x xs =>
    have hperm := sortByAbs_perm (x :: xs)
    simp only [calcTask, carried, List.append_nil]
    cases hcs : sortByAbs (x :: xs) with
    | nil =>
      rw [hcs] at hperm
      have := hperm.length_eq
      simp at this
    | cons first rest =>
      rw [hcs] at hperm
      have hf : first.tput ≠ none := h first (hperm.subset (by simp))
      cases hft : first.tput with
      | none => exact absurd hft hf
      | some v => simp only [hft]

theorem run_supplied (fix : Bool) (bi : Nat) : ∀ (batches : List (List TSample)),
    (∀ b ∈ batches, ∀ s ∈ b, s.tput ≠ none) →
    run fix bi none batches = (none, batches.map (fun b => mapTaskThroughput (sortByAbs b))) := by
  intro batches
  induction batches with
  | nil => intro _; rfl
  | cons b bs ih =>
    intro h
    rw [run_cons, calcTask_supplied fix bi b (h b (by simp)), ih (fun b' hb' => h b' (List.mem_cons_of_mem _ hb'))]
    rfl

/-! ## several tasks: the `task_stats` dictionary -/

def keysG (g : List (Nat × List TSample)) : List Nat := g.map (·.1)

def lookupG (k : Nat) : List (Nat × List TSample) → Option (List TSample)
  | [] => none
  | (k', v) :: g => if k' = k then some v else lookupG k g

theorem lookupG_addToGroup (k : Nat) (s : TSample) (k' : Nat) : ∀ g : List (Nat × List TSample),
    lookupG k' (addToGroup k s g) =
      if k' = k then some ((lookupG k g).getD [] ++ [s]) else lookupG k' g := by
  intro g
  induction g with
  | nil =>
    simp only [addToGroup, lookupG]
    by_cases h : k' = k
    · simp [h]
    · have : ¬ k = k' := fun e => h e.symm
      simp [h, this]
  | cons kv g ih =>
    obtain ⟨k0, v⟩ := kv
    simp only [addToGroup]
    by_cases h0 : k0 = k
    · subst h0
      simp only [if_true, lookupG]
      by_cases h : k' = k0
      · subst h; simp
      · have : ¬ k0 = k' := fun e => h e.symm
        simp [h, this]
    · simp only [h0, if_false, lookupG]
      by_cases h1 : k0 = k'
      · subst h1; simp [h0]
      · simp only [h1, if_false]; exact ih

theorem keysG_addToGroup (k : Nat) (s : TSample) : ∀ g : List (Nat × List TSample),
    keysG (addToGroup k s g) = if k ∈ keysG g then keysG g else keysG g ++ [k] := by
  intro g
  induction g with
  | nil => simp [addToGroup, keysG]
  | cons kv g ih =>
    obtain ⟨k0, v⟩ := kv
    simp only [addToGroup]
    by_cases h0 : k0 = k
    · subst h0; simp [keysG]
    · have h0' : ¬ k = k0 := fun e => h0 e.symm
      simp only [h0, if_false]
      simp only [keysG, List.map_cons, List.mem_cons, h0', false_or] at ih ⊢
      rw [ih]
      split <;> simp [*]

theorem samplesOf_append (k : Nat) (a b : List (Nat × TSample)) :
    samplesOf k (a ++ b) = samplesOf k a ++ samplesOf k b := by
  simp [samplesOf]

/-- accumulator invariant of the grouping loop -/
structure GroupInv (g : List (Nat × List TSample)) (pre : List (Nat × TSample)) : Prop where
  nodup : (keysG g).Nodup
  look : ∀ k, lookupG k g = if samplesOf k pre = [] then none else some (samplesOf k pre)
  keys : ∀ k, k ∈ keysG g ↔ samplesOf k pre ≠ []

theorem groupInv_step {g : List (Nat × List TSample)} {pre : List (Nat × TSample)} (h : GroupInv g pre)
    (k : Nat) (s : TSample) : GroupInv (addToGroup k s g) (pre ++ [(k, s)]) := by
  have hk : samplesOf k [(k, s)] = [s] := by simp [samplesOf]
  have hk' : ∀ k', k' ≠ k → samplesOf k' [(k, s)] = [] := by
    intro k' hne
    have : ¬ k = k' := fun e => hne e.symm
    simp [samplesOf, this]
  refine ⟨?_, ?_, ?_⟩
  · rw [keysG_addToGroup]
    split
    · exact h.nodup
    next hnot =>
      rw [List.nodup_append]
      refine ⟨h.nodup, by simp, ?_⟩
      intro a ha b hb
      rw [List.mem_singleton.mp hb]
      intro e; subst e; exact hnot ha
  · intro k'
    rw [lookupG_addToGroup, samplesOf_append]
    by_cases e : k' = k
    · subst e
      rw [hk, h.look k']
      by_cases hz : samplesOf k' pre = [] <;> simp [hz]
    · rw [hk' k' e, List.append_nil]
      simp only [e, if_false]
      exact h.look k'
  · intro k'
    rw [keysG_addToGroup, samplesOf_append]
    by_cases e : k' = k
    · subst e
      rw [hk]
      split <;> simp_all
    · rw [hk' k' e, List.append_nil, ← h.keys k']
      split
      · rfl
      · simp [e]

theorem groupInv_foldl : ∀ (rest : List (Nat × TSample)) (g : List (Nat × List TSample)) (pre : List (Nat × TSample)),
    GroupInv g pre → GroupInv (rest.foldl (fun g ks => addToGroup ks.1 ks.2 g) g) (pre ++ rest) := by
  intro rest
  induction rest with
  | nil => intro g pre h; simpa using h
  | cons x rest ih =>
    intro g pre h
    have := ih _ _ (groupInv_step h x.1 x.2)
    simpa using this

theorem groupByTask_inv (samples : List (Nat × TSample)) : GroupInv (groupByTask samples) samples := by
  have h0 : GroupInv [] [] := ⟨List.nodup_nil, by simp [lookupG, samplesOf], by simp [keysG, samplesOf]⟩
  have := groupInv_foldl samples [] [] h0
  simpa [groupByTask] using this

theorem lookupStats_setStats (k : Nat) (t : TaskStats) (k' : Nat) : ∀ stats : List (Nat × TaskStats),
    lookupStats k' (setStats k t stats) = if k' = k then some t else lookupStats k' stats := by
  intro stats
  induction stats with
  | nil =>
    simp only [setStats, lookupStats]
    by_cases h : k' = k
    · simp [h]
    · have : ¬ k = k' := fun e => h e.symm
      simp [h, this]
  | cons kt stats ih =>
    obtain ⟨k0, t0⟩ := kt
    simp only [setStats]
    by_cases h0 : k0 = k
    · subst h0
      simp only [if_true, lookupStats]
      by_cases h : k' = k0
      · subst h; simp
      · have : ¬ k0 = k' := fun e => h e.symm
        simp [h, this]
    · simp only [h0, if_false, lookupStats]
      by_cases h1 : k0 = k'
      · subst h1; simp [h0]
      · simp only [h1, if_false]; exact ih

theorem calcTask_none {fix : Bool} {bi : Nat} {st : Option TaskStats} {b : List TSample}
    (h : (calcTask fix bi st b).1 = none) : st = none := by
  cases b with
  | nil => exact h
  | cons x xs =>
    simp only [calcTask] at h
    split at h
    · exact h
    · split at h
      · exact h
      · simp at h

theorem outsOf_cons_ne {k k' : Nat} (o : List Out) (l : List (Nat × List Out)) (h : k' ≠ k) :
    outsOf k ((k', o) :: l) = outsOf k l := by simp [outsOf, h]

theorem calcGroups_spec (fix : Bool) (bi : Nat) : ∀ (g : List (Nat × List TSample)) (stats : List (Nat × TaskStats)),
    (keysG g).Nodup → ∀ k,
      lookupStats k (calcGroups fix bi stats g).1 =
        (calcTask fix bi (lookupStats k stats) ((lookupG k g).getD [])).1 ∧
      outsOf k (calcGroups fix bi stats g).2 =
        (calcTask fix bi (lookupStats k stats) ((lookupG k g).getD [])).2 := by
  intro g
  induction g with
  | nil => intro stats _ k; simp [calcGroups, lookupG, outsOf, calcTask_nil]
  | cons kv g ih =>
    obtain ⟨k0, v⟩ := kv
    intro stats hnd k
    have hnd' : (keysG g).Nodup := (List.nodup_cons.mp hnd).2
    have hk0 : k0 ∉ keysG g := (List.nodup_cons.mp hnd).1
    have hlk0 : lookupG k0 g = none := by
      clear ih hnd hnd'
      induction g with
      | nil => rfl
      | cons kv' g' ih' =>
        obtain ⟨k1, v1⟩ := kv'
        simp only [keysG, List.map_cons, List.mem_cons, not_or] at hk0
        have : ¬ k1 = k0 := fun e => hk0.1 e.symm
        simp only [lookupG, this, if_false]
        exact ih' hk0.2
    -- the dictionary after the first group
    set r := calcTask fix bi (lookupStats k0 stats) v with hr
    set stats1 := (match r.1 with
      | some t => setStats k0 t stats
      | none => stats) with hstats1
    have hl1 : ∀ k', lookupStats k' stats1 = if k' = k0 then r.1 else lookupStats k' stats := by
      intro k'
      cases h1 : r.1 with
      | none =>
        have hst : lookupStats k0 stats = none := calcTask_none h1
        simp only [hstats1, h1]
        by_cases e : k' = k0
        · subst e; simp [hst]
        · simp [e]
      | some t =>
        simp only [hstats1, h1]
        exact lookupStats_setStats k0 t k' stats
    have hcg : calcGroups fix bi stats ((k0, v) :: g) =
        ((calcGroups fix bi stats1 g).1, (k0, r.2) :: (calcGroups fix bi stats1 g).2) := rfl
    rw [hcg]
    obtain ⟨i1, i2⟩ := ih stats1 hnd' k
    by_cases e : k = k0
    · subst e
      simp only [lookupG, if_true, Option.getD_some, outsOf]
      rw [i1, hlk0, hl1]
      simp only [Option.getD_none, calcTask_nil, if_true]
      exact ⟨rfl, rfl⟩
    · have e' : ¬ k0 = k := fun h => e h.symm
      simp only [lookupG, e', if_false, outsOf]
      rw [i1, i2, hl1]
      simp [e]

/-- one `calculate` call, seen from task `k`: exactly `calcTask` on the task's samples in the call -/
theorem calculate_task (fix : Bool) (bi : Nat) (stats : List (Nat × TaskStats)) (samples : List (Nat × TSample)) (k : Nat) :
    lookupStats k (calculate fix bi stats samples).1 =
      (calcTask fix bi (lookupStats k stats) (samplesOf k samples)).1 ∧
    outsOf k (calculate fix bi stats samples).2 =
      (calcTask fix bi (lookupStats k stats) (samplesOf k samples)).2 := by
  have hg := groupByTask_inv samples
  have h := calcGroups_spec fix bi (groupByTask samples) stats hg.nodup k
  have hl : (lookupG k (groupByTask samples)).getD [] = samplesOf k samples := by
    rw [hg.look k]
    by_cases hz : samplesOf k samples = [] <;> simp [hz]
  rw [hl] at h
  exact h

theorem runAll_nil (fix : Bool) (bi : Nat) (stats : List (Nat × TaskStats)) : runAll fix bi stats [] = (stats, []) := rfl
theorem runAll_cons (fix : Bool) (bi : Nat) (stats : List (Nat × TaskStats)) (c : List (Nat × TSample))
    (cs : List (List (Nat × TSample))) :
    runAll fix bi stats (c :: cs) =
      ((runAll fix bi (calculate fix bi stats c).1 cs).1,
       (calculate fix bi stats c).2 :: (runAll fix bi (calculate fix bi stats c).1 cs).2) := rfl

theorem runAll_task (fix : Bool) (bi : Nat) (k : Nat) : ∀ (calls : List (List (Nat × TSample))) (stats : List (Nat × TaskStats)),
    lookupStats k (runAll fix bi stats calls).1 = (run fix bi (lookupStats k stats) (calls.map (samplesOf k))).1 ∧
    (runAll fix bi stats calls).2.map (outsOf k) = (run fix bi (lookupStats k stats) (calls.map (samplesOf k))).2 := by
  intro calls
  induction calls with
  | nil => intro stats; simp [runAll_nil, run_nil]
  | cons c cs ih =>
    intro stats
    obtain ⟨c1, c2⟩ := calculate_task fix bi stats c k
    obtain ⟨i1, i2⟩ := ih (calculate fix bi stats c).1
    rw [runAll_cons, List.map_cons, run_cons]
    simp only [List.map_cons]
    rw [i1, i2, c1, c2]
    exact ⟨rfl, rfl⟩



/-! ## historical witness (code before /repo commit d4fc0e7) -/

/-- one client, 10 operations per request, task started at t = 100 -/
def wS (a p : Rat) : TSample :=
  { abs := a, rel := a - 100, period := p, ops := 10, unit := ['d', 'o', 'c', 's'], normal := true, tput := none }

/-- four one-sample calls: requests ending 0.5 s, 0.625 s, 0.75 s and 1 s after the task started -/
def witness : List (List TSample) :=
  [[wS (201/2) (1/2)], [wS (805/8) (5/8)], [wS (403/4) (3/4)], [wS 101 1]]

theorem witness_computed : ∀ b ∈ witness, ∀ s ∈ b, s.tput = none := by
  intro b hb s hs
  simp only [witness, List.mem_cons, List.not_mem_nil, or_false] at hb
  rcases hb with rfl | rfl | rfl | rfl <;> (simp only [List.mem_singleton] at hs; subst hs; rfl)

/-- before the fix the calculator ended with `total_count = 50` although only 40 operations were fed: the sample
    of the second call was carried into the third call, which completed no bucket and appended it to
    `unprocessed` *again*; the fourth call counted it twice and reported 50 docs/s instead of 40 docs/s -/
theorem witness_double_count :
    (run false 1 none witness).1.map (fun t => t.total + sumOps t.unprocessed) = some 50 ∧
    sumOps witness.flatten = 40 ∧
    (run false 1 none witness).2.map (fun l => l.map (·.value)) = [[some 20], [], [], [some 50]] := by
  decide +kernel

/-! ## the post-processor and the driver's buffer -/

theorem calculate_nil (fix : Bool) (bi : Nat) (stats : List (Nat × TaskStats)) : calculate fix bi stats [] = (stats, []) := rfl

theorem postprocess_eq (stats : List (Nat × TaskStats)) (raw : List (Nat × TSample)) :
    postprocess stats raw = ((calculate current 1 stats raw).1, recordsOf (calculate current 1 stats raw).2) := by
  cases raw with
  | nil => rfl
  | cons x xs => rfl

theorem calcGroups_keys (fix : Bool) (bi : Nat) : ∀ (g : List (Nat × List TSample)) (stats : List (Nat × TaskStats)),
    (calcGroups fix bi stats g).2.map (·.1) = keysG g := by
  intro g
  induction g with
  | nil => intro stats; rfl
  | cons kv g ih =>
    obtain ⟨k, v⟩ := kv
    intro stats
    simp only [calcGroups, List.map_cons, keysG]
    rw [ih]
    rfl

theorem calculate_keys_nodup (fix : Bool) (bi : Nat) (stats : List (Nat × TaskStats)) (samples : List (Nat × TSample)) :
    ((calculate fix bi stats samples).2.map (·.1)).Nodup := by
  unfold calculate
  rw [calcGroups_keys]
  exact (groupByTask_inv samples).nodup

theorem recsOf_append (k : Nat) (a b : List (Nat × Out)) : recsOf k (a ++ b) = recsOf k a ++ recsOf k b := by
  simp [recsOf]

theorem recsOf_map (k k' : Nat) (o : List Out) :
    recsOf k (o.map (fun x => (k', x))) = if k' = k then o else [] := by
  induction o with
  | nil => simp [recsOf]
  | cons x xs ih =>
    by_cases h : k' = k
    · simp only [h, if_true] at ih ⊢
      simp only [recsOf, List.map_cons, List.filter_cons, beq_self_eq_true, if_true] at ih ⊢
      rw [ih]
    · simp only [h, if_false] at ih ⊢
      simp only [recsOf, List.map_cons, List.filter_cons] at ih ⊢
      have : (k' == k) = false := by simpa using h
      simp only [this, Bool.false_eq_true, if_false]
      exact ih

theorem outsOf_notmem (k : Nat) : ∀ l : List (Nat × List Out), k ∉ l.map (·.1) → outsOf k l = [] := by
  intro l
  induction l with
  | nil => intro _; rfl
  | cons kv l ih =>
    obtain ⟨k', o⟩ := kv
    intro h
    simp only [List.map_cons, List.mem_cons, not_or] at h
    have : ¬ k' = k := fun e => h.1 e.symm
    simp only [outsOf, this, if_false]
    exact ih h.2

/-- with distinct keys, filtering the flat record list by task gives back the task's tuples -/
theorem recsOf_recordsOf (k : Nat) : ∀ l : List (Nat × List Out), (l.map (·.1)).Nodup →
    recsOf k (recordsOf l) = outsOf k l := by
  intro l
  induction l with
  | nil => intro _; rfl
  | cons kv l ih =>
    obtain ⟨k', o⟩ := kv
    intro hnd
    simp only [List.map_cons, List.nodup_cons] at hnd
    have hrec : recordsOf ((k', o) :: l) = o.map (fun x => (k', x)) ++ recordsOf l := by
      simp [recordsOf]
    rw [hrec, recsOf_append, recsOf_map, ih hnd.2]
    by_cases h : k' = k
    · subst h
      simp only [if_true, outsOf]
      rw [outsOf_notmem k' l hnd.1, List.append_nil]
    · simp [h, outsOf]

theorem postprocessAll_nil (stats : List (Nat × TaskStats)) : postprocessAll stats [] = (stats, []) := rfl
theorem postprocessAll_cons (stats : List (Nat × TaskStats)) (c : List (Nat × TSample)) (cs : List (List (Nat × TSample))) :
    postprocessAll stats (c :: cs) =
      ((postprocessAll (postprocess stats c).1 cs).1, (postprocess stats c).2 :: (postprocessAll (postprocess stats c).1 cs).2) := rfl

/-- the post-processor, seen from task `k`, is the single-task run over the task's samples of each batch -/
theorem postprocessAll_task (k : Nat) : ∀ (calls : List (List (Nat × TSample))) (stats : List (Nat × TaskStats)),
    lookupStats k (postprocessAll stats calls).1 = (run current 1 (lookupStats k stats) (calls.map (samplesOf k))).1 ∧
    (postprocessAll stats calls).2.map (recsOf k) = (run current 1 (lookupStats k stats) (calls.map (samplesOf k))).2 := by
  intro calls
  induction calls with
  | nil => intro stats; simp [postprocessAll_nil, run_nil]
  | cons c cs ih =>
    intro stats
    obtain ⟨c1, c2⟩ := calculate_task current 1 stats c k
    rw [postprocessAll_cons, List.map_cons, run_cons, postprocess_eq]
    obtain ⟨i1, i2⟩ := ih (calculate current 1 stats c).1
    simp only [List.map_cons]
    rw [i1, i2, c1, recsOf_recordsOf k _ (calculate_keys_nodup current 1 stats c), c2]
    exact ⟨rfl, rfl⟩

/-- any interleaving of shipments and post-processing runs is the post-processor applied to the batches the runs cut -/
theorem driverRun_eq : ∀ (evs : List DEvent) (buf : List (Nat × TSample)) (stats : List (Nat × TaskStats)),
    (driverRun buf stats evs).2 = (postprocessAll stats (driverBatches buf evs)).2 ∧
    (driverRun buf stats evs).1.2 = (postprocessAll stats (driverBatches buf evs)).1 := by
  intro evs
  induction evs with
  | nil => intro buf stats; exact ⟨rfl, rfl⟩
  | cons e evs ih =>
    intro buf stats
    cases e with
    | update samples => exact ih (buf ++ samples) stats
    | postProcess =>
      obtain ⟨i1, i2⟩ := ih [] (postprocess stats buf).1
      simp only [driverRun, driverBatches, postprocessAll_cons]
      rw [i1, i2]
      exact ⟨rfl, rfl⟩

/-- the batches are a cutting of what was shipped: nothing lost, nothing twice, order kept; the rest is still buffered -/
theorem driverBatches_flatten : ∀ (evs : List DEvent) (buf : List (Nat × TSample)) (stats : List (Nat × TaskStats)),
    (driverBatches buf evs).flatten ++ (driverRun buf stats evs).1.1 = buf ++ shipped evs := by
  intro evs
  induction evs with
  | nil => intro buf stats; simp [driverBatches, driverRun, shipped]
  | cons e evs ih =>
    intro buf stats
    cases e with
    | update samples =>
      simp only [driverBatches, driverRun, shipped]
      rw [ih (buf ++ samples) stats, List.append_assoc]
    | postProcess =>
      simp only [driverBatches, driverRun, shipped, List.flatten_cons]
      rw [List.append_assoc, ih [] (postprocess stats buf).1]
      simp

theorem samplesOf_flatten (k : Nat) (l : List (List (Nat × TSample))) :
    samplesOf k l.flatten = (l.map (samplesOf k)).flatten := by
  induction l with
  | nil => rfl
  | cons a l ih => simp only [List.flatten_cons, List.map_cons, samplesOf_append, ih]


/-- a tuple emitted for the one sample that is not earlier than any other sample fed so far counts *everything*
    fed so far: the value does not depend on how the samples were cut into batches -/
theorem valueSpec_latest {start : Rat} {fed : List TSample} {o : Out} (h : ValueSpec start fed o)
    (hl : fed.countP (fun x => decide (o.abs ≤ x.abs)) = 1) :
    ∃ iv, IsMaxElapsed start fed iv ∧ 0 < iv ∧ o.value = some (Dbl.fdiv (Dbl.ofNat (sumOps fed)) iv) := by
  obtain ⟨P, R, hperm, hR, ⟨s, hsP, hsabs, _⟩, iv, hmax, hpos, hval⟩ := h
  have hc := hperm.countP_eq (fun x => decide (o.abs ≤ x.abs))
  rw [List.countP_append, hl] at hc
  have hP : 0 < P.countP (fun x => decide (o.abs ≤ x.abs)) := by
    rw [List.countP_pos_iff]
    exact ⟨s, hsP, by simp [hsabs]⟩
  have hRall : R.countP (fun x => decide (o.abs ≤ x.abs)) = R.length := by
    rw [List.countP_eq_length]
    intro r hr
    simpa using hR r hr
  have hRnil : R = [] := by
    apply List.eq_nil_of_length_eq_zero
    omega
  subst hRnil
  rw [List.append_nil] at hperm
  refine ⟨iv, ⟨?_, ?_⟩, hpos, ?_⟩
  · intro x hx; exact hmax.1 x (hperm.symm.subset hx)
  · obtain ⟨x, hx, hxe⟩ := hmax.2; exact ⟨x, hperm.subset hx, hxe⟩
  · rw [hval, sumOps_perm hperm]


/-! ## a failing metrics store: the aborted race has written a prefix of what the healthy race writes -/

theorem driverRunF_prefix : ∀ (evs : List FEvent) (buf : List (Nat × TSample)) (stats : List (Nat × TaskStats)) (i : Nat)
    (recs : List (Nat × Out)), (driverRunF buf stats evs)[i]? = some recs →
    ∃ full, (driverRun buf stats (evs.map healed)).2[i]? = some full ∧ recs <+: full := by
  intro evs
  induction evs with
  | nil => intro buf stats i recs h; simp [driverRunF] at h
  | cons e evs ih =>
    intro buf stats i recs h
    cases e with
    | update samples => exact ih (buf ++ samples) stats i recs h
    | postProcess =>
      simp only [driverRunF] at h
      simp only [List.map_cons, healed, driverRun]
      cases i with
      | zero =>
        simp only [List.getElem?_cons_zero, Option.some.injEq] at h ⊢
        exact ⟨_, rfl, h ▸ List.prefix_refl _⟩
      | succ i =>
        simp only [List.getElem?_cons_succ] at h ⊢
        exact ih [] _ i recs h
    | faultyRun w =>
      simp only [driverRunF] at h
      simp only [List.map_cons, healed, driverRun]
      cases i with
      | zero =>
        simp only [List.getElem?_cons_zero, Option.some.injEq] at h ⊢
        refine ⟨_, rfl, ?_⟩
        subst h
        cases w with
        | none => exact List.prefix_refl _
        | some j => exact List.take_prefix _ _
      | succ i => simp at h


/-! ## the transport: nothing is lost, duplicated or invented between the samplers and the calculator -/

theorem takeMsg_perm (w : Nat) : ∀ (l : List (Nat × List (Nat × TSample))) (c : List (Nat × TSample))
    (rest : List (Nat × List (Nat × TSample))), takeMsg w l = some (c, rest) →
    ((l.map (·.2)).flatten).Perm (c ++ (rest.map (·.2)).flatten) := by
  intro l
  induction l with
  | nil => intro c rest h; simp [takeMsg] at h
  | cons x l ih =>
    obtain ⟨w', c0⟩ := x
    intro c rest h
    simp only [takeMsg] at h
    by_cases hw : w' = w
    · simp only [hw, if_true, Option.some.injEq, Prod.mk.injEq] at h
      obtain ⟨rfl, rfl⟩ := h
      simp
    · simp only [hw, if_false] at h
      cases ht : takeMsg w l with
      | none => rw [ht] at h; simp at h
      | some p =>
        obtain ⟨c', l'⟩ := p
        rw [ht] at h
        simp only [Option.some.injEq, Prod.mk.injEq] at h
        obtain ⟨rfl, rfl⟩ := h
        have := ih c' l' ht
        simp only [List.map_cons, List.flatten_cons]
        -- c0 ++ X ~ c' ++ (c0 ++ Y) given X ~ c' ++ Y
        refine ((List.Perm.append_left c0 this).trans ?_)
        rw [← List.append_assoc, ← List.append_assoc]
        exact List.Perm.append_right _ List.perm_append_comm

theorem held_tstep (st : TState) (e : TEvent) :
    ((match e with
      | .postProcess => st.buf
      | _ => []) ++ (tstep st e).held).Perm
    (st.held ++ (match e with
      | .accept _ s => [s]
      | _ => [])) := by
  cases e with
  | accept w s =>
    simp only [tstep, TState.held, List.nil_append, List.map_append, List.map_cons, List.map_nil]
    simp only [List.append_assoc]
    exact List.Perm.refl _
  | ship w =>
    simp only [tstep, List.nil_append, List.append_nil]
    cases hc : (st.queued.filter (fun x => x.1 == w)).map (·.2) with
    | nil => exact List.Perm.refl _
    | cons c cs =>
      simp only [TState.held, List.map_append, List.map_cons, List.map_nil, List.flatten_append, List.flatten_cons, List.flatten_nil,
        List.append_nil]
      rw [← hc]
      refine List.Perm.append_left _ ?_
      rw [List.append_assoc]
      refine List.Perm.append_left _ ?_
      rw [← List.map_append]
      exact (List.filter_append_perm (fun x => x.1 == w) st.queued).map _
  | deliver w =>
    simp only [tstep, List.nil_append, List.append_nil]
    cases ht : takeMsg w st.inflight with
    | none => exact List.Perm.refl _
    | some p =>
      obtain ⟨c, rest⟩ := p
      simp only [TState.held]
      have := takeMsg_perm w st.inflight c rest ht
      rw [List.append_assoc]
      refine List.Perm.append_left _ ?_
      rw [← List.append_assoc]
      exact List.Perm.append_right _ this.symm
  | postProcess =>
    simp only [tstep, TState.held, List.nil_append, List.append_nil]
    exact List.Perm.refl _

/-- all batches handed to the post-processor, plus what is still held somewhere, are exactly the accepted samples -/
theorem transport_perm : ∀ (evs : List TEvent) (st : TState),
    ((tbatches st evs).flatten ++ (tfinal st evs).held).Perm (st.held ++ acceptedOf evs) := by
  intro evs
  induction evs with
  | nil => intro st; simp [tbatches, tfinal, acceptedOf]
  | cons e evs ih =>
    intro st
    have hstep := held_tstep st e
    have hrec := ih (tstep st e)
    cases e with
    | accept w s =>
      simp only [tbatches, tfinal, acceptedOf, List.nil_append] at hstep hrec ⊢
      refine hrec.trans ?_
      rw [show st.held ++ s :: acceptedOf evs = (st.held ++ [s]) ++ acceptedOf evs by simp]
      exact List.Perm.append_right _ hstep
    | ship w =>
      simp only [tbatches, tfinal, acceptedOf, List.nil_append, List.append_nil] at hstep hrec ⊢
      exact hrec.trans (List.Perm.append_right _ hstep)
    | deliver w =>
      simp only [tbatches, tfinal, acceptedOf, List.nil_append, List.append_nil] at hstep hrec ⊢
      exact hrec.trans (List.Perm.append_right _ hstep)
    | postProcess =>
      simp only [tbatches, tfinal, acceptedOf, List.flatten_cons, List.append_nil] at hstep hrec ⊢
      rw [List.append_assoc]
      refine (List.Perm.append_left st.buf hrec).trans ?_
      rw [← List.append_assoc]
      exact List.Perm.append_right _ hstep

/-- the records and the calculator state are those of the post-processor over these batches -/
theorem transport_records : ∀ (evs : List TEvent) (st : TState),
    trecords st evs = (postprocessAll st.stats (tbatches st evs)).2 ∧
    (tfinal st evs).stats = (postprocessAll st.stats (tbatches st evs)).1 := by
  intro evs
  induction evs with
  | nil => intro st; exact ⟨rfl, rfl⟩
  | cons e evs ih =>
    intro st
    cases e with
    | accept w s => exact ih (tstep st (.accept w s))
    | ship w =>
      have h := ih (tstep st (.ship w))
      have hs : (tstep st (.ship w)).stats = st.stats := by
        simp only [tstep]; split <;> rfl
      rw [hs] at h
      exact h
    | deliver w =>
      have h := ih (tstep st (.deliver w))
      have hs : (tstep st (.deliver w)).stats = st.stats := by
        simp only [tstep]; split <;> rfl
      rw [hs] at h
      exact h
    | postProcess =>
      obtain ⟨h1, h2⟩ := ih (tstep st .postProcess)
      simp only [trecords, tbatches, tfinal, postprocessAll_cons]
      rw [h1, h2]
      exact ⟨rfl, rfl⟩

theorem samplesOf_perm (k : Nat) {a b : List (Nat × TSample)} (h : a.Perm b) : (samplesOf k a).Perm (samplesOf k b) :=
  (h.filter _).map _


/-! ## configuration in front of the post-processor; throttling wait -/

theorem driverRunCfg_eq (opt : Option Nat) : ∀ (evs : List DEvent) (buf : List (Nat × TSample)) (stats : List (Nat × TaskStats)),
    (driverRunCfg opt buf stats evs).2.map (·.2) = (driverRun buf stats evs).2 ∧
    (driverRunCfg opt buf stats evs).1 = (driverRun buf stats evs).1 ∧
    (driverRunCfg opt buf stats evs).2.map (·.1) =
      (driverBatches buf evs).map (requestMetricSamples (downsampleFactor opt)) := by
  intro evs
  induction evs with
  | nil => intro buf stats; exact ⟨rfl, rfl, rfl⟩
  | cons e evs ih =>
    intro buf stats
    cases e with
    | update samples => exact ih (buf ++ samples) stats
    | postProcess =>
      obtain ⟨i1, i2, i3⟩ := ih [] (postprocess stats buf).1
      simp only [driverRunCfg, driverRun, driverBatches, List.map_cons]
      rw [i1, i2, i3]
      exact ⟨rfl, rfl, rfl⟩

theorem everyNthFrom_one {α : Type} : ∀ (xs : List α) (i : Nat), everyNthFrom 1 i xs = xs := by
  intro xs
  induction xs with
  | nil => intro i; rfl
  | cons x xs ih => intro i; simp only [everyNthFrom, Nat.mod_one, if_true, ih]

theorem everyNthFrom_sublist {α : Type} (f : Nat) : ∀ (xs : List α) (i : Nat), (everyNthFrom f i xs).Sublist xs := by
  intro xs
  induction xs with
  | nil => intro i; exact List.Sublist.refl _
  | cons x xs ih =>
    intro i
    simp only [everyNthFrom]
    split
    · exact (ih (i + 1)).cons_cons x
    · exact (ih (i + 1)).cons x

theorem throttleStart_ge_free (ts free e : Rat) : free ≤ throttleStart ts free e := by
  unfold throttleStart
  split
  · split
    · linarith
    · exact le_refl _
  · exact le_refl _

theorem throttleStart_eq_max (ts free e : Rat) (he : 0 < e) : throttleStart ts free e = max free (ts + e) := by
  unfold throttleStart
  rw [if_pos he]
  split
  · rw [max_eq_right (by linarith)]; ring
  · rw [max_eq_left (by linarith)]

theorem throttleStart_unthrottled (ts free e : Rat) (he : ¬ 0 < e) : throttleStart ts free e = free := by
  unfold throttleStart
  rw [if_neg he]

theorem clientRun_length (ts : Rat) : ∀ (qs : List SchedReq) (free : Rat), (clientRun ts free qs).length = qs.length := by
  intro qs
  induction qs with
  | nil => intro free; rfl
  | cons q qs ih => intro free; simp only [clientRun, List.length_cons, ih]

theorem clientRun_start_ge (ts : Rat) : ∀ (qs : List SchedReq) (free : Rat) (i : Nat) (h : i < (clientRun ts free qs).length),
    free + sumBusy (qs.take i) ≤ ((clientRun ts free qs)[i]'h).1 := by
  intro qs
  induction qs with
  | nil => intro free i h; simp [clientRun] at h
  | cons q qs ih =>
    intro free i h
    cases i with
    | zero =>
      simp only [clientRun, List.take_zero, sumBusy, List.getElem_cons_zero, add_zero]
      exact throttleStart_ge_free ts free q.expected
    | succ i =>
      simp only [clientRun, List.take_succ_cons, sumBusy, List.getElem_cons_succ]
      have h' : i < (clientRun ts (throttleStart ts free q.expected + q.busy) qs).length := by
        simpa [clientRun] using h
      have := ih (throttleStart ts free q.expected + q.busy) i h'
      have h0 := throttleStart_ge_free ts free q.expected
      linarith

end Throughput
