/-! counting the hosts that satisfy a predicate (acknowledgement counting) -/

namespace Mechanic

def cnt (H : Nat) (P : Nat → Prop) [DecidablePred P] : Nat := ((List.range H).filter (fun h => decide (P h))).length

theorem cnt_succ_eq (H : Nat) (P : Nat → Prop) [DecidablePred P] :
    cnt (H + 1) P = cnt H P + if P H then 1 else 0 := by
  unfold cnt
  rw [List.range_succ, List.filter_append, List.length_append]
  by_cases h : P H <;> simp [h]

theorem cnt_le (H : Nat) (P : Nat → Prop) [DecidablePred P] : cnt H P ≤ H := by
  induction H with
  | zero => simp [cnt]
  | succ n ih => rw [cnt_succ_eq]; split <;> omega

theorem cnt_congr {H : Nat} {P Q : Nat → Prop} [DecidablePred P] [DecidablePred Q]
    (h : ∀ i, i < H → (P i ↔ Q i)) : cnt H P = cnt H Q := by
  induction H with
  | zero => simp [cnt]
  | succ n ih =>
    rw [cnt_succ_eq, cnt_succ_eq, ih (fun i hi => h i (by omega))]
    have := h n (by omega)
    by_cases hp : P n
    · simp [hp, this.1 hp]
    · have : ¬ Q n := fun hq => hp (this.2 hq)
      simp [hp, this]

theorem cnt_zero {H : Nat} {P : Nat → Prop} [DecidablePred P] (h : ∀ i, i < H → ¬ P i) : cnt H P = 0 := by
  induction H with
  | zero => simp [cnt]
  | succ n ih => rw [cnt_succ_eq, ih (fun i hi => h i (by omega))]; simp [h n (by omega)]

theorem cnt_eq_all {H : Nat} {P : Nat → Prop} [DecidablePred P] (h : cnt H P = H) : ∀ i, i < H → P i := by
  induction H with
  | zero => intro i hi; omega
  | succ n ih =>
    rw [cnt_succ_eq] at h
    have hle := cnt_le n P
    by_cases hp : P n
    · simp [hp] at h
      intro i hi
      by_cases hin : i = n
      · subst hin; exact hp
      · exact ih h i (by omega)
    · simp [hp] at h; omega

theorem cnt_all {H : Nat} {P : Nat → Prop} [DecidablePred P] (h : ∀ i, i < H → P i) : cnt H P = H := by
  induction H with
  | zero => simp [cnt]
  | succ n ih => rw [cnt_succ_eq, ih (fun i hi => h i (by omega))]; simp [h n (by omega)]

theorem cnt_lt {H : Nat} {P : Nat → Prop} [DecidablePred P] {i : Nat} (hi : i < H) (hp : ¬ P i) : cnt H P < H := by
  have := cnt_le H P
  by_cases he : cnt H P = H
  · exact absurd (cnt_eq_all he i hi) hp
  · omega

/-- one more host satisfies the predicate -/
theorem cnt_step {H : Nat} {P Q : Nat → Prop} [DecidablePred P] [DecidablePred Q] {i0 : Nat} (hi : i0 < H)
    (hp : ¬ P i0) (hq : Q i0) (h : ∀ i, i < H → i ≠ i0 → (Q i ↔ P i)) : cnt H Q = cnt H P + 1 := by
  induction H with
  | zero => omega
  | succ n ih =>
    rw [cnt_succ_eq, cnt_succ_eq]
    by_cases hin : i0 = n
    · subst hin
      have : cnt i0 Q = cnt i0 P := cnt_congr (fun i hi' => h i (by omega) (by omega))
      simp [hp, hq, this]
    · have := ih (by omega) (fun i hi' hne => h i (by omega) hne)
      have hh := h n (by omega) (fun hx => hin hx.symm)
      by_cases hpn : P n
      · simp [hpn, hh.2 hpn, this]
      · have : ¬ Q n := fun hx => hpn (hh.1 hx)
        simp [hpn, this]; omega

end Mechanic
