import RallyProofs.MechanicExt

/-! C12 — consequences of the invariants (RallyProofs/Mechanic*.lean) in the form used by RallyProps/C12.lean -/

set_option linter.unusedSimpArgs false
set_option linter.unusedVariables false

namespace Mechanic

local notation "NSs(" h ")" => Out.send (Aid.node h) Aid.mech Msg.nodesStarted
local notation "NPs(" h ")" => Out.send (Aid.node h) Aid.mech Msg.nodesStopped
local notation "NSr(" h ")" => Out.recv Aid.mech (Aid.node h) Msg.nodesStarted
local notation "NPr(" h ")" => Out.recv Aid.mech (Aid.node h) Msg.nodesStopped
local notation "ES" => Out.send Aid.mech Aid.rc Msg.engineStarted
local notation "EP" => Out.send Aid.mech Aid.rc Msg.engineStopped

/-- the calls of a complete `stop_engine` of all nodes of host group `h`, in order -/
def stopCalls (cfg : Config) (h : Nat) : List Out :=
  (stopEffs cfg ⟨h, idsOf cfg h, idsOf cfg h⟩).map (toOut (.node h))

theorem all_acked_of_ES {cfg : Config} (hx : cfg.external = false) {s : State} {tr : List Out} (hr : Reach cfg s tr)
    (hES : ES ∈ tr) : ∀ h, h < nHosts cfg → NSr(h) ∈ tr := by
  have hI := mi_reach hx hr
  apply hI.i5
  constructor
  · intro hn; exact (ms_reach hr).ms4 hn hES
  · intro hn; exact (hI.i1 hn).2.2.1 hES

theorem started_of_ack {cfg : Config} {s : State} {tr : List Out} (hr : Reach cfg s tr) {h : Nat} (ha : NSr(h) ∈ tr) :
    startOk cfg h ∧ Out.call h (.launch (idsOf cfg h) true) ∈ tr :=
  (ni_reach hr h).n3 (recv_sent hr (by intro hx; cases hx) ha)

theorem all_started_of_ES {cfg : Config} (hx : cfg.external = false) {s : State} {tr : List Out} (hr : Reach cfg s tr)
    (hES : ES ∈ tr) : ∀ h, h < nHosts cfg → startOk cfg h ∧ Out.call h (.launch (idsOf cfg h) true) ∈ tr :=
  fun h hh => started_of_ack hr (all_acked_of_ES hx hr hES h hh)

theorem stopped_of_EP {cfg : Config} (hx : cfg.external = false) {s : State} {tr : List Out} (hr : Reach cfg s tr)
    (hEP : EP ∈ tr) : ∀ h, h < nHosts cfg → NPr(h) ∈ tr ∧ tr.filter (isStop h) = stopCalls cfg h := by
  intro h hh
  have hI := mi_reach hx hr
  have hP := hI.i6 hEP h hh
  refine ⟨hP, ?_⟩
  have hNPs := recv_sent hr (by intro hx; cases hx) hP
  have hN := ni_reach hr h
  -- the engine had started on this host
  have hst : s.m.status ≠ .none ∧ s.m.status ≠ .starting := by
    constructor
    · intro hn; exact (hI.i0 (Or.inl hn)).1 hEP
    · intro hn; exact (hI.i0 (Or.inr (Or.inl hn))).1 hEP
  have hok := (started_of_ack hr (hI.i5 hst h hh)).1
  cases hm : (s.n h).mech with
  | some m => exact absurd hNPs (hN.n5 m hm).2.2.2.2
  | none =>
    rcases hN.n6 hm with ⟨_, h6⟩ | ⟨_, _, m, _, h7, h8⟩
    · exact absurd hNPs h6
    · rw [h8, h7 hok]; rfl

/-- whatever happens, the stop sequence of a host group runs at most once -/
theorem stop_at_most_once {cfg : Config} {s : State} {tr : List Out} (hr : Reach cfg s tr) (h : Nat) :
    tr.filter (isStop h) = [] ∨ ∃ m : Mech, m.host = h ∧ tr.filter (isStop h) = (stopEffs cfg m).map (toOut (.node h)) := by
  have hN := ni_reach hr h
  cases hm : (s.n h).mech with
  | some m => exact Or.inl (hN.n5 m hm).2.2.2.1
  | none =>
    rcases hN.n6 hm with ⟨h6, _⟩ | ⟨_, _, m, h6, _, h8⟩
    · exact Or.inl h6
    · exact Or.inr ⟨m, h6, h8⟩

/-- the step that sends EngineStarted / EngineStopped is a step of the MechanicActor: it makes no call itself -/
theorem no_call_in_mech_step {cfg : Config} {s s' : State} {e : Event} {outs : List Out}
    (hs : step cfg s e = some (s', outs)) {b : Aid} {m : Msg} (hm : Out.send .mech b m ∈ outs) :
    ∀ h c, Out.call h c ∉ outs := by
  revert hm
  refine step_elim (motive := fun _ outs => Out.send .mech b m ∈ outs → ∀ h c, Out.call h c ∉ outs) hs ?_ ?_ ?_ ?_ ?_
  · intro _ hm; simp at hm
  · intro _ _ hm; simp at hm
  · intro _ _ _ hm; simp at hm
  · intro _ _ _ _ _ _ hm; simp at hm
  · intro s0 dst src msg s1 effs hp hh hm h c hc
    have hd := (mem_outs_send.1 hm).1
    subst hd
    have := noCall_other (by intro k hk; cases hk) hh _ (mem_outs_call.1 hc)
    exact this


/-! ### running concrete histories (non-vacuity examples and witnesses) -/

theorem run_reach {cfg : Config} {es : List Event} {s s' : State} {tr o : List Out} (hr : Reach cfg s tr)
    (h : run cfg s es = some (s', o)) : Reach cfg s' (tr ++ o) := by
  induction es generalizing s tr o with
  | nil => simp [run] at h; obtain ⟨rfl, rfl⟩ := h; simpa using hr
  | cons e es ih =>
    simp only [run] at h
    split at h
    · cases h
    · rename_i s1 o1 h1
      split at h
      · cases h
      · rename_i s2 o2 h2
        cases h
        have := ih (Reach.step hr h1) h2
        rwa [List.append_assoc] at this

/-- evaluate a Boolean check on the result of a concrete history -/
def chk (cfg : Config) (es : List Event) (p : State → List Out → Bool) : Bool :=
  match run cfg State.init es with
  | some (s, tr) => p s tr
  | none => false

theorem chk_sound {cfg : Config} {es : List Event} {p : State → List Out → Bool} (h : chk cfg es p = true) :
    ∃ s tr, Reach cfg s tr ∧ p s tr = true := by
  unfold chk at h
  split at h
  · rename_i s tr hrun
    exact ⟨s, tr, by simpa using run_reach Reach.init hrun, h⟩
  · cases h

/-! ### the plan kinds that make a start fail -/

theorem prepares_raises (h : Nat) (j : Nat) (ids : List Nat) (i : Nat) :
    (prepares h (some j) ids i).2.2 = true ↔ (i ≤ j ∧ j < i + ids.length) := by
  induction ids generalizing i with
  | nil => simp [prepares]
  | cons id rest ih =>
    simp only [prepares]
    by_cases hj : j = i
    · subst hj; simp
    · have : ¬ (some j = some i) := by intro hx; injection hx with hx; exact hj hx
      simp only [this, if_false, ih, List.length_cons]
      omega

theorem prepares_none (h : Nat) (ids : List Nat) (i : Nat) : (prepares h none ids i).2.2 = false := by
  induction ids generalizing i with
  | nil => rfl
  | cons id rest ih => simp [prepares, ih]

/-- the start on host group `h` succeeds iff the cluster is provisioned by Rally and no planned failure takes effect -/
theorem startOk_iff (cfg : Config) (h : Nat) :
    startOk cfg h ↔ cfg.external = false ∧
      (planOf cfg h = .ok ∨ ∃ j, planOf cfg h = .failPrepare j ∧ (idsOf cfg h).length ≤ j) := by
  unfold startOk
  cases hp : planOf cfg h with
  | ok => simp [failAtOf, prepares_none]
  | failEarly => simp
  | failSupply => simp
  | failLaunch => simp
  | failPrepare j =>
    simp only [failAtOf]
    have := prepares_raises h j (idsOf cfg h) 0
    constructor
    · rintro ⟨h1, _, h3, _⟩
      refine ⟨by simpa using h1, Or.inr ⟨j, rfl, ?_⟩⟩
      by_cases hx : (prepares h (some j) (idsOf cfg h) 0).2.2 = true
      · rw [hx] at h3; cases h3
      · have := mt this.2 hx; omega
    · rintro ⟨h1, h2⟩
      rcases h2 with h2 | ⟨j', h2, h3⟩
      · cases h2
      · injection h2 with h2; subst h2
        refine ⟨by simp [h1], by simp, ?_, by simp⟩
        cases hx : (prepares h (some j) (idsOf cfg h) 0).2.2 with
        | false => rfl
        | true => have := this.1 hx; omega

theorem stopCalls_eq (cfg : Config) (h : Nat) :
    stopCalls cfg h =
      [Out.call h (.lstop (idsOf cfg h)), Out.call h (.flush true)]
        ++ (if cfg.raceFound then (idsOf cfg h).map (fun id => Out.call h (.store id)) else [])
        ++ [Out.call h .close]
        ++ (idsOf cfg h).map (fun id => Out.call h (.cleanup id cfg.preserve)) := by
  unfold stopCalls stopEffs
  split <;> simp [toOut, Function.comp_def]


/-! ### nodes_by_host: every node id belongs to exactly one host group -/

def flatIds (g : List ((Nat × Nat) × List Nat)) : List Nat := g.flatMap (·.2)

theorem flatIds_addNode (g : List ((Nat × Nat) × List Nat)) (hp : Nat × Nat) (id x : Nat) :
    (flatIds (addNode g hp id)).count x = (flatIds g).count x + if id = x then 1 else 0 := by
  induction g with
  | nil => simp [addNode, flatIds, List.count_cons]
  | cons a rest ih =>
    obtain ⟨k, ids⟩ := a
    simp only [addNode]
    split
    · simp [flatIds, List.count_append, List.count_cons]; omega
    · simp only [flatIds, List.flatMap_cons, List.count_append] at ih ⊢
      omega

theorem flatIds_groupsFrom (l : List (Nat × Nat)) (i : Nat) (g : List ((Nat × Nat) × List Nat)) (x : Nat) :
    (flatIds (groupsFrom l i g)).count x = (flatIds g).count x + if i ≤ x ∧ x < i + l.length then 1 else 0 := by
  induction l generalizing i g with
  | nil => simp [groupsFrom]
  | cons hp rest ih =>
    simp only [groupsFrom]
    rw [ih, flatIds_addNode]
    by_cases hx : i = x
    · subst hx
      have h1 : ¬ (i + 1 ≤ i ∧ i < i + 1 + rest.length) := by omega
      have h2 : i ≤ i ∧ i < i + (hp :: rest).length := by simp
      simp [h1, h2]
    · by_cases h1 : i + 1 ≤ x ∧ x < i + 1 + rest.length
      · have h2 : i ≤ x ∧ x < i + (hp :: rest).length := by simp; omega
        rw [if_neg hx, if_pos h1, if_pos h2]
      · have h2 : ¬ (i ≤ x ∧ x < i + (hp :: rest).length) := by simp; omega
        rw [if_neg hx, if_neg h1, if_neg h2]

/-- node ids are 0 … n-1 (position in the host list) and each lies in exactly one (ip, port) group, once -/
theorem node_in_exactly_one_group (cfg : Config) (x : Nat) :
    (flatIds (groups cfg)).count x = if x < cfg.hosts.length then 1 else 0 := by
  unfold groups
  rw [flatIds_groupsFrom]
  simp [flatIds]

end Mechanic
