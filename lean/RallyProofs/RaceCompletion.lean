import RallyProofs.Race
/-! Second invariant of the race protocol model: a completed-by broadcast is never lost (C01). -/
namespace Race

/-- will processing the inbox `l` in FIFO order set the `complete` flag?  `h` = the worker currently honours a
    CompleteCurrentTask (it is inside an element, or has been told to drive); a `Drive` makes it honour later ones. -/
def willComplete : List MsgDW → Bool → Bool
  | [], _ => false
  | .drive :: rest, _ => willComplete rest true
  | .cct :: rest, h => h || willComplete rest h
  | .startWorker :: rest, h => willComplete rest h

def honours (ws : WState) : Bool := !parked ws || ws.startDriving

/-- the worker has not yet reached the join point that closes the current step -/
def inStep (s : State) (w : Nat) : Prop :=
  match (s.ws w).pos with
  | .unstarted => False
  | .atJoin j => j + 1 = s.d.stepP1
  | .inCol _ _ => True

/-- the completion flag is set, or a CompleteCurrentTask that WILL be honoured is on its way -/
def completionPending (s : State) (w : Nat) : Prop :=
  (s.ws w).complete = true ∨ willComplete (s.d2w w) (honours (s.ws w)) = true

def CInv (cfg : Cfg) (s : State) : Prop :=
  s.d.cctSent = true → ∀ w, w < cfg.W → inStep s w → completionPending s w

theorem willComplete_append_cct_true (l : List MsgDW) : willComplete (l ++ [.cct]) true = true := by
  induction l with
  | nil => simp [willComplete]
  | cons m ms ih => cases m <;> simp [willComplete, ih]

theorem willComplete_append_cct_of_drive (l : List MsgDW) (h : Bool) (hd : driveCount l ≥ 1) :
    willComplete (l ++ [.cct]) h = true := by
  induction l generalizing h with
  | nil => simp [driveCount] at hd
  | cons m ms ih =>
    cases m with
    | drive => simp [willComplete, willComplete_append_cct_true]
    | cct =>
      rw [driveCount_cons_cct] at hd
      simp [willComplete, ih h hd]
    | startWorker =>
      rw [driveCount_cons_start] at hd
      simp [willComplete, ih h hd]

theorem willComplete_mono (l : List MsgDW) (h h' : Bool) (hh : h = true → h' = true) :
    willComplete l h = true → willComplete l h' = true := by
  induction l generalizing h h' with
  | nil => simp [willComplete]
  | cons m ms ih =>
    cases m with
    | drive => simp only [willComplete]; exact id
    | cct =>
      simp only [willComplete, Bool.or_eq_true]
      intro hc
      rcases hc with hc | hc
      · exact Or.inl (hh hc)
      · exact Or.inr (ih h h' hh hc)
    | startWorker => simp only [willComplete]; exact ih h h' hh

theorem willComplete_append_mono (l : List MsgDW) (m : MsgDW) (h : Bool) :
    willComplete l h = true → willComplete (l ++ [m]) h = true := by
  induction l generalizing h with
  | nil => simp [willComplete]
  | cons x xs ih =>
    cases x with
    | drive => simp only [List.cons_append, willComplete]; exact ih true
    | cct =>
      simp only [List.cons_append, willComplete, Bool.or_eq_true]
      intro hh
      rcases hh with hh | hh
      · exact Or.inl hh
      · exact Or.inr (ih h hh)
    | startWorker => simp only [List.cons_append, willComplete]; exact ih h

theorem init_cinv (cfg : Cfg) : CInv cfg (init cfg) := by
  intro h; simp [init] at h

/-- effect of an event that only concerns worker `w`'s own state (wake-up, executor progress) -/
structure LocalEffect (s s' : State) (w : Nat) : Prop where
  d_eq : s'.d = s.d
  d2w_eq : s'.d2w = s.d2w
  others : ∀ u, u ≠ w → s'.ws u = s.ws u
  own : inStep s' w → inStep s w ∧ ((s.ws w).complete = true → (s'.ws w).complete = true) ∧
    (honours (s.ws w) = true → honours (s'.ws w) = true)

theorem cinv_of_local {cfg : Cfg} {s s' : State} {w : Nat} (hc : CInv cfg s) (he : LocalEffect s s' w) :
    CInv cfg s' := by
  intro hcs v hv hin
  have hcs0 : s.d.cctSent = true := by rw [← he.d_eq]; exact hcs
  by_cases hvw : v = w
  · subst hvw
    obtain ⟨hin0, hcm, hhn⟩ := he.own hin
    rcases hc hcs0 v hv hin0 with h1 | h1
    · exact Or.inl (hcm h1)
    · right
      rw [he.d2w_eq]
      exact willComplete_mono _ _ _ hhn h1
  · have hin0 : inStep s v := by
      unfold inStep at hin ⊢
      rw [he.others v hvw, he.d_eq] at hin
      exact hin
    have := hc hcs0 v hv hin0
    unfold completionPending at this ⊢
    rw [he.others v hvw, he.d2w_eq]
    exact this

/-- what `driveNext` can do -/
theorem driveNext_cases {cfg : Cfg} {w : Nat} {s0 s' : State} (h : driveNext cfg w s0 = some s') :
    (∃ j, s' = toJoin w j s0) ∨
    (∃ e c col, (cfg.elems w e)[c]? = some col ∧ s' = { s0 with
        ws := upd s0.ws w { s0.ws w with pos := .inCol e c, exec := .running (col.map fun t => (t, false)), wake := (s0.ws w).wake + 1 },
        entered := s0.entered ++ [(w, e, c)] } ∧ (s0.ws w).complete = false ∧
      ((s0.ws w).pos = .atJoin e ∧ c = 0 ∨ ∃ c0, (s0.ws w).pos = .inCol e c0 ∧ c = c0 + 1)) := by
  unfold driveNext at h
  cases hp : (s0.ws w).pos with
  | unstarted => simp [hp] at h
  | atJoin j =>
    simp only [hp] at h
    split at h
    · exact absurd h (by simp)
    · split at h
      · rename_i col hcol
        split at h
        · injection h with h; exact Or.inl ⟨_, h.symm⟩
        · rename_i hcmp
          injection h with h
          exact Or.inr ⟨j, 0, col, hcol, h.symm, by simpa using hcmp, Or.inl ⟨rfl, rfl⟩⟩
      · injection h with h; exact Or.inl ⟨_, h.symm⟩
  | inCol e c =>
    simp only [hp] at h
    split at h
    · exact absurd h (by simp)
    · split at h
      · rename_i col hcol
        split at h
        · injection h with h; exact Or.inl ⟨_, h.symm⟩
        · rename_i hcmp
          injection h with h
          exact Or.inr ⟨e, c + 1, col, hcol, h.symm, by simpa using hcmp, Or.inr ⟨c, rfl, rfl⟩⟩
      · injection h with h; exact Or.inl ⟨_, h.symm⟩

/-- a worker that has just reported a join point is no longer in the step -/
theorem not_inStep_of_jpr {cfg : Cfg} {s : State} {w : Nat} (hwi : WInv cfg s w) (h : s.w2d w ≠ []) : ¬ inStep s w := by
  intro hin
  unfold WInv at hwi
  unfold inStep at hin
  cases hp : (s.ws w).pos with
  | unstarted => simp [hp] at hin
  | inCol e c => simp only [hp] at hwi; exact h hwi.2.2.2.2.1
  | atJoin j =>
    simp only [hp] at hwi hin
    rcases hwi.2.2.2 with hh | hh
    · omega
    · exact h hh.2.1

theorem localEffect_driveNext {cfg : Cfg} {s s0 s' : State} {w : Nat} (hw : w < cfg.W) (hinv' : Inv cfg s')
    (hd : driveNext cfg w s0 = some s')
    (h1 : s0.d = s.d) (h2 : s0.d2w = s.d2w) (h3 : ∀ u, u ≠ w → s0.ws u = s.ws u)
    (h4 : (s0.ws w).complete = (s.ws w).complete)
    (hin_s : inStep s w) : LocalEffect s s' w := by
  rcases driveNext_cases hd with ⟨j, rfl⟩ | ⟨e, c, col, _, rfl, hcf, _⟩
  · refine ⟨by simp [toJoin, h1], by simp [toJoin, h2], fun u hu => by simp [toJoin, upd, hu, h3 u hu], ?_⟩
    intro hin
    exact absurd hin (not_inStep_of_jpr (hinv'.winv w hw) (by simp [toJoin]))
  · refine ⟨h1, h2, fun u hu => by simp [upd, hu, h3 u hu], ?_⟩
    intro _
    refine ⟨hin_s, ?_, ?_⟩
    · intro hc; rw [← h4, hcf] at hc; cases hc
    · intro _; simp [honours, parked]

theorem localEffect_wakeW {cfg : Cfg} {s s' : State} {w : Nat} (hinv : Inv cfg s) (hinv' : Inv cfg s')
    (h : step cfg s (.wakeW w) = some s') : LocalEffect s s' w := by
  simp only [step] at h
  by_cases hwk0 : (s.ws w).wake = 0
  · simp [hwk0] at h
  rw [if_neg hwk0] at h
  have hw : w < cfg.W := lt_W_of_wake hinv hwk0
  have hwi := hinv.winv w hw
  -- a worker with a pending wake-up is in the step
  have hin_s : inStep s w := by
    unfold WInv at hwi
    unfold inStep
    cases hp : (s.ws w).pos with
    | unstarted => simp only [hp] at hwi; exact absurd hwi.2.2.2.2.1 hwk0
    | inCol e c => trivial
    | atJoin j =>
      simp only [hp] at hwi ⊢
      rcases hwi.2.2.2 with hh | hh
      · exact absurd hh.2.2.2.1 hwk0
      · exact hh.1
  by_cases hsd : (s.ws w).startDriving = true
  · rw [if_pos hsd] at h
    exact localEffect_driveNext hw hinv' h rfl rfl (fun u hu => by simp [upd, hu]) (by simp) hin_s
  · rw [if_neg hsd] at h
    cases hexec : (s.ws w).exec with
    | finished =>
      simp only [hexec] at h
      exact localEffect_driveNext hw hinv' h rfl rfl (fun u hu => by simp [upd, hu]) (by simp) hin_s
    | none =>
      simp only [hexec] at h
      injection h with h; subst h
      exact ⟨rfl, rfl, fun u hu => by simp [upd, hu], fun _ => ⟨hin_s, by simp, by simp [honours, parked]⟩⟩
    | running ts =>
      simp only [hexec] at h
      injection h with h; subst h
      exact ⟨rfl, rfl, fun u hu => by simp [upd, hu], fun _ => ⟨hin_s, by simp, by simp [honours, parked]⟩⟩

theorem localEffect_exec {s : State} {w : Nat} (ex : Exec) (cmp : Bool)
    (hcm : (s.ws w).complete = true → cmp = true) :
    LocalEffect s { s with ws := upd s.ws w { (s.ws w) with exec := ex, complete := cmp } } w := by
  refine ⟨rfl, rfl, fun u hu => by simp [upd, hu], ?_⟩
  intro hin
  refine ⟨by simpa [inStep] using hin, by simpa using hcm, by simp [honours, parked]⟩

theorem step_cinv {cfg : Cfg} {s s' : State} {e : Event} (hwf : cfg.WF) (hinv : Inv cfg s) (hc : CInv cfg s)
    (h : step cfg s e = some s') : CInv cfg s' := by
  have hinv' : Inv cfg s' := step_inv hwf hinv h
  cases e with
  | wakeW w => exact cinv_of_local hc (localEffect_wakeW hinv hinv' h)
  | taskDone w i =>
    simp only [step] at h
    cases hexec : (s.ws w).exec with
    | none => simp [hexec] at h
    | finished => simp [hexec] at h
    | running ts =>
      simp only [hexec] at h
      split at h
      · split at h
        · injection h with h; subst h
          exact cinv_of_local hc (localEffect_exec _ _ (by intro hh; simp [hh]))
        · exact absurd h (by simp)
      · exact absurd h (by simp)
  | execFinish w =>
    simp only [step] at h
    cases hexec : (s.ws w).exec with
    | none => simp [hexec] at h
    | finished => simp [hexec] at h
    | running ts =>
      simp only [hexec] at h
      split at h
      · injection h with h; subst h
        have := cinv_of_local hc (localEffect_exec (s := s) (w := w) .finished (s.ws w).complete (by intro hh; exact hh))
        simpa using this
      · exact absurd h (by simp)
  | deliverDW w =>
    simp only [step] at h
    cases hq : s.d2w w with
    | nil => simp [hq] at h
    | cons m rest =>
      have hw : w < cfg.W := lt_W_of_d2w hinv (by simp [hq])
      simp only [hq] at h
      -- frame for the other workers
      have hothers : s'.d = s.d ∧ (∀ u, u ≠ w → s'.ws u = s.ws u ∧ s'.d2w u = s.d2w u) := by
        cases m with
        | startWorker =>
          simp only at h
          cases hp : (s.ws w).pos with
          | unstarted => simp only [hp] at h; injection h with h; subst h; exact ⟨by simp [toJoin], fun u hu => by simp [toJoin, upd, hu]⟩
          | atJoin j => simp [hp] at h
          | inCol e c => simp [hp] at h
        | drive => simp only at h; injection h with h; subst h; exact ⟨rfl, fun u hu => by simp [upd, hu]⟩
        | cct => simp only at h; split at h <;> (injection h with h; subst h; exact ⟨rfl, fun u hu => by simp [upd, hu]⟩)
      intro hcs v hv hin
      have hcs0 : s.d.cctSent = true := by rw [← hothers.1]; exact hcs
      by_cases hvw : v = w
      · subst hvw
        cases m with
        | startWorker =>
          exfalso
          simp only at h
          cases hp : (s.ws v).pos with
          | unstarted =>
            simp only [hp] at h
            injection h with h; subst h
            exact not_inStep_of_jpr (hinv'.winv v hv) (by simp [toJoin]) hin
          | atJoin j => simp [hp] at h
          | inCol e c => simp [hp] at h
        | drive =>
          simp only at h
          injection h with h; subst h
          have hin0 : inStep s v := by simpa [inStep] using hin
          rcases hc hcs0 v hv hin0 with h1 | h1
          · left; simpa using h1
          · right
            rw [hq] at h1
            simpa [willComplete, honours] using h1
        | cct =>
          simp only at h
          by_cases hpk : (parked (s.ws v) && !(s.ws v).startDriving) = true
          · rw [if_pos hpk] at h
            injection h with h; subst h
            have hin0 : inStep s v := by simpa [inStep] using hin
            rcases hc hcs0 v hv hin0 with h1 | h1
            · left; exact h1
            · right
              rw [hq] at h1
              have hh : honours (s.ws v) = false := by
                simp only [Bool.and_eq_true, Bool.not_eq_true'] at hpk
                simp [honours, hpk.1, hpk.2]
              simpa [willComplete, hh] using h1
          · rw [if_neg hpk] at h
            injection h with h; subst h
            left; simp
      · have hin0 : inStep s v := by
          unfold inStep at hin ⊢
          rw [(hothers.2 v hvw).1, hothers.1] at hin
          exact hin
        have := hc hcs0 v hv hin0
        unfold completionPending at this ⊢
        rw [(hothers.2 v hvw).1, (hothers.2 v hvw).2]
        exact this
  | deliverWD w =>
    simp only [step] at h
    cases hq : s.w2d w with
    | nil => simp [hq] at h
    | cons m rest =>
      cases m with
      | jpr j =>
      simp only [hq] at h
      injection h with h
      unfold joinpointReached at h
      simp only at h
      by_cases hall : s.d.completed + 1 = cfg.W
      · -- barrier opens: the flag is reset
        rw [if_pos hall] at h
        intro hcs
        split at h <;> (subst h; simp at hcs)
      · rw [if_neg hall] at h
        generalize hs2 : ({ s with w2d := upd s.w2d w rest, d := { s.d with completed := s.d.completed + 1, reported := w :: s.d.reported } } : State) = s2 at h
        have hc2 : CInv cfg s2 := by
          subst hs2
          intro hcs v hv hin
          have := hc hcs v hv (by simpa [inStep] using hin)
          simpa [completionPending] using this
        rcases mayComplete_shape cfg w (cfg.joins j) s2 with he | ⟨he, _⟩
        · rw [he] at h; subst h; exact hc2
        · rw [he] at h
          subst h
          intro _ v hv hin
          have hin2 : inStep s2 v := by simpa [inStep] using hin
          -- the invariant of s' tells where v stands
          have hwi' := hinv'.winv v hv
          have hsa : sendAll cfg.W s2.d2w MsgDW.cct v = s2.d2w v ++ [MsgDW.cct] := by simp [sendAll, hv]
          rcases inStep_facts_aux hwi' hin with hh | hh | hh
          · right
            show willComplete (sendAll cfg.W s2.d2w MsgDW.cct v) (honours (s2.ws v)) = true
            rw [hsa]
            have : honours (s2.ws v) = true := hh
            rw [this]
            exact willComplete_append_cct_true _
          · right
            show willComplete (sendAll cfg.W s2.d2w MsgDW.cct v) (honours (s2.ws v)) = true
            rw [hsa]
            apply willComplete_append_cct_of_drive
            have : driveCount (sendAll cfg.W s2.d2w MsgDW.cct v) ≥ 1 := hh
            rw [driveCount_sendAll_cct] at this
            exact this
          · -- D = S + 1 cannot happen when a join point is still being reported
            exfalso
            have hD : s2.d.stepP1 = cfg.S + 1 := hh
            have hw : w < cfg.W := lt_W_of_w2d hinv (by simp [hq])
            have hwi := hinv.winv w hw
            have hnot := not_inStep_of_jpr hwi (by simp [hq])
            unfold WInv at hwi
            cases hp : (s.ws w).pos with
            | unstarted => simp only [hp] at hwi; rw [hq] at hwi; simp at hwi
            | inCol e c => simp only [hp] at hwi; rw [hq] at hwi; simp at hwi
            | atJoin j' =>
              simp only [hp] at hwi
              have hDs : s.d.stepP1 = cfg.S + 1 := by subst hs2; simpa using hD
              rcases hwi.2.2.2 with h1 | h1
              · omega
              · rw [hq] at h1; simp at h1
where
  inStep_facts_aux {cfg : Cfg} {s : State} {w : Nat} (hwi : WInv cfg s w) (hin : inStep s w) :
      honours (s.ws w) = true ∨ driveCount (s.d2w w) ≥ 1 ∨ s.d.stepP1 = cfg.S + 1 := by
    unfold WInv at hwi
    unfold inStep at hin
    cases hp : (s.ws w).pos with
    | unstarted => simp [hp] at hin
    | inCol e c => left; simp [honours, parked, hp]
    | atJoin j =>
      simp only [hp] at hwi hin
      rcases hwi.2.2.2 with h1 | ⟨_, _, _, h3⟩
      · omega
      · rcases h3 with h | h | h
        · right; right; exact h.1
        · right; left; omega
        · left; simp [honours, h.2.2.1]

theorem reach_cinv {cfg : Cfg} {s : State} (hwf : cfg.WF) (h : Reach cfg s) : CInv cfg s := by
  induction h with
  | init => exact init_cinv cfg
  | step s s' e hr hstep ih => exact step_cinv hwf (reach_inv hwf hr) ih hstep

end Race
