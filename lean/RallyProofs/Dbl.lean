import RallyModel.Dbl
import Mathlib.Tactic.Linarith
import Mathlib.Data.Rat.Floor
import Mathlib.Tactic.Ring
import Mathlib.Tactic.Positivity
import Mathlib.Algebra.Order.Field.Power
import Mathlib.Tactic.FieldSimp
/-!
# Lemmas about the IEEE-754 binary64 model `RallyModel/Dbl.lean`

`rhe` (Python's `round`): error ≤ 1/2, monotone, exact on integers, determined by a near integer.
`ilog2`: the binade `2^i ≤ |q| < 2^(i+1)` (and uniqueness).
`fl`: `fl_rel_err` (|fl q − q| ≤ |q|·2⁻⁵³, the standard model), `fl_nonneg`, `fl_binade`,
`fl_mono_nonneg` (monotone on non-negative numbers), `fl_exact`, `fl_natCast` (exact on naturals < 2^53).
-/
namespace Dbl

theorem rhe_cases (q : ℚ) :
    (rhe q = q.floor ∧ q - q.floor ≤ 1/2) ∨ (rhe q = q.floor + 1 ∧ 1/2 ≤ q - q.floor) := by
  unfold rhe
  simp only []
  split_ifs with h1 h2 h3
  · left; exact ⟨rfl, by linarith⟩
  · right; exact ⟨rfl, by linarith⟩
  · left; exact ⟨rfl, by linarith⟩
  · right; exact ⟨rfl, by linarith⟩

theorem rhe_err (q : ℚ) : |((rhe q : ℤ) : ℚ) - q| ≤ 1/2 := by
  have h1 := Rat.floor_le q
  have h2 := Rat.lt_floor_add_one q
  push_cast at h2
  rcases rhe_cases q with ⟨h, hd⟩ | ⟨h, hd⟩ <;> rw [h, abs_le] <;> constructor <;> push_cast <;> linarith

theorem rhe_intCast (z : ℤ) : rhe (z : ℚ) = z := by
  unfold rhe
  simp only [Rat.floor_intCast, sub_self]
  norm_num

theorem rhe_le_of_lt_add_half (z : ℤ) (q : ℚ) (h : q < (z:ℚ) + 1/2) : rhe q ≤ z := by
  have h1 := Rat.floor_le q
  have h2 := Rat.lt_floor_add_one q
  push_cast at h2
  rcases rhe_cases q with ⟨hr, hd⟩ | ⟨hr, hd⟩ <;> rw [hr]
  · have : (q.floor : ℚ) < (z : ℚ) + 1 := by linarith
    have : q.floor < z + 1 := by exact_mod_cast this
    omega
  · have : (q.floor : ℚ) < (z : ℚ) := by linarith
    have : q.floor < z := by exact_mod_cast this
    omega

theorem le_rhe_of_sub_half_lt (z : ℤ) (q : ℚ) (h : (z:ℚ) - 1/2 < q) : z ≤ rhe q := by
  have h1 := Rat.floor_le q
  have h2 := Rat.lt_floor_add_one q
  push_cast at h2
  rcases rhe_cases q with ⟨hr, hd⟩ | ⟨hr, hd⟩ <;> rw [hr]
  · have : (z : ℚ) < (q.floor : ℚ) + 1 := by linarith
    have : z < q.floor + 1 := by exact_mod_cast this
    omega
  · have : (z : ℚ) < (q.floor : ℚ) + 2 := by linarith
    have : z < q.floor + 2 := by exact_mod_cast this
    omega

theorem rhe_of_near_int (z : ℤ) (q : ℚ) (h : |q - (z : ℚ)| < 1/2) : rhe q = z := by
  rw [abs_lt] at h
  exact le_antisymm (rhe_le_of_lt_add_half z q (by linarith)) (le_rhe_of_sub_half_lt z q (by linarith))

theorem rhe_mono {a b : ℚ} (h : a ≤ b) : rhe a ≤ rhe b := by
  have ha1 := Rat.floor_le a
  have ha2 := Rat.lt_floor_add_one a
  have hb1 := Rat.floor_le b
  have hb2 := Rat.lt_floor_add_one b
  push_cast at ha2 hb2
  have hf : a.floor ≤ b.floor := by
    have : (a.floor : ℚ) < (b.floor : ℚ) + 1 := by linarith
    have : a.floor < b.floor + 1 := by exact_mod_cast this
    omega
  rcases lt_or_eq_of_le hf with hlt | heq
  · -- different integer parts
    have h1 : rhe a ≤ a.floor + 1 := by rcases rhe_cases a with ⟨hr, _⟩ | ⟨hr, _⟩ <;> omega
    have h2 : b.floor ≤ rhe b := by rcases rhe_cases b with ⟨hr, _⟩ | ⟨hr, _⟩ <;> omega
    omega
  · -- same integer part: compare the fractional parts
    unfold rhe
    simp only []
    rw [← heq]
    split_ifs <;> first | omega | (exfalso; linarith)

theorem pow2_eq_zpow (e : ℤ) : pow2 e = (2:ℚ)^e := by
  unfold pow2
  split_ifs with h
  · obtain ⟨n, rfl⟩ := Int.eq_ofNat_of_zero_le h
    simp
  · have h' : e < 0 := by omega
    obtain ⟨n, rfl⟩ : ∃ n : ℕ, e = -(n:ℤ) := ⟨(-e).toNat, by omega⟩
    simp

theorem qabs_eq_abs (q : ℚ) : qabs q = |q| := by
  unfold qabs
  split_ifs with h
  · rw [abs_of_neg h]
  · rw [abs_of_nonneg (by linarith)]

theorem two_zpow_pos (e : ℤ) : (0:ℚ) < (2:ℚ)^e := zpow_pos (by norm_num) e

theorem ilog2_spec {q : ℚ} (h : q ≠ 0) : (2:ℚ) ^ (ilog2 q) ≤ |q| ∧ |q| < (2:ℚ) ^ (ilog2 q + 1) := by
  unfold ilog2
  simp only [pow2_eq_zpow, qabs_eq_abs]
  set a := |q| with ha
  have hapos : 0 < a := abs_pos.mpr h
  have hnum : a.num.natAbs ≠ 0 := by
    have : a.num ≠ 0 := Rat.num_ne_zero.mpr (ne_of_gt hapos)
    omega
  have hden : a.den ≠ 0 := a.den_ne_zero
  have hnumpos : 0 < a.num := Rat.num_pos.mpr hapos
  -- a = num / den
  have haq : a = (a.num.natAbs : ℚ) / (a.den : ℚ) := by
    have : ((a.num.natAbs : ℤ) : ℚ) = (a.num : ℚ) := by
      rw [Int.natAbs_of_nonneg (le_of_lt hnumpos)]
    have h2 := Rat.num_div_den a
    have h3 : ((a.num.natAbs : ℕ) : ℚ) = ((a.num.natAbs : ℤ) : ℚ) := (Int.cast_natCast _).symm
    rw [h3, this, h2]
  set N := a.num.natAbs with hN
  set D := a.den with hD
  have hN1 : (2:ℚ)^(N.log2) ≤ N := by exact_mod_cast Nat.log2_self_le hnum
  have hN2 : (N:ℚ) < (2:ℚ)^(N.log2 + 1) := by exact_mod_cast (Nat.lt_log2_self (n := N))
  have hD1 : (2:ℚ)^(D.log2) ≤ D := by exact_mod_cast Nat.log2_self_le hden
  have hD2 : (D:ℚ) < (2:ℚ)^(D.log2 + 1) := by exact_mod_cast (Nat.lt_log2_self (n := D))
  have hDpos : (0:ℚ) < D := by exact_mod_cast Nat.pos_of_ne_zero hden
  have two_ne : (2:ℚ) ≠ 0 := by norm_num
  -- 2^(ln - ld - 1) < a < 2^(ln - ld + 1)
  have lower : (2:ℚ)^((N.log2:ℤ) - (D.log2:ℤ) - 1) < a := by
    rw [haq, lt_div_iff₀ hDpos]
    have : (2:ℚ)^((N.log2:ℤ) - (D.log2:ℤ) - 1) * (2:ℚ)^((D.log2:ℤ) + 1) = (2:ℚ)^(N.log2:ℤ) := by
      rw [← zpow_add₀ two_ne]; congr 1; ring
    calc (2:ℚ)^((N.log2:ℤ) - (D.log2:ℤ) - 1) * (D:ℚ)
        < (2:ℚ)^((N.log2:ℤ) - (D.log2:ℤ) - 1) * (2:ℚ)^((D.log2:ℤ) + 1) := by
          apply mul_lt_mul_of_pos_left _ (two_zpow_pos _)
          have := hD2
          rw [← zpow_natCast] at this
          push_cast at this
          exact this
      _ = (2:ℚ)^(N.log2:ℤ) := this
      _ ≤ N := by rw [zpow_natCast]; exact hN1
  have upper : a < (2:ℚ)^((N.log2:ℤ) - (D.log2:ℤ) + 1) := by
    rw [haq, div_lt_iff₀ hDpos]
    have : (2:ℚ)^((N.log2:ℤ) - (D.log2:ℤ) + 1) * (2:ℚ)^((D.log2:ℤ)) = (2:ℚ)^((N.log2:ℤ) + 1) := by
      rw [← zpow_add₀ two_ne]; congr 1; ring
    calc (N:ℚ) < (2:ℚ)^((N.log2:ℤ) + 1) := by
          have := hN2
          rw [← zpow_natCast] at this
          push_cast at this
          exact this
      _ = (2:ℚ)^((N.log2:ℤ) - (D.log2:ℤ) + 1) * (2:ℚ)^((D.log2:ℤ)) := this.symm
      _ ≤ (2:ℚ)^((N.log2:ℤ) - (D.log2:ℤ) + 1) * (D:ℚ) := by
          apply mul_le_mul_of_nonneg_left _ (le_of_lt (two_zpow_pos _))
          rw [zpow_natCast]; exact hD1
  split_ifs with hc
  · exact ⟨hc, upper⟩
  · rw [not_le] at hc
    refine ⟨le_of_lt lower, ?_⟩
    have : (N.log2:ℤ) - (D.log2:ℤ) - 1 + 1 = (N.log2:ℤ) - (D.log2:ℤ) := by ring
    rw [this]; exact hc


theorem ilog2_unique {q : ℚ} {e : ℤ} (h1 : (2:ℚ)^e ≤ |q|) (h2 : |q| < (2:ℚ)^(e+1)) : ilog2 q = e := by
  have hq : q ≠ 0 := by
    intro h0; rw [h0, abs_zero] at h1; exact absurd h1 (not_le.mpr (two_zpow_pos e))
  obtain ⟨s1, s2⟩ := ilog2_spec hq
  have a1 : (2:ℚ)^e < (2:ℚ)^(ilog2 q + 1) := lt_of_le_of_lt h1 s2
  have a2 : (2:ℚ)^(ilog2 q) < (2:ℚ)^(e + 1) := lt_of_le_of_lt s1 h2
  rw [zpow_lt_zpow_iff_right₀ (by norm_num : (1:ℚ) < 2)] at a1 a2
  omega

theorem fl_zero : fl 0 = 0 := by simp [fl]

theorem fl_eq {q : ℚ} (h : q ≠ 0) :
    fl q = ((rhe (q / (2:ℚ)^(ilog2 q - 52)) : ℤ) : ℚ) * (2:ℚ)^(ilog2 q - 52) := by
  unfold fl
  simp only [h, if_false, pow2_eq_zpow]

theorem fl_abs_err {q : ℚ} (h : q ≠ 0) : |fl q - q| ≤ (2:ℚ)^(ilog2 q - 53) := by
  rw [fl_eq h]
  set e := ilog2 q - 52 with he
  have hp := two_zpow_pos e
  have hx := rhe_err (q / (2:ℚ)^e)
  have : ((rhe (q / (2:ℚ)^e) : ℤ) : ℚ) * (2:ℚ)^e - q = (((rhe (q / (2:ℚ)^e) : ℤ) : ℚ) - q / (2:ℚ)^e) * (2:ℚ)^e := by
    field_simp
  rw [this, abs_mul, abs_of_pos hp]
  have h53 : (2:ℚ)^(ilog2 q - 53) = 1/2 * (2:ℚ)^e := by
    have : ilog2 q - 53 = -1 + e := by omega
    rw [this, zpow_add₀ (by norm_num : (2:ℚ) ≠ 0)]; norm_num
  rw [h53]
  exact mul_le_mul_of_nonneg_right hx (le_of_lt hp)

theorem fl_rel_err (q : ℚ) : |fl q - q| ≤ |q| / 2^53 := by
  by_cases h : q = 0
  · subst h; simp [fl_zero]
  · refine le_trans (fl_abs_err h) ?_
    have : (2:ℚ)^(ilog2 q - 53) = (2:ℚ)^(ilog2 q) / 2^53 := by
      rw [zpow_sub₀ (by norm_num : (2:ℚ) ≠ 0)]; norm_num
    rw [this]
    exact div_le_div_of_nonneg_right (ilog2_spec h).1 (by positivity)

theorem rhe_nonneg {q : ℚ} (h : 0 ≤ q) : 0 ≤ rhe q := by
  have := rhe_mono h
  rw [show ((0:ℚ)) = ((0:ℤ):ℚ) by norm_num, rhe_intCast] at this
  exact this

theorem fl_nonneg {q : ℚ} (h : 0 ≤ q) : 0 ≤ fl q := by
  by_cases h0 : q = 0
  · subst h0; simp [fl_zero]
  · rw [fl_eq h0]
    have hp := two_zpow_pos (ilog2 q - 52)
    have : 0 ≤ rhe (q / (2:ℚ)^(ilog2 q - 52)) := rhe_nonneg (div_nonneg h (le_of_lt hp))
    exact mul_nonneg (by exact_mod_cast this) (le_of_lt hp)

/-- a positive number and its rounding lie in the same closed binade -/
theorem fl_binade {q : ℚ} (h : 0 < q) : (2:ℚ)^(ilog2 q) ≤ fl q ∧ fl q ≤ (2:ℚ)^(ilog2 q + 1) := by
  have h0 : q ≠ 0 := ne_of_gt h
  obtain ⟨s1, s2⟩ := ilog2_spec h0
  rw [abs_of_pos h] at s1 s2
  rw [fl_eq h0]
  set e := ilog2 q - 52 with he
  have hp := two_zpow_pos e
  have two_ne : (2:ℚ) ≠ 0 := by norm_num
  have e1 : (2:ℚ)^(ilog2 q) = ((2^52 : ℤ) : ℚ) * (2:ℚ)^e := by
    have : ilog2 q = 52 + e := by omega
    rw [this, zpow_add₀ two_ne]; norm_num
  have e2 : (2:ℚ)^(ilog2 q + 1) = ((2^53 : ℤ) : ℚ) * (2:ℚ)^e := by
    have : ilog2 q + 1 = 53 + e := by omega
    rw [this, zpow_add₀ two_ne]; norm_num
  have l1 : ((2^52 : ℤ) : ℚ) ≤ q / (2:ℚ)^e := by
    rw [le_div_iff₀ hp, ← e1]; exact s1
  have l2 : q / (2:ℚ)^e ≤ ((2^53 : ℤ) : ℚ) := by
    rw [div_le_iff₀ hp, ← e2]; exact le_of_lt s2
  have r1 := rhe_mono l1
  have r2 := rhe_mono l2
  rw [rhe_intCast] at r1 r2
  constructor
  · rw [e1]; exact mul_le_mul_of_nonneg_right (by exact_mod_cast r1) (le_of_lt hp)
  · rw [e2]; exact mul_le_mul_of_nonneg_right (by exact_mod_cast r2) (le_of_lt hp)

theorem fl_mono_nonneg {a b : ℚ} (ha : 0 ≤ a) (h : a ≤ b) : fl a ≤ fl b := by
  rcases eq_or_lt_of_le ha with h0 | hpos
  · rw [← h0, fl_zero]; exact fl_nonneg (le_trans ha h)
  · have hb : 0 < b := lt_of_lt_of_le hpos h
    have ha0 : a ≠ 0 := ne_of_gt hpos
    have hb0 : b ≠ 0 := ne_of_gt hb
    obtain ⟨a1, a2⟩ := ilog2_spec ha0
    obtain ⟨b1, b2⟩ := ilog2_spec hb0
    rw [abs_of_pos hpos] at a1 a2
    rw [abs_of_pos hb] at b1 b2
    have hi : ilog2 a ≤ ilog2 b := by
      have : (2:ℚ)^(ilog2 a) < (2:ℚ)^(ilog2 b + 1) := lt_of_le_of_lt a1 (lt_of_le_of_lt h b2)
      rw [zpow_lt_zpow_iff_right₀ (by norm_num : (1:ℚ) < 2)] at this
      omega
    rcases eq_or_lt_of_le hi with heq | hlt
    · rw [fl_eq ha0, fl_eq hb0, heq]
      have hp := two_zpow_pos (ilog2 b - 52)
      have : a / (2:ℚ)^(ilog2 b - 52) ≤ b / (2:ℚ)^(ilog2 b - 52) := div_le_div_of_nonneg_right h (le_of_lt hp)
      have := rhe_mono this
      exact mul_le_mul_of_nonneg_right (by exact_mod_cast this) (le_of_lt hp)
    · calc fl a ≤ (2:ℚ)^(ilog2 a + 1) := (fl_binade hpos).2
        _ ≤ (2:ℚ)^(ilog2 b) := zpow_le_zpow_right₀ (by norm_num) (by omega)
        _ ≤ fl b := (fl_binade hb).1

/-- numbers that fit into 53 bits at their own exponent are not changed by rounding -/
theorem fl_exact {q : ℚ} (h : q ≠ 0) (z : ℤ) (hz : q / (2:ℚ)^(ilog2 q - 52) = (z : ℚ)) : fl q = q := by
  rw [fl_eq h, hz, rhe_intCast, ← hz]
  field_simp

theorem fl_natCast {n : ℕ} (h : n < 2^53) : fl (n : ℚ) = n := by
  by_cases h0 : n = 0
  · subst h0; simp [fl_zero]
  · have hq : (n : ℚ) ≠ 0 := by exact_mod_cast h0
    have hpos : (0:ℚ) < n := by exact_mod_cast Nat.pos_of_ne_zero h0
    obtain ⟨s1, _⟩ := ilog2_spec hq
    rw [abs_of_pos hpos] at s1
    have hi : ilog2 (n:ℚ) < 53 := by
      have : (2:ℚ)^(ilog2 (n:ℚ)) < (2:ℚ)^(53:ℤ) := by
        refine lt_of_le_of_lt s1 ?_
        calc (n:ℚ) < ((2^53 : ℕ) : ℚ) := by exact_mod_cast h
          _ = (2:ℚ)^(53:ℤ) := by norm_num
      rwa [zpow_lt_zpow_iff_right₀ (by norm_num : (1:ℚ) < 2)] at this
    obtain ⟨k, hk⟩ : ∃ k : ℕ, ilog2 (n:ℚ) - 52 = -(k:ℤ) := ⟨(52 - ilog2 (n:ℚ)).toNat, by omega⟩
    apply fl_exact hq ((n : ℤ) * 2^k)
    rw [hk, zpow_neg, zpow_natCast]
    push_cast
    field_simp

theorem fl_intCast_nat {n : ℕ} (h : n < 2^53) : fl (((n:ℤ)) : ℚ) = n := by
  simpa using fl_natCast h

theorem fl_le_nat {q : ℚ} {n : ℕ} (hn : n < 2^53) (hq0 : 0 ≤ q) (h : q ≤ n) : fl q ≤ n := by
  have := fl_mono_nonneg hq0 h
  rwa [fl_natCast hn] at this

theorem nat_le_fl {q : ℚ} {n : ℕ} (hn : n < 2^53) (h : (n:ℚ) ≤ q) : (n:ℚ) ≤ fl q := by
  have := fl_mono_nonneg (by positivity) h
  rwa [fl_natCast hn] at this

end Dbl
