import RallyProofs.MechanicBase
namespace Mechanic

/-- which messages can be in which channel (first, permissive layer) -/
def allowed (H : Nat) : Aid → Aid → Msg → Prop
  | .rc, .mech, .startEngine => True
  | .rc, .mech, .stopEngine => True
  | .mech, .rc, .engineStarted => True
  | .mech, .rc, .engineStopped => True
  | .mech, .rc, .failure _ => True
  | .mech, .disp, .startEngine => True
  | .mech, .disp, .poison _ => True
  | .disp, .mech, .failure _ => True
  | .sys, .disp, .conv _ _ => True
  | .disp, .sys, .poison _ => True
  | .disp, .node h, .startNodes h' r => h' = h ∧ r = .mech ∧ h < H
  | .node h, .mech, .nodesStarted => h < H
  | .node h, .mech, .nodesStopped => h < H
  | .node h, .mech, .failure _ => h < H
  | .mech, .node h, .stopNodes => h < H
  | .mech, .node h, .exitReq => h < H
  | .mech, .node h, .failure _ => h < H
  | .mech, .node h, .poison _ => h < H
  | .node h, .disp, .childExited h' => h' = h
  | _, _, _ => False

theorem mem_told {b : Aid} {m : Msg} {effs : List Eff} : m ∈ told b effs ↔ Eff.tell b m ∈ effs := by
  induction effs with
  | nil => simp [told]
  | cons e r ih =>
    cases e with
    | tell d m' =>
      simp only [told]
      by_cases h : d = b
      · subst h; simp [ih]
      · simp [h, ih]; intro hh; exact absurd hh.symm h
    | _ => simp [told, ih]

theorem mem_exitReqs {l : List (Option Aid)} {d : Aid} {m : Msg} :
    Eff.tell d m ∈ (exitReqs l).1 → m = .exitReq ∧ some d ∈ l := by
  induction l with
  | nil => simp [exitReqs]
  | cons c r ih =>
    cases c with
    | none => simp [exitReqs]
    | some a =>
      simp only [exitReqs, List.mem_cons]
      rintro (h | h)
      · injection h with h1 h2; subst h1 h2; simp
      · have := ih h; exact ⟨this.1, Or.inr this.2⟩

theorem mem_somes {l : List (Option Aid)} {a : Aid} : a ∈ somes l ↔ some a ∈ l := by
  induction l with
  | nil => simp [somes]
  | cons c r ih => cases c <;> simp [somes, ih]


theorem runTwice_ok {σ : Type} (hd : σ → Res σ) (st : σ) (sender : Aid) (msg : Msg)
    (h : (hd st).raised = false) : runTwice hd st sender msg = ((hd st).st, (hd st).effs) := by
  simp [runTwice, h]

@[simp] theorem guard_raised {σ : Type} (sender : Aid) (r : Res σ) : (guard sender r).raised = false := by
  unfold guard; split <;> simp_all

theorem guard_effs {σ : Type} (sender : Aid) (r : Res σ) (e : Eff) :
    e ∈ (guard sender r).effs → e ∈ r.effs ∨ e = Eff.tell sender (.failure .guard) := by
  unfold guard; split <;> simp_all

@[simp] theorem guard_st {σ : Type} (sender : Aid) (r : Res σ) : (guard sender r).st = r.st := by
  unfold guard; split <;> simp_all

/-- typing facts about the MechanicActor's own state -/
structure LTm (H : Nat) (st : MSt) : Prop where
  rc : st.raceControl = none ∨ st.raceControl = some .rc
  children : ∀ c ∈ st.children, c = none ∨ ∃ h, h < H ∧ c = some (.node h)

theorem onStarted_ty {H : Nat} {st : MSt} (h : LTm H st) :
    LTm H (onStarted st).st ∧ ∀ d m, Eff.tell d m ∈ (onStarted st).effs → allowed H .mech d m := by
  unfold onStarted
  rcases h.rc with h1 | h1 <;> simp [h1, h, allowed]

theorem onStopped_ty {H : Nat} {st : MSt} (h : LTm H st) :
    LTm H (onStopped st).st ∧ ∀ d m, Eff.tell d m ∈ (onStopped st).effs → allowed H .mech d m := by
  unfold onStopped
  rcases h.rc with h1 | h1
  · simp [h1, h]
  · simp only [h1]
    have key : ∀ d m, Eff.tell d m ∈ Eff.tell Aid.rc Msg.engineStopped :: (exitReqs st.children).1 → allowed H .mech d m := by
      intro d m hm
      rcases List.mem_cons.1 hm with hm | hm
      · injection hm with h2 h3; subst h2 h3; simp [allowed]
      · obtain ⟨h2, h3⟩ := mem_exitReqs hm
        subst h2
        rcases h.children _ h3 with h4 | ⟨k, hk, h4⟩
        · cases h4
        · injection h4 with h4; subst h4; simp [allowed, hk]
    split
    · exact ⟨h, key⟩
    · exact ⟨⟨Or.inr rfl, by simp⟩, key⟩

theorem transition_ty {H : Nat} {st : MSt} (h : LTm H st) (e n : Status) (k : MSt → Res MSt)
    (hk : ∀ st', LTm H st' → LTm H (k st').st ∧ ∀ d m, Eff.tell d m ∈ (k st').effs → allowed H .mech d m) :
    LTm H (transition st e n k).st ∧ ∀ d m, Eff.tell d m ∈ (transition st e n k).effs → allowed H .mech d m := by
  unfold transition
  split
  · simp only []
    split
    · exact hk _ ⟨h.rc, h.children⟩
    · split
      · exact ⟨⟨h.rc, h.children⟩, by simp⟩
      · exact ⟨⟨h.rc, h.children⟩, by simp⟩
  · exact ⟨h, by simp⟩

theorem tellRc_ty {H : Nat} {st : MSt} (h : LTm H st) (k : FKind) :
    LTm H (tellRc st (.failure k)).st ∧ ∀ d m, Eff.tell d m ∈ (tellRc st (.failure k)).effs → allowed H .mech d m := by
  unfold tellRc
  rcases h.rc with h1 | h1 <;> simp [h1, h, allowed]

theorem mem_dropLast_of {α : Type} {l : List α} {a : α} (h : a ∈ l.dropLast) : a ∈ l :=
  List.dropLast_subset l h

/-- one run of the MechanicActor's handler on an allowed message keeps typing and tells only allowed messages -/
theorem recvMech_ty {cfg : Config} {st : MSt} {msg : Msg} {src : Aid} (h : LTm (nHosts cfg) st)
    (ha : allowed (nHosts cfg) src .mech msg) :
    LTm (nHosts cfg) (recvMech cfg st msg src).st ∧
      ∀ d m, Eff.tell d m ∈ (recvMech cfg st msg src).effs → allowed (nHosts cfg) .mech d m := by
  cases msg <;> cases src <;> simp only [allowed] at ha
  · -- startEngine from rc
    simp only [recvMech, guard_st, mechStart]
    refine ⟨?_, ?_⟩
    · split
      · exact ⟨Or.inr rfl, h.children⟩
      · split
        · exact ⟨Or.inr rfl, h.children⟩
        · refine ⟨Or.inr rfl, ?_⟩
          intro c hc; left; exact (List.mem_replicate.1 hc).2
    · intro d m hm
      rcases guard_effs _ _ _ hm with hm | hm
      · split at hm
        · simp at hm
        · split at hm
          · simp at hm; obtain ⟨h1, h2⟩ := hm; subst h1 h2; simp [allowed]
          · simp at hm; obtain ⟨h1, h2⟩ := hm; subst h1 h2; simp [allowed]
      · injection hm with h1 h2; subst h1 h2; simp [allowed]
  · -- stopEngine from rc
    simp only [recvMech, guard_st, mechStop]
    refine ⟨?_, ?_⟩
    · split
      · exact (onStopped_ty h).1
      · exact ⟨h.rc, h.children⟩
    · intro d m hm
      rcases guard_effs _ _ _ hm with hm | hm
      · split at hm
        · exact (onStopped_ty h).2 d m hm
        · simp only [List.mem_map] at hm
          obtain ⟨a, ha1, ha2⟩ := hm
          injection ha2 with h1 h2; subst h1 h2
          rcases h.children _ (mem_somes.1 ha1) with h4 | ⟨k, hk, h4⟩
          · cases h4
          · injection h4 with h4; subst h4; simp [allowed, hk]
      · injection hm with h1 h2; subst h1 h2; simp [allowed]
  · -- nodesStarted from node
    rename_i k
    simp only [recvMech, guard_st, mechNodesStarted]
    have h1 : LTm (nHosts cfg) (if some (Aid.node k) ∈ st.children then st
        else { st with children := (some (Aid.node k) :: st.children).dropLast }) := by
      split
      · exact h
      · refine ⟨h.rc, ?_⟩
        intro c hc
        rcases List.mem_cons.1 (mem_dropLast_of hc) with hc | hc
        · right; exact ⟨k, ha, hc⟩
        · exact h.children c hc
    have := transition_ty h1 .starting .clusterStarted onStarted (fun st' hs => onStarted_ty hs)
    refine ⟨this.1, ?_⟩
    intro d m hm
    rcases guard_effs _ _ _ hm with hm | hm
    · exact this.2 d m hm
    · injection hm with h1 h2; subst h1 h2; simp [allowed, ha]
  · -- nodesStopped from node
    rename_i k
    simp only [recvMech, guard_st, mechNodesStopped]
    have := transition_ty h .clusterStopping .clusterStopped onStopped (fun st' hs => onStopped_ty hs)
    refine ⟨this.1, ?_⟩
    intro d m hm
    rcases guard_effs _ _ _ hm with hm | hm
    · exact this.2 d m hm
    · injection hm with h1 h2; subst h1 h2; simp [allowed, ha]
  · -- failure from disp
    simp only [recvMech]; exact tellRc_ty h _
  · -- failure from node
    simp only [recvMech]; exact tellRc_ty h _


theorem mech_run_ty {cfg : Config} {st : MSt} {msg : Msg} {src : Aid} (h : LTm (nHosts cfg) st)
    (ha : allowed (nHosts cfg) src .mech msg) :
    LTm (nHosts cfg) (runTwice (fun st => recvMech cfg st msg src) st src msg).1 ∧
      ∀ d m, Eff.tell d m ∈ (runTwice (fun st => recvMech cfg st msg src) st src msg).2 →
        allowed (nHosts cfg) .mech d m := by
  have h1 := recvMech_ty (cfg := cfg) h ha
  by_cases hr : (recvMech cfg st msg src).raised = false
  · rw [runTwice_ok _ _ _ _ hr]; exact h1
  · have h2 := recvMech_ty (cfg := cfg) h1.1 ha
    -- only the unguarded `failure` handler can raise
    have hp : allowed (nHosts cfg) .mech src (.poison msg) := by
      cases msg <;> cases src <;> simp only [allowed] at ha <;>
        first
        | (exfalso; apply hr; simp [recvMech]; done)
        | simp [allowed, ha]
    simp only [runTwice]
    split
    · split
      · refine ⟨h2.1, ?_⟩
        intro d m hm
        simp only [List.mem_append] at hm
        rcases hm with (hm | hm) | hm
        · exact h1.2 d m hm
        · exact h2.2 d m hm
        · split at hm
          · simp at hm
          · simp at hm; obtain ⟨h3, h4⟩ := hm; subst h3 h4; exact hp
      · refine ⟨h2.1, ?_⟩
        intro d m hm
        simp only [List.mem_append] at hm
        rcases hm with hm | hm
        · exact h1.2 d m hm
        · exact h2.2 d m hm
    · exact h1

/-! ### Dispatcher -/

structure LTd (H : Nat) (st : DSt) : Prop where
  ss : st.startSender = none ∨ st.startSender = some .mech
  work : ∀ pending remotes, st.work = some (pending, remotes) →
    (∀ p ∈ pending, p.1 < H ∧ p.2 = .mech) ∧ (∀ r ∈ remotes, ∀ p ∈ r.2, p.1 < H ∧ p.2 = .mech)

theorem addRemote_ty {P : Nat × Aid → Prop} {rs : List (Nat × List (Nat × Aid))} {ip : Nat} {x : Nat × Aid}
    (h : ∀ r ∈ rs, ∀ p ∈ r.2, P p) (hx : P x) : ∀ r ∈ addRemote rs ip x, ∀ p ∈ r.2, P p := by
  induction rs with
  | nil =>
    intro r hr p hp
    simp only [addRemote, List.mem_singleton] at hr
    subst hr
    simp only [List.mem_singleton] at hp
    subst hp; exact hx
  | cons r rest ih =>
    obtain ⟨k, xs⟩ := r
    simp only [addRemote]
    split
    · intro r hr p hp
      rcases List.mem_cons.1 hr with hr | hr
      · subst hr
        rcases List.mem_append.1 hp with hp | hp
        · exact h _ (List.mem_cons_self) p hp
        · simp at hp; subst hp; exact hx
      · exact h r (List.mem_cons_of_mem _ hr) p hp
    · intro r hr p hp
      rcases List.mem_cons.1 hr with hr | hr
      · subst hr; exact h _ (List.mem_cons_self) p hp
      · exact ih (fun r hr => h r (List.mem_cons_of_mem _ hr)) r hr p hp

theorem lookupRemote_ty {P : Nat × Aid → Prop} {rs : List (Nat × List (Nat × Aid))} {ip : Nat}
    (h : ∀ r ∈ rs, ∀ p ∈ r.2, P p) : ∀ p ∈ lookupRemote rs ip, P p := by
  induction rs with
  | nil => simp [lookupRemote]
  | cons r rest ih =>
    obtain ⟨k, xs⟩ := r
    simp only [lookupRemote]
    split
    · exact h _ (List.mem_cons_self)
    · exact ih (fun r hr => h r (List.mem_cons_of_mem _ hr))

theorem eraseRemote_ty {P : Nat × Aid → Prop} {rs : List (Nat × List (Nat × Aid))} {ip : Nat}
    (h : ∀ r ∈ rs, ∀ p ∈ r.2, P p) : ∀ r ∈ eraseRemote rs ip, ∀ p ∈ r.2, P p := by
  induction rs with
  | nil => simp [eraseRemote]
  | cons r rest ih =>
    obtain ⟨k, xs⟩ := r
    simp only [eraseRemote]
    split
    · exact fun r hr => h r (List.mem_cons_of_mem _ hr)
    · intro r hr
      rcases List.mem_cons.1 hr with hr | hr
      · subst hr; exact h _ (List.mem_cons_self)
      · exact ih (fun r hr => h r (List.mem_cons_of_mem _ hr)) r hr

theorem distribute_ty (sender : Aid) (l : List ((Nat × Nat) × List Nat)) (i : Nat)
    (acc : List Eff × List (Nat × Aid) × List (Nat × List (Nat × Aid)))
    (P : Nat × Aid → Prop) (hP : ∀ h, i ≤ h → h < i + l.length → P (h, sender))
    (h1 : ∀ d m, Eff.tell d m ∉ acc.1) (h2 : ∀ p ∈ acc.2.1, P p) (h3 : ∀ r ∈ acc.2.2, ∀ p ∈ r.2, P p) :
    (∀ d m, Eff.tell d m ∉ (distribute sender l i acc).1) ∧ (∀ p ∈ (distribute sender l i acc).2.1, P p) ∧
      (∀ r ∈ (distribute sender l i acc).2.2, ∀ p ∈ r.2, P p) := by
  induction l generalizing i acc with
  | nil => simp only [distribute]; exact ⟨h1, h2, h3⟩
  | cons g rest ih =>
    obtain ⟨⟨ip, port⟩, ids⟩ := g
    obtain ⟨effs, pending, remotes⟩ := acc
    simp only [distribute]
    have hi : P (i, sender) := hP i (Nat.le_refl _) (by simp)
    have hP' : ∀ h, i + 1 ≤ h → h < i + 1 + rest.length → P (h, sender) :=
      fun h ha hb => hP h (by omega) (by simp; omega)
    split
    · apply ih (i + 1) _ hP'
      · intro d m hm
        rcases List.mem_append.1 hm with hm | hm
        · exact h1 d m hm
        · simp at hm
      · intro p hp
        rcases List.mem_append.1 hp with hp | hp
        · exact h2 p hp
        · simp at hp; subst hp; exact hi
      · exact h3
    · apply ih (i + 1) _ hP'
      · exact h1
      · exact h2
      · exact addRemote_ty h3 hi

theorem sendAll_ty {H : Nat} {pending : List (Nat × Aid)} (h : ∀ p ∈ pending, p.1 < H ∧ p.2 = .mech) :
    ∀ d m, Eff.tell d m ∈ sendAll pending → allowed H .disp d m := by
  intro d m hm
  simp only [sendAll, List.mem_map] at hm
  obtain ⟨p, hp, he⟩ := hm
  injection he with h1 h2; subst h1 h2
  have := h p hp
  simp [allowed, this.1, this.2]

theorem recvDisp_ty {cfg : Config} {st : DSt} {msg : Msg} {src : Aid} (h : LTd (nHosts cfg) st)
    (ha : allowed (nHosts cfg) src .disp msg) :
    LTd (nHosts cfg) (recvDisp cfg st msg src).st ∧
      ∀ d m, Eff.tell d m ∈ (recvDisp cfg st msg src).effs → allowed (nHosts cfg) .disp d m := by
  cases msg <;> cases src <;> simp only [allowed] at ha
  · -- startEngine from mech
    simp only [recvDisp, guard_st]
    have hd := distribute_ty .mech (groups cfg) 0 ([], [], []) (fun p => p.1 < nHosts cfg ∧ p.2 = .mech)
      (by intro h _ hh; exact ⟨by simpa [nHosts] using hh, rfl⟩) (by simp) (by simp) (by simp)
    generalize distribute Aid.mech (groups cfg) 0 ([], [], []) = dd at hd
    obtain ⟨effs, pending, remotes⟩ := dd
    simp only at hd
    refine ⟨?_, ?_⟩
    · split
      · exact ⟨Or.inr rfl, by intro p r hw; injection hw with hw; injection hw with h1 h2; subst h1 h2; simp⟩
      · exact ⟨Or.inr rfl, by intro p r hw; injection hw with hw; injection hw with h1 h2; subst h1 h2; exact ⟨hd.2.1, hd.2.2⟩⟩
    · intro d m hm
      rcases guard_effs _ _ _ hm with hm | hm
      · split at hm
        · rcases List.mem_append.1 hm with hm | hm
          · exact absurd hm (hd.1 d m)
          · exact sendAll_ty hd.2.1 d m hm
        · rcases List.mem_append.1 hm with hm | hm
          · exact absurd hm (hd.1 d m)
          · simp at hm
      · injection hm with h1 h2; subst h1 h2
        simp [allowed]
  · -- childExited from node
    simp [recvDisp]; exact h
  · -- conv from sys
    rename_i added ip
    cases added
    · simp only [recvDisp]
      split
      · split
        · exact ⟨h, by simp⟩
        · rename_i a hs
          refine ⟨h, ?_⟩
          rcases h.ss with h1 | h1
          · rw [h1] at hs; cases hs
          · rw [h1] at hs; injection hs with hs; subst hs
            intro d m hm; simp at hm; obtain ⟨h3, h4⟩ := hm; subst h3 h4; simp [allowed]
      · exact ⟨h, by simp⟩
    · simp only [recvDisp]
      split
      · exact ⟨h, by simp⟩
      · rename_i pending remotes hw
        have hw' := h.work pending remotes hw
        have hp' : ∀ p ∈ pending ++ lookupRemote remotes ip, p.1 < nHosts cfg ∧ p.2 = Aid.mech := by
          intro p hp
          rcases List.mem_append.1 hp with hp | hp
          · exact hw'.1 p hp
          · exact lookupRemote_ty hw'.2 p hp
        split
        · refine ⟨⟨h.ss, by intro p r hw2; injection hw2 with hw2; injection hw2 with h1 h2; subst h1 h2; simp⟩, ?_⟩
          intro d m hm
          simp only [List.mem_append, List.mem_map] at hm
          rcases hm with (⟨_, _, hm⟩ | hm) | hm
          · cases hm
          · simp at hm
          · exact sendAll_ty hp' d m hm
        · refine ⟨⟨h.ss, ?_⟩, ?_⟩
          · intro p r hw2; injection hw2 with hw2; injection hw2 with h1 h2; subst h1 h2
            exact ⟨hp', eraseRemote_ty hw'.2⟩
          · intro d m hm
            simp only [List.mem_map] at hm
            obtain ⟨_, _, hm⟩ := hm; cases hm
  · -- poison from mech
    simp only [recvDisp]
    split
    · exact ⟨h, by simp⟩
    · rename_i a hs
      refine ⟨h, ?_⟩
      rcases h.ss with h1 | h1
      · rw [h1] at hs; cases hs
      · rw [h1] at hs; injection hs with hs; subst hs
        intro d m hm; simp at hm; obtain ⟨h3, h4⟩ := hm; subst h3 h4; simp [allowed]


theorem disp_run_ty {cfg : Config} {st : DSt} {msg : Msg} {src : Aid} (h : LTd (nHosts cfg) st)
    (ha : allowed (nHosts cfg) src .disp msg) :
    LTd (nHosts cfg) (runTwice (fun st => recvDisp cfg st msg src) st src msg).1 ∧
      ∀ d m, Eff.tell d m ∈ (runTwice (fun st => recvDisp cfg st msg src) st src msg).2 →
        allowed (nHosts cfg) .disp d m := by
  have h1 := recvDisp_ty (cfg := cfg) h ha
  by_cases hr : (recvDisp cfg st msg src).raised = false
  · rw [runTwice_ok _ _ _ _ hr]; exact h1
  · have h2 := recvDisp_ty (cfg := cfg) h1.1 ha
    have hp : ∀ d m, Eff.tell d m ∈ (match msg with | .poison _ => [] | _ => [Eff.tell src (.poison msg)]) →
        allowed (nHosts cfg) .disp d m := by
      cases msg <;> cases src <;> simp only [allowed] at ha <;>
        first
        | (exfalso; apply hr; simp [recvDisp]; done)
        | (intro d m hm; simp at hm; obtain ⟨h3, h4⟩ := hm; subst h3 h4; simp [allowed]; done)
        | (intro d m hm; simp at hm; done)
    simp only [runTwice]
    split
    · split
      · refine ⟨h2.1, ?_⟩
        intro d m hm
        simp only [List.mem_append] at hm
        rcases hm with (hm | hm) | hm
        · exact h1.2 d m hm
        · exact h2.2 d m hm
        · exact hp d m hm
      · refine ⟨h2.1, ?_⟩
        intro d m hm
        simp only [List.mem_append] at hm
        rcases hm with hm | hm
        · exact h1.2 d m hm
        · exact h2.2 d m hm
    · exact h1

/-! ### NodeMechanicActor -/

theorem prepares_no_tell (h : Nat) (f : Option Nat) (ids : List Nat) (j : Nat) (d : Aid) (m : Msg) :
    Eff.tell d m ∉ (prepares h f ids j).1 := by
  induction ids generalizing j with
  | nil => simp [prepares]
  | cons id rest ih =>
    simp only [prepares]
    split
    · simp
    · simp [ih]

theorem stopEffs_no_tell (cfg : Config) (mm : Mech) (d : Aid) (m : Msg) : Eff.tell d m ∉ stopEffs cfg mm := by
  simp [stopEffs]

theorem startNodes_tell {cfg : Config} {st : NSt} {h : Nat} {r d : Aid} {m : Msg}
    (hm : Eff.tell d m ∈ (startNodes cfg st h r).2) : d = r ∧ (m = .nodesStarted ∨ m = .failure (.start h)) := by
  unfold startNodes at hm
  have hp := prepares_no_tell h
  simp only [] at hm
  repeat' split at hm
  all_goals (simp [hp] at hm; simp [hm])

theorem recvNode_ty {cfg : Config} {st : NSt} {msg : Msg} {src : Aid} {h : Nat}
    (ha : allowed (nHosts cfg) src (.node h) msg ∨ (msg = .wakeup ∧ src = .node h)) :
    ∀ d m, Eff.tell d m ∈ (recvNode cfg h st msg src).2 → allowed (nHosts cfg) (.node h) d m := by
  intro d m hm
  rcases ha with ha | ⟨h1, h2⟩
  · cases msg <;> cases src <;> simp only [allowed] at ha
    · -- startNodes from disp
      obtain ⟨h1, h2, h3⟩ := ha; subst h1 h2
      simp only [recvNode] at hm
      obtain ⟨h4, h5⟩ := startNodes_tell hm
      subst h4; rcases h5 with h5 | h5 <;> subst h5 <;> simp [allowed, h3]
    · -- stopNodes from mech
      simp only [recvNode] at hm
      split at hm
      · simp [stopEffs_no_tell] at hm; obtain ⟨h3, h4⟩ := hm; subst h3 h4; simp [allowed, ha]
      · simp at hm; obtain ⟨h3, h4⟩ := hm; subst h3 h4; simp [allowed, ha]
    · -- failure from mech
      simp only [recvNode] at hm
      simp at hm; obtain ⟨h3, h4⟩ := hm; subst h3 h4; simp [allowed, ha]
    · -- exitReq from mech
      simp only [recvNode] at hm
      split at hm
      · simp [stopEffs_no_tell, exitEffs] at hm; obtain ⟨h3, h4⟩ := hm; subst h3 h4; simp [allowed]
      · simp [exitEffs] at hm; obtain ⟨h3, h4⟩ := hm; subst h3 h4; simp [allowed]
    · -- poison from mech
      simp only [recvNode] at hm
      simp at hm; obtain ⟨h3, h4⟩ := hm; subst h3 h4; simp [allowed, ha]
  · subst h1 h2
    simp only [recvNode] at hm
    split at hm <;> simp at hm

/-! ### the typing invariant -/

structure Ty (cfg : Config) (s : State) : Prop where
  chan : ∀ a b m, m ∈ s.chan a b → allowed (nHosts cfg) a b m
  m : LTm (nHosts cfg) s.m
  d : LTd (nHosts cfg) s.d

theorem mem_push {ch : Aid → Aid → List Msg} {x y a b : Aid} {m m' : Msg} :
    m ∈ push ch x y m' a b → m ∈ ch a b ∨ (a = x ∧ b = y ∧ m = m') := by
  unfold push
  split
  · rename_i h; intro hm
    rcases List.mem_append.1 hm with hm | hm
    · exact Or.inl hm
    · simp at hm; exact Or.inr ⟨h.1, h.2, hm⟩
  · exact Or.inl

theorem mem_setChan {ch : Aid → Aid → List Msg} {x y a b : Aid} {m msg : Msg} {rest : List Msg}
    (hc : ch x y = msg :: rest) : m ∈ setChan ch x y rest a b → m ∈ ch a b := by
  unfold setChan
  split
  · rename_i h; obtain ⟨h1, h2⟩ := h; subst h1 h2; rw [hc]; exact List.mem_cons_of_mem _
  · exact id

/-- the typing of the message being handled -/
theorem pre_allowed {cfg : Config} {s s0 : State} {dst src : Aid} {msg : Msg} (hT : Ty cfg s)
    (hp : Pre s s0 dst src msg) :
    (allowed (nHosts cfg) src dst msg ∨ (msg = .wakeup ∧ ∃ h, dst = .node h ∧ src = .node h)) ∧
      (∀ a b m, m ∈ s0.chan a b → m ∈ s.chan a b) ∧ s0.m = s.m ∧ s0.d = s.d := by
  cases hp with
  | pop src dst msg rest hc =>
    refine ⟨Or.inl (hT.chan _ _ _ (by rw [hc]; exact List.mem_cons_self)), ?_, rfl, rfl⟩
    intro a b m; exact mem_setChan hc
  | timer h _ _ => exact ⟨Or.inr ⟨rfl, h, rfl, rfl⟩, fun _ _ _ => id, rfl, rfl⟩

theorem ty_reach {cfg : Config} {s : State} {tr : List Out} (hr : Reach cfg s tr) : Ty cfg s := by
  induction hr with
  | init =>
    exact ⟨by simp [State.init], ⟨Or.inl rfl, by simp [State.init, MSt.init]⟩,
      ⟨Or.inl rfl, by simp [State.init, DSt.init]⟩⟩
  | @step s s' tr outs e hr hs ih =>
    refine step_elim (motive := fun s' _ => Ty cfg s') hs ?_ ?_ ?_ ?_ ?_
    · intro _
      refine ⟨?_, ih.m, ih.d⟩
      intro a b m hm
      rcases mem_push hm with hm | ⟨h1, h2, h3⟩
      · exact ih.chan a b m hm
      · subst h1 h2 h3; simp [allowed]
    · intro _ _
      refine ⟨?_, ih.m, ih.d⟩
      intro a b m hm
      rcases mem_push hm with hm | ⟨h1, h2, h3⟩
      · exact ih.chan a b m hm
      · subst h1 h2 h3; simp [allowed]
    · intro added ip _
      refine ⟨?_, ih.m, ih.d⟩
      intro a b m hm
      rcases mem_push hm with hm | ⟨h1, h2, h3⟩
      · exact ih.chan a b m hm
      · subst h1 h2 h3; simp [allowed]
    · intro s0 dst src msg hp _
      obtain ⟨_, h2, h3, h4⟩ := pre_allowed ih hp
      exact ⟨fun a b m hm => ih.chan a b m (h2 a b m hm), h3 ▸ ih.m, h4 ▸ ih.d⟩
    · intro s0 dst src msg s1 effs hp hh
      obtain ⟨h1, h2, h3, h4⟩ := pre_allowed ih hp
      have hc := handle_chan hh
      -- it is enough to type the new local state and the told messages
      suffices hsuff : LTm (nHosts cfg) s1.m ∧ LTd (nHosts cfg) s1.d ∧
          ∀ d m, Eff.tell d m ∈ effs → allowed (nHosts cfg) dst d m by
        refine ⟨?_, by simpa using hsuff.1, by simpa using hsuff.2.1⟩
        intro a b m hm
        rw [applyEffs_chan, hc] at hm
        rcases List.mem_append.1 hm with hm1 | hm2
        · exact ih.chan a b m (h2 a b m hm1)
        · by_cases hab : a = dst
          · subst hab; simp at hm2; exact hsuff.2.2 b m (mem_told.1 hm2)
          · simp [hab] at hm2
      have hm0 : LTm (nHosts cfg) s0.m := h3 ▸ ih.m
      have hd0 : LTd (nHosts cfg) s0.d := h4 ▸ ih.d
      cases dst with
      | rc => simp only [handle] at hh; cases hh; exact ⟨hm0, hd0, by simp⟩
      | sys => simp only [handle] at hh; cases hh; exact ⟨hm0, hd0, by simp⟩
      | mech =>
        simp only [handle] at hh; cases hh
        rcases h1 with h1 | ⟨_, k, hk, _⟩
        · have := mech_run_ty (cfg := cfg) hm0 h1
          exact ⟨this.1, hd0, this.2⟩
        · cases hk
      | disp =>
        simp only [handle] at hh
        split at hh
        · cases hh
          rcases h1 with h1 | ⟨_, k, hk, _⟩
          · have := disp_run_ty (cfg := cfg) hd0 h1
            exact ⟨hm0, this.1, this.2⟩
          · cases hk
        · cases hh
      | node h =>
        simp only [handle] at hh
        split at hh
        · cases hh
          refine ⟨hm0, hd0, ?_⟩
          apply recvNode_ty
          rcases h1 with h1 | ⟨h5, k, hk, h6⟩
          · exact Or.inl h1
          · injection hk with hk; subst hk; exact Or.inr ⟨h5, h6⟩
        · cases hh

end Mechanic
