import RallyProofs.MechanicTy

set_option linter.unusedSimpArgs false
set_option linter.unusedVariables false

namespace Mechanic

theorem not_allowed_wakeup (H : Nat) (a b : Aid) : ¬ allowed H a b .wakeup := by
  cases a <;> cases b <;> simp [allowed]

theorem recvRc_started_ne {r : RSt} {msg : Msg} (h : msg ≠ .engineStarted) : (recvRc r msg).started = r.started := by
  cases msg <;> simp [recvRc] at h ⊢

@[simp] theorem recvRc_sentStart (r : RSt) (msg : Msg) : (recvRc r msg).sentStart = r.sentStart := by
  cases msg <;> rfl
@[simp] theorem recvRc_sentStop (r : RSt) (msg : Msg) : (recvRc r msg).sentStop = r.sentStop := by
  cases msg <;> rfl
theorem recvRc_started_le (r : RSt) (msg : Msg) : r.started ≤ (recvRc r msg).started := by
  cases msg <;> simp [recvRc]

theorem chan_sent {cfg : Config} {s : State} {tr : List Out} (hr : Reach cfg s tr) {a b : Aid} {m : Msg}
    (hm : m ∈ s.chan a b) : Out.send a b m ∈ tr := by
  have hw : m ≠ .wakeup := by
    intro h; subst h; exact not_allowed_wakeup _ _ _ ((ty_reach hr).chan a b _ hm)
  have := conservation hr a b m hw
  have h1 : 0 < (s.chan a b).count m := List.count_pos_iff.2 hm
  exact List.count_pos_iff.1 (by omega)

theorem recv_sent {cfg : Config} {s : State} {tr : List Out} (hr : Reach cfg s tr) {a b : Aid} {m : Msg}
    (hw : m ≠ .wakeup) (hm : Out.recv b a m ∈ tr) : Out.send a b m ∈ tr := by
  have := conservation hr a b m hw
  have h1 : 0 < tr.count (Out.recv b a m) := List.count_pos_iff.2 hm
  exact List.count_pos_iff.1 (by omega)

/-- a message at the head of a channel has not been received as often as it was sent -/
theorem head_count {cfg : Config} {s : State} {tr : List Out} (hr : Reach cfg s tr) {a b : Aid} {m : Msg}
    {rest : List Msg} (hc : s.chan a b = m :: rest) :
    tr.count (Out.recv b a m) < tr.count (Out.send a b m) := by
  have hw : m ≠ .wakeup := by
    intro h; subst h
    exact not_allowed_wakeup _ _ _ ((ty_reach hr).chan a b _ (by rw [hc]; exact List.mem_cons_self))
  have := conservation hr a b m hw
  rw [hc] at this
  simp at this
  omega

/-! ### what one step can output -/

theorem handle_rc {cfg : Config} {s0 s1 : State} {src : Aid} {msg : Msg} {effs : List Eff}
    (h : handle cfg s0 .rc src msg = some (s1, effs)) : effs = [] ∧ s1 = { s0 with r := recvRc s0.r msg } := by
  simp only [handle] at h; cases h; exact ⟨rfl, rfl⟩

theorem handle_sys {cfg : Config} {s0 s1 : State} {src : Aid} {msg : Msg} {effs : List Eff}
    (h : handle cfg s0 .sys src msg = some (s1, effs)) : effs = [] ∧ s1 = s0 := by
  simp only [handle] at h; cases h; exact ⟨rfl, rfl⟩

theorem handle_mech {cfg : Config} {s0 s1 : State} {src : Aid} {msg : Msg} {effs : List Eff}
    (h : handle cfg s0 .mech src msg = some (s1, effs)) :
    effs = (runTwice (fun st => recvMech cfg st msg src) s0.m src msg).2 ∧
      s1 = { s0 with m := (runTwice (fun st => recvMech cfg st msg src) s0.m src msg).1 } := by
  simp only [handle] at h; cases h; exact ⟨rfl, rfl⟩

theorem handle_disp {cfg : Config} {s0 s1 : State} {src : Aid} {msg : Msg} {effs : List Eff}
    (h : handle cfg s0 .disp src msg = some (s1, effs)) :
    s0.dispCreated = true ∧ effs = (runTwice (fun st => recvDisp cfg st msg src) s0.d src msg).2 ∧
      s1 = { s0 with d := (runTwice (fun st => recvDisp cfg st msg src) s0.d src msg).1 } := by
  simp only [handle] at h
  split at h
  · rename_i hd; cases h; exact ⟨hd, rfl, rfl⟩
  · cases h

theorem handle_node {cfg : Config} {s0 s1 : State} {src : Aid} {msg : Msg} {effs : List Eff} {h : Nat}
    (hh : handle cfg s0 (.node h) src msg = some (s1, effs)) :
    (s0.n h).alive = true ∧ effs = (recvNode cfg h (s0.n h) msg src).2 ∧
      s1 = { s0 with n := updN s0.n h (recvNode cfg h (s0.n h) msg src).1 } := by
  simp only [handle] at hh
  split at hh
  · rename_i hd; cases hh; exact ⟨hd, rfl, rfl⟩
  · cases hh

/-! ### race control's flags -/

structure RInv (s : State) (tr : List Out) : Prop where
  r1 : tr.count (Out.send .rc .mech .startEngine) = if s.r.sentStart then 1 else 0
  r2 : tr.count (Out.send .rc .mech .stopEngine) = if s.r.sentStop then 1 else 0
  r3 : s.r.sentStop = true → s.r.started > 0
  r4 : s.r.started > 0 → Out.send .mech .rc .engineStarted ∈ tr

theorem count_send_rc_recv_step (dst src : Aid) (msg : Msg) (effs : List Eff) (b : Aid) (m : Msg)
    (h : dst = .rc → effs = []) :
    (Out.recv dst src msg :: effs.map (toOut dst)).count (Out.send .rc b m) = 0 := by
  rw [List.count_cons, count_toOut_send]
  by_cases hd : dst = .rc
  · subst hd; simp [h rfl, told]
  · have : ¬ (Aid.rc = dst) := fun hh => hd hh.symm
    simp [this]

theorem pre_r {s s0 : State} {dst src : Aid} {msg : Msg} (hp : Pre s s0 dst src msg) : s0.r = s.r := by
  cases hp <;> rfl

theorem rinv_reach {cfg : Config} {s : State} {tr : List Out} (hr : Reach cfg s tr) : RInv s tr := by
  induction hr with
  | init => exact ⟨by simp [State.init, RSt.init], by simp [State.init, RSt.init], by simp [State.init, RSt.init],
      by simp [State.init, RSt.init]⟩
  | @step s s' tr outs e hr hs ih =>
    refine step_elim (motive := fun s' outs => RInv s' (tr ++ outs)) hs ?_ ?_ ?_ ?_ ?_
    · intro h0
      refine ⟨?_, ?_, ih.r3, fun h => List.mem_append_left _ (ih.r4 h)⟩
      · have := ih.r1; simp [h0] at this; simp [List.count_append, this]
      · simp [List.count_append, ih.r2]
    · intro h1 h0
      refine ⟨?_, ?_, fun _ => h1, fun h => List.mem_append_left _ (ih.r4 h)⟩
      · simp [List.count_append, ih.r1]
      · have := ih.r2; simp [h0] at this; simp [List.count_append, this]
    · intro added ip _
      exact ⟨by simp [List.count_append, ih.r1], by simp [List.count_append, ih.r2], ih.r3,
        fun h => List.mem_append_left _ (ih.r4 h)⟩
    · intro s0 dst src msg hp _
      have h0 := pre_r hp
      exact ⟨by simp [List.count_append, ih.r1, h0], by simp [List.count_append, ih.r2, h0], by rw [h0]; exact ih.r3,
        fun h => List.mem_append_left _ (ih.r4 (by rw [← h0]; exact h))⟩
    · intro s0 dst src msg s1 effs hp hh
      have hrc : dst = .rc → effs = [] := by intro hd; subst hd; exact (handle_rc hh).1
      have c1 := count_send_rc_recv_step dst src msg effs .mech .startEngine hrc
      have c2 := count_send_rc_recv_step dst src msg effs .mech .stopEngine hrc
      by_cases hd : dst = .rc
      · subst hd
        obtain ⟨he, h1⟩ := handle_rc hh
        subst he h1
        have h0 := pre_r hp
        refine ⟨?_, ?_, ?_, ?_⟩ <;> simp only [applyEffs_r, h0]
        · rw [List.count_append, c1, ih.r1]; simp
        · rw [List.count_append, c2, ih.r2]; simp
        · intro h; have := ih.r3 (by simpa using h)
          have := recvRc_started_le s.r msg
          omega
        · intro h
          by_cases hm : msg = .engineStarted
          · subst hm
            cases hp with
            | pop src _ _ rest hc =>
              have hs := chan_sent hr (a := src) (b := .rc) (m := .engineStarted) (by rw [hc]; exact List.mem_cons_self)
              have ht := (ty_reach hr).chan src .rc .engineStarted (by rw [hc]; exact List.mem_cons_self)
              cases src <;> simp [allowed] at ht
              exact List.mem_append_left _ hs
          · apply List.mem_append_left
            apply ih.r4
            rw [recvRc_started_ne hm] at h; exact h
      · have hr1 : s1.r = s0.r := by
          cases dst with
          | rc => exact absurd rfl hd
          | sys => rw [(handle_sys hh).2]
          | mech => rw [(handle_mech hh).2]
          | disp => rw [(handle_disp hh).2.2]
          | node h => rw [(handle_node hh).2.2]
        have h0 := pre_r hp
        refine ⟨?_, ?_, ?_, ?_⟩ <;> simp only [applyEffs_r, hr1, h0]
        · rw [List.count_append, c1, ih.r1]; simp
        · rw [List.count_append, c2, ih.r2]; simp
        · exact ih.r3
        · exact fun h => List.mem_append_left _ (ih.r4 h)


/-! ### single-run view of the retry rule -/

def poisonEff (raised : Bool) (src : Aid) (msg : Msg) : List Eff :=
  if raised then (match msg with | .poison _ => [] | _ => [Eff.tell src (.poison msg)]) else []

theorem guard_effs_eq {σ : Type} (sender : Aid) (r : Res σ) :
    (guard sender r).effs = r.effs ++ if r.raised then [Eff.tell sender (.failure .guard)] else [] := by
  unfold guard; split <;> simp_all

theorem tellRc_raised {st : MSt} {m : Msg} (h : (tellRc st m).raised = true) :
    (tellRc st m).st = st ∧ (tellRc st m).effs = [] := by
  unfold tellRc at h ⊢; split <;> simp_all

@[simp] theorem tellRc_st (st : MSt) (m : Msg) : (tellRc st m).st = st := by
  unfold tellRc; split <;> rfl

theorem mech_raised {cfg : Config} {st : MSt} {msg : Msg} {src : Aid}
    (h : (recvMech cfg st msg src).raised = true) :
    (recvMech cfg st msg src).st = st ∧ (recvMech cfg st msg src).effs = [] := by
  cases msg <;> simp only [recvMech, guard_raised] at h ⊢ <;> try (first | exact ⟨trivial, trivial⟩ | exact ⟨rfl, rfl⟩ | exact tellRc_raised h | cases h)
  split at h
  · cases h
  · split
    · rename_i h1 h2; exact absurd h2 h1
    · exact tellRc_raised h

theorem mech_run (cfg : Config) (st : MSt) (msg : Msg) (src : Aid) :
    runTwice (fun st => recvMech cfg st msg src) st src msg =
      ((recvMech cfg st msg src).st,
        (recvMech cfg st msg src).effs ++ poisonEff (recvMech cfg st msg src).raised src msg) := by
  by_cases hr : (recvMech cfg st msg src).raised = true
  · obtain ⟨h1, h2⟩ := mech_raised hr
    simp only [runTwice, hr, h1, h2, poisonEff]
    simp
    try rfl
  · have hr' : (recvMech cfg st msg src).raised = false := by simpa using hr
    simp [runTwice, hr', poisonEff]

theorem recvDisp_raised {cfg : Config} {st : DSt} {msg : Msg} {src : Aid}
    (h : (recvDisp cfg st msg src).raised = true) :
    (recvDisp cfg st msg src).st = st ∧ (recvDisp cfg st msg src).effs = [] := by
  cases msg <;> simp only [recvDisp, guard_raised] at h ⊢ <;> try (first | cases h | exact ⟨rfl, rfl⟩)
  · split at h
    · rename_i h1; simp [h1]
    · cases h
  · rename_i added ip
    cases added
    · simp only [recvDisp] at h ⊢
      split at h
      · split at h
        · rename_i h1 _ h2; simp [h1, h2]
        · cases h
      · rename_i h1; simp [h1]
    · simp only [recvDisp] at h ⊢
      split at h
      · rename_i h1; simp [h1]
      · split at h <;> cases h
  · split at h
    · rename_i h1; simp [h1]
    · cases h

theorem disp_run (cfg : Config) (st : DSt) (msg : Msg) (src : Aid) :
    runTwice (fun st => recvDisp cfg st msg src) st src msg =
      ((recvDisp cfg st msg src).st,
        (recvDisp cfg st msg src).effs ++ poisonEff (recvDisp cfg st msg src).raised src msg) := by
  by_cases hr : (recvDisp cfg st msg src).raised = true
  · obtain ⟨h1, h2⟩ := recvDisp_raised hr
    simp only [runTwice, hr, h1, h2, poisonEff]
    simp
    try rfl
  · have hr' : (recvDisp cfg st msg src).raised = false := by simpa using hr
    simp [runTwice, hr', poisonEff]

end Mechanic
