import RallyModel.Race
import Mathlib.Data.Finset.Card
/-! Invariants of the race protocol model (C01): helper definitions and preservation lemmas. -/
namespace Race

/-- static well-formedness the allocator guarantees (C02) -/
structure Cfg.WF (cfg : Cfg) : Prop where
  W_pos : cfg.W > 0
  join0 : (cfg.joins 0).completing = [] ∧ (cfg.joins 0).anyC = []

def driveCount (l : List MsgDW) : Nat := l.count .drive

@[simp] theorem upd_same {α : Type} (f : Nat → α) (i : Nat) (v : α) : upd f i v i = v := by simp [upd]
@[simp] theorem upd_other {α : Type} (f : Nat → α) (i j : Nat) (v : α) (h : j ≠ i) : upd f i v j = f j := by simp [upd, h]

/-- per-worker invariant, relative to the number `D` of barrier openings so far -/
def WInv (cfg : Cfg) (s : State) (w : Nat) : Prop :=
  let ws := s.ws w
  let D := s.d.stepP1
  match ws.pos with
  | .unstarted =>
    D = 0 ∧ s.d2w w = [.startWorker] ∧ s.w2d w = [] ∧ w ∉ s.d.reported ∧ ws.wake = 0 ∧ ws.startDriving = false ∧
      ws.exec = .none ∧ ws.complete = false
  | .atJoin j =>
    MsgDW.startWorker ∉ s.d2w w ∧ ws.exec = .none ∧ j ≤ cfg.S ∧
    ((j = D ∧ driveCount (s.d2w w) = 0 ∧ ws.startDriving = false ∧ ws.wake = 0 ∧ ws.complete = false ∧
        ((s.w2d w = [.jpr j] ∧ w ∉ s.d.reported) ∨ (s.w2d w = [] ∧ w ∈ s.d.reported)))
     ∨ (j + 1 = D ∧ s.w2d w = [] ∧ w ∉ s.d.reported ∧
        ((D = cfg.S + 1 ∧ driveCount (s.d2w w) = 0 ∧ ws.startDriving = false ∧ ws.wake = 0 ∧ ws.complete = false) ∨
         (D ≤ cfg.S ∧ driveCount (s.d2w w) = 1 ∧ ws.startDriving = false ∧ ws.wake = 0 ∧ ws.complete = false) ∨
         (D ≤ cfg.S ∧ driveCount (s.d2w w) = 0 ∧ ws.startDriving = true ∧ ws.wake = 1))))
  | .inCol e _ =>
    e + 1 = D ∧ D ≤ cfg.S ∧ MsgDW.startWorker ∉ s.d2w w ∧ driveCount (s.d2w w) = 0 ∧ s.w2d w = [] ∧
      w ∉ s.d.reported ∧ ws.startDriving = false ∧ ws.wake = 1 ∧ ws.exec ≠ .none

structure Inv (cfg : Cfg) (s : State) : Prop where
  winv : ∀ w, w < cfg.W → WInv cfg s w
  outside : ∀ w, cfg.W ≤ w → s.d2w w = [] ∧ s.w2d w = [] ∧ (s.ws w).wake = 0 ∧ (s.ws w).exec = .none
  completed_eq : s.d.completed = s.d.reported.length
  reported_nodup : s.d.reported.Nodup
  reported_lt : ∀ x ∈ s.d.reported, x < cfg.W
  completed_lt : s.d.completed < cfg.W
  D_le : s.d.stepP1 ≤ cfg.S + 1
  d2r_eq : s.d2r = List.replicate (min s.d.stepP1 cfg.S) MsgDR.taskFinished ++
      (if s.d.stepP1 = cfg.S + 1 then [MsgDR.benchComplete] else [])

/-- the invariant of a worker only depends on its own state, its two channels and the driver's counters -/
theorem WInv_congr {cfg : Cfg} {s s' : State} {w : Nat}
    (h1 : s'.ws w = s.ws w) (h2 : s'.d2w w = s.d2w w) (h3 : s'.w2d w = s.w2d w)
    (h4 : s'.d.stepP1 = s.d.stepP1) (h5 : s'.d.reported = s.d.reported) :
    WInv cfg s' w ↔ WInv cfg s w := by
  unfold WInv
  simp only [h1, h2, h3, h4, h5]

/-! pigeonhole on the list of workers that have reported -/
theorem nodup_lt_length_le {l : List Nat} {n : Nat} (hn : l.Nodup) (hl : ∀ x ∈ l, x < n) : l.length ≤ n := by
  have h1 : l.toFinset ⊆ Finset.range n := by
    intro x hx
    simp only [List.mem_toFinset] at hx
    simpa using hl x hx
  have h2 := Finset.card_le_card h1
  rw [List.toFinset_card_of_nodup hn, Finset.card_range] at h2
  exact h2

theorem nodup_lt_full {l : List Nat} {n : Nat} (hn : l.Nodup) (hl : ∀ x ∈ l, x < n) (hlen : l.length = n) :
    ∀ x, x < n → x ∈ l := by
  have h1 : l.toFinset ⊆ Finset.range n := by
    intro x hx
    simp only [List.mem_toFinset] at hx
    simpa using hl x hx
  have h2 : (Finset.range n).card ≤ l.toFinset.card := by
    rw [List.toFinset_card_of_nodup hn, Finset.card_range, hlen]
  have h3 := Finset.eq_of_subset_of_card_le h1 h2
  intro x hx
  have : x ∈ l.toFinset := by rw [h3]; simpa using hx
  simpa using this

theorem init_inv (cfg : Cfg) (hwf : cfg.WF) : Inv cfg (init cfg) := by
  refine ⟨?_, ?_, rfl, List.nodup_nil, by simp [init], by simpa [init] using hwf.W_pos, by simp [init], by simp [init]⟩
  · intro w hw
    simp [WInv, init, hw]
  · intro w hw
    have : ¬ w < cfg.W := by omega
    simp [init, this]

/-- an event that only touches worker `w`'s own state and channels preserves the invariant as soon as the
    invariant of `w` itself is re-established -/
theorem inv_of_local {cfg : Cfg} {s s' : State} {w : Nat} (hinv : Inv cfg s) (hw : w < cfg.W)
    (hws : ∀ v, v ≠ w → s'.ws v = s.ws v) (hdw : ∀ v, v ≠ w → s'.d2w v = s.d2w v)
    (hwd : ∀ v, v ≠ w → s'.w2d v = s.w2d v) (hd : s'.d = s.d) (hr : s'.d2r = s.d2r)
    (hnew : WInv cfg s' w) : Inv cfg s' := by
  refine ⟨?_, ?_, by rw [hd]; exact hinv.completed_eq, by rw [hd]; exact hinv.reported_nodup,
    by rw [hd]; exact hinv.reported_lt, by rw [hd]; exact hinv.completed_lt, by rw [hd]; exact hinv.D_le,
    by rw [hd, hr]; exact hinv.d2r_eq⟩
  · intro v hv
    by_cases hvw : v = w
    · subst hvw; exact hnew
    · exact (WInv_congr (hws v hvw) (hdw v hvw) (hwd v hvw) (by rw [hd]) (by rw [hd])).mpr (hinv.winv v hv)
  · intro v hv
    have hvw : v ≠ w := by omega
    rw [hdw v hvw, hwd v hvw, hws v hvw]
    exact hinv.outside v hv

theorem driveCount_cons_drive (l : List MsgDW) : driveCount (.drive :: l) = driveCount l + 1 := by
  simp [driveCount]

theorem driveCount_cons_cct (l : List MsgDW) : driveCount (.cct :: l) = driveCount l := by
  simp [driveCount]

theorem driveCount_cons_start (l : List MsgDW) : driveCount (.startWorker :: l) = driveCount l := by
  simp [driveCount]

theorem driveCount_append (l : List MsgDW) (m : MsgDW) :
    driveCount (l ++ [m]) = driveCount l + (if m = .drive then 1 else 0) := by
  unfold driveCount
  rw [List.count_append]
  cases m <;> simp

/-- `toJoin w j` from a state where `w` is not yet counted for join `j = D` re-establishes `w`'s invariant -/
theorem WInv_toJoin {cfg : Cfg} {s : State} {w j : Nat}
    (hj : j = s.d.stepP1) (hjS : j ≤ cfg.S) (hns : MsgDW.startWorker ∉ s.d2w w) (hdc : driveCount (s.d2w w) = 0)
    (hsd : (s.ws w).startDriving = false) (hwk : (s.ws w).wake = 0) (hwd : s.w2d w = []) (hrep : w ∉ s.d.reported) :
    WInv cfg (toJoin w j s) w := by
  unfold WInv toJoin
  simp only [upd_same]
  refine ⟨hns, trivial, hjS, Or.inl ⟨hj, hdc, hsd, hwk, trivial, Or.inl ⟨by simp [hwd], hrep⟩⟩⟩

theorem lt_W_of_d2w {cfg : Cfg} {s : State} {w : Nat} (hinv : Inv cfg s) (h : s.d2w w ≠ []) : w < cfg.W := by
  by_contra hc
  exact h (hinv.outside w (by omega)).1

theorem step_deliverDW_inv {cfg : Cfg} {s s' : State} {w : Nat} (hinv : Inv cfg s)
    (h : step cfg s (.deliverDW w) = some s') : Inv cfg s' := by
  simp only [step] at h
  cases hq : s.d2w w with
  | nil => simp [hq] at h
  | cons m rest =>
    have hw : w < cfg.W := lt_W_of_d2w hinv (by simp [hq])
    have hwi := hinv.winv w hw
    simp only [hq] at h
    cases m with
    | startWorker =>
      simp only at h
      cases hp : (s.ws w).pos with
      | unstarted =>
        simp only [hp] at h
        injection h with h
        subst h
        unfold WInv at hwi
        simp only [hp] at hwi
        obtain ⟨hD, hdw, hwd, hrep, hwk, hsd, hex, hc⟩ := hwi
        have hrest : rest = [] := by rw [hq] at hdw; simpa using hdw
        refine inv_of_local hinv hw ?_ ?_ ?_ rfl rfl ?_
        · intro v hv; simp [toJoin, upd, hv]
        · intro v hv; simp [toJoin, upd, hv]
        · intro v hv; simp [toJoin, upd, hv]
        · apply WInv_toJoin
          · simp [hD]
          · omega
          · simp [hrest]
          · simp [hrest, driveCount]
          · simpa using hsd
          · simpa using hwk
          · simpa using hwd
          · simpa using hrep
      | atJoin j =>
        unfold WInv at hwi
        simp only [hp] at hwi
        exact absurd (by rw [hq]; simp) hwi.1
      | inCol e c =>
        unfold WInv at hwi
        simp only [hp] at hwi
        exact absurd (by rw [hq]; simp) hwi.2.2.1
    | drive =>
      simp only at h
      injection h with h
      subst h
      refine inv_of_local hinv hw ?_ ?_ ?_ rfl rfl ?_
      · intro v hv; simp [upd, hv]
      · intro v hv; simp [upd, hv]
      · intro v hv; simp
      · unfold WInv at hwi ⊢
        simp only [upd_same]
        cases hp : (s.ws w).pos with
        | unstarted =>
          simp only [hp] at hwi
          rw [hq] at hwi
          simp at hwi
        | atJoin j =>
          simp only [hp] at hwi ⊢
          rw [hq] at hwi
          obtain ⟨hns, hex, hjS, hcase⟩ := hwi
          refine ⟨fun hm => hns (List.mem_cons_of_mem _ hm), hex, hjS, ?_⟩
          rw [driveCount_cons_drive] at hcase
          rcases hcase with ⟨_, h0, _⟩ | ⟨hjD, hwd, hrep, hc3⟩
          · omega
          · right
            refine ⟨hjD, hwd, hrep, ?_⟩
            rcases hc3 with ⟨_, h0, _⟩ | ⟨hDS, h1, hsd, hwk, hc⟩ | ⟨_, h0, _⟩
            · omega
            · right; right
              exact ⟨hDS, by omega, trivial, by omega⟩
            · omega
        | inCol e c =>
          simp only [hp] at hwi
          rw [hq, driveCount_cons_drive] at hwi
          omega
    | cct =>
      simp only at h
      have hrestns : MsgDW.startWorker ∉ s.d2w w → MsgDW.startWorker ∉ rest := by
        intro hh hm; exact hh (by rw [hq]; exact List.mem_cons_of_mem _ hm)
      have hdcr : driveCount (s.d2w w) = driveCount rest := by rw [hq, driveCount_cons_cct]
      by_cases hpk : (parked (s.ws w) && !(s.ws w).startDriving) = true
      · rw [if_pos hpk] at h
        injection h with h
        subst h
        refine inv_of_local hinv hw ?_ ?_ ?_ rfl rfl ?_
        · intro v hv; rfl
        · intro v hv; simp [upd, hv]
        · intro v hv; rfl
        · unfold WInv at hwi ⊢
          simp only [upd_same]
          cases hp : (s.ws w).pos with
          | unstarted => simp only [hp] at hwi; rw [hq] at hwi; simp at hwi
          | atJoin j =>
            simp only [hp] at hwi ⊢
            rw [← hdcr]
            exact ⟨hrestns hwi.1, hwi.2.1, hwi.2.2.1, hwi.2.2.2⟩
          | inCol e c =>
            simp only [hp] at hwi ⊢
            rw [← hdcr]
            exact ⟨hwi.1, hwi.2.1, hrestns hwi.2.2.1, hwi.2.2.2⟩
      · rw [if_neg hpk] at h
        injection h with h
        subst h
        refine inv_of_local hinv hw ?_ ?_ ?_ rfl rfl ?_
        · intro v hv; simp [upd, hv]
        · intro v hv; simp [upd, hv]
        · intro v hv; rfl
        · unfold WInv at hwi ⊢
          simp only [upd_same]
          cases hp : (s.ws w).pos with
          | unstarted => simp only [hp] at hwi; rw [hq] at hwi; simp at hwi
          | atJoin j =>
            simp only [hp] at hwi ⊢
            rw [← hdcr]
            obtain ⟨hns, hex, hjS, hcase⟩ := hwi
            refine ⟨hrestns hns, hex, hjS, ?_⟩
            -- the flag is only set while armed
            have harmed : (s.ws w).startDriving = true := by
              simp only [parked, hp, Bool.true_and, Bool.not_eq_true', Bool.not_eq_false] at hpk
              simpa using hpk
            rcases hcase with ⟨_, _, hsd, _⟩ | ⟨hjD, hwd, hrep, hc3⟩
            · rw [harmed] at hsd; exact absurd hsd (by simp)
            · right
              refine ⟨hjD, hwd, hrep, ?_⟩
              rcases hc3 with ⟨_, _, hsd, _⟩ | ⟨_, _, hsd, _⟩ | h3
              · rw [harmed] at hsd; exact absurd hsd (by simp)
              · rw [harmed] at hsd; exact absurd hsd (by simp)
              · right; right; exact h3
          | inCol e c =>
            simp only [hp] at hwi ⊢
            rw [← hdcr]
            exact ⟨hwi.1, hwi.2.1, hrestns hwi.2.2.1, hwi.2.2.2⟩

/-- frame + re-established invariant for `driveNext` called on a mid-handler state `s0` of worker `w` that is
    released for element `e` (`e + 1 = D`) and about to look at column `c` -/
theorem driveNext_go {cfg : Cfg} {s0 s' : State} {w e c : Nat}
    (hpos : (s0.ws w).pos = .atJoin e ∧ c = 0 ∨ ∃ c0, (s0.ws w).pos = .inCol e c0 ∧ c = c0 + 1)
    (heD : e + 1 = s0.d.stepP1) (hDS : s0.d.stepP1 ≤ cfg.S)
    (hns : MsgDW.startWorker ∉ s0.d2w w) (hdc : driveCount (s0.d2w w) = 0)
    (hsd : (s0.ws w).startDriving = false) (hwk : (s0.ws w).wake = 0) (hwd : s0.w2d w = [])
    (hrep : w ∉ s0.d.reported)
    (h : driveNext cfg w s0 = some s') :
    WInv cfg s' w ∧ (∀ v, v ≠ w → s'.ws v = s0.ws v) ∧ (∀ v, v ≠ w → s'.d2w v = s0.d2w v) ∧
      (∀ v, v ≠ w → s'.w2d v = s0.w2d v) ∧ s'.d = s0.d ∧ s'.d2r = s0.d2r := by
  have hlt : ¬ e ≥ cfg.S := by omega
  have key : ∀ s1, (s1 = toJoin w (e + 1) s0 ∨
      ∃ ts : List TaskA, s1 = { s0 with
        ws := upd s0.ws w { s0.ws w with pos := .inCol e c, exec := .running (ts.map fun t => (t, false)), wake := (s0.ws w).wake + 1 },
        entered := s0.entered ++ [(w, e, c)] }) →
      WInv cfg s1 w ∧ (∀ v, v ≠ w → s1.ws v = s0.ws v) ∧ (∀ v, v ≠ w → s1.d2w v = s0.d2w v) ∧
      (∀ v, v ≠ w → s1.w2d v = s0.w2d v) ∧ s1.d = s0.d ∧ s1.d2r = s0.d2r := by
    intro s1 hs1
    rcases hs1 with rfl | ⟨ts, rfl⟩
    · refine ⟨WInv_toJoin heD (by omega) hns hdc hsd hwk hwd hrep, ?_, ?_, ?_, rfl, rfl⟩
      · intro v hv; simp [toJoin, upd, hv]
      · intro v hv; simp [toJoin]
      · intro v hv; simp [toJoin, upd, hv]
    · refine ⟨?_, ?_, ?_, ?_, rfl, rfl⟩
      · unfold WInv
        simp only [upd_same]
        exact ⟨heD, hDS, hns, hdc, hwd, hrep, hsd, by omega, by simp⟩
      · intro v hv; simp [upd, hv]
      · intro v hv; rfl
      · intro v hv; rfl
  unfold driveNext at h
  rcases hpos with ⟨hp, rfl⟩ | ⟨c0, hp, rfl⟩
  · simp only [hp, if_neg hlt] at h
    split at h
    · split at h
      · injection h with h; exact key s' (Or.inl h.symm)
      · injection h with h; exact key s' (Or.inr ⟨_, h.symm⟩)
    · injection h with h; exact key s' (Or.inl h.symm)
  · simp only [hp, if_neg hlt] at h
    split at h
    · split at h
      · injection h with h; exact key s' (Or.inl h.symm)
      · injection h with h; exact key s' (Or.inr ⟨_, h.symm⟩)
    · injection h with h; exact key s' (Or.inl h.symm)

theorem lt_W_of_wake {cfg : Cfg} {s : State} {w : Nat} (hinv : Inv cfg s) (h : (s.ws w).wake ≠ 0) : w < cfg.W := by
  by_contra hc
  exact h (hinv.outside w (by omega)).2.2.1

theorem step_wakeW_inv {cfg : Cfg} {s s' : State} {w : Nat} (hinv : Inv cfg s)
    (h : step cfg s (.wakeW w) = some s') : Inv cfg s' := by
  simp only [step] at h
  by_cases hwk0 : (s.ws w).wake = 0
  · simp [hwk0] at h
  rw [if_neg hwk0] at h
  have hw : w < cfg.W := lt_W_of_wake hinv hwk0
  have hwi := hinv.winv w hw
  unfold WInv at hwi
  cases hp : (s.ws w).pos with
  | unstarted => simp only [hp] at hwi; exact absurd hwi.2.2.2.2.1 hwk0
  | atJoin j =>
    simp only [hp] at hwi
    obtain ⟨hns, hex, hjS, hcase⟩ := hwi
    rcases hcase with ⟨_, _, _, hwk, _⟩ | ⟨hjD, hwd, hrep, hc3⟩
    · exact absurd hwk hwk0
    · rcases hc3 with ⟨_, _, _, hwk, _⟩ | ⟨_, _, _, hwk, _⟩ | ⟨hDS, hdc, hsd, hwk⟩
      · exact absurd hwk hwk0
      · exact absurd hwk hwk0
      · rw [if_pos hsd] at h
        have := driveNext_go (cfg := cfg) (w := w) (e := j) (c := 0)
          (s0 := { s with ws := upd s.ws w { (s.ws w) with wake := (s.ws w).wake - 1, startDriving := false } })
          (s' := s') (Or.inl ⟨by simp [hp], rfl⟩) hjD hDS hns hdc (by simp) (by simp; omega) hwd hrep h
        obtain ⟨hnew, f1, f2, f3, f4, f5⟩ := this
        refine inv_of_local hinv hw ?_ ?_ ?_ f4 f5 hnew
        · intro v hv; rw [f1 v hv]; simp [upd, hv]
        · intro v hv; rw [f2 v hv]
        · intro v hv; rw [f3 v hv]
  | inCol e c =>
    simp only [hp] at hwi
    obtain ⟨heD, hDS, hns, hdc, hwd, hrep, hsd, hwk, hex⟩ := hwi
    have hnsd : ¬ (s.ws w).startDriving = true := by simp [hsd]
    rw [if_neg hnsd] at h
    cases hexec : (s.ws w).exec with
    | finished =>
      simp only [hexec] at h
      have := driveNext_go (cfg := cfg) (w := w) (e := e) (c := c + 1)
        (s0 := { s with ws := upd s.ws w { (s.ws w) with wake := (s.ws w).wake - 1, exec := .none } })
        (s' := s') (Or.inr ⟨c, by simp [hp], rfl⟩) heD hDS hns hdc (by simpa using hsd) (by simp; omega) hwd hrep h
      obtain ⟨hnew, f1, f2, f3, f4, f5⟩ := this
      refine inv_of_local hinv hw ?_ ?_ ?_ f4 f5 hnew
      · intro v hv; rw [f1 v hv]; simp [upd, hv]
      · intro v hv; rw [f2 v hv]
      · intro v hv; rw [f3 v hv]
    | none => exact absurd hexec hex
    | running ts =>
      simp only [hexec] at h
      injection h with h
      subst h
      refine inv_of_local hinv hw ?_ ?_ ?_ rfl rfl ?_
      · intro v hv; simp [upd, hv]
      · intro v hv; rfl
      · intro v hv; rfl
      · unfold WInv
        simp only [upd_same, hp]
        exact ⟨heD, hDS, hns, hdc, hwd, hrep, hsd, by omega, by simp⟩

theorem lt_W_of_exec {cfg : Cfg} {s : State} {w : Nat} (hinv : Inv cfg s) (h : (s.ws w).exec ≠ .none) : w < cfg.W := by
  by_contra hc
  exact h (hinv.outside w (by omega)).2.2.2

/-- an executor exists only while the worker is inside a column -/
theorem inCol_of_exec {cfg : Cfg} {s : State} {w : Nat} (hwi : WInv cfg s w) (h : (s.ws w).exec ≠ .none) :
    ∃ e c, (s.ws w).pos = .inCol e c := by
  unfold WInv at hwi
  cases hp : (s.ws w).pos with
  | unstarted => simp only [hp] at hwi; exact absurd hwi.2.2.2.2.2.2.1 h
  | atJoin j => simp only [hp] at hwi; exact absurd hwi.2.1 h
  | inCol e c => exact ⟨e, c, rfl⟩

theorem step_exec_change_inv {cfg : Cfg} {s : State} {w : Nat} (hinv : Inv cfg s) (ex : Exec) (cmp : Bool)
    (hex0 : (s.ws w).exec ≠ .none) (hex : ex ≠ .none) :
    Inv cfg { s with ws := upd s.ws w { (s.ws w) with exec := ex, complete := cmp } } := by
  have hw : w < cfg.W := lt_W_of_exec hinv hex0
  have hwi := hinv.winv w hw
  obtain ⟨e, c, hp⟩ := inCol_of_exec hwi hex0
  refine inv_of_local hinv hw ?_ ?_ ?_ rfl rfl ?_
  · intro v hv; simp [upd, hv]
  · intro v hv; rfl
  · intro v hv; rfl
  · unfold WInv at hwi ⊢
    simp only [upd_same, hp] at hwi ⊢
    obtain ⟨heD, hDS, hns, hdc, hwd, hrep, hsd, hwk, _⟩ := hwi
    exact ⟨heD, hDS, hns, hdc, hwd, hrep, hsd, hwk, hex⟩

theorem step_taskDone_inv {cfg : Cfg} {s s' : State} {w i : Nat} (hinv : Inv cfg s)
    (h : step cfg s (.taskDone w i) = some s') : Inv cfg s' := by
  simp only [step] at h
  cases hexec : (s.ws w).exec with
  | none => simp [hexec] at h
  | finished => simp [hexec] at h
  | running ts =>
    simp only [hexec] at h
    split at h
    · split at h
      · injection h with h
        subst h
        exact step_exec_change_inv hinv _ _ (by rw [hexec]; simp) (by simp)
      · exact absurd h (by simp)
    · exact absurd h (by simp)

theorem step_execFinish_inv {cfg : Cfg} {s s' : State} {w : Nat} (hinv : Inv cfg s)
    (h : step cfg s (.execFinish w) = some s') : Inv cfg s' := by
  simp only [step] at h
  cases hexec : (s.ws w).exec with
  | none => simp [hexec] at h
  | finished => simp [hexec] at h
  | running ts =>
    simp only [hexec] at h
    split at h
    · injection h with h
      subst h
      have := step_exec_change_inv hinv .finished (s.ws w).complete (by rw [hexec]; simp) (by simp)
      simpa using this
    · exact absurd h (by simp)

/-- finer congruence: the worker invariant sees its inbox only through "contains StartWorker" and the number of
    `Drive`s (and exactly when unstarted), and `reported` only through membership -/
theorem WInv_congr' {cfg : Cfg} {s s' : State} {v : Nat}
    (h1 : s'.ws v = s.ws v)
    (hns : MsgDW.startWorker ∈ s'.d2w v ↔ MsgDW.startWorker ∈ s.d2w v)
    (hdc : driveCount (s'.d2w v) = driveCount (s.d2w v))
    (hunst : (s.ws v).pos = .unstarted → s'.d2w v = s.d2w v)
    (h3 : s'.w2d v = s.w2d v) (h4 : s'.d.stepP1 = s.d.stepP1)
    (h5 : v ∈ s'.d.reported ↔ v ∈ s.d.reported) (h : WInv cfg s v) : WInv cfg s' v := by
  unfold WInv at h ⊢
  rw [h1]
  cases hp : (s.ws v).pos with
  | unstarted =>
    simp only [hp] at h ⊢
    rw [hunst hp, h3, h4, h5]
    exact h
  | atJoin j =>
    simp only [hp] at h ⊢
    rw [hns, hdc, h3, h4, h5]
    exact h
  | inCol e c =>
    simp only [hp] at h ⊢
    rw [hns, hdc, h3, h4, h5]
    exact h

theorem mem_sendAll_start {W : Nat} {q : Nat → List MsgDW} {m : MsgDW} (hm : m ≠ .startWorker) (v : Nat) :
    MsgDW.startWorker ∈ sendAll W q m v ↔ MsgDW.startWorker ∈ q v := by
  unfold sendAll
  split
  · simp [List.mem_append, Ne.symm hm]
  · rfl

theorem driveCount_sendAll_cct {W : Nat} {q : Nat → List MsgDW} (v : Nat) :
    driveCount (sendAll W q .cct v) = driveCount (q v) := by
  unfold sendAll
  split
  · rw [driveCount_append]; simp
  · rfl

/-- `may_complete_current_task` only ever appends `CompleteCurrentTask` to the worker inboxes and sets the flag -/
theorem mayComplete_shape (cfg : Cfg) (w : Nat) (ji : JoinInfo) (s : State) :
    mayComplete cfg w ji s = s ∨
    (mayComplete cfg w ji s = { s with d := { s.d with cctSent := true }, d2w := sendAll cfg.W s.d2w .cct } ∧
      (ji.anyC ≠ [] ∨ ji.completing ≠ [])) := by
  unfold mayComplete
  split
  · rename_i h
    right
    refine ⟨rfl, Or.inl ?_⟩
    intro he
    simp [he] at h
  · split
    · rename_i h
      split
      · right
        refine ⟨rfl, Or.inr ?_⟩
        intro he
        simp [he] at h
      · left; rfl
    · left; rfl

theorem lt_W_of_w2d {cfg : Cfg} {s : State} {w : Nat} (hinv : Inv cfg s) (h : s.w2d w ≠ []) : w < cfg.W := by
  by_contra hc
  exact h (hinv.outside w (by omega)).2.1

theorem replicate_min_succ (D S : Nat) (h : D + 1 ≤ S) :
    List.replicate (min D S) MsgDR.taskFinished ++ [MsgDR.taskFinished] =
      List.replicate (min (D + 1) S) MsgDR.taskFinished := by
  rw [Nat.min_eq_left (by omega), Nat.min_eq_left h, List.replicate_succ']

theorem step_deliverWD_inv {cfg : Cfg} {s s' : State} {w : Nat} (hwf : cfg.WF) (hinv : Inv cfg s)
    (h : step cfg s (.deliverWD w) = some s') : Inv cfg s' := by
  simp only [step] at h
  cases hq : s.w2d w with
  | nil => simp [hq] at h
  | cons m rest =>
    have hw : w < cfg.W := lt_W_of_w2d hinv (by simp [hq])
    have hwi := hinv.winv w hw
    cases m with
    | jpr j =>
    simp only [hq] at h
    injection h with h
    -- where the reporting worker stands
    have hstand : (s.ws w).pos = .atJoin j ∧ rest = [] ∧ j = s.d.stepP1 ∧ w ∉ s.d.reported ∧ j ≤ cfg.S ∧
        MsgDW.startWorker ∉ s.d2w w ∧ (s.ws w).exec = .none ∧ driveCount (s.d2w w) = 0 ∧
        (s.ws w).startDriving = false ∧ (s.ws w).wake = 0 ∧ (s.ws w).complete = false := by
      unfold WInv at hwi
      cases hp : (s.ws w).pos with
      | unstarted => simp only [hp] at hwi; rw [hq] at hwi; simp at hwi
      | inCol e c => simp only [hp] at hwi; rw [hq] at hwi; simp at hwi
      | atJoin j' =>
        simp only [hp] at hwi
        obtain ⟨hns, hex, hjS, hcase⟩ := hwi
        rcases hcase with ⟨hjD, hdc, hsd, hwk, hc, halt⟩ | ⟨_, hwd, _⟩
        · rcases halt with ⟨hwd, hrep⟩ | ⟨hwd, _⟩
          · rw [hq] at hwd
            simp only [List.cons.injEq, MsgWD.jpr.injEq] at hwd
            obtain ⟨rfl, hrest⟩ := hwd
            exact ⟨rfl, hrest, hjD, hrep, hjS, hns, hex, hdc, hsd, hwk, hc⟩
          · rw [hq] at hwd; simp at hwd
        · rw [hq] at hwd; simp at hwd
    obtain ⟨hp, hrest, hjD, hrepw, hjS, hnsw, hexw, hdcw, hsdw, hwkw, hcw⟩ := hstand
    subst hrest
    have hnd' : (w :: s.d.reported).Nodup := List.nodup_cons.mpr ⟨hrepw, hinv.reported_nodup⟩
    have hlt' : ∀ x ∈ w :: s.d.reported, x < cfg.W := by
      intro x hx
      rcases List.mem_cons.mp hx with rfl | hx
      · exact hw
      · exact hinv.reported_lt x hx
    unfold joinpointReached at h
    simp only at h
    by_cases hall : s.d.completed + 1 = cfg.W
    · -- the barrier opens
      rw [if_pos hall] at h
      have hfull : ∀ v, v < cfg.W → v ∈ w :: s.d.reported :=
        nodup_lt_full hnd' hlt' (by simp [← hinv.completed_eq, hall])
      -- every worker is parked at join D and has been counted
      have hparked : ∀ v, v < cfg.W → v ≠ w →
          ∃ jv, (s.ws v).pos = .atJoin jv ∧ jv = s.d.stepP1 ∧ jv ≤ cfg.S ∧ MsgDW.startWorker ∉ s.d2w v ∧
            (s.ws v).exec = .none ∧ driveCount (s.d2w v) = 0 ∧ (s.ws v).startDriving = false ∧
            (s.ws v).wake = 0 ∧ (s.ws v).complete = false ∧ s.w2d v = [] := by
        intro v hv hvw
        have hmem : v ∈ s.d.reported := by
          rcases List.mem_cons.mp (hfull v hv) with h1 | h1
          · exact absurd h1 hvw
          · exact h1
        have hvi := hinv.winv v hv
        unfold WInv at hvi
        cases hpv : (s.ws v).pos with
        | unstarted => simp only [hpv] at hvi; exact absurd hmem hvi.2.2.2.1
        | inCol e c => simp only [hpv] at hvi; exact absurd hmem hvi.2.2.2.2.2.1
        | atJoin jv =>
          simp only [hpv] at hvi
          obtain ⟨hns, hex, hjS', hcase⟩ := hvi
          rcases hcase with ⟨hjD', hdc, hsd, hwk, hc, halt⟩ | ⟨_, _, hrep, _⟩
          · rcases halt with ⟨_, hrep⟩ | ⟨hwd, _⟩
            · exact absurd hmem hrep
            · exact ⟨jv, rfl, hjD', hjS', hns, hex, hdc, hsd, hwk, hc, hwd⟩
          · exact absurd hmem hrep
      by_cases hfin : s.d.stepP1 + 1 = cfg.S + 1
      · -- last join point: BenchmarkComplete
        rw [if_pos hfin] at h
        subst h
        refine ⟨?_, ?_, rfl, List.nodup_nil, by simp, by simpa using hwf.W_pos, by simp; omega, ?_⟩
        · intro v hv
          unfold WInv
          by_cases hvw : v = w
          · subst hvw
            simp only [hp, upd_same]
            exact ⟨hnsw, hexw, hjS, Or.inr ⟨by omega, trivial, by simp, Or.inl ⟨by omega, hdcw, hsdw, hwkw, hcw⟩⟩⟩
          · obtain ⟨jv, hpv, hjv, hjvS, hns, hex, hdc, hsd, hwk, hc, hwd⟩ := hparked v hv hvw
            simp only [hpv, upd_other _ _ _ _ hvw]
            exact ⟨hns, hex, hjvS, Or.inr ⟨by omega, hwd, by simp, Or.inl ⟨by omega, hdc, hsd, hwk, hc⟩⟩⟩
        · intro v hv
          have hvw : v ≠ w := by omega
          simp only [upd_other _ _ _ _ hvw]
          exact hinv.outside v hv
        · simp only
          rw [hinv.d2r_eq]
          have hD : s.d.stepP1 = cfg.S := by omega
          simp [hD]
      · -- TaskFinished + Drive to everybody
        rw [if_neg hfin] at h
        subst h
        have hDS : s.d.stepP1 + 1 ≤ cfg.S := by omega
        refine ⟨?_, ?_, rfl, List.nodup_nil, by simp, by simpa using hwf.W_pos, by simp; omega, ?_⟩
        · intro v hv
          unfold WInv
          have hsa : sendAll cfg.W s.d2w MsgDW.drive v = s.d2w v ++ [MsgDW.drive] := by simp [sendAll, hv]
          by_cases hvw : v = w
          · subst hvw
            simp only [hp, upd_same, hsa]
            refine ⟨by simp [hnsw], hexw, hjS, Or.inr ⟨by omega, trivial, by simp, Or.inr (Or.inl ⟨hDS, ?_, hsdw, hwkw, hcw⟩)⟩⟩
            rw [driveCount_append]; simp [hdcw]
          · obtain ⟨jv, hpv, hjv, hjvS, hns, hex, hdc, hsd, hwk, hc, hwd⟩ := hparked v hv hvw
            simp only [hpv, upd_other _ _ _ _ hvw, hsa]
            refine ⟨by simp [hns], hex, hjvS, Or.inr ⟨by omega, hwd, by simp, Or.inr (Or.inl ⟨hDS, ?_, hsd, hwk, hc⟩)⟩⟩
            rw [driveCount_append]; simp [hdc]
        · intro v hv
          have hvw : v ≠ w := by omega
          have hnv : ¬ v < cfg.W := by omega
          simp only [upd_other _ _ _ _ hvw, sendAll, hnv, if_false]
          exact hinv.outside v hv
        · simp only
          rw [hinv.d2r_eq]
          have hne : ¬ s.d.stepP1 = cfg.S + 1 := by omega
          have hne' : ¬ s.d.stepP1 + 1 = cfg.S + 1 := hfin
          simp only [hne, hne', if_false, List.append_nil]
          exact replicate_min_succ _ _ hDS
    · -- still waiting for other workers
      rw [if_neg hall] at h
      have hlen : s.d.completed + 1 < cfg.W := by
        have := nodup_lt_length_le hnd' hlt'
        simp only [List.length_cons, ← hinv.completed_eq] at this
        omega
      -- the state handed to may_complete_current_task
      generalize hs2 : ({ s with w2d := upd s.w2d w [], d := { s.d with completed := s.d.completed + 1, reported := w :: s.d.reported } } : State) = s2 at h
      have hinv2 : Inv cfg s2 := by
        subst hs2
        refine ⟨?_, ?_, by simp [hinv.completed_eq], hnd', hlt', hlen, hinv.D_le, hinv.d2r_eq⟩
        · intro v hv
          by_cases hvw : v = w
          · subst hvw
            unfold WInv
            simp only [hp, upd_same]
            exact ⟨hnsw, hexw, hjS, Or.inl ⟨hjD, hdcw, hsdw, hwkw, hcw, Or.inr ⟨trivial, by simp⟩⟩⟩
          · refine WInv_congr' (s := s) rfl Iff.rfl rfl (fun _ => rfl) (by simp [upd, hvw]) rfl ?_ (hinv.winv v hv)
            simp [hvw]
        · intro v hv
          have hvw : v ≠ w := by omega
          simp only [upd_other _ _ _ _ hvw]
          exact hinv.outside v hv
      rcases mayComplete_shape cfg w (cfg.joins j) s2 with he | ⟨he, hne⟩
      · rw [he] at h; subst h; exact hinv2
      · rw [he] at h
        subst h
        -- a broadcast happens only for a join point with completed-by information, i.e. not join 0, so nobody is unstarted
        have hD0 : s2.d.stepP1 ≠ 0 := by
          intro h0
          have hj0 : j = 0 := by subst hs2; simpa [hjD] using h0
          rw [hj0] at hne
          rcases hne with h1 | h1
          · exact h1 hwf.join0.2
          · exact h1 hwf.join0.1
        refine ⟨?_, ?_, hinv2.completed_eq, hinv2.reported_nodup, hinv2.reported_lt, hinv2.completed_lt, hinv2.D_le, hinv2.d2r_eq⟩
        · intro v hv
          refine WInv_congr' (s := s2) rfl (mem_sendAll_start (by simp) v) (driveCount_sendAll_cct v) ?_ rfl rfl Iff.rfl (hinv2.winv v hv)
          intro hun
          have := hinv2.winv v hv
          unfold WInv at this
          simp only [hun] at this
          exact absurd this.1 hD0
        · intro v hv
          have hnv : ¬ v < cfg.W := by omega
          simp only [sendAll, hnv, if_false]
          exact hinv2.outside v hv

theorem step_inv {cfg : Cfg} {s s' : State} {e : Event} (hwf : cfg.WF) (hinv : Inv cfg s)
    (h : step cfg s e = some s') : Inv cfg s' := by
  cases e with
  | deliverDW w => exact step_deliverDW_inv hinv h
  | deliverWD w => exact step_deliverWD_inv hwf hinv h
  | wakeW w => exact step_wakeW_inv hinv h
  | taskDone w i => exact step_taskDone_inv hinv h
  | execFinish w => exact step_execFinish_inv hinv h

theorem reach_inv {cfg : Cfg} {s : State} (hwf : cfg.WF) (h : Reach cfg s) : Inv cfg s := by
  induction h with
  | init => exact init_inv cfg hwf
  | step s s' e _ hstep ih => exact step_inv hwf ih hstep

end Race
