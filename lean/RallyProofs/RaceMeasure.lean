import RallyProofs.RacePlain
/-! A termination measure for the race protocol model (C01): every step that changes the state (everything except an
    idle poll) strictly decreases `pot`, a natural number.  Together with `progress` (while the race is not over a
    state-changing step is enabled) this gives: every run in which enabled state-changing steps are eventually taken
    ends with BenchmarkComplete, after at most `pot (init cfg)` state-changing steps. -/
namespace Race

/-- work left in a list of columns: entering a column (2) and every task of it returning (1 each) … -/
def colsPot (cols : List (List TaskA)) : Nat := (cols.map fun c => 2 + c.length).sum

/-- … plus reaching the join point that closes the element and the delivery of its JoinPointReached -/
def elemPot (cfg : Cfg) (w e : Nat) : Nat := colsPot (cfg.elems w e) + 2

/-- the elements `e, e+1, …, e+n-1` -/
def restPot (cfg : Cfg) (w : Nat) : Nat → Nat → Nat
  | _, 0 => 0
  | e, n + 1 => elemPot cfg w e + restPot cfg w (e + 1) n

def posPot (cfg : Cfg) (w : Nat) : Pos → Nat
  | .unstarted => 2 + restPot cfg w 0 cfg.S
  | .atJoin j => restPot cfg w j (cfg.S - j)
  | .inCol e c => colsPot ((cfg.elems w e).drop (c + 1)) + 2 + restPot cfg w (e + 1) (cfg.S - (e + 1))

def notDone (ts : List (TaskA × Bool)) : Nat := (ts.filter fun p => !p.2).length

def execPot : Exec → Nat
  | .none => 0
  | .running ts => 1 + notDone ts
  | .finished => 0

def workerPot (cfg : Cfg) (s : State) (w : Nat) : Nat :=
  posPot cfg w (s.ws w).pos + execPot (s.ws w).exec + (s.d2w w).length + (s.w2d w).length

def sumTo (n : Nat) (f : Nat → Nat) : Nat := ((List.range n).map f).sum

/-- the measure -/
def pot (cfg : Cfg) (s : State) : Nat :=
  sumTo cfg.W (workerPot cfg s) + (cfg.S + 1 - s.d.stepP1) * (2 * cfg.W) + (if s.d.cctSent then 0 else cfg.W)

/-! ### sums -/

theorem sumTo_succ (n : Nat) (f : Nat → Nat) : sumTo (n + 1) f = sumTo n f + f n := by
  simp [sumTo, List.range_succ]

theorem sumTo_congr (n : Nat) (f g : Nat → Nat) (h : ∀ i, i < n → f i = g i) : sumTo n f = sumTo n g := by
  induction n with
  | zero => rfl
  | succ n ih =>
    rw [sumTo_succ, sumTo_succ, ih (fun i hi => h i (by omega)), h n (by omega)]

theorem sumTo_add_one (n : Nat) (f g : Nat → Nat) (h : ∀ i, i < n → g i = f i + 1) : sumTo n g = sumTo n f + n := by
  induction n with
  | zero => rfl
  | succ n ih =>
    rw [sumTo_succ, sumTo_succ, ih (fun i hi => h i (by omega)), h n (by omega)]
    omega

/-- changing the summand at one index -/
theorem sumTo_upd (n : Nat) (f g : Nat → Nat) (w : Nat) (hw : w < n) (h : ∀ i, i < n → i ≠ w → g i = f i) :
    sumTo n g + f w = sumTo n f + g w := by
  induction n with
  | zero => omega
  | succ n ih =>
    rw [sumTo_succ, sumTo_succ]
    by_cases hwn : w = n
    · subst hwn
      rw [sumTo_congr w g f (fun i hi => h i (by omega) (by omega))]
      omega
    · have := ih (by omega) (fun i hi hne => h i (by omega) hne)
      rw [h n (by omega) (fun hh => hwn hh.symm)]
      omega

/-! ### columns -/

theorem colsPot_cons (c : List TaskA) (cs : List (List TaskA)) : colsPot (c :: cs) = 2 + c.length + colsPot cs := by
  simp [colsPot]

theorem colsPot_drop {cols : List (List TaskA)} {c : Nat} {col : List TaskA} (h : cols[c]? = some col) :
    colsPot (cols.drop c) = 2 + col.length + colsPot (cols.drop (c + 1)) := by
  have hlt : c < cols.length := by
    rcases Nat.lt_or_ge c cols.length with h' | h'
    · exact h'
    · rw [List.getElem?_eq_none_iff.mpr h'] at h; exact absurd h (by simp)
  have hget : cols[c] = col := by
    rw [List.getElem?_eq_getElem hlt] at h
    exact Option.some.inj h
  rw [List.drop_eq_getElem_cons hlt, hget, colsPot_cons]

theorem restPot_succ (cfg : Cfg) (w e : Nat) (h : e < cfg.S) :
    restPot cfg w e (cfg.S - e) = elemPot cfg w e + restPot cfg w (e + 1) (cfg.S - (e + 1)) := by
  have : cfg.S - e = (cfg.S - (e + 1)) + 1 := by omega
  rw [this, restPot]

theorem notDone_map_false (col : List TaskA) : notDone (col.map fun t => (t, false)) = col.length := by
  unfold notDone
  induction col with
  | nil => rfl
  | cons x xs ih => simpa using ih

/-- marking a task that was not done as done -/
theorem notDone_setDone_aux (ts : List (TaskA × Bool)) (i k : Nat) (t : TaskA) (h : ts[i]? = some (t, false)) :
    notDone ((ts.zipIdx k).map fun (x : (TaskA × Bool) × Nat) => if x.2 = i + k then (x.1.1, true) else x.1) + 1 = notDone ts := by
  induction ts generalizing i k with
  | nil => simp at h
  | cons p ps ih =>
    cases i with
    | zero =>
      simp only [List.getElem?_cons_zero, Option.some.injEq] at h
      subst h
      simp only [List.zipIdx_cons, List.map_cons, Nat.zero_add, if_true]
      -- the rest is untouched: indices there are > k
      have hrest : ((ps.zipIdx (k + 1)).map fun (x : (TaskA × Bool) × Nat) => if x.2 = k then (x.1.1, true) else x.1) = ps := by
        have : ∀ (l : List (TaskA × Bool)) (j : Nat), j > k →
            ((l.zipIdx j).map fun (x : (TaskA × Bool) × Nat) => if x.2 = k then (x.1.1, true) else x.1) = l := by
          intro l
          induction l with
          | nil => intro j _; rfl
          | cons y ys ihy =>
            intro j hj
            simp only [List.zipIdx_cons, List.map_cons]
            rw [ihy (j + 1) (by omega)]
            have : ¬ j = k := by omega
            simp [this]
        exact this ps (k + 1) (by omega)
      rw [hrest]
      simp [notDone, List.filter_cons]
    | succ i =>
      simp only [List.getElem?_cons_succ] at h
      simp only [List.zipIdx_cons, List.map_cons]
      have hk : ¬ k = i + 1 + k := by omega
      simp only [hk, if_false]
      have := ih i (k + 1) h
      have hidx : i + (k + 1) = i + 1 + k := by omega
      rw [hidx] at this
      unfold notDone at this ⊢
      rw [List.filter_cons, List.filter_cons]
      split <;> first | (simp only [List.length_cons]; omega) | omega

theorem notDone_setDone (ts : List (TaskA × Bool)) (i : Nat) (t : TaskA) (h : ts[i]? = some (t, false)) :
    notDone (setDone ts i) + 1 = notDone ts := by
  have := notDone_setDone_aux ts i 0 t h
  simpa [setDone] using this

/-! ### the measure under the events -/

theorem workerPot_congr {cfg : Cfg} {s s' : State} {v : Nat} (h1 : (s'.ws v).pos = (s.ws v).pos)
    (h2 : (s'.ws v).exec = (s.ws v).exec) (h3 : s'.d2w v = s.d2w v) (h4 : s'.w2d v = s.w2d v) :
    workerPot cfg s' v = workerPot cfg s v := by
  unfold workerPot; rw [h1, h2, h3, h4]

/-- an event that touches worker `w` only and lowers its share -/
theorem pot_local {cfg : Cfg} {s s' : State} {w : Nat} (hw : w < cfg.W) (hd : s'.d = s.d)
    (hoth : ∀ v, v ≠ w → s'.ws v = s.ws v ∧ s'.d2w v = s.d2w v ∧ s'.w2d v = s.w2d v)
    (hlt : workerPot cfg s' w < workerPot cfg s w) : pot cfg s' < pot cfg s := by
  have := sumTo_upd cfg.W (workerPot cfg s) (workerPot cfg s') w hw (fun i _ hne => by
    obtain ⟨a, b, c⟩ := hoth i hne
    exact workerPot_congr (by rw [a]) (by rw [a]) b c)
  unfold pot
  rw [hd]
  omega

/-- the ways `driveNext` can end, with everything the measure needs -/
theorem driveNext_cases4 {cfg : Cfg} {w : Nat} {s0 s' : State} (h : driveNext cfg w s0 = some s') :
    (∃ e0, e0 < cfg.S ∧ ((s0.ws w).pos = .atJoin e0 ∨ ∃ c0, (s0.ws w).pos = .inCol e0 c0) ∧ s' = toJoin w (e0 + 1) s0) ∨
    (∃ e c col, e < cfg.S ∧ (cfg.elems w e)[c]? = some col ∧ s' = { s0 with
        ws := upd s0.ws w { s0.ws w with pos := .inCol e c, exec := .running (col.map fun t => (t, false)), wake := (s0.ws w).wake + 1 },
        entered := s0.entered ++ [(w, e, c)] } ∧
      ((s0.ws w).pos = .atJoin e ∧ c = 0 ∨ ∃ c0, (s0.ws w).pos = .inCol e c0 ∧ c = c0 + 1)) := by
  unfold driveNext at h
  cases hp : (s0.ws w).pos with
  | unstarted => simp [hp] at h
  | atJoin j =>
    simp only [hp] at h
    split at h
    · exact absurd h (by simp)
    · rename_i hS
      have hS' : j < cfg.S := by omega
      split at h
      · rename_i col hcol
        split at h
        · injection h with h
          exact Or.inl ⟨j, hS', Or.inl rfl, h.symm⟩
        · injection h with h
          exact Or.inr ⟨j, 0, col, hS', hcol, h.symm, Or.inl ⟨rfl, rfl⟩⟩
      · injection h with h
        exact Or.inl ⟨j, hS', Or.inl rfl, h.symm⟩
  | inCol e c =>
    simp only [hp] at h
    split at h
    · exact absurd h (by simp)
    · rename_i hS
      have hS' : e < cfg.S := by omega
      split at h
      · rename_i col hcol
        split at h
        · injection h with h
          exact Or.inl ⟨e, hS', Or.inr ⟨c, rfl⟩, h.symm⟩
        · injection h with h
          exact Or.inr ⟨e, c + 1, col, hS', hcol, h.symm, Or.inr ⟨c, rfl, rfl⟩⟩
      · injection h with h
        exact Or.inl ⟨e, hS', Or.inr ⟨c, rfl⟩, h.symm⟩

theorem driveNext_frame {cfg : Cfg} {w : Nat} {s0 s' : State} (h : driveNext cfg w s0 = some s') :
    s'.d = s0.d ∧ s'.d2w = s0.d2w ∧ ∀ v, v ≠ w → s'.ws v = s0.ws v ∧ s'.w2d v = s0.w2d v := by
  rcases driveNext_cases4 h with ⟨e0, _, _, rfl⟩ | ⟨e, c, col, _, _, rfl, _⟩
  · exact ⟨rfl, rfl, fun v hv => ⟨by simp [toJoin, upd, hv], by simp [toJoin, upd, hv]⟩⟩
  · exact ⟨rfl, rfl, fun v hv => ⟨by simp [upd, hv], rfl⟩⟩

/-- `driveNext` lowers the worker's share by at least one, whatever its executor slot held before -/
theorem workerPot_driveNext {cfg : Cfg} {w : Nat} {s0 s' : State} (h : driveNext cfg w s0 = some s') :
    workerPot cfg s' w + 1 ≤ posPot cfg w (s0.ws w).pos + (s0.d2w w).length + (s0.w2d w).length := by
  rcases driveNext_cases4 h with ⟨e0, hS, hfrom, rfl⟩ | ⟨e, c, col, hS, hcol, rfl, hfrom⟩
  · have hafter : workerPot cfg (toJoin w (e0 + 1) s0) w =
        restPot cfg w (e0 + 1) (cfg.S - (e0 + 1)) + (s0.d2w w).length + ((s0.w2d w).length + 1) := by
      simp [workerPot, toJoin, posPot, execPot]
    rw [hafter]
    rcases hfrom with hp | ⟨c0, hp⟩
    · rw [hp]
      simp only [posPot]
      rw [restPot_succ cfg w e0 hS]
      unfold elemPot
      omega
    · rw [hp]
      simp only [posPot]
      omega
  · have hafter : workerPot cfg { s0 with
          ws := upd s0.ws w { s0.ws w with pos := .inCol e c, exec := .running (col.map fun t => (t, false)), wake := (s0.ws w).wake + 1 },
          entered := s0.entered ++ [(w, e, c)] } w =
        colsPot ((cfg.elems w e).drop (c + 1)) + 2 + restPot cfg w (e + 1) (cfg.S - (e + 1)) + (1 + col.length) +
          (s0.d2w w).length + (s0.w2d w).length := by
      simp [workerPot, posPot, execPot, notDone_map_false]
    rw [hafter]
    have hdrop := colsPot_drop hcol
    rcases hfrom with ⟨hp, rfl⟩ | ⟨c0, hp, rfl⟩
    · rw [hp]
      simp only [posPot]
      rw [restPot_succ cfg w e hS]
      unfold elemPot
      simp only [List.drop_zero] at hdrop
      omega
    · rw [hp]
      simp only [posPot]
      omega

theorem mayComplete_cases (cfg : Cfg) (w : Nat) (ji : JoinInfo) (s : State) :
    mayComplete cfg w ji s = s ∨
    (s.d.cctSent = false ∧
      mayComplete cfg w ji s = { s with d := { s.d with cctSent := true }, d2w := sendAll cfg.W s.d2w .cct }) := by
  unfold mayComplete
  split
  · rename_i h
    right
    simp only [Bool.and_eq_true, Bool.not_eq_eq_eq_not, Bool.not_true] at h
    exact ⟨h.2, rfl⟩
  · split
    · rename_i h
      simp only [Bool.and_eq_true, Bool.not_eq_eq_eq_not, Bool.not_true] at h
      split
      · right; exact ⟨h.2, rfl⟩
      · left; rfl
    · left; rfl

/-- a broadcast to all workers raises every worker's share by one -/
theorem sumTo_sendAll (cfg : Cfg) (s : State) (m : MsgDW) (d' : DState) (r' : List MsgDR) :
    sumTo cfg.W (workerPot cfg { s with d := d', d2r := r', d2w := sendAll cfg.W s.d2w m }) =
      sumTo cfg.W (workerPot cfg s) + cfg.W := by
  apply sumTo_add_one
  intro i hi
  simp [workerPot, sendAll, hi]
  omega

theorem sumTo_driver_only (cfg : Cfg) (s : State) (d' : DState) (r' : List MsgDR) :
    sumTo cfg.W (workerPot cfg { s with d := d', d2r := r' }) = sumTo cfg.W (workerPot cfg s) := by
  apply sumTo_congr
  intro i _
  rfl

/-- **the measure decreases** with every step that changes the state -/
theorem step_pot {cfg : Cfg} {s s' : State} {e : Event} (hinv : Inv cfg s) (h : step cfg s e = some s')
    (hch : Changed s s') : pot cfg s' < pot cfg s := by
  cases e with
  | deliverDW w =>
    simp only [step] at h
    cases hqw : s.d2w w with
    | nil => simp [hqw] at h
    | cons m rest =>
      have hw : w < cfg.W := lt_W_of_d2w hinv (by simp [hqw])
      simp only [hqw] at h
      cases m with
      | startWorker =>
        simp only at h
        cases hp : (s.ws w).pos with
        | unstarted =>
          simp only [hp] at h
          injection h with h; subst h
          refine pot_local hw rfl (fun v hv => ⟨by simp [toJoin, upd, hv], by simp [toJoin, upd, hv], by simp [toJoin, upd, hv]⟩) ?_
          simp [workerPot, toJoin, posPot, execPot, hp, hqw]
          omega
        | atJoin j => simp [hp] at h
        | inCol e c => simp [hp] at h
      | drive =>
        simp only at h; injection h with h; subst h
        refine pot_local hw rfl (fun v hv => ⟨by simp [upd, hv], by simp [upd, hv], rfl⟩) ?_
        simp [workerPot, hqw]
      | cct =>
        simp only at h
        split at h <;> (injection h with h; subst h)
        · refine pot_local hw rfl (fun v hv => ⟨rfl, by simp [upd, hv], rfl⟩) ?_
          simp [workerPot, hqw]
        · refine pot_local hw rfl (fun v hv => ⟨by simp [upd, hv], by simp [upd, hv], rfl⟩) ?_
          simp [workerPot, hqw]
  | wakeW w =>
    simp only [step] at h
    by_cases hwk0 : (s.ws w).wake = 0
    · simp [hwk0] at h
    rw [if_neg hwk0] at h
    have hw : w < cfg.W := lt_W_of_wake hinv hwk0
    have hdrive : ∀ (s0 : State), driveNext cfg w s0 = some s' → s0.d = s.d → s0.d2w = s.d2w → s0.w2d = s.w2d →
        (∀ v, v ≠ w → s0.ws v = s.ws v) → (s0.ws w).pos = (s.ws w).pos → pot cfg s' < pot cfg s := by
      intro s0 hd h1 h2 h3 h4 h5
      obtain ⟨f1, f2, f3⟩ := driveNext_frame hd
      refine pot_local hw (by rw [f1, h1]) (fun v hv => ⟨by rw [(f3 v hv).1, h4 v hv], by rw [f2, h2], by rw [(f3 v hv).2, h3]⟩) ?_
      have := workerPot_driveNext hd
      rw [h5, h2, h3] at this
      have h6 : posPot cfg w (s.ws w).pos + (s.d2w w).length + (s.w2d w).length ≤ workerPot cfg s w := by
        unfold workerPot; omega
      omega
    -- an idle poll leaves the state as it is
    have hidle : ∀ (ws' : WState), ws' = s.ws w → s' = { s with ws := upd s.ws w ws' } → pot cfg s' < pot cfg s := by
      intro ws' hws hs'
      exfalso
      rcases hch with ⟨v, hv⟩ | ⟨v, hv⟩ | ⟨v, hv⟩
      · rw [hs'] at hv; exact hv rfl
      · rw [hs'] at hv; exact hv rfl
      · by_cases hvw : v = w
        · subst hvw; rw [hs'] at hv; simp only [upd_same] at hv; exact hv hws
        · rw [hs'] at hv; simp [upd, hvw] at hv
    by_cases hsd : (s.ws w).startDriving = true
    · rw [if_pos hsd] at h
      exact hdrive _ h rfl rfl rfl (fun v hv => by simp [upd, hv]) (by simp)
    · rw [if_neg hsd] at h
      cases hexec : (s.ws w).exec with
      | finished =>
        simp only [hexec] at h
        exact hdrive _ h rfl rfl rfl (fun v hv => by simp [upd, hv]) (by simp)
      | none =>
        simp only [hexec] at h; injection h with h
        refine hidle _ ?_ h.symm
        cases hws : s.ws w with
        | mk p sd c ex wk =>
          rw [hws] at hexec hwk0
          simp only at hexec hwk0
          subst hexec
          simp only [WState.mk.injEq, true_and]
          omega
      | running ts =>
        simp only [hexec] at h; injection h with h
        refine hidle _ ?_ h.symm
        cases hws : s.ws w with
        | mk p sd c ex wk =>
          rw [hws] at hexec hwk0
          simp only at hexec hwk0
          subst hexec
          simp only [WState.mk.injEq, true_and]
          omega
  | taskDone w i =>
    simp only [step] at h
    cases hexec : (s.ws w).exec with
    | none => simp [hexec] at h
    | finished => simp [hexec] at h
    | running ts =>
      simp only [hexec] at h
      have hw : w < cfg.W := lt_W_of_exec hinv (by rw [hexec]; simp)
      split at h
      · rename_i t hti
        split at h
        · injection h with h; subst h
          refine pot_local hw rfl (fun v hv => ⟨by simp [upd, hv], rfl, rfl⟩) ?_
          have := notDone_setDone ts i t hti
          simp [workerPot, execPot, hexec]
          omega
        · exact absurd h (by simp)
      · exact absurd h (by simp)
  | execFinish w =>
    simp only [step] at h
    cases hexec : (s.ws w).exec with
    | none => simp [hexec] at h
    | finished => simp [hexec] at h
    | running ts =>
      simp only [hexec] at h
      have hw : w < cfg.W := lt_W_of_exec hinv (by rw [hexec]; simp)
      split at h
      · injection h with h; subst h
        refine pot_local hw rfl (fun v hv => ⟨by simp [upd, hv], rfl, rfl⟩) ?_
        simp [workerPot, execPot, hexec]
        omega
      · exact absurd h (by simp)
  | deliverWD w =>
    simp only [step] at h
    cases hqw : s.w2d w with
    | nil => simp [hqw] at h
    | cons m rest =>
      cases m with
      | jpr j =>
      simp only [hqw] at h
      injection h with h
      obtain ⟨hw, hj, _, _⟩ := jpr_is_current hinv hqw
      -- the worker that reported is parked at join point j ≤ S, so the race is not over
      have hstep : s.d.stepP1 ≤ cfg.S := by
        have hwi := hinv.winv w hw
        unfold WInv at hwi
        cases hp : (s.ws w).pos with
        | unstarted => simp only [hp] at hwi; rw [hqw] at hwi; simp at hwi
        | inCol e c => simp only [hp] at hwi; rw [hqw] at hwi; simp at hwi
        | atJoin j' =>
          simp only [hp] at hwi
          rcases hwi.2.2.2 with ⟨hjD, _⟩ | ⟨_, hwd, _⟩
          · have := hwi.2.2.1; omega
          · rw [hqw] at hwd; simp at hwd
      -- first the JoinPointReached leaves the channel …
      have hs1 : sumTo cfg.W (workerPot cfg { s with w2d := upd s.w2d w rest }) + 1 = sumTo cfg.W (workerPot cfg s) := by
        have := sumTo_upd cfg.W (workerPot cfg s) (workerPot cfg { s with w2d := upd s.w2d w rest }) w hw
          (fun i _ hne => by simp [workerPot, upd, hne])
        have hwp : workerPot cfg { s with w2d := upd s.w2d w rest } w + 1 = workerPot cfg s w := by
          simp [workerPot, hqw]; omega
        omega
      -- … then the driver acts
      have hmul : (cfg.S + 1 - s.d.stepP1) * (2 * cfg.W) = (cfg.S + 1 - (s.d.stepP1 + 1)) * (2 * cfg.W) + 2 * cfg.W := by
        have : cfg.S + 1 - s.d.stepP1 = (cfg.S + 1 - (s.d.stepP1 + 1)) + 1 := by omega
        rw [this, Nat.add_mul]; simp
      unfold joinpointReached at h
      simp only at h
      split at h
      · split at h
        · have hsum : sumTo cfg.W (workerPot cfg s') = sumTo cfg.W (workerPot cfg { s with w2d := upd s.w2d w rest }) := by
            rw [← h]; exact sumTo_congr _ _ _ (fun i _ => rfl)
          have hd1 : s'.d.stepP1 = s.d.stepP1 + 1 := by rw [← h]
          have hd2 : s'.d.cctSent = false := by rw [← h]
          unfold pot
          rw [hsum, hd1, hd2, hmul]
          simp only [Bool.false_eq_true, if_false]
          split <;> omega
        · have hsum : sumTo cfg.W (workerPot cfg s') = sumTo cfg.W (workerPot cfg { s with w2d := upd s.w2d w rest }) + cfg.W := by
            rw [← h]
            apply sumTo_add_one
            intro i hi
            simp [workerPot, sendAll, hi]
            omega
          have hd1 : s'.d.stepP1 = s.d.stepP1 + 1 := by rw [← h]
          have hd2 : s'.d.cctSent = false := by rw [← h]
          unfold pot
          rw [hsum, hd1, hd2, hmul]
          simp only [Bool.false_eq_true, if_false]
          split <;> omega
      · rcases mayComplete_cases cfg w (cfg.joins j)
          { s with w2d := upd s.w2d w rest, d := { s.d with completed := s.d.completed + 1, reported := w :: s.d.reported } }
          with hm | ⟨hcs, hm⟩
        · rw [hm] at h
          have hsum : sumTo cfg.W (workerPot cfg s') = sumTo cfg.W (workerPot cfg { s with w2d := upd s.w2d w rest }) := by
            rw [← h]; exact sumTo_congr _ _ _ (fun i _ => rfl)
          have hd1 : s'.d.stepP1 = s.d.stepP1 := by rw [← h]
          have hd2 : s'.d.cctSent = s.d.cctSent := by rw [← h]
          unfold pot
          rw [hsum, hd1, hd2]
          omega
        · rw [hm] at h
          have hsum : sumTo cfg.W (workerPot cfg s') = sumTo cfg.W (workerPot cfg { s with w2d := upd s.w2d w rest }) + cfg.W := by
            rw [← h]
            apply sumTo_add_one
            intro i hi
            simp [workerPot, sendAll, hi]
            omega
          have hd1 : s'.d.stepP1 = s.d.stepP1 := by rw [← h]
          have hd2 : s'.d.cctSent = true := by rw [← h]
          have hcs' : s.d.cctSent = false := hcs
          unfold pot
          rw [hsum, hd1, hd2, hcs']
          simp only [if_true, Bool.false_eq_true, if_false]
          omega

/-- only the delivery of a JoinPointReached changes the driver's state, and that step changes a channel length -/
theorem step_d_eq_or_changed {cfg : Cfg} {s s' : State} {e : Event} (h : step cfg s e = some s') :
    s'.d = s.d ∨ Changed s s' := by
  cases e with
  | deliverDW w =>
    simp only [step] at h
    cases hqw : s.d2w w with
    | nil => simp [hqw] at h
    | cons m rest =>
      simp only [hqw] at h
      cases m with
      | startWorker =>
        simp only at h
        cases hp : (s.ws w).pos with
        | unstarted => simp only [hp] at h; injection h with h; subst h; left; rfl
        | atJoin j => simp [hp] at h
        | inCol e c => simp [hp] at h
      | drive => simp only at h; injection h with h; subst h; left; rfl
      | cct => simp only at h; split at h <;> (injection h with h; subst h; left; rfl)
  | wakeW w =>
    simp only [step] at h
    by_cases hwk0 : (s.ws w).wake = 0
    · simp [hwk0] at h
    rw [if_neg hwk0] at h
    by_cases hsd : (s.ws w).startDriving = true
    · rw [if_pos hsd] at h; left; exact (driveNext_frame h).1
    · rw [if_neg hsd] at h
      cases hexec : (s.ws w).exec with
      | finished => simp only [hexec] at h; left; exact (driveNext_frame h).1
      | none => simp only [hexec] at h; injection h with h; subst h; left; rfl
      | running ts => simp only [hexec] at h; injection h with h; subst h; left; rfl
  | taskDone w i =>
    simp only [step] at h
    cases hexec : (s.ws w).exec with
    | none => simp [hexec] at h
    | finished => simp [hexec] at h
    | running ts =>
      simp only [hexec] at h
      split at h
      · split at h
        · injection h with h; subst h; left; rfl
        · exact absurd h (by simp)
      · exact absurd h (by simp)
  | execFinish w =>
    simp only [step] at h
    cases hexec : (s.ws w).exec with
    | none => simp [hexec] at h
    | finished => simp [hexec] at h
    | running ts =>
      simp only [hexec] at h
      split at h
      · injection h with h; subst h; left; rfl
      · exact absurd h (by simp)
  | deliverWD w =>
    right
    simp only [step] at h
    cases hqw : s.w2d w with
    | nil => simp [hqw] at h
    | cons m rest =>
      cases m with
      | jpr j =>
      simp only [hqw] at h
      injection h with h
      refine Or.inr (Or.inl ⟨w, ?_⟩)
      have : s'.w2d w = rest := by
        unfold joinpointReached at h
        simp only at h
        split at h
        · split at h <;> (subst h; simp)
        · rcases mayComplete_cases cfg w (cfg.joins j)
            { s with w2d := upd s.w2d w rest, d := { s.d with completed := s.d.completed + 1, reported := w :: s.d.reported } }
            with hm | ⟨_, hm⟩ <;> (rw [hm] at h; subst h; simp)
      rw [this, hqw]
      simp

/-- a step that does not change the state (an idle poll) leaves the measure as it is -/
theorem pot_eq_of_not_changed {cfg : Cfg} {s s' : State} (hd : s'.d = s.d) (hn : ¬ Changed s s') : pot cfg s' = pot cfg s := by
  unfold Changed at hn
  simp only [not_or, not_exists, ne_eq, Decidable.not_not] at hn
  obtain ⟨h1, h2, h3⟩ := hn
  unfold pot
  rw [hd]
  congr 2
  apply sumTo_congr
  intro i _
  unfold workerPot
  rw [h1 i, h2 i, h3 i]

/-- the measure never increases -/
theorem step_pot_le {cfg : Cfg} {s s' : State} {e : Event} (hinv : Inv cfg s) (h : step cfg s e = some s') :
    pot cfg s' ≤ pot cfg s := by
  by_cases hch : Changed s s'
  · exact Nat.le_of_lt (step_pot hinv h hch)
  · rcases step_d_eq_or_changed h with hd | hc
    · exact Nat.le_of_eq (pot_eq_of_not_changed hd hch)
    · exact absurd hc hch

/-- a run from `s` to `s'` with `n` state-changing steps (idle polls are not counted) -/
inductive Run (cfg : Cfg) (s : State) : Nat → State → Prop
  | refl : Run cfg s 0 s
  | idle {n : Nat} {s1 s2 : State} {e : Event} : Run cfg s n s1 → step cfg s1 e = some s2 → ¬ Changed s1 s2 → Run cfg s n s2
  | change {n : Nat} {s1 s2 : State} {e : Event} : Run cfg s n s1 → step cfg s1 e = some s2 → Changed s1 s2 → Run cfg s (n + 1) s2

theorem Run.reach {cfg : Cfg} {s s' : State} {n : Nat} (hr : Reach cfg s) (h : Run cfg s n s') : Reach cfg s' := by
  induction h with
  | refl => exact hr
  | idle _ hs _ ih => exact Reach.step _ _ _ ih hs
  | change _ hs _ ih => exact Reach.step _ _ _ ih hs

/-- the number of state-changing steps of a run is bounded by the measure it uses up -/
theorem run_bounded {cfg : Cfg} {s s' : State} {n : Nat} (hwf : cfg.WF) (hr : Reach cfg s) (h : Run cfg s n s') :
    n + pot cfg s' ≤ pot cfg s := by
  induction h with
  | refl => omega
  | idle hrun hs _ ih =>
    have := step_pot_le (reach_inv hwf (hrun.reach hr)) hs
    omega
  | change hrun hs hch ih =>
    have := step_pot (reach_inv hwf (hrun.reach hr)) hs hch
    omega

end Race
