import RallyModel.Corpus
/-!
Helper lemmas for C14 (model `RallyModel/Corpus.lean`).

`Frame s a b`   : going from state `a` to `b` only the file in slot `s` (and the clock) changed.
`FrameOff a b`  : only the offset table (and the clock) changed.
`Fresh c0 fs f` : file `f` was last written at or after `c0` and before `fs`'s "now".
`CidOk c f`     : `f` is empty (a prefix of anything) or has content family `c`.
-/
namespace Corpus

/-! ## slots -/

@[simp] theorem get_set_same (fs : FS) (s : Slot) (v : Option File) : (fs.set s v).get s = v := by
  cases s <;> rfl

theorem get_set_other (fs : FS) {s s' : Slot} (v : Option File) (h : s' ≠ s) : (fs.set s v).get s' = fs.get s' := by
  cases s <;> cases s' <;> first | rfl | exact absurd rfl h

@[simp] theorem off_set (fs : FS) (s : Slot) (v : Option File) : (fs.set s v).off = fs.off := by cases s <;> rfl
@[simp] theorem clock_set (fs : FS) (s : Slot) (v : Option File) : (fs.set s v).clock = fs.clock := by cases s <;> rfl
@[simp] theorem get_tick (fs : FS) (s : Slot) : fs.tick.get s = fs.get s := by cases s <;> rfl
@[simp] theorem off_tick (fs : FS) : fs.tick.off = fs.off := rfl
@[simp] theorem clock_tick (fs : FS) : fs.tick.clock = fs.clock + 1 := rfl
@[simp] theorem get_setOff (fs : FS) (s : Slot) (v : Option OffFile) : (fs.setOff v).get s = fs.get s := by cases s <;> rfl
@[simp] theorem off_setOff (fs : FS) (v : Option OffFile) : (fs.setOff v).off = v := rfl
@[simp] theorem clock_setOff (fs : FS) (v : Option OffFile) : (fs.setOff v).clock = fs.clock := rfl
@[simp] theorem get_setOffTmp (fs : FS) (s : Slot) (v : Option OffFile) : (fs.setOffTmp v).get s = fs.get s := by cases s <;> rfl
@[simp] theorem off_setOffTmp (fs : FS) (v : Option OffFile) : (fs.setOffTmp v).off = fs.off := rfl
@[simp] theorem offTmp_setOffTmp (fs : FS) (v : Option OffFile) : (fs.setOffTmp v).offTmp = v := rfl
@[simp] theorem clock_setOffTmp (fs : FS) (v : Option OffFile) : (fs.setOffTmp v).clock = fs.clock := rfl
@[simp] theorem offTmp_tick (fs : FS) : fs.tick.offTmp = fs.offTmp := rfl
@[simp] theorem offTmp_setOff (fs : FS) (v : Option OffFile) : (fs.setOff v).offTmp = fs.offTmp := rfl
@[simp] theorem get_doc (fs : FS) : fs.get .doc = fs.doc := rfl
@[simp] theorem get_arch (fs : FS) : fs.get .arch = fs.arch := rfl
@[simp] theorem get_tmp (fs : FS) : fs.get .tmp = fs.tmp := rfl

/-! ## frames -/

structure Frame (s : Slot) (a b : FS) : Prop where
  other : ∀ s', s' ≠ s → b.get s' = a.get s'
  off : b.off = a.off
  clock : a.clock ≤ b.clock

theorem Frame.refl (s : Slot) (a : FS) : Frame s a a := ⟨fun _ _ => rfl, rfl, Nat.le_refl _⟩

theorem Frame.trans {s : Slot} {a b c : FS} (h1 : Frame s a b) (h2 : Frame s b c) : Frame s a c :=
  ⟨fun s' h => (h2.other s' h).trans (h1.other s' h), h2.off.trans h1.off, Nat.le_trans h1.clock h2.clock⟩

theorem frame_tick (s : Slot) (a : FS) : Frame s a a.tick := ⟨fun _ _ => by simp, by simp, by simp⟩

theorem frame_set_tick (s : Slot) (a : FS) (v : Option File) : Frame s a (a.set s v).tick :=
  ⟨fun s' h => by simp [get_set_other a v h], by simp, by simp⟩

theorem frame_create (a : FS) (s : Slot) : Frame s a (create a s) := frame_set_tick s a _
theorem frame_remove (a : FS) (s : Slot) : Frame s a (remove a s) := frame_set_tick s a _

theorem frame_append (a : FS) (s : Slot) (n : Nat) (c : Cid) : Frame s a (append a s n c) := by
  unfold append
  split
  · exact Frame.refl s a
  · exact frame_set_tick s a _

theorem frame_touch (a : FS) (s : Slot) (t : Nat) : Frame s a (touch a s t) := by
  unfold touch
  split
  · exact Frame.refl s a
  · exact frame_set_tick s a _

theorem frame_writeAll (s : Slot) (c : Cid) (ns : List Nat) (a : FS) :
    Frame s a (writeAll a s c ns).1 ∧ ∀ x ∈ (writeAll a s c ns).2, Frame s a x := by
  induction ns generalizing a with
  | nil => exact ⟨Frame.refl s a, fun x hx => by simp [writeAll] at hx⟩
  | cons n ns ih =>
    have h1 := frame_append a s n c
    have ⟨h2, h3⟩ := ih (append a s n c)
    refine ⟨h1.trans h2, ?_⟩
    intro x hx
    simp only [writeAll, List.mem_cons] at hx
    rcases hx with rfl | hx
    · exact h1
    · exact h1.trans (h3 x hx)

/-- only the offset table (and the clock) changed -/
structure FrameOff (a b : FS) : Prop where
  files : ∀ s, b.get s = a.get s
  clock : a.clock ≤ b.clock

theorem FrameOff.refl (a : FS) : FrameOff a a := ⟨fun _ => rfl, Nat.le_refl _⟩
theorem FrameOff.trans {a b c : FS} (h1 : FrameOff a b) (h2 : FrameOff b c) : FrameOff a c :=
  ⟨fun s => (h2.files s).trans (h1.files s), Nat.le_trans h1.clock h2.clock⟩
theorem frameOff_setOff_tick (a : FS) (v : Option OffFile) : FrameOff a (a.setOff v).tick :=
  ⟨fun s => by simp, by simp⟩
theorem frameOff_setOffTmp_tick (a : FS) (v : Option OffFile) : FrameOff a (a.setOffTmp v).tick :=
  ⟨fun s => by simp, by simp⟩

/-! ## what a freshly written file looks like -/

def CidOk (c : Cid) (f : File) : Prop := (f.size = 0 → f.cid = .pub) ∧ (f.size ≠ 0 → f.cid = c)

/-- written at or after `c0`, before `fs`'s now -/
def Fresh (c0 : Nat) (fs : FS) (f : File) : Prop := c0 ≤ f.mtime ∧ f.mtime < fs.clock

theorem create_get (a : FS) (s : Slot) : (create a s).get s = some ⟨0, .pub, a.clock⟩ := by simp [create]

theorem writeAll_get (s : Slot) (c : Cid) (c0 : Nat) (ns : List Nat) (a : FS) (f : File)
    (hf : a.get s = some f) (hc : CidOk c f) (hfr : Fresh c0 a f) :
    ∃ f', (writeAll a s c ns).1.get s = some f' ∧ f'.size = f.size + ns.sum ∧ CidOk c f' ∧ Fresh c0 (writeAll a s c ns).1 f' := by
  induction ns generalizing a f with
  | nil => exact ⟨f, by simpa [writeAll] using hf, by simp, hc, by simpa [writeAll] using hfr⟩
  | cons n ns ih =>
    have hget : (append a s n c).get s = some ⟨f.size + n, if f.size + n = 0 then .pub else c, a.clock⟩ := by
      simp [append, hf]
    have hc' : CidOk c ⟨f.size + n, if f.size + n = 0 then .pub else c, a.clock⟩ := by
      constructor <;> intro h <;> simp_all
    have hfr' : Fresh c0 (append a s n c) ⟨f.size + n, if f.size + n = 0 then .pub else c, a.clock⟩ := by
      have : (append a s n c).clock = a.clock + 1 := by simp [append, hf]
      exact ⟨Nat.le_trans hfr.1 (Nat.le_of_lt hfr.2), by simp [this]⟩
    obtain ⟨f', h1, h2, h3, h4⟩ := ih (append a s n c) _ hget hc' hfr'
    exact ⟨f', by simpa [writeAll] using h1, by simp [h2, Nat.add_assoc], h3, by simpa [writeAll] using h4⟩

/-! ## net.py -/

theorem attemptHttp_frame (fs : FS) (a : Attempt) (exp : Option Nat) :
    Frame .tmp fs (attemptHttp fs a exp).fs ∧ ∀ x ∈ (attemptHttp fs a exp).trace, Frame .tmp fs x := by
  cases a with
  | connectFail => exact ⟨Frame.refl _ _, fun x hx => by simp [attemptHttp] at hx⟩
  | resp status cl cid chunks fin =>
    have hc := frame_create fs .tmp
    have ⟨hw, hwt⟩ := frame_writeAll .tmp cid chunks (create fs .tmp)
    unfold attemptHttp
    simp only
    split
    · exact ⟨hc, fun x hx => by simp at hx; subst hx; exact hc⟩
    · cases fin <;> refine ⟨hc.trans hw, fun x hx => ?_⟩ <;>
        (simp only [List.mem_cons] at hx; rcases hx with rfl | hx; exact hc; exact hc.trans (hwt x hx))

/-- what the successful request `a` leaves in `.tmp` -/
def GoodTmp (a : Attempt) (exp : Option Nat) (c0 : Nat) (fs' : FS) (e : Option Nat) : Prop :=
  ∃ st cl cid chunks t, a = Attempt.resp st cl cid chunks .clean ∧ st ≤ 299 ∧ fs'.tmp = some t ∧
    t.size = chunks.sum ∧ CidOk cid t ∧ Fresh c0 fs' t ∧ e = expectedOr exp cl

theorem attemptHttp_ok (fs : FS) (a : Attempt) (exp e : Option Nat) (h : (attemptHttp fs a exp).res = .ok e) :
    GoodTmp a exp fs.clock (attemptHttp fs a exp).fs e := by
  cases a with
  | connectFail => simp [attemptHttp] at h
  | resp status cl cid chunks fin =>
    have hcr : (create fs .tmp).get .tmp = some ⟨0, .pub, fs.clock⟩ := create_get fs .tmp
    have hfr : Fresh fs.clock (create fs .tmp) ⟨0, .pub, fs.clock⟩ := ⟨Nat.le_refl _, by simp [create]⟩
    obtain ⟨t, h1, h2, h3, h4⟩ := writeAll_get .tmp cid fs.clock chunks (create fs .tmp) _ hcr ⟨fun _ => rfl, fun h => absurd rfl h⟩ hfr
    by_cases hst : status > 299
    · simp [attemptHttp, hst] at h
    · cases fin with
      | protocolError => simp [attemptHttp, hst] at h
      | readTimeout => simp [attemptHttp, hst] at h
      | clean =>
        simp only [attemptHttp, hst, if_false] at h ⊢
        refine ⟨status, cl, cid, chunks, t, rfl, by omega, by simpa using h1, by simpa using h2, h3, h4, ?_⟩
        simpa using h.symm

theorem GoodTmp.mono {a : Attempt} {exp : Option Nat} {c0 c1 : Nat} {fs' : FS} {e : Option Nat}
    (h : GoodTmp a exp c1 fs' e) (hc : c0 ≤ c1) : GoodTmp a exp c0 fs' e := by
  obtain ⟨st, cl, cid, chunks, t, h1, h2, h3, h4, h5, h6, h7⟩ := h
  exact ⟨st, cl, cid, chunks, t, h1, h2, h3, h4, h5, ⟨Nat.le_trans hc h6.1, h6.2⟩, h7⟩

theorem mem_of_mem_tail' {α : Type} {a : α} {l : List α} (h : a ∈ l.tail) : a ∈ l := by
  cases l with
  | nil => simp at h
  | cons x xs => exact List.mem_cons_of_mem _ (by simpa using h)

theorem downloadHttp_spec (exp : Option Nat) (left : Nat) (fs : FS) (plan : List Attempt) :
    Frame .tmp fs (downloadHttp fs exp left plan).1.fs ∧
    (∀ x ∈ (downloadHttp fs exp left plan).1.trace, Frame .tmp fs x) ∧
    (∀ a ∈ (downloadHttp fs exp left plan).2, a ∈ plan) ∧
    (∀ e, left ≠ 0 → (downloadHttp fs exp left plan).1.res = .ok e →
      ∃ a ∈ plan, GoodTmp a exp fs.clock (downloadHttp fs exp left plan).1.fs e) := by
  induction left generalizing fs plan with
  | zero => exact ⟨Frame.refl _ _, fun x hx => by simp [downloadHttp] at hx, fun a ha => by simpa [downloadHttp] using ha,
      fun e h => absurd rfl h⟩
  | succ left ih =>
    have ⟨hf, hft⟩ := attemptHttp_frame fs (plan.head?.getD .connectFail) exp
    have hok := attemptHttp_ok fs (plan.head?.getD .connectFail) exp
    have hmem : ∀ e, (attemptHttp fs (plan.head?.getD .connectFail) exp).res = .ok e → plan.head?.getD .connectFail ∈ plan := by
      intro e he
      cases plan with
      | nil => simp [attemptHttp] at he
      | cons a rest => simp
    unfold downloadHttp
    simp only
    split
    · rename_i e he
      exact ⟨hf, hft, fun a ha => mem_of_mem_tail' ha, fun e' _ h' => by
        simp only [Except.ok.injEq] at h'
        subst h'
        exact ⟨_, hmem e he, hok e he⟩⟩
    · rename_i err herr
      split
      · rename_i hret
        have hl : left ≠ 0 := by
          intro h0
          simp [h0] at hret
        have ⟨i1, i2, i3, i4⟩ := ih (attemptHttp fs (plan.head?.getD .connectFail) exp).fs plan.tail
        refine ⟨hf.trans i1, ?_, fun a ha => mem_of_mem_tail' (i3 a ha), ?_⟩
        · intro x hx
          simp only [List.mem_append] at hx
          rcases hx with hx | hx
          · exact hft x hx
          · exact hf.trans (i2 x hx)
        · intro e _ he
          obtain ⟨a, ha, hg⟩ := i4 e hl he
          exact ⟨a, mem_of_mem_tail' ha, hg.mono hf.clock⟩
      · exact ⟨hf, hft, fun a ha => mem_of_mem_tail' ha, fun e _ h' => by simp at h'⟩

/-- the file `net.download` installs under the final name: the completely received body of a request of the
    plan, size verified against the declared size, else against Content-Length when present -/
def InstalledBy (plan : List Attempt) (exp : Option Nat) (c0 : Nat) (fs' : FS) (t : File) : Prop :=
  ∃ st cl cid chunks, Attempt.resp st cl cid chunks .clean ∈ plan ∧ st ≤ 299 ∧ t.size = chunks.sum ∧ CidOk cid t ∧
    Fresh c0 fs' t ∧ (∀ e, expectedOr exp cl = some e → t.size = e)

theorem rename_get_tgt (fs : FS) {tgt : Slot} (h : tgt ≠ .tmp) : (rename fs tgt).get tgt = fs.tmp := by
  cases tgt <;> first | rfl | exact absurd rfl h

theorem rename_get_other (fs : FS) {tgt s' : Slot} (h1 : s' ≠ tgt) (h2 : s' ≠ .tmp) : (rename fs tgt).get s' = fs.get s' := by
  cases tgt <;> cases s' <;> first | rfl | exact absurd rfl h1 | exact absurd rfl h2

theorem netDownload_spec (fs : FS) (tgt : Slot) (exp : Option Nat) (plan : List Attempt) (htgt : tgt ≠ .tmp) :
    (∀ a ∈ (netDownload fs tgt exp plan).2, a ∈ plan) ∧
    (∀ x ∈ (netDownload fs tgt exp plan).1.trace,
      Frame .tmp fs x ∨ ((netDownload fs tgt exp plan).1.res = .ok () ∧ x = (netDownload fs tgt exp plan).1.fs)) ∧
    (∀ err, (netDownload fs tgt exp plan).1.res = .error err → Frame .tmp fs (netDownload fs tgt exp plan).1.fs) ∧
    ((netDownload fs tgt exp plan).1.res = .ok () →
      ∃ t, (netDownload fs tgt exp plan).1.fs.get tgt = some t ∧
        InstalledBy plan exp fs.clock (netDownload fs tgt exp plan).1.fs t ∧
        (∀ s', s' ≠ tgt → s' ≠ .tmp → (netDownload fs tgt exp plan).1.fs.get s' = fs.get s') ∧
        (netDownload fs tgt exp plan).1.fs.off = fs.off ∧ fs.clock ≤ (netDownload fs tgt exp plan).1.fs.clock) := by
  have ⟨d1, d2, d3, d4⟩ := downloadHttp_spec exp (HTTP_DOWNLOAD_RETRIES + 1) fs plan
  unfold netDownload
  simp only
  split
  · -- download_http raised
    rename_i err herr
    split
    · have hr := frame_remove (downloadHttp fs exp (HTTP_DOWNLOAD_RETRIES + 1) plan).1.fs .tmp
      refine ⟨d3, ?_, fun _ _ => d1.trans hr, fun h => by simp at h⟩
      intro x hx
      simp only [List.mem_append, List.mem_singleton] at hx
      rcases hx with hx | rfl
      · exact Or.inl (d2 x hx)
      · exact Or.inl (d1.trans hr)
    · exact ⟨d3, fun x hx => Or.inl (d2 x hx), fun _ _ => d1, fun h => by simp at h⟩
  · rename_i e he
    obtain ⟨a, ha, st, cl, cid, chunks, t, h1, h2, h3, h4, h5, h6, h7⟩ := d4 e (by simp) he
    simp only [h3]
    split
    · rename_i hsz
      refine ⟨d3, ?_, fun _ h => by simp at h, fun _ => ?_⟩
      · intro x hx
        simp only [List.mem_append, List.mem_singleton] at hx
        rcases hx with hx | rfl
        · exact Or.inl (d2 x hx)
        · exact Or.inr ⟨rfl, rfl⟩
      · refine ⟨t, by rw [rename_get_tgt _ htgt]; exact h3, ⟨st, cl, cid, chunks, h1 ▸ ha, h2, h4, h5, ?_, ?_⟩, ?_, ?_, ?_⟩
        · exact ⟨h6.1, by simp [rename]; exact Nat.lt_succ_of_lt h6.2⟩
        · intro e' he'
          rw [← h7] at he'
          subst he'
          simpa [sizeIs] using hsz
        · intro s' hs1 hs2
          rw [rename_get_other _ hs1 hs2]
          exact d1.other s' hs2
        · simp [rename]; exact d1.off
        · simp [rename]; exact Nat.le_succ_of_le d1.clock
    · -- size mismatch
      have hr := frame_remove (downloadHttp fs exp (HTTP_DOWNLOAD_RETRIES + 1) plan).1.fs .tmp
      refine ⟨d3, ?_, fun _ _ => d1.trans hr, fun h => by simp at h⟩
      intro x hx
      simp only [List.mem_append, List.mem_singleton] at hx
      rcases hx with hx | rfl
      · exact Or.inl (d2 x hx)
      · exact Or.inl (d1.trans hr)

/-! ## loader.Downloader -/

theorem downloaderDownload_spec (spec : Spec) (fs : FS) (tgt : Slot) (size : Option Nat) (plan : List Attempt)
    (htgt : tgt ≠ .tmp) :
    (∀ a ∈ (downloaderDownload spec fs tgt size plan).2, a ∈ plan) ∧
    (∀ x ∈ (downloaderDownload spec fs tgt size plan).1.trace,
      Frame .tmp fs x ∨ ((downloaderDownload spec fs tgt size plan).1.res = .ok () ∧ x = (downloaderDownload spec fs tgt size plan).1.fs)) ∧
    (∀ err, (downloaderDownload spec fs tgt size plan).1.res = .error err → Frame .tmp fs (downloaderDownload spec fs tgt size plan).1.fs) ∧
    ((downloaderDownload spec fs tgt size plan).1.res = .ok () →
      ∃ t, (downloaderDownload spec fs tgt size plan).1.fs.get tgt = some t ∧ sizeIs t size = true ∧
        InstalledBy plan size fs.clock (downloaderDownload spec fs tgt size plan).1.fs t ∧
        (∀ s', s' ≠ tgt → s' ≠ .tmp → (downloaderDownload spec fs tgt size plan).1.fs.get s' = fs.get s') ∧
        (downloaderDownload spec fs tgt size plan).1.fs.off = fs.off ∧ fs.clock ≤ (downloaderDownload spec fs tgt size plan).1.fs.clock) := by
  have ⟨n1, n2, n3, n4⟩ := netDownload_spec fs tgt size plan htgt
  unfold downloaderDownload
  split
  · exact ⟨fun a ha => ha, fun x hx => by simp at hx, fun _ _ => Frame.refl _ _, fun h => by simp at h⟩
  split
  · exact ⟨fun a ha => ha, fun x hx => by simp at hx, fun _ _ => Frame.refl _ _, fun h => by simp at h⟩
  simp only
  split
  · rename_i code hcode
    have hne : (netDownload fs tgt size plan).1.res ≠ .ok () := by rw [hcode]; simp
    split
    · refine ⟨n1, fun x hx => ?_, fun _ _ => n3 _ hcode, fun h => by simp at h⟩
      rcases n2 x hx with h | h
      · exact Or.inl h
      · exact absurd h.1 hne
    · refine ⟨n1, fun x hx => ?_, fun _ _ => n3 _ hcode, fun h => by simp at h⟩
      rcases n2 x hx with h | h
      · exact Or.inl h
      · exact absurd h.1 hne
  · rename_i e _ he
    have hne : (netDownload fs tgt size plan).1.res ≠ .ok () := by rw [he]; simp
    refine ⟨n1, fun x hx => ?_, fun _ _ => n3 _ he, fun h => by simp at h⟩
    rcases n2 x hx with h | h
    · exact Or.inl h
    · exact absurd h.1 hne
  · rename_i hok
    obtain ⟨t, h1, h2, h3, h4, h5⟩ := n4 hok
    simp only [h1]
    split
    · rename_i hsz
      exact ⟨n1, fun x hx => by
        rcases n2 x hx with h | h
        · exact Or.inl h
        · exact Or.inr ⟨rfl, h.2⟩, fun _ h => by simp at h, fun _ => ⟨t, h1, hsz, h2, h3, h4, h5⟩⟩
    · -- unreachable in fact (net.download already verified the same size); harmless here
      rename_i hsz
      exfalso
      obtain ⟨st, cl, cid, chunks, _, _, _, _, _, hv⟩ := h2
      cases size with
      | none => simp [sizeIs] at hsz
      | some e => exact hsz (by simpa [sizeIs] using hv e (by simp [expectedOr]))

/-! ## decompression -/

/-- size of what a decompression that returns normally leaves under the output name -/
def DcOutcome.outSize (o : DcOutcome) : Nat :=
  match o.ext with
  | some (n, true) => n
  | _ => o.chunks.sum

theorem dcPhase_frame (o : DcOutcome) (fs : FS) (chunks : List Nat) :
    Frame .doc fs (dcPhase o fs chunks).1 ∧ ∀ x ∈ (dcPhase o fs chunks).2, Frame .doc fs x := by
  unfold dcPhase dcCreate dcWrite
  by_cases h : o.hitsDoc
  · have hc := frame_create fs .doc
    have ⟨hw, hwt⟩ := frame_writeAll .doc o.cid chunks (create fs .doc)
    simp only [h, if_true]
    refine ⟨hc.trans hw, fun x hx => ?_⟩
    simp only [List.mem_cons] at hx
    rcases hx with rfl | hx
    · exact hc
    · exact hc.trans (hwt x hx)
  · simp only [h]
    exact ⟨frame_tick _ _, fun x hx => by simp at hx; subst hx; exact frame_tick _ _⟩

theorem dcPhase_doc (o : DcOutcome) (fs : FS) (chunks : List Nat) :
    (o.hitsDoc = false ∧ (dcPhase o fs chunks).1.doc = fs.doc) ∨
    (o.hitsDoc = true ∧ ∃ d, (dcPhase o fs chunks).1.doc = some d ∧ d.size = chunks.sum ∧ CidOk o.cid d ∧
      Fresh fs.clock (dcPhase o fs chunks).1 d) := by
  unfold dcPhase dcCreate dcWrite
  by_cases h : o.hitsDoc
  · right
    have hcr : (create fs .doc).get .doc = some ⟨0, .pub, fs.clock⟩ := create_get fs .doc
    have hfr : Fresh fs.clock (create fs .doc) ⟨0, .pub, fs.clock⟩ := ⟨Nat.le_refl _, by simp [create]⟩
    obtain ⟨d, h1, h2, h3, h4⟩ := writeAll_get .doc o.cid fs.clock chunks (create fs .doc) _ hcr ⟨fun _ => rfl, fun h => absurd rfl h⟩ hfr
    refine ⟨h, ?_⟩
    simp only [h, if_true]
    exact ⟨d, by simpa using h1, by simpa using h2, h3, h4⟩
  · left
    simp only [h]
    exact ⟨by simpa using h, rfl⟩

theorem dcTouch_frame (o : DcOutcome) (fs : FS) :
    Frame .doc fs (dcTouch o fs).1 ∧ ∀ x ∈ (dcTouch o fs).2, Frame .doc fs x := by
  unfold dcTouch
  split
  · split
    · exact ⟨frame_touch _ _ _, fun x hx => by simp at hx; subst hx; exact frame_touch _ _ _⟩
    · exact ⟨Frame.refl _ _, fun x hx => by simp at hx⟩
  · exact ⟨Frame.refl _ _, fun x hx => by simp at hx⟩

theorem dcTouch_none (o : DcOutcome) (fs : FS) (h : o.mtime = none) : dcTouch o fs = (fs, []) := by
  simp [dcTouch, h]

theorem ioDecompress_frame (o : DcOutcome) (fs : FS) :
    Frame .doc fs (ioDecompress o fs).2.1 ∧ ∀ x ∈ (ioDecompress o fs).2.2, Frame .doc fs x := by
  unfold ioDecompress
  split
  · exact ⟨Frame.refl _ _, fun x hx => by simp at hx⟩
  split
  · exact dcPhase_frame o fs _
  · rename_i n _
    have ⟨a1, a2⟩ := dcPhase_frame o fs [n]
    have ⟨b1, b2⟩ := dcPhase_frame o (dcPhase o fs [n]).1 o.chunks
    have ⟨c1, c2⟩ := dcTouch_frame o (dcPhase o (dcPhase o fs [n]).1 o.chunks).1
    refine ⟨a1.trans (b1.trans c1), fun x hx => ?_⟩
    simp only [List.mem_append] at hx
    rcases hx with (hx | hx) | hx
    · exact a2 x hx
    · exact a1.trans (b2 x hx)
    · exact a1.trans (b1.trans (c2 x hx))
  · have ⟨b1, b2⟩ := dcPhase_frame o fs o.chunks
    have ⟨c1, c2⟩ := dcTouch_frame o (dcPhase o fs o.chunks).1
    refine ⟨b1.trans c1, fun x hx => ?_⟩
    simp only [List.mem_append] at hx
    rcases hx with hx | hx
    · exact b2 x hx
    · exact b1.trans (c2 x hx)

/-- after a decompression that returned normally (formats that do not restore mtimes): the document name is
    untouched (the archive writes elsewhere) or holds a freshly written file of `outSize` bytes -/
theorem ioDecompress_doc (o : DcOutcome) (fs : FS) (hm : o.mtime = none) (hok : (ioDecompress o fs).1 = none) :
    (ioDecompress o fs).2.1.doc = fs.doc ∨
    ∃ d, (ioDecompress o fs).2.1.doc = some d ∧ d.size = o.outSize ∧ CidOk o.cid d ∧ Fresh fs.clock (ioDecompress o fs).2.1 d := by
  by_cases hopen : o.openFails
  · simp [ioDecompress, hopen] at hok
  cases hext : o.ext with
  | none =>
    have e : (ioDecompress o fs).2.1 = (dcPhase o fs o.chunks).1 := by
      simp [ioDecompress, hopen, hext, dcTouch_none o _ hm]
    have hs : o.outSize = o.chunks.sum := by simp [DcOutcome.outSize, hext]
    rw [e, hs]
    rcases dcPhase_doc o fs o.chunks with ⟨_, h⟩ | ⟨_, d, h1, h2, h3, h4⟩
    · exact Or.inl h
    · exact Or.inr ⟨d, h1, h2, h3, h4⟩
  | some p =>
    obtain ⟨n, b⟩ := p
    cases b with
    | true =>
      have e : (ioDecompress o fs).2.1 = (dcPhase o fs [n]).1 := by
        simp [ioDecompress, hopen, hext]
      have hs : o.outSize = n := by simp [DcOutcome.outSize, hext]
      rw [e, hs]
      rcases dcPhase_doc o fs [n] with ⟨_, h⟩ | ⟨_, d, h1, h2, h3, h4⟩
      · exact Or.inl h
      · exact Or.inr ⟨d, h1, by simpa using h2, h3, h4⟩
    | false =>
      have e : (ioDecompress o fs).2.1 = (dcPhase o (dcPhase o fs [n]).1 o.chunks).1 := by
        simp [ioDecompress, hopen, hext, dcTouch_none o _ hm]
      have hs : o.outSize = o.chunks.sum := by simp [DcOutcome.outSize, hext]
      rw [e, hs]
      have ⟨a1, _⟩ := dcPhase_frame o fs [n]
      rcases dcPhase_doc o (dcPhase o fs [n]).1 o.chunks with ⟨hh, h⟩ | ⟨_, d, h1, h2, h3, h4⟩
      · left
        rw [h]
        rcases dcPhase_doc o fs [n] with ⟨_, h'⟩ | ⟨hh', _⟩
        · exact h'
        · rw [hh] at hh'; cases hh'
      · exact Or.inr ⟨d, h1, h2, h3, ⟨Nat.le_trans a1.clock h4.1, h4.2⟩⟩

theorem decompressorDecompress_frame (w : World) (spec : Spec) (fs : FS) :
    Frame .doc fs (decompressorDecompress w spec fs).fs ∧ ∀ x ∈ (decompressorDecompress w spec fs).trace, Frame .doc fs x := by
  unfold decompressorDecompress
  split
  · exact ⟨Frame.refl _ _, fun x hx => by simp at hx⟩
  · rename_i a _
    have h := ioDecompress_frame (w.dc a.cid a.size) fs
    simp only
    split
    · exact h
    · split
      · exact h
      · split <;> exact h

theorem decompressorDecompress_ok (w : World) (spec : Spec) (fs : FS) (hok : (decompressorDecompress w spec fs).res = .ok ()) :
    fileOk (decompressorDecompress w spec fs).fs.doc spec.usize = true ∧
    ∃ a, fs.arch = some a ∧ ((w.dc a.cid a.size).mtime = none →
      ((decompressorDecompress w spec fs).fs.doc = fs.doc ∨
       ∃ d, (decompressorDecompress w spec fs).fs.doc = some d ∧ d.size = (w.dc a.cid a.size).outSize ∧
         CidOk (w.dc a.cid a.size).cid d ∧ Fresh fs.clock (decompressorDecompress w spec fs).fs d)) := by
  cases ha : fs.arch with
  | none => simp [decompressorDecompress, ha] at hok
  | some a =>
    cases hr : (ioDecompress (w.dc a.cid a.size) fs).1 with
    | some err => simp [decompressorDecompress, ha, hr] at hok
    | none =>
      cases hd : (ioDecompress (w.dc a.cid a.size) fs).2.1.doc with
      | none => simp [decompressorDecompress, ha, hr, hd] at hok
      | some d =>
        by_cases hsz : sizeIs d spec.usize
        · have e : (decompressorDecompress w spec fs).fs = (ioDecompress (w.dc a.cid a.size) fs).2.1 := by
            simp [decompressorDecompress, ha, hr, hd, hsz]
          rw [e]
          refine ⟨by simp [fileOk, hd, hsz], a, rfl, fun hm => ?_⟩
          exact ioDecompress_doc (w.dc a.cid a.size) fs hm hr
        · simp [decompressorDecompress, ha, hr, hd, hsz] at hok

/-! ## offset table -/

/-- while the table is being built only `<document>.offset.tmp` (and the clock) changes -/
structure FrameTmpOff (a b : FS) : Prop where
  files : ∀ s, b.get s = a.get s
  off : b.off = a.off
  clock : a.clock ≤ b.clock

theorem FrameTmpOff.refl (a : FS) : FrameTmpOff a a := ⟨fun _ => rfl, rfl, Nat.le_refl _⟩
theorem FrameTmpOff.trans {a b c : FS} (h1 : FrameTmpOff a b) (h2 : FrameTmpOff b c) : FrameTmpOff a c :=
  ⟨fun s => (h2.files s).trans (h1.files s), h2.off.trans h1.off, Nat.le_trans h1.clock h2.clock⟩
theorem frameTmpOff_set (a : FS) (v : Option OffFile) : FrameTmpOff a (a.setOffTmp v).tick :=
  ⟨fun s => by simp, by simp, by simp⟩
theorem FrameTmpOff.frameOff {a b : FS} (h : FrameTmpOff a b) : FrameOff a b := ⟨h.files, h.clock⟩

theorem writeOff_frame (d : File) (ns : List Nat) (done : Nat) (a : FS) :
    FrameTmpOff a (writeOff a d done ns).1 ∧ ∀ x ∈ (writeOff a d done ns).2, FrameTmpOff a x := by
  induction ns generalizing a done with
  | nil => exact ⟨FrameTmpOff.refl a, fun x hx => by simp [writeOff] at hx⟩
  | cons n ns ih =>
    have h1 := frameTmpOff_set a (some ⟨.torn d.size d.cid (done + n), a.clock⟩)
    have ⟨h2, h3⟩ := ih (done + n) (a.setOffTmp (some ⟨.torn d.size d.cid (done + n), a.clock⟩)).tick
    refine ⟨h1.trans h2, fun x hx => ?_⟩
    simp only [writeOff, List.mem_cons] at hx
    rcases hx with rfl | hx
    · exact h1
    · exact h1.trans (h3 x hx)

/-- what the offset-table name holds in a state reached while `prepare_file_offset_table` runs for document `d`
    from state `fs`: what it held before, or the complete table of `d` written just now -/
def OffStep (fs : FS) (d : File) (x : FS) : Prop :=
  (∀ s, x.get s = fs.get s) ∧ fs.clock ≤ x.clock ∧
  (x.off = fs.off ∨ ∃ o, x.off = some o ∧ o.content = .complete d.size d.cid ∧ fs.clock ≤ o.mtime ∧ o.mtime < x.clock)

theorem FrameTmpOff.offStep {fs x : FS} (d : File) (h : FrameTmpOff fs x) : OffStep fs d x :=
  ⟨h.files, h.clock, Or.inl h.off⟩

theorem OffStep.frameOff {fs x : FS} {d : File} (h : OffStep fs d x) : FrameOff fs x := ⟨h.1, h.2.1⟩

theorem prepareFileOffsetTable_steps (w : World) (fs : FS) (d : File) :
    OffStep fs d (prepareFileOffsetTable w fs d).2.1 ∧ ∀ x ∈ (prepareFileOffsetTable w fs d).2.2, OffStep fs d x := by
  unfold prepareFileOffsetTable
  split
  · exact ⟨(FrameTmpOff.refl fs).offStep d, fun x hx => by simp at hx⟩
  · have ha := frameTmpOff_set fs (some ⟨.torn d.size d.cid 0, fs.clock⟩)
    have ⟨hb, hbt⟩ := writeOff_frame d (w.tbl d.cid d.size) 0 (fs.setOffTmp (some ⟨.torn d.size d.cid 0, fs.clock⟩)).tick
    simp only
    generalize writeOff (fs.setOffTmp (some ⟨.torn d.size d.cid 0, fs.clock⟩)).tick d 0 (w.tbl d.cid d.size) = B at *
    split
    · have hc := frameTmpOff_set B.1 none
      refine ⟨(ha.trans (hb.trans hc)).offStep d, fun x hx => ?_⟩
      simp only [List.mem_cons, List.mem_append, List.not_mem_nil, or_false] at hx
      rcases hx with (rfl | hx) | rfl
      · exact ha.offStep d
      · exact (ha.trans (hbt x hx)).offStep d
      · exact (ha.trans (hb.trans hc)).offStep d
    · have hc := frameTmpOff_set B.1 (some ⟨.complete d.size d.cid, B.1.clock⟩)
      have hab := ha.trans hb
      have he : OffStep fs d ((((B.1.setOffTmp (some ⟨.complete d.size d.cid, B.1.clock⟩)).tick.setOff
          (B.1.setOffTmp (some ⟨.complete d.size d.cid, B.1.clock⟩)).tick.offTmp).setOffTmp none).tick) := by
        refine ⟨fun s => by simp; exact hab.files s, by simp; exact Nat.le_trans hab.clock (by omega),
          Or.inr ⟨⟨.complete d.size d.cid, B.1.clock⟩, by simp, rfl, ?_, ?_⟩⟩
        · simpa using hab.clock
        · simp; omega
      refine ⟨he, fun x hx => ?_⟩
      simp only [List.mem_cons, List.mem_append, List.not_mem_nil, or_false] at hx
      rcases hx with (rfl | hx) | rfl | rfl
      · exact ha.offStep d
      · exact (ha.trans (hbt x hx)).offStep d
      · exact (hab.trans hc).offStep d
      · exact he

theorem prepareFileOffsetTable_ok (w : World) (fs : FS) (d : File) :
    (∀ n, (prepareFileOffsetTable w fs d).1 = .ok n →
      (n = none ∧ offsetValid fs d = true ∧ (prepareFileOffsetTable w fs d).2.1 = fs) ∨
      (n = some (w.lines d.cid d.size) ∧ ∃ o, (prepareFileOffsetTable w fs d).2.1.off = some o ∧
        o.content = .complete d.size d.cid ∧ fs.clock ≤ o.mtime ∧ o.mtime < (prepareFileOffsetTable w fs d).2.1.clock)) := by
  intro n hn
  unfold prepareFileOffsetTable at hn ⊢
  by_cases hv : offsetValid fs d
  · left
    refine ⟨?_, hv, ?_⟩
    · simp only [hv, if_true, Except.ok.injEq] at hn
      exact hn.symm
    · simp only [hv, if_true]
  · simp only [hv] at hn ⊢
    by_cases hdec : w.decodeFails d.cid d.size
    · simp [hdec] at hn
    · simp only [hdec] at hn ⊢
      right
      simp only [Bool.false_eq_true, if_false, Except.ok.injEq] at hn ⊢
      have ha := frameTmpOff_set fs (some ⟨.torn d.size d.cid 0, fs.clock⟩)
      have ⟨hb, _⟩ := writeOff_frame d (w.tbl d.cid d.size) 0 (fs.setOffTmp (some ⟨.torn d.size d.cid 0, fs.clock⟩)).tick
      refine ⟨hn.symm, ⟨.complete d.size d.cid, (writeOff (fs.setOffTmp (some ⟨.torn d.size d.cid 0, fs.clock⟩)).tick d 0
        (w.tbl d.cid d.size)).1.clock⟩, by simp, rfl, ?_, by simp; omega⟩
      simpa using (ha.trans hb).clock

theorem createFileOffsetTable_steps (w : World) (spec : Spec) (fs : FS) (d : File) (hd : fs.doc = some d) :
    (OffStep fs d (createFileOffsetTable w spec fs).fs ∨ (createFileOffsetTable w spec fs).fs.off = none) ∧
    FrameOff fs (createFileOffsetTable w spec fs).fs ∧
    ∀ x ∈ (createFileOffsetTable w spec fs).trace, FrameOff fs x ∧ (OffStep fs d x ∨ x.off = none) := by
  have ⟨h1, h2⟩ := prepareFileOffsetTable_steps w fs d
  unfold createFileOffsetTable
  simp only [hd]
  split
  · exact ⟨Or.inl h1, h1.frameOff, fun x hx => ⟨(h2 x hx).frameOff, Or.inl (h2 x hx)⟩⟩
  · exact ⟨Or.inl h1, h1.frameOff, fun x hx => ⟨(h2 x hx).frameOff, Or.inl (h2 x hx)⟩⟩
  · split
    · have h3 := frameOff_setOff_tick (prepareFileOffsetTable w fs d).2.1 none
      refine ⟨Or.inr (by simp), h1.frameOff.trans h3, fun x hx => ?_⟩
      simp only [List.mem_append, List.mem_singleton] at hx
      rcases hx with hx | rfl
      · exact ⟨(h2 x hx).frameOff, Or.inl (h2 x hx)⟩
      · exact ⟨h1.frameOff.trans h3, Or.inr (by simp)⟩
    · exact ⟨Or.inl h1, h1.frameOff, fun x hx => ⟨(h2 x hx).frameOff, Or.inl (h2 x hx)⟩⟩

theorem createFileOffsetTable_frame (w : World) (spec : Spec) (fs : FS) :
    FrameOff fs (createFileOffsetTable w spec fs).fs ∧ ∀ x ∈ (createFileOffsetTable w spec fs).trace, FrameOff fs x := by
  cases hd : fs.doc with
  | none => simp [createFileOffsetTable, hd]; exact FrameOff.refl _
  | some d =>
    have ⟨_, h2, h3⟩ := createFileOffsetTable_steps w spec fs d hd
    exact ⟨h2, fun x hx => (h3 x hx).1⟩

/-- if `create_file_offset_table` returns normally: the existing table was taken as valid (nothing changed), or a
    complete table for the current document bytes was written just now -/
theorem createFileOffsetTable_ok (w : World) (spec : Spec) (fs : FS) (hok : (createFileOffsetTable w spec fs).res = .ok ()) :
    ∃ d, fs.doc = some d ∧
      ((offsetValid fs d = true ∧ (createFileOffsetTable w spec fs).fs = fs) ∨
       (∃ o, (createFileOffsetTable w spec fs).fs.off = some o ∧ o.content = .complete d.size d.cid ∧ fs.clock ≤ o.mtime ∧
          o.mtime < (createFileOffsetTable w spec fs).fs.clock)) := by
  cases hd : fs.doc with
  | none => simp [createFileOffsetTable, hd] at hok
  | some d =>
    refine ⟨d, rfl, ?_⟩
    cases hr : (prepareFileOffsetTable w fs d).1 with
    | error e => simp [createFileOffsetTable, hd, hr] at hok
    | ok n =>
      rcases prepareFileOffsetTable_ok w fs d n hr with ⟨h1, h2, h3⟩ | ⟨h1, o, h2, h3, h4, h5⟩
      · left
        subst h1
        exact ⟨h2, by simp [createFileOffsetTable, hd, hr, h3]⟩
      · right
        subst h1
        by_cases hl : (w.lines d.cid d.size != spec.nlines) = true
        · simp [createFileOffsetTable, hd, hr, hl] at hok
        · have e : (createFileOffsetTable w spec fs).fs = (prepareFileOffsetTable w fs d).2.1 := by
            simp [createFileOffsetTable, hd, hr, hl]
          rw [e]
          exact ⟨o, h2, h3, h4, h5⟩

/-! ## the preparation loop: one unfolding per branch, and an induction principle -/

theorem target_ne_tmp (spec : Spec) : target spec ≠ .tmp := by
  unfold target; split <;> simp

theorem target_arch {spec : Spec} (h : spec.hasArchive = true) : target spec = .arch ∧ targetSize spec = spec.csize := by
  simp [target, targetSize, h]

theorem target_doc {spec : Spec} (h : ¬ spec.hasArchive = true) : target spec = .doc ∧ targetSize spec = spec.usize := by
  simp [target, targetSize, h]

@[simp] theorem ofOut_fs (o : Out Unit) : (ofOut o).fs = o.fs := rfl
@[simp] theorem ofOut_trace (o : Out Unit) : (ofOut o).trace = o.trace := rfl

theorem ofOut_res (o : Out Unit) : ((ofOut o).res = .done () ∧ o.res = .ok ()) ∨ ∃ e, (ofOut o).res = .raised e ∧ o.res = .error e := by
  unfold ofOut
  cases h : o.res with
  | error e => exact Or.inr ⟨e, rfl, rfl⟩
  | ok u => cases u; exact Or.inl ⟨rfl, rfl⟩

theorem loop_doc_ok (w : World) (spec : Spec) (fs : FS) (plan : List Attempt) (n : Nat)
    (h : fileOk fs.doc spec.usize = true) :
    prepareLoop w spec (n + 1) fs plan = ofOut (createFileOffsetTable w spec fs) := by
  simp [prepareLoop, h]

theorem loop_dec_err (w : World) (spec : Spec) (fs : FS) (plan : List Attempt) (n : Nat) (e : CodeErr)
    (hd : ¬ fileOk fs.doc spec.usize = true) (ha : (spec.hasArchive && fileOk fs.arch spec.csize) = true)
    (hres : (decompressorDecompress w spec fs).res = .error e) :
    prepareLoop w spec (n + 1) fs plan =
      ⟨.raised e, (decompressorDecompress w spec fs).fs, (decompressorDecompress w spec fs).trace⟩ := by
  simp [prepareLoop, hd, ha, hres]

theorem loop_dec_ok (w : World) (spec : Spec) (fs : FS) (plan : List Attempt) (n : Nat)
    (hd : ¬ fileOk fs.doc spec.usize = true) (ha : (spec.hasArchive && fileOk fs.arch spec.csize) = true)
    (hres : (decompressorDecompress w spec fs).res = .ok ()) :
    prepareLoop w spec (n + 1) fs plan =
      ⟨(prepareLoop w spec n (decompressorDecompress w spec fs).fs plan).res,
       (prepareLoop w spec n (decompressorDecompress w spec fs).fs plan).fs,
       (decompressorDecompress w spec fs).trace ++ (prepareLoop w spec n (decompressorDecompress w spec fs).fs plan).trace⟩ := by
  simp [prepareLoop, hd, ha, hres]

theorem loop_dl_err (w : World) (spec : Spec) (fs : FS) (plan : List Attempt) (n : Nat) (e : CodeErr)
    (hd : ¬ fileOk fs.doc spec.usize = true) (ha : ¬ (spec.hasArchive && fileOk fs.arch spec.csize) = true)
    (hres : (downloaderDownload spec fs (target spec) (targetSize spec) plan).1.res = .error e) :
    ∃ e', prepareLoop w spec (n + 1) fs plan =
      ⟨.raised e', (downloaderDownload spec fs (target spec) (targetSize spec) plan).1.fs,
       (downloaderDownload spec fs (target spec) (targetSize spec) plan).1.trace⟩ := by
  by_cases hn : e = .noBaseUrl
  · subst hn
    by_cases hp : (fs.get (target spec)).isSome = true
    · exact ⟨.presentWrongSizeNoUrl, by simp [prepareLoop, hd, ha, hres, hp]⟩
    · exact ⟨.noBaseUrl, by simp [prepareLoop, hd, ha, hres, hp]⟩
  · refine ⟨e, ?_⟩
    cases e <;> first | exact absurd rfl hn | simp [prepareLoop, hd, ha, hres]

theorem loop_dl_ok (w : World) (spec : Spec) (fs : FS) (plan : List Attempt) (n : Nat)
    (hd : ¬ fileOk fs.doc spec.usize = true) (ha : ¬ (spec.hasArchive && fileOk fs.arch spec.csize) = true)
    (hres : (downloaderDownload spec fs (target spec) (targetSize spec) plan).1.res = .ok ()) :
    prepareLoop w spec (n + 1) fs plan =
      ⟨(prepareLoop w spec n (downloaderDownload spec fs (target spec) (targetSize spec) plan).1.fs
          (downloaderDownload spec fs (target spec) (targetSize spec) plan).2).res,
       (prepareLoop w spec n (downloaderDownload spec fs (target spec) (targetSize spec) plan).1.fs
          (downloaderDownload spec fs (target spec) (targetSize spec) plan).2).fs,
       (downloaderDownload spec fs (target spec) (targetSize spec) plan).1.trace ++
       (prepareLoop w spec n (downloaderDownload spec fs (target spec) (targetSize spec) plan).1.fs
          (downloaderDownload spec fs (target spec) (targetSize spec) plan).2).trace⟩ := by
  simp [prepareLoop, hd, ha, hres]

/-- induction over the iterations of `prepare_document_set` (one case per branch of the loop body) -/
theorem prepareLoop_induct (w : World) (spec : Spec) (P : FS → List Attempt → POut Unit → Prop)
    (h0 : ∀ fs plan, P fs plan ⟨.outOfFuel, fs, []⟩)
    (hdoc : ∀ fs plan, fileOk fs.doc spec.usize = true → P fs plan (ofOut (createFileOffsetTable w spec fs)))
    (hdecE : ∀ fs plan e, ¬ fileOk fs.doc spec.usize = true → (spec.hasArchive && fileOk fs.arch spec.csize) = true →
      (decompressorDecompress w spec fs).res = .error e →
      P fs plan ⟨.raised e, (decompressorDecompress w spec fs).fs, (decompressorDecompress w spec fs).trace⟩)
    (hdecK : ∀ fs plan k, ¬ fileOk fs.doc spec.usize = true → (spec.hasArchive && fileOk fs.arch spec.csize) = true →
      (decompressorDecompress w spec fs).res = .ok () → P (decompressorDecompress w spec fs).fs plan k →
      P fs plan ⟨k.res, k.fs, (decompressorDecompress w spec fs).trace ++ k.trace⟩)
    (hdlE : ∀ fs plan e e', ¬ fileOk fs.doc spec.usize = true → ¬ (spec.hasArchive && fileOk fs.arch spec.csize) = true →
      (downloaderDownload spec fs (target spec) (targetSize spec) plan).1.res = .error e →
      P fs plan ⟨.raised e', (downloaderDownload spec fs (target spec) (targetSize spec) plan).1.fs,
        (downloaderDownload spec fs (target spec) (targetSize spec) plan).1.trace⟩)
    (hdlK : ∀ fs plan k, ¬ fileOk fs.doc spec.usize = true → ¬ (spec.hasArchive && fileOk fs.arch spec.csize) = true →
      (downloaderDownload spec fs (target spec) (targetSize spec) plan).1.res = .ok () →
      P (downloaderDownload spec fs (target spec) (targetSize spec) plan).1.fs
        (downloaderDownload spec fs (target spec) (targetSize spec) plan).2 k →
      P fs plan ⟨k.res, k.fs, (downloaderDownload spec fs (target spec) (targetSize spec) plan).1.trace ++ k.trace⟩) :
    ∀ fuel fs plan, P fs plan (prepareLoop w spec fuel fs plan) := by
  intro fuel
  induction fuel with
  | zero => intro fs plan; exact h0 fs plan
  | succ n ih =>
    intro fs plan
    by_cases hd : fileOk fs.doc spec.usize = true
    · rw [loop_doc_ok w spec fs plan n hd]; exact hdoc fs plan hd
    by_cases ha : (spec.hasArchive && fileOk fs.arch spec.csize) = true
    · cases hres : (decompressorDecompress w spec fs).res with
      | error e => rw [loop_dec_err w spec fs plan n e hd ha hres]; exact hdecE fs plan e hd ha hres
      | ok u =>
        cases u
        rw [loop_dec_ok w spec fs plan n hd ha hres]
        exact hdecK fs plan _ hd ha hres (ih _ _)
    · cases hres : (downloaderDownload spec fs (target spec) (targetSize spec) plan).1.res with
      | error e =>
        obtain ⟨e', he'⟩ := loop_dl_err w spec fs plan n e hd ha hres
        rw [he']; exact hdlE fs plan e e' hd ha hres
      | ok u =>
        cases u
        rw [loop_dl_ok w spec fs plan n hd ha hres]
        exact hdlK fs plan _ hd ha hres (ih _ _)

/-! ## the download's final name -/

/-- a completely received body of a request of `plan` (2xx, stream ended cleanly), whose size was verified against
    the declared size of the target, else against the response's Content-Length when there is one -/
def Installed (spec : Spec) (plan : List Attempt) (f : File) : Prop :=
  ∃ st cl cid chunks, Attempt.resp st cl cid chunks .clean ∈ plan ∧ st ≤ 299 ∧ f.size = chunks.sum ∧ CidOk cid f ∧
    (∀ e, expectedOr (targetSize spec) cl = some e → f.size = e)

/-- what may stand under the final name: what was there at the start, or an `Installed` file -/
def FinalNameOk (spec : Spec) (plan : List Attempt) (orig x : Option File) : Prop :=
  x = orig ∨ ∃ f, x = some f ∧ Installed spec plan f

theorem InstalledBy.installed {spec : Spec} {plan plan0 : List Attempt} {c0 : Nat} {fs' : FS} {t : File}
    (h : InstalledBy plan (targetSize spec) c0 fs' t) (hsub : ∀ a ∈ plan, a ∈ plan0) : Installed spec plan0 t := by
  obtain ⟨st, cl, cid, chunks, h1, h2, h3, h4, _, h6⟩ := h
  exact ⟨st, cl, cid, chunks, hsub _ h1, h2, h3, h4, h6⟩

theorem loop_final_name (w : World) (spec : Spec) (plan0 : List Attempt) (orig : Option File) (fuel : Nat) (fs : FS)
    (plan : List Attempt) (hsub : ∀ a ∈ plan, a ∈ plan0) (hq : FinalNameOk spec plan0 orig (fs.get (target spec))) :
    (∀ s ∈ (prepareLoop w spec fuel fs plan).trace, FinalNameOk spec plan0 orig (s.get (target spec))) ∧
    FinalNameOk spec plan0 orig ((prepareLoop w spec fuel fs plan).fs.get (target spec)) := by
  revert hsub hq
  refine prepareLoop_induct w spec
    (fun fs plan out => (∀ a ∈ plan, a ∈ plan0) → FinalNameOk spec plan0 orig (fs.get (target spec)) →
      (∀ s ∈ out.trace, FinalNameOk spec plan0 orig (s.get (target spec))) ∧ FinalNameOk spec plan0 orig (out.fs.get (target spec)))
    ?_ ?_ ?_ ?_ ?_ ?_ fuel fs plan
  · intro fs plan _ hq
    exact ⟨fun s hs => by simp at hs, hq⟩
  · intro fs plan _ _ hq
    have ⟨h1, h2⟩ := createFileOffsetTable_frame w spec fs
    simp only [ofOut_fs, ofOut_trace]
    exact ⟨fun s hs => by rw [(h2 s hs).files]; exact hq, by rw [h1.files]; exact hq⟩
  · intro fs plan e _ ha _ _ hq
    simp only [Bool.and_eq_true] at ha
    have ⟨h1, h2⟩ := decompressorDecompress_frame w spec fs
    rw [(target_arch ha.1).1] at hq ⊢
    exact ⟨fun s hs => by rw [(h2 s hs).other .arch (by simp)]; exact hq, by rw [h1.other .arch (by simp)]; exact hq⟩
  · intro fs plan k _ ha _ ih hsub hq
    simp only [Bool.and_eq_true] at ha
    have ⟨h1, h2⟩ := decompressorDecompress_frame w spec fs
    have hq' : FinalNameOk spec plan0 orig ((decompressorDecompress w spec fs).fs.get (target spec)) := by
      rw [(target_arch ha.1).1] at hq ⊢
      rw [h1.other .arch (by simp)]; exact hq
    have ⟨i1, i2⟩ := ih hsub hq'
    refine ⟨fun s hs => ?_, i2⟩
    simp only [List.mem_append] at hs
    rcases hs with hs | hs
    · rw [(target_arch ha.1).1] at hq ⊢
      rw [(h2 s hs).other .arch (by simp)]; exact hq
    · exact i1 s hs
  · intro fs plan e e' _ _ hres _ hq
    have ⟨_, d2, d3, _⟩ := downloaderDownload_spec spec fs (target spec) (targetSize spec) plan (target_ne_tmp spec)
    refine ⟨fun s hs => ?_, by rw [(d3 e hres).other _ (target_ne_tmp spec)]; exact hq⟩
    rcases d2 s hs with h | h
    · rw [h.other _ (target_ne_tmp spec)]; exact hq
    · rw [hres] at h; cases h.1
  · intro fs plan k _ _ hres ih hsub hq
    have ⟨d1, d2, _, d4⟩ := downloaderDownload_spec spec fs (target spec) (targetSize spec) plan (target_ne_tmp spec)
    obtain ⟨t, ht, _, hinst, _⟩ := d4 hres
    have hq' : FinalNameOk spec plan0 orig ((downloaderDownload spec fs (target spec) (targetSize spec) plan).1.fs.get (target spec)) :=
      Or.inr ⟨t, ht, hinst.installed hsub⟩
    have ⟨i1, i2⟩ := ih (fun a ha => hsub a (d1 a ha)) hq'
    refine ⟨fun s hs => ?_, i2⟩
    simp only [List.mem_append] at hs
    rcases hs with hs | hs
    · rcases d2 s hs with h | h
      · rw [h.other _ (target_ne_tmp spec)]; exact hq
      · rw [h.2]; exact hq'
    · exact i1 s hs

/-! ## normal return means verified (under the hypotheses the code needs) -/

/-- hypotheses on the track declaration and the environment -/
structure Hyp (w : World) (spec : Spec) (plan : List Attempt) : Prop where
  /-- the uncompressed size is declared, and truthfully -/
  usize : spec.usize = some w.dSize
  /-- the archive format does not restore member mtimes (not the tar family) -/
  noMtimeRestore : ∀ c s, (w.dc c s).mtime = none
  /-- no archive decompresses to *other* bytes of exactly the published size (there are no checksums) -/
  dcGarbage : ∀ c s, (w.dc c s).outSize = w.dSize → (w.dc c s).cid = .pub ∨ w.dSize = 0
  /-- no response delivers *other* bytes of exactly the published size as the document file -/
  bodyGarbage : spec.hasArchive = false → ∀ st cl cid chunks fin, Attempt.resp st cl cid chunks fin ∈ plan →
    chunks.sum = w.dSize → cid = .pub ∨ w.dSize = 0

/-- hypotheses on the initial file-system state (preserved by every iteration) -/
structure Inv (w : World) (fs : FS) : Prop where
  /-- a document file of the published size has the published content (no right-sized garbage) -/
  docCid : ∀ d, fs.doc = some d → d.size = w.dSize → d.cid = .pub
  /-- mtimes are not in the future -/
  docOld : ∀ d, fs.doc = some d → d.mtime < fs.clock
  offOld : ∀ o, fs.off = some o → o.mtime < fs.clock
  /-- an offset table that is not older than the document is the complete table of that very document
      (no crash inside an earlier table build, no table of other bytes with a newer mtime) -/
  offGood : ∀ o d, fs.off = some o → fs.doc = some d → d.mtime ≤ o.mtime → o.content = .complete d.size d.cid

/-- the state the property promises after a normal return -/
def Verified (w : World) (fs : FS) : Prop :=
  ∃ d o, fs.doc = some d ∧ d.size = w.dSize ∧ d.cid = .pub ∧ fs.off = some o ∧ o.content = .complete d.size d.cid ∧
    d.mtime ≤ o.mtime

theorem Inv.unchanged {w : World} {fs fs' : FS} (h : Inv w fs) (hd : fs'.doc = fs.doc) (ho : fs'.off = fs.off)
    (hc : fs.clock ≤ fs'.clock) : Inv w fs' :=
  ⟨fun d h1 h2 => h.docCid d (hd ▸ h1) h2,
   fun d h1 => Nat.lt_of_lt_of_le (h.docOld d (hd ▸ h1)) hc,
   fun o h1 => Nat.lt_of_lt_of_le (h.offOld o (ho ▸ h1)) hc,
   fun o d h1 h2 h3 => h.offGood o d (ho ▸ h1) (hd ▸ h2) h3⟩

theorem Inv.fresh {w : World} {fs fs' : FS} {d : File} {c : Cid} (h : Inv w fs) (hd : fs'.doc = some d) (ho : fs'.off = fs.off)
    (hc : fs.clock ≤ fs'.clock) (hcid : CidOk c d) (hfr : Fresh fs.clock fs' d) (hg : d.size = w.dSize → c = .pub ∨ w.dSize = 0) :
    Inv w fs' := by
  refine ⟨fun d' h1 h2 => ?_, fun d' h1 => ?_, fun o h1 => Nat.lt_of_lt_of_le (h.offOld o (ho ▸ h1)) hc, fun o d' h1 h2 h3 => ?_⟩
  · rw [hd] at h1; cases h1
    rcases hg h2 with h | h
    · by_cases hz : d.size = 0
      · exact hcid.1 hz
      · rw [hcid.2 hz, h]
    · exact hcid.1 (h2.trans h)
  · rw [hd] at h1; cases h1; exact hfr.2
  · rw [hd] at h2; cases h2
    have := h.offOld o (ho ▸ h1)
    have := hfr.1
    omega

theorem fileOk_some {f : Option File} {u : Nat} (h : fileOk f (some u) = true) : ∃ d, f = some d ∧ d.size = u := by
  cases f with
  | none => simp [fileOk] at h
  | some d => exact ⟨d, rfl, by simpa [fileOk, sizeIs] using h⟩

theorem table_verified (w : World) (spec : Spec) (fs : FS) (d : File) (hinv : Inv w fs) (hd : fs.doc = some d)
    (hsz : d.size = w.dSize) (hres : (createFileOffsetTable w spec fs).res = .ok ()) :
    Verified w (createFileOffsetTable w spec fs).fs := by
  obtain ⟨d', hd', hcase⟩ := createFileOffsetTable_ok w spec fs hres
  rw [hd] at hd'; cases hd'
  rcases hcase with ⟨hv, hfs⟩ | ⟨o, h1, h2, h3, _⟩
  · rw [hfs]
    cases hoff : fs.off with
    | none => simp [offsetValid, hoff] at hv
    | some o =>
      have hm : d.mtime ≤ o.mtime := by simpa [offsetValid, hoff] using hv
      exact ⟨d, o, hd, hsz, hinv.docCid d hd hsz, hoff, hinv.offGood o d hoff hd hm, hm⟩
  · have hf := (createFileOffsetTable_frame w spec fs).1
    have hdoc' : (createFileOffsetTable w spec fs).fs.doc = some d := by
      have := hf.files .doc
      simp only [get_doc] at this
      rw [this]; exact hd
    have := hinv.docOld d hd
    exact ⟨d, o, hdoc', hsz, hinv.docCid d hd hsz, h1, h2, by omega⟩

theorem decompress_inv (w : World) (spec : Spec) (fs : FS) (hm : ∀ c s, (w.dc c s).mtime = none)
    (hg : ∀ c s, (w.dc c s).outSize = w.dSize → (w.dc c s).cid = .pub ∨ w.dSize = 0)
    (hinv : Inv w fs) (hres : (decompressorDecompress w spec fs).res = .ok ()) :
    Inv w (decompressorDecompress w spec fs).fs := by
  have ⟨f1, _⟩ := decompressorDecompress_frame w spec fs
  obtain ⟨_, a, _, hcase⟩ := decompressorDecompress_ok w spec fs hres
  rcases hcase (hm _ _) with h | ⟨d, h1, h2, h3, h4⟩
  · exact hinv.unchanged h f1.off f1.clock
  · exact hinv.fresh h1 f1.off f1.clock h3 h4 (fun hs => hg a.cid a.size (h2 ▸ hs))

theorem loop_verified (w : World) (spec : Spec) (plan0 : List Attempt) (hyp : Hyp w spec plan0) (fuel : Nat) (fs : FS)
    (plan : List Attempt) (hsub : ∀ a ∈ plan, a ∈ plan0) (hinv : Inv w fs)
    (hok : (prepareLoop w spec fuel fs plan).res = .done ()) : Verified w (prepareLoop w spec fuel fs plan).fs := by
  revert hsub hinv hok
  refine prepareLoop_induct w spec
    (fun fs plan out => (∀ a ∈ plan, a ∈ plan0) → Inv w fs → out.res = .done () → Verified w out.fs)
    ?_ ?_ ?_ ?_ ?_ ?_ fuel fs plan
  · intro fs plan _ _ h; simp at h
  · intro fs plan hdoc _ hinv hres
    rw [hyp.usize] at hdoc
    obtain ⟨d, hd, hsz⟩ := fileOk_some hdoc
    have hres' : (createFileOffsetTable w spec fs).res = .ok () := by
      rcases ofOut_res (createFileOffsetTable w spec fs) with h | ⟨e, h⟩
      · exact h.2
      · rw [h.1] at hres; cases hres
    simp only [ofOut_fs]
    exact table_verified w spec fs d hinv hd hsz hres'
  · intro fs plan e _ _ _ _ _ h; simp at h
  · intro fs plan k _ _ hres ih hsub hinv hk
    exact ih hsub (decompress_inv w spec fs hyp.noMtimeRestore hyp.dcGarbage hinv hres) hk
  · intro fs plan e e' _ _ _ _ _ h; simp at h
  · intro fs plan k _ ha hres ih hsub hinv hk
    have ⟨d1, _, _, d4⟩ := downloaderDownload_spec spec fs (target spec) (targetSize spec) plan (target_ne_tmp spec)
    obtain ⟨t, ht, _, hinst, hother, hoff, hclock⟩ := d4 hres
    refine ih (fun a ha => hsub a (d1 a ha)) ?_ hk
    by_cases harch : spec.hasArchive = true
    · have : (downloaderDownload spec fs (target spec) (targetSize spec) plan).1.fs.doc = fs.doc := by
        have := hother .doc (by rw [(target_arch harch).1]; simp) (by simp)
        simpa using this
      exact hinv.unchanged this hoff hclock
    · obtain ⟨st, cl, cid, chunks, hm, _, hsum, hcid, hfr, _⟩ := hinst
      generalize downloaderDownload spec fs (target spec) (targetSize spec) plan = D at *
      rw [(target_doc harch).1] at ht
      simp only [get_doc] at ht
      refine hinv.fresh ht hoff hclock hcid hfr (fun hs => ?_)
      exact hyp.bodyGarbage (by simpa using harch) st cl cid chunks .clean (hsub _ hm) (hsum ▸ hs)

/-! ## prepare_bundled_document_set -/

theorem bundled_verified (w : World) (spec : Spec) (husize : spec.usize = some w.dSize)
    (hm : ∀ c s, (w.dc c s).mtime = none)
    (hg : ∀ c s, (w.dc c s).outSize = w.dSize → (w.dc c s).cid = .pub ∨ w.dSize = 0)
    (fuel : Nat) (fs : FS) (hinv : Inv w fs) (hok : (bundledLoop w spec fuel fs).res = .done true) :
    Verified w (bundledLoop w spec fuel fs).fs := by
  induction fuel generalizing fs with
  | zero => simp [bundledLoop] at hok
  | succ n ih =>
    cases hd : fs.doc with
    | some d =>
      by_cases hsz : sizeIs d spec.usize = true
      · have hsz' : d.size = w.dSize := by simpa [sizeIs, husize] using hsz
        cases hres : (createFileOffsetTable w spec fs).res with
        | error e => simp [bundledLoop, hd, hsz, hres] at hok
        | ok u =>
          have e : (bundledLoop w spec (n + 1) fs).fs = (createFileOffsetTable w spec fs).fs := by
            simp [bundledLoop, hd, hsz]
          rw [e]
          exact table_verified w spec fs d hinv hd hsz' hres
      · simp [bundledLoop, hd, hsz] at hok
    | none =>
      by_cases ha : (spec.hasArchive && fs.arch.isSome) = true
      · by_cases hs : fileOk fs.arch spec.csize = true
        · cases hres : (decompressorDecompress w spec fs).res with
          | error e => simp [bundledLoop, hd, ha, hs, hres] at hok
          | ok u =>
            have e : bundledLoop w spec (n + 1) fs =
                ⟨(bundledLoop w spec n (decompressorDecompress w spec fs).fs).res,
                 (bundledLoop w spec n (decompressorDecompress w spec fs).fs).fs,
                 (decompressorDecompress w spec fs).trace ++ (bundledLoop w spec n (decompressorDecompress w spec fs).fs).trace⟩ := by
              simp [bundledLoop, hd, ha, hs, hres]
            rw [e] at hok ⊢
            exact ih _ (decompress_inv w spec fs hm hg hinv hres) hok
        · simp [bundledLoop, hd, ha, hs] at hok
      · simp [bundledLoop, hd, ha] at hok

/-- two iterations suffice for `prepare_bundled_document_set` -/
theorem bundled_terminates (w : World) (spec : Spec) (fs : FS) (n : Nat) :
    (bundledLoop w spec (n + 2) fs).res ≠ .outOfFuel := by
  cases hd : fs.doc with
  | some d =>
    by_cases hsz : sizeIs d spec.usize = true
    · cases hres : (createFileOffsetTable w spec fs).res <;> simp [bundledLoop, hd, hsz, hres]
    · simp [bundledLoop, hd, hsz]
  | none =>
    by_cases ha : (spec.hasArchive && fs.arch.isSome) = true
    · by_cases hs : fileOk fs.arch spec.csize = true
      · cases hres : (decompressorDecompress w spec fs).res with
        | error e => simp [bundledLoop, hd, ha, hs, hres]
        | ok u =>
          have hk := (decompressorDecompress_ok w spec fs hres).1
          cases hd2 : (decompressorDecompress w spec fs).fs.doc with
          | none => simp [fileOk, hd2] at hk
          | some d2 =>
            have hsz : sizeIs d2 spec.usize = true := by simpa [fileOk, hd2] using hk
            have e : (bundledLoop w spec (n + 2) fs).res = (bundledLoop w spec (n + 1) (decompressorDecompress w spec fs).fs).res := by
              simp [bundledLoop, hd, ha, hs, hres]
            rw [e]
            cases hres2 : (createFileOffsetTable w spec (decompressorDecompress w spec fs).fs).res <;>
              simp [bundledLoop, hd2, hsz, hres2]
      · simp [bundledLoop, hd, ha, hs]
    · simp [bundledLoop, hd, ha]

/-! ## termination -/

/-- the result is a normal return or one of the exceptions of `CodeErr` — never "still looping" -/
def Terminated {α : Type} (r : Res α) : Prop := (∃ a, r = .done a) ∨ ∃ e, r = .raised e

theorem terminated_ofOut (o : Out Unit) : Terminated (ofOut o).res := by
  rcases ofOut_res o with h | ⟨e, h⟩
  · exact Or.inl ⟨(), h.1⟩
  · exact Or.inr ⟨e, h.1⟩

theorem loop_arch_ok (w : World) (spec : Spec) (fs : FS) (plan : List Attempt) (n : Nat)
    (ha : spec.hasArchive = true) (h : fileOk fs.arch spec.csize = true) :
    Terminated (prepareLoop w spec (n + 2) fs plan).res := by
  by_cases hd : fileOk fs.doc spec.usize = true
  · rw [loop_doc_ok w spec fs plan (n + 1) hd]; exact terminated_ofOut _
  · cases hres : (decompressorDecompress w spec fs).res with
    | error e =>
      have : (prepareLoop w spec (n + 2) fs plan).res = .raised e := by simp [prepareLoop, hd, ha, h, hres]
      exact Or.inr ⟨e, this⟩
    | ok u =>
      have hk := (decompressorDecompress_ok w spec fs hres).1
      have : (prepareLoop w spec (n + 2) fs plan).res = (prepareLoop w spec (n + 1) (decompressorDecompress w spec fs).fs plan).res := by
        simp [prepareLoop, hd, ha, h, hres]
      rw [this, loop_doc_ok w spec _ plan n hk]
      exact terminated_ofOut _

theorem loop_terminates (w : World) (spec : Spec) (fs : FS) (plan : List Attempt) (n : Nat) :
    Terminated (prepareLoop w spec (n + 3) fs plan).res := by
  by_cases hd : fileOk fs.doc spec.usize = true
  · rw [loop_doc_ok w spec fs plan (n + 2) hd]; exact terminated_ofOut _
  by_cases ha : (spec.hasArchive && fileOk fs.arch spec.csize) = true
  · simp only [Bool.and_eq_true] at ha
    exact loop_arch_ok w spec fs plan (n + 1) ha.1 ha.2
  · cases hres : (downloaderDownload spec fs (target spec) (targetSize spec) plan).1.res with
    | error e =>
      have : ∃ e', (prepareLoop w spec (n + 3) fs plan).res = .raised e' := by
        cases e <;> simp [prepareLoop, hd, ha, hres]
        split <;> simp
      exact Or.inr this
    | ok u =>
      have ⟨_, _, _, d4⟩ := downloaderDownload_spec spec fs (target spec) (targetSize spec) plan (target_ne_tmp spec)
      obtain ⟨t, ht, hsz, _⟩ := d4 hres
      have : (prepareLoop w spec (n + 3) fs plan).res =
          (prepareLoop w spec (n + 2) (downloaderDownload spec fs (target spec) (targetSize spec) plan).1.fs
            (downloaderDownload spec fs (target spec) (targetSize spec) plan).2).res := by
        simp [prepareLoop, hd, ha, hres]
      rw [this]
      generalize downloaderDownload spec fs (target spec) (targetSize spec) plan = D at *
      by_cases harch : spec.hasArchive = true
      · have hk : fileOk D.1.fs.arch spec.csize = true := by
          rw [(target_arch harch).1] at ht
          rw [(target_arch harch).2] at hsz
          simp only [get_arch] at ht
          simp [fileOk, ht, hsz]
        exact loop_arch_ok w spec _ _ n harch hk
      · have hk : fileOk D.1.fs.doc spec.usize = true := by
          rw [(target_doc harch).1] at ht
          rw [(target_doc harch).2] at hsz
          simp only [get_doc] at ht
          simp [fileOk, ht, hsz]
        rw [loop_doc_ok w spec _ _ (n + 1) hk]
        exact terminated_ofOut _


/-- once the loop has terminated, more fuel changes nothing -/
theorem loop_fuel_mono (w : World) (spec : Spec) (fuel : Nat) (fs : FS) (plan : List Attempt)
    (h : (prepareLoop w spec fuel fs plan).res ≠ .outOfFuel) :
    prepareLoop w spec (fuel + 1) fs plan = prepareLoop w spec fuel fs plan := by
  induction fuel generalizing fs plan with
  | zero => simp [prepareLoop] at h
  | succ n ih =>
    by_cases hd : fileOk fs.doc spec.usize = true
    · rw [loop_doc_ok w spec fs plan (n + 1) hd, loop_doc_ok w spec fs plan n hd]
    by_cases ha : (spec.hasArchive && fileOk fs.arch spec.csize) = true
    · cases hres : (decompressorDecompress w spec fs).res with
      | error e => rw [loop_dec_err w spec fs plan (n + 1) e hd ha hres, loop_dec_err w spec fs plan n e hd ha hres]
      | ok u =>
        cases u
        rw [loop_dec_ok w spec fs plan n hd ha hres] at h
        rw [loop_dec_ok w spec fs plan (n + 1) hd ha hres, loop_dec_ok w spec fs plan n hd ha hres, ih _ _ h]
    · cases hres : (downloaderDownload spec fs (target spec) (targetSize spec) plan).1.res with
      | error e =>
        by_cases hn : e = .noBaseUrl
        · subst hn
          by_cases hp : (fs.get (target spec)).isSome = true <;> simp [prepareLoop, hd, ha, hres, hp]
        · cases e <;> first | exact absurd rfl hn | simp [prepareLoop, hd, ha, hres]
      | ok u =>
        cases u
        rw [loop_dl_ok w spec fs plan n hd ha hres] at h
        rw [loop_dl_ok w spec fs plan (n + 1) hd ha hres, loop_dl_ok w spec fs plan n hd ha hres, ih _ _ h]

theorem terminated_ne {α : Type} {r : Res α} (h : Terminated r) : r ≠ .outOfFuel := by
  rcases h with ⟨a, h⟩ | ⟨e, h⟩ <;> rw [h] <;> simp

theorem loop_fuel_irrelevant (w : World) (spec : Spec) (fs : FS) (plan : List Attempt) (n : Nat) :
    prepareLoop w spec (n + 3) fs plan = prepareLoop w spec 3 fs plan := by
  induction n with
  | zero => rfl
  | succ n ih =>
    rw [← ih]
    exact loop_fuel_mono w spec (n + 3) fs plan (terminated_ne (loop_terminates w spec fs plan n))

/-! ## every intermediate (crash) state keeps the offset-table hypotheses -/

/-- the part of `Inv` that concerns mtimes and the offset table -/
structure OffInv (fs : FS) : Prop where
  docOld : ∀ d, fs.doc = some d → d.mtime < fs.clock
  offOld : ∀ o, fs.off = some o → o.mtime < fs.clock
  offGood : ∀ o d, fs.off = some o → fs.doc = some d → d.mtime ≤ o.mtime → o.content = .complete d.size d.cid

theorem Inv.offInv {w : World} {fs : FS} (h : Inv w fs) : OffInv fs := ⟨h.docOld, h.offOld, h.offGood⟩

theorem OffInv.unchanged {fs fs' : FS} (h : OffInv fs) (hd : fs'.doc = fs.doc) (ho : fs'.off = fs.off)
    (hc : fs.clock ≤ fs'.clock) : OffInv fs' :=
  ⟨fun d h1 => Nat.lt_of_lt_of_le (h.docOld d (hd ▸ h1)) hc,
   fun o h1 => Nat.lt_of_lt_of_le (h.offOld o (ho ▸ h1)) hc,
   fun o d h1 h2 h3 => h.offGood o d (ho ▸ h1) (hd ▸ h2) h3⟩

theorem OffInv.fresh {fs fs' : FS} {d : File} (h : OffInv fs) (hd : fs'.doc = some d) (ho : fs'.off = fs.off)
    (hc : fs.clock ≤ fs'.clock) (hfr : Fresh fs.clock fs' d) : OffInv fs' := by
  refine ⟨fun d' h1 => ?_, fun o h1 => Nat.lt_of_lt_of_le (h.offOld o (ho ▸ h1)) hc, fun o d' h1 h2 h3 => ?_⟩
  · rw [hd] at h1; cases h1; exact hfr.2
  · rw [hd] at h2; cases h2
    have := h.offOld o (ho ▸ h1)
    have := hfr.1
    omega

/-- the document name is untouched or holds a file written since `fs` -/
structure DocStep (fs x : FS) : Prop where
  off : x.off = fs.off
  clock : fs.clock ≤ x.clock
  doc : x.doc = fs.doc ∨ ∃ d, x.doc = some d ∧ Fresh fs.clock x d

theorem DocStep.refl (fs : FS) : DocStep fs fs := ⟨rfl, Nat.le_refl _, Or.inl rfl⟩

theorem Frame.docStep {fs x : FS} (h : Frame .doc fs x) (hd : x.doc = fs.doc ∨ ∃ d, x.doc = some d ∧ Fresh fs.clock x d) :
    DocStep fs x := ⟨h.off, h.clock, hd⟩

theorem DocStep.trans {a b c : FS} (h1 : DocStep a b) (h2 : DocStep b c) : DocStep a c := by
  refine ⟨h2.off.trans h1.off, Nat.le_trans h1.clock h2.clock, ?_⟩
  rcases h2.doc with h | ⟨d, hd, hf⟩
  · rcases h1.doc with h' | ⟨d, hd, hf⟩
    · exact Or.inl (h.trans h')
    · exact Or.inr ⟨d, h.trans hd, hf.1, Nat.lt_of_lt_of_le hf.2 h2.clock⟩
  · exact Or.inr ⟨d, hd, Nat.le_trans h1.clock hf.1, hf.2⟩

theorem OffInv.docStep {fs x : FS} (h : OffInv fs) (hs : DocStep fs x) : OffInv x := by
  rcases hs.doc with hd | ⟨d, hd, hf⟩
  · exact h.unchanged hd hs.off hs.clock
  · exact h.fresh hd hs.off hs.clock hf

theorem writeAll_trace_fresh (s : Slot) (c : Cid) (c0 : Nat) (ns : List Nat) (a : FS) (f : File)
    (hf : a.get s = some f) (hfr : Fresh c0 a f) :
    ∀ x ∈ (writeAll a s c ns).2, ∃ f', x.get s = some f' ∧ Fresh c0 x f' := by
  induction ns generalizing a f with
  | nil => intro x hx; simp [writeAll] at hx
  | cons n ns ih =>
    have hget : (append a s n c).get s = some ⟨f.size + n, if f.size + n = 0 then .pub else c, a.clock⟩ := by
      simp [append, hf]
    have hfr' : Fresh c0 (append a s n c) ⟨f.size + n, if f.size + n = 0 then .pub else c, a.clock⟩ := by
      have : (append a s n c).clock = a.clock + 1 := by simp [append, hf]
      exact ⟨Nat.le_trans hfr.1 (Nat.le_of_lt hfr.2), by simp [this]⟩
    intro x hx
    simp only [writeAll, List.mem_cons] at hx
    rcases hx with rfl | hx
    · exact ⟨_, hget, hfr'⟩
    · exact ih (append a s n c) _ hget hfr' x hx

theorem dcPhase_docStep (o : DcOutcome) (fs : FS) (chunks : List Nat) :
    DocStep fs (dcPhase o fs chunks).1 ∧ ∀ x ∈ (dcPhase o fs chunks).2, DocStep fs x := by
  have ⟨f1, f2⟩ := dcPhase_frame o fs chunks
  refine ⟨f1.docStep ?_, fun x hx => (f2 x hx).docStep ?_⟩
  · rcases dcPhase_doc o fs chunks with ⟨_, h⟩ | ⟨_, d, h1, _, _, h4⟩
    · exact Or.inl h
    · exact Or.inr ⟨d, h1, h4⟩
  · unfold dcPhase dcCreate dcWrite at hx
    by_cases h : o.hitsDoc
    · simp only [h, if_true, List.mem_cons] at hx
      have hcr : (create fs .doc).get .doc = some ⟨0, .pub, fs.clock⟩ := create_get fs .doc
      have hfr : Fresh fs.clock (create fs .doc) ⟨0, .pub, fs.clock⟩ := ⟨Nat.le_refl _, by simp [create]⟩
      rcases hx with rfl | hx
      · exact Or.inr ⟨_, by simpa using hcr, hfr⟩
      · obtain ⟨f', h1, h2⟩ := writeAll_trace_fresh .doc o.cid fs.clock chunks (create fs .doc) _ hcr hfr x hx
        exact Or.inr ⟨f', by simpa using h1, h2⟩
    · simp [h] at hx
      subst hx
      exact Or.inl rfl

theorem ioDecompress_docStep (o : DcOutcome) (fs : FS) (hm : o.mtime = none) :
    DocStep fs (ioDecompress o fs).2.1 ∧ ∀ x ∈ (ioDecompress o fs).2.2, DocStep fs x := by
  by_cases hopen : o.openFails
  · simp [ioDecompress, hopen]; exact DocStep.refl fs
  cases hext : o.ext with
  | none =>
    have ⟨b1, b2⟩ := dcPhase_docStep o fs o.chunks
    simp only [ioDecompress, hopen, hext, dcTouch_none o _ hm, List.append_nil]
    exact ⟨b1, b2⟩
  | some p =>
    obtain ⟨n, b⟩ := p
    have ⟨a1, a2⟩ := dcPhase_docStep o fs [n]
    cases b with
    | true =>
      simp only [ioDecompress, hopen, hext]
      exact ⟨a1, a2⟩
    | false =>
      have ⟨b1, b2⟩ := dcPhase_docStep o (dcPhase o fs [n]).1 o.chunks
      simp only [ioDecompress, hopen, hext, dcTouch_none o _ hm, List.append_nil]
      refine ⟨a1.trans b1, fun x hx => ?_⟩
      have hx' : x ∈ (dcPhase o fs [n]).2 ++ (dcPhase o (dcPhase o fs [n]).1 o.chunks).2 := hx
      rcases List.mem_append.mp hx' with hx | hx
      · exact a2 x hx
      · exact a1.trans (b2 x hx)

theorem decompressorDecompress_docStep (w : World) (spec : Spec) (fs : FS) (hm : ∀ c s, (w.dc c s).mtime = none) :
    DocStep fs (decompressorDecompress w spec fs).fs ∧ ∀ x ∈ (decompressorDecompress w spec fs).trace, DocStep fs x := by
  unfold decompressorDecompress
  split
  · exact ⟨DocStep.refl _, fun x hx => by simp at hx⟩
  · rename_i a _
    have h := ioDecompress_docStep (w.dc a.cid a.size) fs (hm _ _)
    simp only
    split
    · exact h
    · split
      · exact h
      · split <;> exact h

theorem OffInv.offStep {fs x : FS} {d : File} (h : OffInv fs) (hd : fs.doc = some d) (hs : OffStep fs d x ∨ x.off = none)
    (hf : FrameOff fs x) : OffInv x := by
  have hdoc : x.doc = fs.doc := by simpa using hf.files .doc
  refine ⟨fun d' h1 => Nat.lt_of_lt_of_le (h.docOld d' (hdoc ▸ h1)) hf.clock, fun o ho => ?_, fun o d' ho h2 h3 => ?_⟩
  · rcases hs with ⟨_, _, h3 | ⟨o', h4, _, _, h7⟩⟩ | h3
    · exact Nat.lt_of_lt_of_le (h.offOld o (h3 ▸ ho)) hf.clock
    · rw [h4] at ho; cases ho; exact h7
    · rw [h3] at ho; cases ho
  · rw [hdoc, hd] at h2; cases h2
    rcases hs with ⟨_, _, h4 | ⟨o', h4, h5, _, _⟩⟩ | h4
    · exact h.offGood o d (h4 ▸ ho) hd h3
    · rw [h4] at ho; cases ho; exact h5
    · rw [h4] at ho; cases ho

/-- under a format that does not restore mtimes, every state the loop passes through keeps `OffInv` -/
theorem loop_offInv (w : World) (spec : Spec) (hm : ∀ c s, (w.dc c s).mtime = none) (fuel : Nat) (fs : FS)
    (plan : List Attempt) (hinv : OffInv fs) :
    (∀ x ∈ (prepareLoop w spec fuel fs plan).trace, OffInv x) ∧ OffInv (prepareLoop w spec fuel fs plan).fs := by
  revert hinv
  refine prepareLoop_induct w spec (fun fs _ out => OffInv fs → (∀ x ∈ out.trace, OffInv x) ∧ OffInv out.fs)
    ?_ ?_ ?_ ?_ ?_ ?_ fuel fs plan
  · intro fs _ h; exact ⟨fun x hx => by simp at hx, h⟩
  · intro fs _ hdoc h
    cases hd : fs.doc with
    | none => simp [fileOk, hd] at hdoc
    | some d =>
      have ⟨s1, s2, s3⟩ := createFileOffsetTable_steps w spec fs d hd
      simp only [ofOut_fs, ofOut_trace]
      exact ⟨fun x hx => h.offStep hd (s3 x hx).2 (s3 x hx).1, h.offStep hd s1 s2⟩
  · intro fs _ e _ _ _ h
    have ⟨d1, d2⟩ := decompressorDecompress_docStep w spec fs hm
    exact ⟨fun x hx => h.docStep (d2 x hx), h.docStep d1⟩
  · intro fs _ k _ _ _ ih h
    have ⟨d1, d2⟩ := decompressorDecompress_docStep w spec fs hm
    have ⟨i1, i2⟩ := ih (h.docStep d1)
    refine ⟨fun x hx => ?_, i2⟩
    simp only [List.mem_append] at hx
    rcases hx with hx | hx
    · exact h.docStep (d2 x hx)
    · exact i1 x hx
  · intro fs plan e e' _ _ hres h
    have ⟨_, d2, d3, _⟩ := downloaderDownload_spec spec fs (target spec) (targetSize spec) plan (target_ne_tmp spec)
    have keep : ∀ x, Frame .tmp fs x → OffInv x := fun x hf =>
      h.unchanged (by simpa using hf.other .doc (by simp)) hf.off hf.clock
    refine ⟨fun x hx => ?_, keep _ (d3 e hres)⟩
    rcases d2 x hx with hf | hf
    · exact keep x hf
    · rw [hres] at hf; cases hf.1
  · intro fs plan k _ _ hres ih h
    have ⟨_, d2, _, d4⟩ := downloaderDownload_spec spec fs (target spec) (targetSize spec) plan (target_ne_tmp spec)
    obtain ⟨t, ht, _, hinst, hother, hoff, hclock⟩ := d4 hres
    have keep : ∀ x, Frame .tmp fs x → OffInv x := fun x hf =>
      h.unchanged (by simpa using hf.other .doc (by simp)) hf.off hf.clock
    have hfin : OffInv (downloaderDownload spec fs (target spec) (targetSize spec) plan).1.fs := by
      by_cases harch : spec.hasArchive = true
      · have : (downloaderDownload spec fs (target spec) (targetSize spec) plan).1.fs.doc = fs.doc := by
          have := hother .doc (by rw [(target_arch harch).1]; simp) (by simp)
          simpa using this
        exact h.unchanged this hoff hclock
      · obtain ⟨_, _, _, _, _, _, _, _, hfr, _⟩ := hinst
        generalize downloaderDownload spec fs (target spec) (targetSize spec) plan = D at *
        rw [(target_doc harch).1] at ht
        simp only [get_doc] at ht
        exact h.fresh ht hoff hclock hfr
    have ⟨i1, i2⟩ := ih hfin
    refine ⟨fun x hx => ?_, i2⟩
    simp only [List.mem_append] at hx
    rcases hx with hx | hx
    · rcases d2 x hx with hf | hf
      · exact keep x hf
      · rw [hf.2]; exact hfin
    · exact i1 x hx

/-! ## the offset table as memo of the line-count check (state carried from one run to the next) -/

theorem prepareFileOffsetTable_err (w : World) (fs : FS) (d : File) (e : CodeErr)
    (h : (prepareFileOffsetTable w fs d).1 = .error e) : FrameTmpOff fs (prepareFileOffsetTable w fs d).2.1 := by
  unfold prepareFileOffsetTable at h ⊢
  by_cases hv : offsetValid fs d
  · simp [hv] at h
  · simp only [hv] at h ⊢
    by_cases hdec : w.decodeFails d.cid d.size
    · simp only [hdec, if_true]
      have ha := frameTmpOff_set fs (some ⟨.torn d.size d.cid 0, fs.clock⟩)
      have ⟨hb, _⟩ := writeOff_frame d (w.tbl d.cid d.size) 0 (fs.setOffTmp (some ⟨.torn d.size d.cid 0, fs.clock⟩)).tick
      exact ha.trans (hb.trans (frameTmpOff_set _ none))
    · simp [hdec] at h

/-- the final state of `create_file_offset_table`, whatever its outcome -/
theorem createFileOffsetTable_final (w : World) (spec : Spec) (fs : FS) (d : File) (hd : fs.doc = some d) :
    ((createFileOffsetTable w spec fs).res = .ok () ∧ offsetValid fs d = true ∧ (createFileOffsetTable w spec fs).fs = fs) ∨
    ((createFileOffsetTable w spec fs).res = .ok () ∧ w.lines d.cid d.size = spec.nlines ∧
      ∃ o, (createFileOffsetTable w spec fs).fs.off = some o ∧ o.content = .complete d.size d.cid ∧ fs.clock ≤ o.mtime) ∨
    (∃ e, (createFileOffsetTable w spec fs).res = .error e ∧
      ((createFileOffsetTable w spec fs).fs.off = fs.off ∨ (createFileOffsetTable w spec fs).fs.off = none)) := by
  cases hr : (prepareFileOffsetTable w fs d).1 with
  | error e =>
    right; right
    have hf := prepareFileOffsetTable_err w fs d e hr
    exact ⟨e, by simp [createFileOffsetTable, hd, hr], Or.inl (by simp [createFileOffsetTable, hd, hr]; exact hf.off)⟩
  | ok n =>
    rcases prepareFileOffsetTable_ok w fs d n hr with ⟨h1, h2, h3⟩ | ⟨h1, o, h2, h3, h4, _⟩
    · left
      subst h1
      exact ⟨by simp [createFileOffsetTable, hd, hr], h2, by simp [createFileOffsetTable, hd, hr, h3]⟩
    · subst h1
      by_cases hl : (w.lines d.cid d.size != spec.nlines) = true
      · right; right
        exact ⟨.linesMismatch, by simp [createFileOffsetTable, hd, hr, hl], Or.inr (by simp [createFileOffsetTable, hd, hr, hl])⟩
      · right; left
        have e : (createFileOffsetTable w spec fs).fs = (prepareFileOffsetTable w fs d).2.1 := by
          simp [createFileOffsetTable, hd, hr, hl]
        refine ⟨by simp [createFileOffsetTable, hd, hr, hl], by simpa using hl, o, by rw [e]; exact h2, h3, h4⟩

/-- a table that is valid by mtime vouches for a document whose line count is the declared one -/
def LinesMemo (w : World) (spec : Spec) (fs : FS) : Prop :=
  ∀ o d, fs.off = some o → fs.doc = some d → d.mtime ≤ o.mtime → w.lines d.cid d.size = spec.nlines

theorem LinesMemo.unchanged {w : World} {spec : Spec} {fs fs' : FS} (h : LinesMemo w spec fs) (hd : fs'.doc = fs.doc)
    (ho : fs'.off = fs.off) : LinesMemo w spec fs' :=
  fun o d h1 h2 h3 => h o d (ho ▸ h1) (hd ▸ h2) h3

theorem LinesMemo.docStep {w : World} {spec : Spec} {fs x : FS} (h : LinesMemo w spec fs) (hi : OffInv fs) (hs : DocStep fs x) :
    LinesMemo w spec x := by
  rcases hs.doc with hd | ⟨d, hd, hf⟩
  · exact h.unchanged hd hs.off
  · intro o d' h1 h2 h3
    rw [hd] at h2; cases h2
    have := hi.offOld o (hs.off ▸ h1)
    have := hf.1
    omega

/-- a *completed* run (returned or raised) keeps the memo sound, and a normal return means the line count of the
    document on disk is the declared one (checked now, or vouched for by the memo) -/
theorem loop_linesMemo (w : World) (spec : Spec) (hm : ∀ c s, (w.dc c s).mtime = none) (fuel : Nat) (fs : FS)
    (plan : List Attempt) (hinv : OffInv fs) (hmemo : LinesMemo w spec fs) :
    LinesMemo w spec (prepareLoop w spec fuel fs plan).fs ∧
    ((prepareLoop w spec fuel fs plan).res = .done () →
      ∃ d, (prepareLoop w spec fuel fs plan).fs.doc = some d ∧ w.lines d.cid d.size = spec.nlines) := by
  revert hinv hmemo
  refine prepareLoop_induct w spec
    (fun fs _ out => OffInv fs → LinesMemo w spec fs →
      LinesMemo w spec out.fs ∧ (out.res = .done () → ∃ d, out.fs.doc = some d ∧ w.lines d.cid d.size = spec.nlines))
    ?_ ?_ ?_ ?_ ?_ ?_ fuel fs plan
  · intro fs _ _ h; exact ⟨h, fun h => by simp at h⟩
  · intro fs _ hdoc hi h
    cases hd : fs.doc with
    | none => simp [fileOk, hd] at hdoc
    | some d =>
      have hf := (createFileOffsetTable_frame w spec fs).1
      have hdoc' : (createFileOffsetTable w spec fs).fs.doc = some d := by
        have := hf.files .doc
        simp only [get_doc] at this
        rw [this]; exact hd
      simp only [ofOut_fs]
      rcases createFileOffsetTable_final w spec fs d hd with ⟨h1, h2, h3⟩ | ⟨h1, h2, o, h3, h4, h5⟩ | ⟨e, h1, h2⟩
      · rw [h3]
        refine ⟨h, fun _ => ⟨d, hd, ?_⟩⟩
        cases hoff : fs.off with
        | none => simp [offsetValid, hoff] at h2
        | some o => exact h o d hoff hd (by simpa [offsetValid, hoff] using h2)
      · refine ⟨fun o' d' g1 g2 _ => ?_, fun _ => ⟨d, hdoc', h2⟩⟩
        rw [hdoc'] at g2; cases g2; exact h2
      · refine ⟨fun o' d' g1 g2 g3 => ?_, fun hdone => ?_⟩
        · rw [hdoc'] at g2; cases g2
          rcases h2 with h2 | h2
          · exact h o' d (h2 ▸ g1) hd g3
          · rw [h2] at g1; cases g1
        · rcases ofOut_res (createFileOffsetTable w spec fs) with g | ⟨e', g⟩
          · rw [g.2] at h1; cases h1
          · rw [g.1] at hdone; cases hdone
  · intro fs _ e _ _ _ hi h
    have ⟨d1, _⟩ := decompressorDecompress_docStep w spec fs hm
    exact ⟨h.docStep hi d1, fun h => by simp at h⟩
  · intro fs _ k _ _ _ ih hi h
    have ⟨d1, _⟩ := decompressorDecompress_docStep w spec fs hm
    exact ih (hi.docStep d1) (h.docStep hi d1)
  · intro fs plan e e' _ _ hres hi h
    have ⟨_, _, d3, _⟩ := downloaderDownload_spec spec fs (target spec) (targetSize spec) plan (target_ne_tmp spec)
    have hf := d3 e hres
    exact ⟨h.unchanged (by simpa using hf.other .doc (by simp)) hf.off, fun h => by simp at h⟩
  · intro fs plan k _ _ hres ih hi h
    have ⟨_, _, _, d4⟩ := downloaderDownload_spec spec fs (target spec) (targetSize spec) plan (target_ne_tmp spec)
    obtain ⟨t, ht, _, hinst, hother, hoff, hclock⟩ := d4 hres
    have hstep : DocStep fs (downloaderDownload spec fs (target spec) (targetSize spec) plan).1.fs := by
      by_cases harch : spec.hasArchive = true
      · have hdoc : (downloaderDownload spec fs (target spec) (targetSize spec) plan).1.fs.doc = fs.doc := by
          have := hother .doc (by rw [(target_arch harch).1]; simp) (by simp)
          simpa using this
        exact ⟨hoff, hclock, Or.inl hdoc⟩
      · obtain ⟨_, _, _, _, _, _, _, _, hfr, _⟩ := hinst
        generalize downloaderDownload spec fs (target spec) (targetSize spec) plan = D at *
        rw [(target_doc harch).1] at ht
        simp only [get_doc] at ht
        exact ⟨hoff, hclock, Or.inr ⟨t, ht, hfr⟩⟩
    exact ih (hi.docStep hstep) (h.docStep hi hstep)

/-! ## prepare_docs with one or two data directories -/

/-- `prepare_bundled_document_set` returns `False` only when there is no document file in that directory -/
theorem bundled_false_no_doc (w : World) (spec : Spec) (fuel : Nat) (fs : FS)
    (h : (bundledLoop w spec fuel fs).res = .done false) : (bundledLoop w spec fuel fs).fs.doc = none := by
  induction fuel generalizing fs with
  | zero => simp [bundledLoop] at h
  | succ n ih =>
    cases hd : fs.doc with
    | some d =>
      by_cases hsz : sizeIs d spec.usize = true
      · cases hres : (createFileOffsetTable w spec fs).res <;> simp [bundledLoop, hd, hsz, hres] at h
      · simp [bundledLoop, hd, hsz] at h
    | none =>
      by_cases ha : (spec.hasArchive && fs.arch.isSome) = true
      · by_cases hs : fileOk fs.arch spec.csize = true
        · cases hres : (decompressorDecompress w spec fs).res with
          | error e => simp [bundledLoop, hd, ha, hs, hres] at h
          | ok u =>
            have e : bundledLoop w spec (n + 1) fs =
                ⟨(bundledLoop w spec n (decompressorDecompress w spec fs).fs).res,
                 (bundledLoop w spec n (decompressorDecompress w spec fs).fs).fs,
                 (decompressorDecompress w spec fs).trace ++ (bundledLoop w spec n (decompressorDecompress w spec fs).fs).trace⟩ := by
              simp [bundledLoop, hd, ha, hs, hres]
            rw [e] at h ⊢
            exact ih _ h
        · simp [bundledLoop, hd, ha, hs] at h
      · have e : (bundledLoop w spec (n + 1) fs).fs = fs := by simp [bundledLoop, hd, ha]
        rw [e]; exact hd

theorem Verified.doc_isSome {w : World} {fs : FS} (h : Verified w fs) : fs.doc.isSome = true := by
  obtain ⟨d, _, h1, _⟩ := h
  simp [h1]

theorem prepareDocs_verified (w : World) (spec : Spec) (two : Bool) (fsT fsC : FS) (plan : List Attempt)
    (hyp : Hyp w spec plan) (hT : Inv w fsT) (hC : Inv w fsC)
    (hok : (prepareDocs w spec two fsT fsC plan).res = .done ()) :
    ∃ fs, resolveDoc two (prepareDocs w spec two fsT fsC plan).track (prepareDocs w spec two fsT fsC plan).corpus = some fs ∧
      Verified w fs := by
  cases two with
  | false =>
    have e : prepareDocs w spec false fsT fsC plan = ⟨(prepare w spec fsC plan).res, fsT, (prepare w spec fsC plan).fs⟩ := by
      simp [prepareDocs]
    rw [e] at hok ⊢
    have hv : Verified w (prepare w spec fsC plan).fs := loop_verified w spec plan hyp FUEL fsC plan (fun _ h => h) hC hok
    have hs : (prepare w spec fsC plan).fs.doc.isSome = true := hv.doc_isSome
    exact ⟨(prepare w spec fsC plan).fs, by simp [resolveDoc, hs], hv⟩
  | true =>
    cases hb : (prepareBundled w spec fsT).res with
    | done b =>
      cases b with
      | true =>
        have hv : Verified w (prepareBundled w spec fsT).fs :=
          bundled_verified w spec hyp.usize hyp.noMtimeRestore hyp.dcGarbage BFUEL fsT hT hb
        have hs : (prepareBundled w spec fsT).fs.doc.isSome = true := hv.doc_isSome
        have e : prepareDocs w spec true fsT fsC plan = ⟨.done (), (prepareBundled w spec fsT).fs, fsC⟩ := by
          simp [prepareDocs, hb]
        rw [e]
        exact ⟨(prepareBundled w spec fsT).fs, by simp [resolveDoc, hs], hv⟩
      | false =>
        have hnone : (prepareBundled w spec fsT).fs.doc = none := bundled_false_no_doc w spec BFUEL fsT hb
        have e : prepareDocs w spec true fsT fsC plan =
            ⟨(prepare w spec fsC plan).res, (prepareBundled w spec fsT).fs, (prepare w spec fsC plan).fs⟩ := by
          simp [prepareDocs, hb]
        rw [e] at hok ⊢
        have hv : Verified w (prepare w spec fsC plan).fs := loop_verified w spec plan hyp FUEL fsC plan (fun _ h => h) hC hok
        have hs : (prepare w spec fsC plan).fs.doc.isSome = true := hv.doc_isSome
        exact ⟨(prepare w spec fsC plan).fs, by simp [resolveDoc, hnone, hs], hv⟩
    | raised e => simp [prepareDocs, hb] at hok
    | outOfFuel => simp [prepareDocs, hb] at hok

/-! ## the property's own quantifier, and concrete witnesses used by `RallyProps/C14.lean` -/

structure Admissible (w : World) (spec : Spec) (fs : FS) (plan : List Attempt) : Prop where
  usizeTruthful : ∀ u, spec.usize = some u → u = w.dSize
  csizeTruthful : ∀ c, spec.csize = some c → c = w.aSize
  docCid : ∀ d, fs.doc = some d → d.size = w.dSize → d.cid = .pub
  docOld : ∀ d, fs.doc = some d → d.mtime < fs.clock
  offOld : ∀ o, fs.off = some o → o.mtime < fs.clock
  /-- an `.offset` that is not older than the document is that document's complete table: a foreign table with a newer
      mtime cannot be told apart (no checksum) — and the current code never leaves one behind (`loop_offInv`) -/
  offGood : ∀ o d, fs.off = some o → fs.doc = some d → d.mtime ≤ o.mtime → o.content = .complete d.size d.cid
  dcGarbage : ∀ c s, (w.dc c s).outSize = w.dSize → (w.dc c s).cid = .pub ∨ w.dSize = 0
  bodyGarbage : spec.hasArchive = false → ∀ st cl cid chunks fin, Attempt.resp st cl cid chunks fin ∈ plan →
    chunks.sum = w.dSize → cid = .pub ∨ w.dSize = 0


/-- decidable form of `Verified` for the witnesses -/
def verifiedB (w : World) (fs : FS) : Bool :=
  match fs.doc, fs.off with
  | some d, some o => d.size == w.dSize && d.cid == .pub && o.content == .complete d.size d.cid && decide (d.mtime ≤ o.mtime)
  | _, _ => false

theorem verified_iff (w : World) (fs : FS) : Verified w fs ↔ verifiedB w fs = true := by
  unfold Verified verifiedB
  constructor
  · rintro ⟨d, o, h1, h2, h3, h4, h5, h6⟩
    simp [h1, h4, h2, h3, h5, h6]
  · intro h
    cases hd : fs.doc with
    | none => simp [hd] at h
    | some d =>
      cases ho : fs.off with
      | none => simp [hd, ho] at h
      | some o =>
        simp only [hd, ho, Bool.and_eq_true, beq_iff_eq, decide_eq_true_eq] at h
        exact ⟨d, o, rfl, h.1.1.1, h.1.1.2, rfl, h.1.2, h.2⟩

namespace Witness

def w0 : World :=
  { dSize := 100, aSize := 40, lines := fun _ s => if s = 0 then 0 else 10,
    dc := fun _ _ => ⟨false, true, none, .pub, [60, 40], false, false, none⟩, tbl := fun _ _ => [], decodeFails := fun _ _ => false }

def emptyFS : FS := ⟨none, none, none, none, none, 1⟩

def specDeclared : Spec := ⟨true, some 40, some 100, 10, true, false, false⟩
def specUndeclared : Spec := ⟨true, none, none, 10, true, false, false⟩

/-- D1 — a crash inside an earlier offset-table build: complete document, torn `.offset` with a newer mtime -/
def fsTornTable : FS := ⟨some ⟨100, .pub, 1⟩, none, none, some ⟨.torn 100 .pub 5, 2⟩, none, 3⟩
/-- D2 — a crash inside an earlier decompression: the last bytes of the last line are missing (same line count) -/
def fsPartialDoc : FS := ⟨some ⟨97, .pub, 1⟩, none, none, none, none, 2⟩
/-- D3 — a crash right after the decompression created the file: empty document, 10 lines expected -/
def fsEmptyDoc : FS := ⟨some ⟨0, .pub, 1⟩, none, none, none, none, 2⟩
/-- D4 — tar family: another document with *its* (complete, newer) table; the archive restores mtime 0 -/
def wTar : World := { w0 with dc := fun _ _ => ⟨false, true, none, .pub, [100], false, false, some 0⟩ }
def fsOtherDocWithTable : FS := ⟨some ⟨70, .other 1, 5⟩, some ⟨40, .pub, 1⟩, none, some ⟨.complete 70 (.other 1), 6⟩, none, 7⟩



/-- a world in which a partial document has fewer lines than the published one -/
def wLines : World := { w0 with lines := fun _ s => if s = 100 then 10 else 6 }
/-- the leftover of a killed decompression, nothing declared -/
def fsHalfDoc : FS := ⟨some ⟨50, .pub, 1⟩, none, none, none, none, 2⟩
/-- what a kill between `os.replace` and the line-count comparison leaves -/
def fsHalfDocPublished : FS := ⟨some ⟨50, .pub, 1⟩, none, none, some ⟨.complete 50 .pub, 3⟩, none, 5⟩

theorem hyp_w0 (plan : List Attempt) : Hyp w0 specDeclared plan :=
  ⟨rfl, fun _ _ => rfl, fun _ _ _ => Or.inl rfl, fun h => by cases h⟩

theorem inv_empty : Inv w0 emptyFS := by
  constructor
  · intro d h; cases h
  · intro d h; cases h
  · intro o h; cases h
  · intro o d h; cases h

theorem adm_w0 (spec : Spec) (fs : FS) (h1 : ∀ u, spec.usize = some u → u = 100) (h2 : ∀ c, spec.csize = some c → c = 40)
    (h3 : ∀ d, fs.doc = some d → d.size = 100 → d.cid = .pub) (h4 : ∀ d, fs.doc = some d → d.mtime < fs.clock)
    (h5 : ∀ o, fs.off = some o → o.mtime < fs.clock)
    (h6 : ∀ o d, fs.off = some o → fs.doc = some d → d.mtime ≤ o.mtime → o.content = .complete d.size d.cid)
    (ha : spec.hasArchive = true) : Admissible w0 spec fs [] :=
  ⟨h1, h2, h3, h4, h5, h6, fun _ _ _ => Or.inl rfl, fun h => by rw [ha] at h; cases h⟩

theorem inv_partialDoc : Inv w0 fsPartialDoc := by
  constructor
  · intro d h hs; cases h; exact absurd hs (by decide)
  · intro d h; cases h; decide
  · intro o h; cases h
  · intro o d h; cases h

theorem adm_partialDoc : Admissible w0 specUndeclared fsPartialDoc [] := by
  apply adm_w0
  · intro u h; cases h
  · intro u h; cases h
  · intro d h hs; cases h; exact absurd hs (by decide)
  · intro d h; cases h; decide
  · intro o h; cases h
  · intro o d h; cases h
  · rfl

theorem inv_otherDoc : Inv wTar fsOtherDocWithTable := by
  constructor
  · intro d h hs; cases h; exact absurd hs (by simp [wTar, w0])
  · intro d h; cases h; decide
  · intro o h; cases h; decide
  · intro o d h1 h2 _; cases h1; cases h2; rfl

end Witness

end Corpus
