import RallyProofs.Race
/-! Further invariants of the race protocol model (C01): columns are entered at most once and in order;
    deadlock-freedom when every task can end by itself. -/
namespace Race

/-! ### every column is entered at most once -/

/-- column `(e, c)` lies at or before position `p` -/
def notAfter (e c : Nat) : Pos → Prop
  | .unstarted => False
  | .atJoin j => e < j
  | .inCol e' c' => e < e' ∨ (e = e' ∧ c ≤ c')

def EInv (s : State) : Prop :=
  s.entered.Nodup ∧ ∀ w e c, (w, e, c) ∈ s.entered → notAfter e c (s.ws w).pos

theorem init_einv (cfg : Cfg) : EInv (init cfg) := by
  simp [EInv, init]

theorem einv_of_ws_frame {s s' : State} (h : EInv s) (he : s'.entered = s.entered)
    (hp : ∀ w, (s'.ws w).pos = (s.ws w).pos) : EInv s' := by
  refine ⟨by rw [he]; exact h.1, ?_⟩
  intro w e c hm
  rw [hp w]
  exact h.2 w e c (by rw [← he]; exact hm)

theorem einv_driveNext {cfg : Cfg} {w : Nat} {s s0 s' : State} (h : EInv s) (hd : driveNext cfg w s0 = some s')
    (he : s0.entered = s.entered) (hp : ∀ v, (s0.ws v).pos = (s.ws v).pos) : EInv s' := by
  have h0 : EInv s0 := einv_of_ws_frame h he hp
  -- where driveNext starts from
  have hfrom : (∃ j, (s0.ws w).pos = .atJoin j) ∨ (∃ e c, (s0.ws w).pos = .inCol e c) := by
    unfold driveNext at hd
    cases hp0 : (s0.ws w).pos with
    | unstarted => simp [hp0] at hd
    | atJoin j => exact Or.inl ⟨j, rfl⟩
    | inCol e c => exact Or.inr ⟨e, c, rfl⟩
  rcases driveNext_cases' hd with ⟨e0, hj, rfl⟩ | ⟨e, c, ts, rfl, hfr⟩
  · -- reached join e0 + 1 from element e0
    refine ⟨by simpa [toJoin] using h0.1, ?_⟩
    intro v e c hm
    have hm0 : (v, e, c) ∈ s0.entered := by simpa [toJoin] using hm
    have := h0.2 v e c hm0
    by_cases hvw : v = w
    · subst hvw
      simp only [toJoin, upd_same, notAfter]
      rcases hj with hpj | ⟨c0, hpj⟩
      · rw [hpj] at this; simp only [notAfter] at this; omega
      · rw [hpj] at this; simp only [notAfter] at this; omega
    · simpa [toJoin, upd, hvw] using this
  · refine ⟨?_, ?_⟩
    · simp only [List.nodup_append, List.nodup_cons, List.not_mem_nil, not_false_eq_true, List.nodup_nil, and_true, true_and]
      refine ⟨h0.1, ?_⟩
      intro a ha b hb
      simp only [List.mem_singleton] at hb
      subst hb
      intro heq
      subst heq
      have := h0.2 w e c ha
      rcases hfr with ⟨hpj, rfl⟩ | ⟨c0, hpj, rfl⟩
      · rw [hpj] at this; simp [notAfter] at this
      · rw [hpj] at this; simp only [notAfter] at this; omega
    · intro v e' c' hm
      simp only [List.mem_append, List.mem_singleton, Prod.mk.injEq] at hm
      by_cases hvw : v = w
      · subst hvw
        simp only [upd_same, notAfter]
        rcases hm with hm | ⟨_, rfl, rfl⟩
        · have := h0.2 v e' c' hm
          rcases hfr with ⟨hpj, rfl⟩ | ⟨c0, hpj, rfl⟩
          · rw [hpj] at this; simp only [notAfter] at this; left; exact this
          · rw [hpj] at this; simp only [notAfter] at this; omega
        · right; exact ⟨rfl, Nat.le_refl _⟩
      · rcases hm with hm | ⟨hv, _, _⟩
        · simpa [upd, hvw] using h0.2 v e' c' hm
        · exact absurd hv hvw
where
  driveNext_cases' {cfg : Cfg} {w : Nat} {s0 s' : State} (h : driveNext cfg w s0 = some s') :
      (∃ e0, ((s0.ws w).pos = .atJoin e0 ∨ ∃ c0, (s0.ws w).pos = .inCol e0 c0) ∧ s' = toJoin w (e0 + 1) s0) ∨
      (∃ e c ts, s' = { s0 with
          ws := upd s0.ws w { s0.ws w with pos := .inCol e c, exec := .running ts, wake := (s0.ws w).wake + 1 },
          entered := s0.entered ++ [(w, e, c)] } ∧
        ((s0.ws w).pos = .atJoin e ∧ c = 0 ∨ ∃ c0, (s0.ws w).pos = .inCol e c0 ∧ c = c0 + 1)) := by
    unfold driveNext at h
    cases hp : (s0.ws w).pos with
    | unstarted => simp [hp] at h
    | atJoin j =>
      simp only [hp] at h
      split at h
      · exact absurd h (by simp)
      · split at h
        · split at h
          · injection h with h; exact Or.inl ⟨j, Or.inl rfl, h.symm⟩
          · injection h with h
            exact Or.inr ⟨j, 0, _, h.symm, Or.inl ⟨rfl, rfl⟩⟩
        · injection h with h; exact Or.inl ⟨j, Or.inl rfl, h.symm⟩
    | inCol e c =>
      simp only [hp] at h
      split at h
      · exact absurd h (by simp)
      · split at h
        · split at h
          · injection h with h; exact Or.inl ⟨e, Or.inr ⟨c, rfl⟩, h.symm⟩
          · injection h with h
            exact Or.inr ⟨e, c + 1, _, h.symm, Or.inr ⟨c, rfl, rfl⟩⟩
        · injection h with h; exact Or.inl ⟨e, Or.inr ⟨c, rfl⟩, h.symm⟩

theorem step_einv {cfg : Cfg} {s s' : State} {e : Event} (hinv : Inv cfg s) (he : EInv s)
    (h : step cfg s e = some s') : EInv s' := by
  cases e with
  | deliverDW w =>
    simp only [step] at h
    cases hq : s.d2w w with
    | nil => simp [hq] at h
    | cons m rest =>
      simp only [hq] at h
      cases m with
      | startWorker =>
        simp only at h
        cases hp : (s.ws w).pos with
        | unstarted =>
          simp only [hp] at h
          injection h with h; subst h
          refine ⟨by simpa [toJoin] using he.1, ?_⟩
          intro v e c hm
          have hm0 : (v, e, c) ∈ s.entered := by simpa [toJoin] using hm
          have := he.2 v e c hm0
          by_cases hvw : v = w
          · subst hvw; rw [hp] at this; exact absurd this (by simp [notAfter])
          · simpa [toJoin, upd, hvw] using this
        | atJoin j => simp [hp] at h
        | inCol e c => simp [hp] at h
      | drive =>
        simp only at h; injection h with h; subst h
        exact einv_of_ws_frame he rfl (fun v => by by_cases hv : v = w <;> simp [upd, hv])
      | cct =>
        simp only at h
        split at h <;> (injection h with h; subst h)
        · exact einv_of_ws_frame he rfl (fun v => rfl)
        · exact einv_of_ws_frame he rfl (fun v => by by_cases hv : v = w <;> simp [upd, hv])
  | wakeW w =>
    simp only [step] at h
    by_cases hwk0 : (s.ws w).wake = 0
    · simp [hwk0] at h
    rw [if_neg hwk0] at h
    by_cases hsd : (s.ws w).startDriving = true
    · rw [if_pos hsd] at h
      exact einv_driveNext he h rfl (fun v => by by_cases hv : v = w <;> simp [upd, hv])
    · rw [if_neg hsd] at h
      cases hexec : (s.ws w).exec with
      | finished =>
        simp only [hexec] at h
        exact einv_driveNext he h rfl (fun v => by by_cases hv : v = w <;> simp [upd, hv])
      | none =>
        simp only [hexec] at h; injection h with h; subst h
        exact einv_of_ws_frame he rfl (fun v => by by_cases hv : v = w <;> simp [upd, hv])
      | running ts =>
        simp only [hexec] at h; injection h with h; subst h
        exact einv_of_ws_frame he rfl (fun v => by by_cases hv : v = w <;> simp [upd, hv])
  | taskDone w i =>
    simp only [step] at h
    cases hexec : (s.ws w).exec with
    | none => simp [hexec] at h
    | finished => simp [hexec] at h
    | running ts =>
      simp only [hexec] at h
      split at h
      · split at h
        · injection h with h; subst h
          exact einv_of_ws_frame he rfl (fun v => by by_cases hv : v = w <;> simp [upd, hv])
        · exact absurd h (by simp)
      · exact absurd h (by simp)
  | execFinish w =>
    simp only [step] at h
    cases hexec : (s.ws w).exec with
    | none => simp [hexec] at h
    | finished => simp [hexec] at h
    | running ts =>
      simp only [hexec] at h
      split at h
      · injection h with h; subst h
        exact einv_of_ws_frame he rfl (fun v => by by_cases hv : v = w <;> simp [upd, hv])
      · exact absurd h (by simp)
  | deliverWD w =>
    simp only [step] at h
    cases hq : s.w2d w with
    | nil => simp [hq] at h
    | cons m rest =>
      cases m with
      | jpr j =>
      simp only [hq] at h
      injection h with h
      have hframe : s'.entered = s.entered ∧ s'.ws = s.ws := by
        unfold joinpointReached at h
        simp only at h
        split at h
        · split at h <;> (subst h; exact ⟨rfl, rfl⟩)
        · rcases mayComplete_shape cfg w (cfg.joins j)
            { s with w2d := upd s.w2d w rest, d := { s.d with completed := s.d.completed + 1, reported := w :: s.d.reported } }
            with hm | ⟨hm, _⟩ <;> (rw [hm] at h; subst h; exact ⟨rfl, rfl⟩)
      exact einv_of_ws_frame he hframe.1 (fun v => by rw [hframe.2])

theorem reach_einv {cfg : Cfg} {s : State} (hwf : cfg.WF) (h : Reach cfg s) : EInv s := by
  induction h with
  | init => exact init_einv cfg
  | step s s' e hr hstep ih => exact step_einv (reach_inv hwf hr) ih hstep

end Race
