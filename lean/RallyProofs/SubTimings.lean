import RallyModel.SubTimings
/-! helper lemmas for the C18 theorems about `SubTimings` (records of sub-requests on their way into the metrics store) -/
namespace SubTimings

/-- the loop with its accumulator is "append what every kept sample contributes" -/
theorem postGo_eq (factor : Nat) (hf : factor ≠ 0) : ∀ (smps : List Smp) (idx : Nat) (acc : List Doc),
    postGo factor idx smps acc = .ok (acc ++ (keptFrom factor idx smps).flatMap docsOf)
  | [], idx, acc => by simp [postGo, keptFrom]
  | s :: rest, idx, acc => by
    rw [postGo, if_neg hf, postGo_eq factor hf rest (idx + 1)]
    by_cases h : idx % factor = 0
    · simp [keptFrom, h, List.append_assoc]
    · simp [keptFrom, h]

theorem keptFrom_one : ∀ (smps : List Smp) (idx : Nat), keptFrom 1 idx smps = smps
  | [], _ => rfl
  | s :: rest, idx => by simp [keptFrom, Nat.mod_one, keptFrom_one rest]

theorem postprocess_one (smps : List Smp) : postprocess 1 smps = .ok (smps.flatMap docsOf) := by
  unfold postprocess
  rw [postGo_eq 1 (by decide), keptFrom_one]
  simp

theorem filter_sub_depDocs (s : Smp) : (depDocs s).filter (·.sub) = depDocs s := by
  unfold depDocs
  cases s.deps with
  | none => rfl
  | some l =>
    induction l with
    | nil => rfl
    | cons r rest ih => simp [depDoc]

theorem filter_sub_docsOf (s : Smp) : (docsOf s).filter (·.sub) = depDocs s := by
  unfold docsOf
  rw [List.filter_cons]
  simp only [ownDoc]
  simpa using filter_sub_depDocs s

theorem filter_sub_flatMap : ∀ smps : List Smp, ((smps.flatMap docsOf).filter (·.sub)) = smps.flatMap depDocs
  | [] => rfl
  | s :: rest => by
    simp only [List.flatMap_cons, List.filter_append, filter_sub_docsOf, filter_sub_flatMap rest]

theorem length_depDocs (s : Smp) : (depDocs s).length = (s.deps.getD []).length := by
  unfold depDocs
  cases s.deps <;> simp

theorem length_flatMap_depDocs : ∀ smps : List Smp,
    (smps.flatMap depDocs).length = (smps.map (fun s => (s.deps.getD []).length)).sum
  | [] => rfl
  | s :: rest => by
    simp only [List.flatMap_cons, List.length_append, List.map_cons, List.sum_cons, length_depDocs,
      length_flatMap_depDocs rest]

end SubTimings
