import RallyModel.JsonFast
/-! Text-level lemmas for C19: `rfind`, the regex capture, and the `json.loads` round trip of a flat array. -/
namespace JsonFast

/-! ## `rfind` -/

theorem isPrefix_nil_right (pat : Str) (h : pat ≠ []) : isPrefix pat [] = false := by
  cases pat with
  | nil => exact absurd rfl h
  | cons a t => rfl

theorem rfind_none (pat : Str) (hp : pat ≠ []) : ∀ (s : Str), (∀ k, isPrefix pat (s.drop k) = false) → rfind pat s = none := by
  intro s
  induction s with
  | nil =>
    intro _
    cases pat with
    | nil => exact absurd rfl hp
    | cons a t => rfl
  | cons c t ih =>
    intro h
    have h0 := h 0
    simp only [List.drop_zero] at h0
    have ht := ih (fun k => by simpa using h (k + 1))
    simp [rfind, ht, h0]

/-- the last occurrence: `pat` occurs at `i` and nowhere later -/
theorem rfind_eq_some (pat : Str) (hp : pat ≠ []) : ∀ (s : Str) (i : Nat), isPrefix pat (s.drop i) = true →
    (∀ k, i < k → isPrefix pat (s.drop k) = false) → rfind pat s = some i := by
  intro s
  induction s with
  | nil =>
    intro i h _
    simp only [List.drop_nil] at h
    rw [isPrefix_nil_right pat hp] at h
    cases h
  | cons c t ih =>
    intro i h hl
    cases i with
    | zero =>
      have ht := rfind_none pat hp t (fun k => by simpa using hl (k + 1) (by omega))
      simp only [List.drop_zero] at h
      simp [rfind, ht, h]
    | succ i' =>
      have := ih i' (by simpa using h) (fun k hk => by simpa using hl (k + 1) (by omega))
      simp [rfind, this]

theorem rfind_none_spec (pat : Str) (hp : pat ≠ []) : ∀ (s : Str), rfind pat s = none → ∀ k, isPrefix pat (s.drop k) = false := by
  intro s
  induction s with
  | nil => intro _ k; simp [isPrefix_nil_right pat hp]
  | cons c t ih =>
    intro h k
    simp only [rfind] at h
    cases ht : rfind pat t with
    | some i => rw [ht] at h; cases h
    | none =>
      rw [ht] at h
      simp only at h
      cases k with
      | zero =>
        simp only [List.drop_zero]
        cases hh : isPrefix pat (c :: t) with
        | false => rfl
        | true => rw [hh] at h; simp at h
      | succ k' => simpa using ih ht k'

/-- converse: after the position `rfind` returns there is no further occurrence -/
theorem rfind_some_later (pat : Str) (hp : pat ≠ []) : ∀ (s : Str) (i : Nat), rfind pat s = some i →
    ∀ k, i < k → isPrefix pat (s.drop k) = false := by
  intro s
  induction s with
  | nil =>
    intro i h
    cases pat with
    | nil => exact absurd rfl hp
    | cons a t => simp [rfind] at h
  | cons c t ih =>
    intro i h k hk
    simp only [rfind] at h
    cases ht : rfind pat t with
    | some i' =>
      rw [ht] at h
      simp only [Option.some.injEq] at h
      subst h
      cases k with
      | zero => omega
      | succ k' => simpa using ih i' ht k' (by omega)
    | none =>
      rw [ht] at h
      simp only at h
      cases k with
      | zero => omega
      | succ k' => simpa using rfind_none_spec pat hp t ht k'

/-! ## the regex capture -/

theorem takeThrough_append (c : Char) : ∀ (a b : Str), c ∉ a → takeThrough c (a ++ c :: b) = some (a ++ [c]) := by
  intro a
  induction a with
  | nil => intro b _; simp [takeThrough]
  | cons x t ih =>
    intro b h
    have hx : (x == c) = false := by
      simp only [beq_eq_false_iff_ne, ne_eq]
      intro hh; exact h (by simp [hh])
    have := ih b (fun hh => h (by simp [hh]))
    simp [takeThrough, hx, this]

/-- `re.search(r'sort":([^\]]*])', '"sort":' + rest)` when `rest` = `body ++ "]" ++ post`, no `]` in `body` -/
theorem reSearch_at_token (body post : Str) (h : ']' ∉ body) :
    reSearch (sortTok ++ ':' :: (body ++ ']' :: post)) = some (body ++ [']']) := by
  have := takeThrough_append ']' body post h
  simp [sortTok, reSearch, isPrefix, sortLit, this]

theorem drop_append_length' {α : Type} (a b : List α) : (a ++ b).drop a.length = b := by
  simp

/-- no `"sort"` token anywhere: no cursor -/
theorem lastSort_no_token (text : Str) (h : ∀ k, isPrefix sortTok (text.drop k) = false) : lastSort text = .ok none := by
  have hr := rfind_none sortTok (by simp [sortTok]) text h
  unfold lastSort
  rw [hr]

/-! ## strings: `scanstring (escape s) = s` -/

theorem hexVal_hexDigit : ∀ d : Fin 16, hexVal (hexDigit d.val) = some d.val := by decide

theorem hexVal_hexDigit' (d : Nat) (h : d < 16) : hexVal (hexDigit d) = some d := hexVal_hexDigit ⟨d, h⟩

theorem hex4Val_hex4 (n : Nat) (h : n < 65536) :
    hex4Val (hexDigit (n / 4096 % 16)) (hexDigit (n / 256 % 16)) (hexDigit (n / 16 % 16)) (hexDigit (n % 16)) = some n := by
  unfold hex4Val
  rw [hexVal_hexDigit' _ (Nat.mod_lt _ (by decide)), hexVal_hexDigit' _ (Nat.mod_lt _ (by decide)),
    hexVal_hexDigit' _ (Nat.mod_lt _ (by decide)), hexVal_hexDigit' _ (Nat.mod_lt _ (by decide))]
  simp only [Option.some.injEq]
  omega

theorem char_valid_range (c : Char) : c.toNat < 55296 ∨ (57343 < c.toNat ∧ c.toNat < 1114112) := by
  have := c.valid
  simp only [UInt32.isValidChar, Nat.isValidChar] at this
  exact this

theorem pStr_uEsc (n : Nat) (rest : Str) (h : n < 65536) (h1 : isHighSur n = false) (h2 : isLowSur n = false) :
    pStr (uEsc n ++ rest) = consOk (Char.ofNat n) (pStr rest) := by
  simp only [uEsc, hex4, List.cons_append, List.nil_append]
  rw [pStr.eq_def]
  simp [hex4Val_hex4 n h, h1, h2]

theorem pStr_uEsc_pair (hi lo : Nat) (rest : Str) (hhi : hi < 65536) (hlo : lo < 65536)
    (h1 : isHighSur hi = true) (h2 : isLowSur lo = true) :
    pStr (uEsc hi ++ uEsc lo ++ rest) = consOk (Char.ofNat (65536 + (hi - 55296) * 1024 + (lo - 56320))) (pStr rest) := by
  simp only [uEsc, hex4, List.cons_append, List.nil_append, List.append_assoc]
  rw [pStr.eq_def]
  simp [hex4Val_hex4 hi hhi, hex4Val_hex4 lo hlo, h1, h2]

theorem pStr_escChar (ascii : Bool) (c : Char) (rest : Str) : pStr (escChar ascii c ++ rest) = consOk c (pStr rest) := by
  unfold escChar
  by_cases h1 : (c == '"') = true
  · have : c = '"' := by simpa using h1
    subst this
    rw [if_pos h1, pStr.eq_def]; simp
  rw [if_neg h1]
  by_cases h2 : (c == '\\') = true
  · have : c = '\\' := by simpa using h2
    subst this
    rw [if_pos h2, pStr.eq_def]; simp
  rw [if_neg h2]
  by_cases h3 : (c == '\n') = true
  · have : c = '\n' := by simpa using h3
    subst this
    rw [if_pos h3, pStr.eq_def]; simp
  rw [if_neg h3]
  by_cases h4 : (c == '\r') = true
  · have : c = '\r' := by simpa using h4
    subst this
    rw [if_pos h4, pStr.eq_def]; simp
  rw [if_neg h4]
  by_cases h5 : (c == '\t') = true
  · have : c = '\t' := by simpa using h5
    subst this
    rw [if_pos h5, pStr.eq_def]; simp
  rw [if_neg h5]
  by_cases h6 : (c.toNat == 8) = true
  · have h6' : c.toNat = 8 := by simpa using h6
    have : c = Char.ofNat 8 := by rw [← h6', Char.ofNat_toNat]
    rw [if_pos h6, pStr.eq_def]; simp [this]
  rw [if_neg h6]
  by_cases h7 : (c.toNat == 12) = true
  · have h7' : c.toNat = 12 := by simpa using h7
    have : c = Char.ofNat 12 := by rw [← h7', Char.ofNat_toNat]
    rw [if_pos h7, pStr.eq_def]; simp [this]
  rw [if_neg h7]
  by_cases h8 : c.toNat < 32
  · rw [if_pos h8, pStr_uEsc c.toNat rest (by omega) (by simp [isHighSur]; omega) (by simp [isLowSur]; omega), Char.ofNat_toNat]
  rw [if_neg h8]
  have hq : (c == '"') = false := by simpa using h1
  have hb : (c == '\\') = false := by simpa using h2
  by_cases h9 : (ascii && decide (c.toNat > 126)) = true
  · rw [if_pos h9]
    have hv := char_valid_range c
    by_cases h10 : c.toNat < 65536
    · rw [if_pos h10, pStr_uEsc c.toNat rest h10 (by simp [isHighSur]; omega) (by simp [isLowSur]; omega), Char.ofNat_toNat]
    · rw [if_neg h10, pStr_uEsc_pair _ _ rest (by omega) (by omega) (by simp [isHighSur]; omega) (by simp [isLowSur]; omega)]
      have : 65536 + (55296 + (c.toNat - 65536) / 1024 - 55296) * 1024 + (56320 + (c.toNat - 65536) % 1024 - 56320) = c.toNat := by omega
      rw [this, Char.ofNat_toNat]
  · rw [if_neg h9]
    simp only [List.cons_append, List.nil_append]
    rw [pStr.eq_def]
    simp [hq, hb, h8]

theorem pStr_escBody (ascii : Bool) : ∀ (s tail : Str), pStr (escBody ascii s ++ '"' :: tail) = .ok (s, tail) := by
  intro s
  induction s with
  | nil => intro tail; rw [pStr.eq_def]; simp [escBody]
  | cons c t ih =>
    intro tail
    simp only [escBody, List.append_assoc]
    rw [pStr_escChar, ih tail]
    rfl

/-! ## numbers: `NUMBER_RE` on a rendered literal -/

/-- the next character cannot continue a number literal -/
def delimHead : Str → Bool
  | [] => true
  | c :: _ => !isDig c && c != '.' && c != 'e' && c != 'E'

def notDigHead : Str → Bool
  | [] => true
  | c :: _ => !isDig c

theorem spanDig_append : ∀ (ds r : Str), ds.all isDig = true → notDigHead r = true → spanDig (ds ++ r) = (ds, r) := by
  intro ds
  induction ds with
  | nil =>
    intro r _ hr
    cases r with
    | nil => rfl
    | cons c t =>
      have : isDig c = false := by simpa [notDigHead] using hr
      simp [spanDig, this]
  | cons d t ih =>
    intro r hd hr
    simp only [List.all_cons, Bool.and_eq_true] at hd
    have := ih r hd.2 hr
    simp [spanDig, hd.1, this]

theorem notDigHead_of_delim (r : Str) (h : delimHead r = true) : notDigHead r = true := by
  cases r with
  | nil => rfl
  | cons c t => simp [delimHead] at h; simp [notDigHead, h.1.1.1]

theorem scanExp_none (tail : Str) (h : delimHead tail = true) : scanExp tail = (none, tail) := by
  cases tail with
  | nil => rfl
  | cons c t =>
    simp [delimHead] at h
    have h1 : (c == 'e') = false := by simpa using h.1.2
    have h2 : (c == 'E') = false := by simpa using h.2
    simp [scanExp, h1, h2]

theorem scanExp_some (m ds tail : Str)
    (hm : m = ['e'] ∨ m = ['E'] ∨ m = ['e', '+'] ∨ m = ['e', '-'] ∨ m = ['E', '+'] ∨ m = ['E', '-'])
    (hne : ds ≠ []) (hds : ds.all isDig = true) (h : delimHead tail = true) :
    scanExp (m ++ ds ++ tail) = (some (m, ds), tail) := by
  have hsp := spanDig_append ds tail hds (notDigHead_of_delim tail h)
  obtain ⟨d0, dt, hd⟩ : ∃ d0 dt, ds = d0 :: dt := by
    cases ds with
    | nil => exact absurd rfl hne
    | cons a b => exact ⟨a, b, rfl⟩
  have hd0 : isDig d0 = true := by subst hd; simp [List.all_cons] at hds; exact hds.1
  have hplus : (d0 == '+') = false := by
    simp only [beq_eq_false_iff_ne, ne_eq]; intro hh; subst hh; simp [isDig] at hd0
  have hminus : (d0 == '-') = false := by
    simp only [beq_eq_false_iff_ne, ne_eq]; intro hh; subst hh; simp [isDig] at hd0
  have hemp : ds.isEmpty = false := by subst hd; rfl
  rcases hm with hm | hm | hm | hm | hm | hm <;> subst hm
  · simp only [List.cons_append, List.nil_append, scanExp]
    subst hd
    simp only [List.cons_append] at hsp ⊢
    simp [hplus, hminus, scanExpDigits, hsp]
  · simp only [List.cons_append, List.nil_append, scanExp]
    subst hd
    simp only [List.cons_append] at hsp ⊢
    simp [hplus, hminus, scanExpDigits, hsp]
  · simp [scanExp, scanExpDigits, hsp, hemp]
  · simp [scanExp, scanExpDigits, hsp, hemp]
  · simp [scanExp, scanExpDigits, hsp, hemp]
  · simp [scanExp, scanExpDigits, hsp, hemp]

def expText (e : Option (Str × Str)) : Str :=
  match e with
  | none => []
  | some (m, ds) => m ++ ds

theorem scanExp_expText (e : Option (Str × Str)) (tail : Str) (h : delimHead tail = true)
    (hv : match e with
      | none => True
      | some (m, ds) => (m = ['e'] ∨ m = ['E'] ∨ m = ['e', '+'] ∨ m = ['e', '-'] ∨ m = ['E', '+'] ∨ m = ['E', '-']) ∧
          ds ≠ [] ∧ ds.all isDig = true) :
    scanExp (expText e ++ tail) = (e, tail) := by
  cases e with
  | none => simpa [expText] using scanExp_none tail h
  | some p =>
    obtain ⟨m, ds⟩ := p
    simp only at hv
    simpa [expText] using scanExp_some m ds tail hv.1 hv.2.1 hv.2.2 h

def notDotHead : Str → Bool
  | [] => true
  | c :: _ => !(c == '.')

def fracText (f : Str) : Str := if f.isEmpty then [] else '.' :: f

/-- head of `expText e ++ tail` is neither a digit nor a dot -/
theorem expTail_head (e : Option (Str × Str)) (tail : Str) (h : delimHead tail = true)
    (hv : match e with
      | none => True
      | some (m, _) => (m = ['e'] ∨ m = ['E'] ∨ m = ['e', '+'] ∨ m = ['e', '-'] ∨ m = ['E', '+'] ∨ m = ['E', '-'])) :
    notDigHead (expText e ++ tail) = true ∧ notDotHead (expText e ++ tail) = true := by
  cases e with
  | none =>
    simp only [expText, List.nil_append]
    refine ⟨notDigHead_of_delim tail h, ?_⟩
    cases tail with
    | nil => rfl
    | cons c t => simp [delimHead] at h; simp [notDotHead, h.1.1.2]
  | some p =>
    obtain ⟨m, ds⟩ := p
    simp only at hv
    rcases hv with hm | hm | hm | hm | hm | hm <;> subst hm <;> simp [expText, notDigHead, notDotHead, isDig]

theorem scanFrac_render (frac : Str) (r : Str) (hf : frac.all isDig = true) (hr : notDigHead r = true)
    (hdot : notDotHead r = true) : scanFrac (fracText frac ++ r) = (frac, r) := by
  cases frac with
  | nil =>
    simp only [fracText, List.isEmpty_nil, if_true, List.nil_append]
    cases r with
    | nil => rfl
    | cons c t =>
      have : (c == '.') = false := by simpa [notDotHead] using hdot
      simp [scanFrac, this]
  | cons d t =>
    have := spanDig_append (d :: t) r hf hr
    simp only [fracText, List.isEmpty_cons, Bool.false_eq_true, if_false, List.cons_append] at this ⊢
    simp [scanFrac, this]

structure NumOK (n : NumLit) : Prop where
  int : n.int = ['0'] ∨ ∃ c ds, n.int = c :: ds ∧ (c == '0') = false ∧ isDig c = true ∧ ds.all isDig = true
  frac : n.frac.all isDig = true
  exp : match n.exp with
    | none => True
    | some (m, ds) => (m = ['e'] ∨ m = ['E'] ∨ m = ['e', '+'] ∨ m = ['e', '-'] ∨ m = ['E', '+'] ∨ m = ['E', '-']) ∧
        ds ≠ [] ∧ ds.all isDig = true

theorem numOK_of_valid (n : NumLit) (h : n.valid = true) : NumOK n := by
  unfold NumLit.valid at h
  simp only [Bool.and_eq_true] at h
  obtain ⟨⟨hi, hf⟩, he⟩ := h
  refine ⟨?_, hf, ?_⟩
  · simp only [Bool.or_eq_true, Bool.and_eq_true] at hi
    rcases hi with hi | hi
    · left; simpa using hi
    · right
      cases hint : n.int with
      | nil => rw [hint] at hi; simp at hi
      | cons c ds =>
        rw [hint] at hi
        simp only [List.all_cons, Bool.and_eq_true] at hi
        exact ⟨c, ds, rfl, by simpa using hi.1, hi.2.1, hi.2.2⟩
  · cases hexp : n.exp with
    | none => trivial
    | some p =>
      obtain ⟨m, ds⟩ := p
      rw [hexp] at he
      simp only [Bool.and_eq_true, Bool.or_eq_true, beq_iff_eq, Bool.not_eq_true'] at he
      refine ⟨?_, ?_, he.2⟩
      · rcases he.1.1 with ((((h | h) | h) | h) | h) | h
        · exact Or.inl h
        · exact Or.inr (Or.inl h)
        · exact Or.inr (Or.inr (Or.inl h))
        · exact Or.inr (Or.inr (Or.inr (Or.inl h)))
        · exact Or.inr (Or.inr (Or.inr (Or.inr (Or.inl h))))
        · exact Or.inr (Or.inr (Or.inr (Or.inr (Or.inr h))))
      · intro hh; rw [hh] at he; simp at he

theorem expMarkers_of_ok {n : NumLit} (hn : NumOK n) : match n.exp with
    | none => True
    | some (m, _) => (m = ['e'] ∨ m = ['E'] ∨ m = ['e', '+'] ∨ m = ['e', '-'] ∨ m = ['E', '+'] ∨ m = ['E', '-']) := by
  have := hn.exp
  cases hh : n.exp with
  | none => trivial
  | some p => obtain ⟨m, ds⟩ := p; rw [hh] at this; exact this.1

theorem render_eq (n : NumLit) : n.render = (if n.neg then ['-'] else []) ++ (n.int ++ (fracText n.frac ++ expText n.exp)) := by
  unfold NumLit.render expText fracText
  cases n.exp with
  | none => simp
  | some p => simp

theorem finishNum_render (neg : Bool) (int : Str) (n : NumLit) (hn : NumOK n) (tail : Str) (h : delimHead tail = true) :
    finishNum neg int (fracText n.frac ++ (expText n.exp ++ tail)) =
      ({ neg := neg, int := int, frac := n.frac, exp := n.exp }, tail) := by
  obtain ⟨e1, e2⟩ := expTail_head n.exp tail h (expMarkers_of_ok hn)
  unfold finishNum
  rw [scanFrac_render n.frac _ hn.frac e1 e2]
  simp only
  rw [scanExp_expText n.exp tail h hn.exp]

theorem scanUnsigned_render (neg : Bool) (n : NumLit) (hn : NumOK n) (tail : Str) (h : delimHead tail = true) :
    scanUnsigned neg (n.int ++ (fracText n.frac ++ (expText n.exp ++ tail))) =
      some ({ neg := neg, int := n.int, frac := n.frac, exp := n.exp }, tail) := by
  rcases hn.int with hi | ⟨c, ds, hi, hc0, hcd, hds⟩
  · rw [hi]
    simp only [List.cons_append, List.nil_append, scanUnsigned]
    rw [finishNum_render neg ['0'] n hn tail h]
    simp
  · rw [hi]
    have hnd : notDigHead (fracText n.frac ++ (expText n.exp ++ tail)) = true := by
      cases hf : n.frac with
      | nil =>
        simp only [fracText, List.isEmpty_nil, if_true, List.nil_append]
        exact (expTail_head n.exp tail h (expMarkers_of_ok hn)).1
      | cons d t => simp [fracText, notDigHead, isDig]
    have hsp := spanDig_append ds _ hds hnd
    have hfin := finishNum_render neg (c :: ds) n hn tail h
    simp only [List.cons_append, scanUnsigned]
    rw [hsp]
    simp only [hc0, hcd, Bool.false_eq_true, if_false, if_true]
    rw [hfin]

/-- **number round trip** -/
theorem scanNum_render (n : NumLit) (hn : NumOK n) (tail : Str) (h : delimHead tail = true) :
    scanNum (n.render ++ tail) = some (n, tail) := by
  rw [render_eq]
  have hun := fun neg => scanUnsigned_render neg n hn tail h
  have hint := hn.int
  obtain ⟨neg, int, frac, exp⟩ := n
  simp only at hun hint ⊢
  cases neg with
  | true =>
    simp only [if_true, List.cons_append, List.nil_append, List.append_assoc, scanNum]
    have : (('-' : Char) == '-') = true := by decide
    rw [if_pos this, hun true]
  | false =>
    simp only [Bool.false_eq_true, if_false, List.nil_append, List.append_assoc]
    have hu := hun false
    rcases hint with hi | ⟨c, ds, hi, hc0, hcd, hds⟩
    · subst hi
      simp only [List.cons_append, List.nil_append] at hu ⊢
      simp only [scanNum]
      have : (('0' : Char) == '-') = false := by decide
      rw [if_neg (by simp [this])]
      exact hu
    · subst hi
      have hcm : (c == '-') = false := by
        simp only [beq_eq_false_iff_ne, ne_eq]; intro hh; subst hh; simp [isDig] at hcd
      simp only [List.cons_append] at hu ⊢
      simp only [scanNum]
      rw [if_neg (by simp [hcm])]
      exact hu

/-! ## scalars and flat arrays through `json.loads` -/

def ScalarOK : Json → Prop
  | .num n => NumOK n
  | .arr _ => False
  | .obj _ => False
  | _ => True

theorem beq_false_of_dig {c d : Char} (hc : isDig c = true) (hd : isDig d = false) : (c == d) = false := by
  simp only [beq_eq_false_iff_ne, ne_eq]
  intro h; subst h; rw [hc] at hd; cases hd

theorem skipWs_append : ∀ (ws : Str) (c : Char) (r : Str), ws.all isWs = true → isWs c = false → skipWs (ws ++ c :: r) = c :: r := by
  intro ws
  induction ws with
  | nil => intro c r _ hc; simp [skipWs, hc]
  | cons w t ih =>
    intro c r hw hc
    simp only [List.all_cons, Bool.and_eq_true] at hw
    simp [skipWs, hw.1, ih c r hw.2 hc]

theorem delimHead_append (ws : Str) (c : Char) (r : Str) (hw : ws.all isWs = true) (hc : delimHead (c :: r) = true) :
    delimHead (ws ++ c :: r) = true := by
  cases ws with
  | nil => exact hc
  | cons w t =>
    simp only [List.all_cons, Bool.and_eq_true] at hw
    have := hw.1
    simp only [isWs, Bool.or_eq_true, beq_iff_eq] at this
    rcases this with ((h | h) | h) | h <;> subst h <;> simp [delimHead, isDig]

theorem numHead (n : NumLit) (hn : NumOK n) : ∃ c r, n.render = c :: r ∧
    ((c = '-' ∧ ∃ d r', r = d :: r' ∧ isDig d = true) ∨ isDig c = true) := by
  rw [render_eq]
  have hint : ∃ d r', n.int = d :: r' ∧ isDig d = true := by
    rcases hn.int with hi | ⟨c, ds, hi, _, hcd, _⟩
    · exact ⟨'0', [], hi, by decide⟩
    · exact ⟨c, ds, hi, hcd⟩
  obtain ⟨d, r', hi, hd⟩ := hint
  rw [hi]
  cases n.neg with
  | true =>
    simp only [if_true, List.cons_append, List.nil_append]
    exact ⟨_, _, rfl, Or.inl ⟨rfl, d, _, rfl, hd⟩⟩
  | false =>
    simp only [Bool.false_eq_true, if_false, List.cons_append, List.nil_append]
    exact ⟨_, _, rfl, Or.inr hd⟩

theorem pValue_num (n : NumLit) (hn : NumOK n) (fuel : Nat) (tail : Str) (h : delimHead tail = true) :
    pValue (fuel + 1) (n.render ++ tail) = .ok (.num n, tail) := by
  have hs := scanNum_render n hn tail h
  obtain ⟨c, r, hr, hc⟩ := numHead n hn
  rw [hr] at hs ⊢
  simp only [List.cons_append] at hs ⊢
  rcases hc with ⟨hc, d, r', hr', hd⟩ | hc
  · subst hc; subst hr'
    have hI : (('I' : Char) == d) = false := by
      simp only [beq_eq_false_iff_ne, ne_eq]; intro hh; subst hh; simp [isDig] at hd
    simp only [List.cons_append] at hs ⊢
    simp [pValue, isPrefix, hI, hs]
  · have e1 := beq_false_of_dig hc (d := '"') (by decide)
    have e2 := beq_false_of_dig hc (d := '[') (by decide)
    have e3 := beq_false_of_dig hc (d := '{') (by decide)
    have f1 : (('n' : Char) == c) = false := by rw [Bool.beq_comm]; exact beq_false_of_dig hc (by decide)
    have f2 : (('t' : Char) == c) = false := by rw [Bool.beq_comm]; exact beq_false_of_dig hc (by decide)
    have f3 : (('f' : Char) == c) = false := by rw [Bool.beq_comm]; exact beq_false_of_dig hc (by decide)
    have f4 : (('N' : Char) == c) = false := by rw [Bool.beq_comm]; exact beq_false_of_dig hc (by decide)
    have f5 : (('I' : Char) == c) = false := by rw [Bool.beq_comm]; exact beq_false_of_dig hc (by decide)
    have f6 : (('-' : Char) == c) = false := by rw [Bool.beq_comm]; exact beq_false_of_dig hc (by decide)
    simp [pValue, isPrefix, e1, e2, e3, f1, f2, f3, f4, f5, f6, hs]

theorem pValue_scalar (st : Style) (v : Json) (hv : ScalarOK v) (fuel : Nat) (tail : Str) (h : delimHead tail = true) :
    pValue (fuel + 1) (render st v ++ tail) = .ok (v, tail) := by
  cases v with
  | null => simp [render, pValue, isPrefix]
  | bool b => cases b <;> simp [render, pValue, isPrefix]
  | num n => simpa [render] using pValue_num n hv fuel tail h
  | str x =>
    simp only [render, renderStr, List.cons_append, List.append_assoc, List.nil_append]
    simp [pValue, pStr_escBody]
  | arr xs => exact absurd hv (by simp [ScalarOK])
  | obj kvs => exact absurd hv (by simp [ScalarOK])

/-- a rendered scalar starts with a character that is neither whitespace nor `]` -/
theorem render_scalar_head (st : Style) (v : Json) (hv : ScalarOK v) :
    ∃ c r, render st v = c :: r ∧ isWs c = false ∧ (c == ']') = false := by
  cases v with
  | null => exact ⟨'n', ['u', 'l', 'l'], by simp [render], by decide, by decide⟩
  | bool b =>
    cases b
    · exact ⟨'f', ['a', 'l', 's', 'e'], by simp [render], by decide, by decide⟩
    · exact ⟨'t', ['r', 'u', 'e'], by simp [render], by decide, by decide⟩
  | num n =>
    obtain ⟨c, r, hr, hc⟩ := numHead n hv
    refine ⟨c, r, by simp [render, hr], ?_, ?_⟩
    · rcases hc with ⟨hc, _⟩ | hc
      · subst hc; decide
      · simp only [isWs, Bool.or_eq_false_iff]
        exact ⟨⟨⟨beq_false_of_dig hc (by decide), beq_false_of_dig hc (by decide)⟩, beq_false_of_dig hc (by decide)⟩,
          beq_false_of_dig hc (by decide)⟩
    · rcases hc with ⟨hc, _⟩ | hc
      · subst hc; decide
      · exact beq_false_of_dig hc (by decide)
  | str x => exact ⟨'"', escBody st.ascii x ++ ['"'], by simp [render, renderStr], by decide, by decide⟩
  | arr xs => exact absurd hv (by simp [ScalarOK])
  | obj kvs => exact absurd hv (by simp [ScalarOK])

theorem renderElems_head (st : Style) (y : Json) (ys : List Json) (hy : ScalarOK y) :
    ∃ c r, renderElems st (y :: ys) = c :: r ∧ isWs c = false ∧ (c == ']') = false := by
  obtain ⟨c, r, hr, h1, h2⟩ := render_scalar_head st y hy
  cases ys with
  | nil => exact ⟨c, r, by simp [renderElems, hr], h1, h2⟩
  | cons z zs =>
    refine ⟨c, r ++ st.beforeComma ++ ',' :: (st.afterComma ++ renderElems st (z :: zs)), ?_, h1, h2⟩
    simp [renderElems, hr]

theorem renderElems_cons_cons (st : Style) (x y : Json) (ys : List Json) :
    renderElems st (x :: y :: ys) = render st x ++ st.beforeComma ++ ',' :: (st.afterComma ++ renderElems st (y :: ys)) := by
  simp [renderElems]

theorem pElems_render (st : Style) (hst : st.valid = true) : ∀ (vals : List Json), vals ≠ [] → (∀ v ∈ vals, ScalarOK v) →
    ∀ (fuel : Nat), vals.length + 1 ≤ fuel → ∀ (rest : Str),
    pElems fuel (renderElems st vals ++ (st.beforeClose ++ ']' :: rest)) = .ok (vals, rest) := by
  have hbc : st.beforeClose.all isWs = true := by
    simp only [Style.valid, Bool.and_eq_true] at hst; exact hst.1.1.1.1.1.2
  have hbco : st.beforeComma.all isWs = true := by
    simp only [Style.valid, Bool.and_eq_true] at hst; exact hst.1.1.2
  have hac : st.afterComma.all isWs = true := by
    simp only [Style.valid, Bool.and_eq_true] at hst; exact hst.1.1.1.2
  intro vals
  induction vals with
  | nil => intro h; exact absurd rfl h
  | cons x xs ih =>
    intro _ hv fuel hf rest
    obtain ⟨f1, hf1⟩ : ∃ f1, fuel = f1 + 1 + 1 := ⟨fuel - 2, by simp only [List.length_cons] at hf; omega⟩
    subst hf1
    cases xs with
    | nil =>
      have hd : delimHead (st.beforeClose ++ ']' :: rest) = true := delimHead_append _ _ _ hbc (by simp [delimHead, isDig])
      have hp := pValue_scalar st x (hv x (by simp)) f1 _ hd
      have hsk := skipWs_append st.beforeClose ']' rest hbc (by decide)
      simp only [renderElems]
      rw [pElems, hp]
      simp [hsk]
    | cons y ys =>
      rw [renderElems_cons_cons]
      have hd : delimHead (st.beforeComma ++ ',' :: (st.afterComma ++ renderElems st (y :: ys) ++ (st.beforeClose ++ ']' :: rest))) = true :=
        delimHead_append _ _ _ hbco (by simp [delimHead, isDig])
      have hp := pValue_scalar st x (hv x (by simp)) f1 _ hd
      have hsk := skipWs_append st.beforeComma ',' (st.afterComma ++ renderElems st (y :: ys) ++ (st.beforeClose ++ ']' :: rest)) hbco (by decide)
      obtain ⟨c, r, hr, hcw, _⟩ := renderElems_head st y ys (hv y (by simp))
      have hsk2 : skipWs (st.afterComma ++ renderElems st (y :: ys) ++ (st.beforeClose ++ ']' :: rest)) =
          renderElems st (y :: ys) ++ (st.beforeClose ++ ']' :: rest) := by
        rw [hr]
        simpa using skipWs_append st.afterComma c (r ++ (st.beforeClose ++ ']' :: rest)) hac hcw
      simp only [List.append_assoc] at hsk2
      have ihh := ih (by simp) (fun v hm => hv v (by simp [hm])) (f1 + 1) (by simp only [List.length_cons] at hf ⊢; omega) rest
      have hnorm : render st x ++ st.beforeComma ++ ',' :: (st.afterComma ++ renderElems st (y :: ys)) ++ (st.beforeClose ++ ']' :: rest) =
          render st x ++ (st.beforeComma ++ ',' :: (st.afterComma ++ renderElems st (y :: ys) ++ (st.beforeClose ++ ']' :: rest))) := by
        simp
      rw [hnorm, pElems, hp]
      simp only [hsk]
      simp [hsk2, ihh]

theorem renderElems_length (st : Style) : ∀ (vals : List Json), (∀ v ∈ vals, ScalarOK v) → vals.length ≤ (renderElems st vals).length := by
  intro vals
  induction vals with
  | nil => intro _; simp
  | cons x xs ih =>
    intro hv
    obtain ⟨c, r, hr, _, _⟩ := render_scalar_head st x (hv x (by simp))
    cases xs with
    | nil => simp [renderElems, hr]
    | cons y ys =>
      have := ih (fun v hm => hv v (by simp [hm]))
      rw [renderElems_cons_cons, hr]
      simp only [List.length_cons, List.length_append] at this ⊢
      omega

theorem pValue_flat_array (st : Style) (hst : st.valid = true) (vals : List Json) (hv : ∀ v ∈ vals, ScalarOK v)
    (fuel : Nat) (hf : vals.length + 1 ≤ fuel) (rest : Str) :
    pValue (fuel + 1) (render st (.arr vals) ++ rest) = .ok (.arr vals, rest) := by
  have hao : st.afterOpen.all isWs = true := by
    simp only [Style.valid, Bool.and_eq_true] at hst; exact hst.1.1.1.1.1.1.2
  have hie : st.inEmpty.all isWs = true := by
    simp only [Style.valid, Bool.and_eq_true] at hst; exact hst.1.1.1.1.2
  cases vals with
  | nil =>
    have h1 : render st (.arr []) ++ rest = '[' :: (st.inEmpty ++ ']' :: rest) := by simp [render]
    have hsk := skipWs_append st.inEmpty ']' rest hie (by decide)
    rw [h1, pValue]
    simp [hsk]
  | cons x xs =>
    have h1 : render st (.arr (x :: xs)) ++ rest =
        '[' :: (st.afterOpen ++ (renderElems st (x :: xs) ++ (st.beforeClose ++ ']' :: rest))) := by
      simp [render]
    obtain ⟨c, r, hr, hcw, hcb⟩ := renderElems_head st x xs (hv x (by simp))
    have hp := pElems_render st hst (x :: xs) (by simp) hv fuel hf rest
    have hsk : skipWs (st.afterOpen ++ (renderElems st (x :: xs) ++ (st.beforeClose ++ ']' :: rest))) =
        renderElems st (x :: xs) ++ (st.beforeClose ++ ']' :: rest) := by
      rw [hr]
      simpa using skipWs_append st.afterOpen c (r ++ (st.beforeClose ++ ']' :: rest)) hao hcw
    rw [h1, pValue]
    simp only [hsk]
    rw [hr] at hp ⊢
    simp only [List.cons_append] at hp ⊢
    simp [hcb, hp]

/-- **`json.loads` of a rendered flat array (after optional whitespace) is the array** -/
theorem jsonLoads_render_flat (st : Style) (hst : st.valid = true) (ws : Str) (hws : ws.all isWs = true)
    (vals : List Json) (hv : ∀ v ∈ vals, ScalarOK v) :
    jsonLoads (ws ++ render st (.arr vals)) = .ok (.arr vals) := by
  have hhead : ∃ r, render st (.arr vals) = '[' :: r := by
    cases vals with
    | nil => exact ⟨_, by simp [render]; rfl⟩
    | cons x xs => exact ⟨_, by simp [render]; rfl⟩
  obtain ⟨r0, hr0⟩ := hhead
  have hlen : vals.length + 1 ≤ (ws ++ render st (.arr vals)).length := by
    cases vals with
    | nil => rw [hr0]; simp only [List.length_append, List.length_cons, List.length_nil]; omega
    | cons x xs =>
      have := renderElems_length st (x :: xs) hv
      simp only [render, List.length_append, List.length_cons] at this ⊢
      omega
  unfold jsonLoads
  generalize (ws ++ render st (.arr vals)).length = F at hlen
  have hsk : skipWs (ws ++ render st (.arr vals)) = render st (.arr vals) := by
    rw [hr0]; exact skipWs_append ws '[' r0 hws (by decide)
  rw [hsk]
  have := pValue_flat_array st hst vals hv F hlen []
  simp only [List.append_nil] at this
  rw [this]
  simp [skipWs]

/-! ## where a member / last element sits in the rendered text -/

/-- `a` occurs in `b` (as a contiguous block) -/
def Inside (a b : Str) : Prop := ∃ P Q, b = P ++ a ++ Q

theorem Inside.refl (a : Str) : Inside a a := ⟨[], [], by simp⟩

theorem Inside.trans {a b c : Str} (h1 : Inside a b) (h2 : Inside b c) : Inside a c := by
  obtain ⟨P1, Q1, e1⟩ := h1
  obtain ⟨P2, Q2, e2⟩ := h2
  exact ⟨P2 ++ P1, Q1 ++ Q2, by rw [e2, e1]; simp⟩

theorem Inside.ctx {a b : Str} (h : Inside a b) (P Q : Str) : Inside a (P ++ b ++ Q) := by
  obtain ⟨P1, Q1, e1⟩ := h
  exact ⟨P ++ P1, Q1 ++ Q, by rw [e1]; simp⟩

def memberText (st : Style) (k : Str) (v : Json) : Str :=
  renderStr st.ascii k ++ st.beforeColon ++ ':' :: (st.afterColon ++ render st v)

theorem renderMembers_cons_cons (st : Style) (k : Str) (v : Json) (b : Str × Json) (t : List (Str × Json)) :
    renderMembers st ((k, v) :: b :: t) = memberText st k v ++ st.beforeComma ++ ',' :: (st.afterComma ++ renderMembers st (b :: t)) := by
  simp [renderMembers, memberText]

theorem renderMembers_inside (st : Style) : ∀ (l1 : List (Str × Json)) (k : Str) (v : Json) (l2 : List (Str × Json)),
    Inside (memberText st k v) (renderMembers st (l1 ++ (k, v) :: l2)) := by
  intro l1
  induction l1 with
  | nil =>
    intro k v l2
    cases l2 with
    | nil => exact ⟨[], [], by simp [renderMembers, memberText]⟩
    | cons b t => exact ⟨[], st.beforeComma ++ ',' :: (st.afterComma ++ renderMembers st (b :: t)), by
        rw [List.nil_append, renderMembers_cons_cons]; simp⟩
  | cons a t ih =>
    intro k v l2
    obtain ⟨ka, va⟩ := a
    have hne : ∃ b r, t ++ (k, v) :: l2 = b :: r := by
      cases t with
      | nil => exact ⟨_, _, rfl⟩
      | cons b r => exact ⟨_, _, rfl⟩
    obtain ⟨b, r, hbr⟩ := hne
    have := ih k v l2
    rw [hbr] at this
    simp only [List.cons_append]
    rw [hbr, renderMembers_cons_cons]
    have h2 := Inside.ctx this (memberText st ka va ++ st.beforeComma ++ ',' :: st.afterComma) []
    simpa using h2

theorem renderElems_last_inside (st : Style) : ∀ (xs : List Json) (x : Json), Inside (render st x) (renderElems st (xs ++ [x])) := by
  intro xs
  induction xs with
  | nil => intro x; exact ⟨[], [], by simp [renderElems]⟩
  | cons a t ih =>
    intro x
    have hne : ∃ b r, t ++ [x] = b :: r := by
      cases t with
      | nil => exact ⟨_, _, rfl⟩
      | cons b r => exact ⟨_, _, rfl⟩
    obtain ⟨b, r, hbr⟩ := hne
    have := ih x
    rw [hbr] at this
    simp only [List.cons_append]
    rw [hbr, renderElems_cons_cons]
    have h2 := Inside.ctx this (render st a ++ st.beforeComma ++ ',' :: st.afterComma) []
    simpa using h2

theorem render_obj_inside (st : Style) (l1 : List (Str × Json)) (k : Str) (v : Json) (l2 : List (Str × Json)) :
    Inside (memberText st k v) (render st (.obj (l1 ++ (k, v) :: l2))) := by
  have hne : ∃ b r, l1 ++ (k, v) :: l2 = b :: r := by
    cases l1 with
    | nil => exact ⟨_, _, rfl⟩
    | cons b r => exact ⟨_, _, rfl⟩
  obtain ⟨b, r, hbr⟩ := hne
  have := renderMembers_inside st l1 k v l2
  rw [hbr] at this ⊢
  have h2 := Inside.ctx this ('{' :: st.afterOpen) (st.beforeClose ++ ['}'])
  simpa [render] using h2

theorem render_arr_last_inside (st : Style) (xs : List Json) (x : Json) :
    Inside (render st x) (render st (.arr (xs ++ [x]))) := by
  have hne : ∃ b r, xs ++ [x] = b :: r := by
    cases xs with
    | nil => exact ⟨_, _, rfl⟩
    | cons b r => exact ⟨_, _, rfl⟩
  obtain ⟨b, r, hbr⟩ := hne
  have := renderElems_last_inside st xs x
  rw [hbr] at this ⊢
  have h2 := Inside.ctx this ('[' :: st.afterOpen) (st.beforeClose ++ [']'])
  simpa [render] using h2

theorem inside_member_value (st : Style) (k : Str) (v : Json) : Inside (render st v) (memberText st k v) :=
  ⟨renderStr st.ascii k ++ st.beforeColon ++ ':' :: st.afterColon, [], by simp [memberText]⟩

/-! ## no `]` inside a rendered flat array -/

theorem ws_no_bracket (ws : Str) (h : ws.all isWs = true) : ']' ∉ ws := by
  intro hm
  have := List.all_eq_true.mp h ']' hm
  simp [isWs] at this

theorem renderElems_no_bracket (st : Style) (hst : st.valid = true) : ∀ (vals : List Json),
    (∀ v ∈ vals, ']' ∉ render st v) → ']' ∉ renderElems st vals := by
  have hbco : st.beforeComma.all isWs = true := by
    simp only [Style.valid, Bool.and_eq_true] at hst; exact hst.1.1.2
  have hac : st.afterComma.all isWs = true := by
    simp only [Style.valid, Bool.and_eq_true] at hst; exact hst.1.1.1.2
  intro vals
  induction vals with
  | nil => intro _; simp [renderElems]
  | cons x xs ih =>
    intro h
    cases xs with
    | nil => simpa [renderElems] using h x (by simp)
    | cons y ys =>
      rw [renderElems_cons_cons]
      have := ih (fun v hm => h v (by simp [hm]))
      simp only [List.mem_append, List.mem_cons, not_or]
      exact ⟨⟨h x (by simp), ws_no_bracket _ hbco⟩, by decide, ws_no_bracket _ hac, this⟩

/-- a rendered flat array is `[` + bracket-free inner text + `]` -/
theorem render_arr_shape (st : Style) (hst : st.valid = true) (vals : List Json) (hnb : ∀ v ∈ vals, ']' ∉ render st v) :
    ∃ inner, render st (.arr vals) = '[' :: (inner ++ [']']) ∧ ']' ∉ inner := by
  have hao : st.afterOpen.all isWs = true := by
    simp only [Style.valid, Bool.and_eq_true] at hst; exact hst.1.1.1.1.1.1.2
  have hie : st.inEmpty.all isWs = true := by
    simp only [Style.valid, Bool.and_eq_true] at hst; exact hst.1.1.1.1.2
  have hbc : st.beforeClose.all isWs = true := by
    simp only [Style.valid, Bool.and_eq_true] at hst; exact hst.1.1.1.1.1.2
  cases vals with
  | nil => exact ⟨st.inEmpty, by simp [render], ws_no_bracket _ hie⟩
  | cons x xs =>
    refine ⟨st.afterOpen ++ renderElems st (x :: xs) ++ st.beforeClose, by simp [render], ?_⟩
    simp only [List.mem_append, not_or]
    exact ⟨⟨ws_no_bracket _ hao, renderElems_no_bracket st hst _ hnb⟩, ws_no_bracket _ hbc⟩

theorem renderStr_sort (ascii : Bool) : renderStr ascii kSort = sortTok := by
  cases ascii <;> decide

theorem isPySpace_of_isWs (c : Char) (h : isWs c = true) : isPySpace c = true := by
  simp only [isWs, Bool.or_eq_true, beq_iff_eq] at h
  rcases h with ((h | h) | h) | h <;> subst h <;> decide

theorem skipPySpace_append : ∀ (ws : Str) (c : Char) (r : Str), ws.all isWs = true → isPySpace c = false →
    skipPySpace (ws ++ c :: r) = c :: r := by
  intro ws
  induction ws with
  | nil => intro c r _ hc; simp [skipPySpace, hc]
  | cons w t ih =>
    intro c r hw hc
    simp only [List.all_cons, Bool.and_eq_true] at hw
    simp [skipPySpace, isPySpace_of_isWs w hw.1, ih c r hw.2 hc]

/-- **cursor, text + value level** (code after commit 6007750): wherever `"sort":<flat array of scalars>` sits
    in a text, if that `"sort"` is the last token of its kind and there is no whitespace before the colon, the
    extractor returns the array — whatever characters the sort values contain. -/
theorem lastSort_member (st : Style) (hst : st.valid = true) (hbc : st.beforeColon = []) (vals : List Json)
    (hv : ∀ v ∈ vals, ScalarOK v) (pre post : Str)
    (hlast : ∀ k, pre.length < k →
      isPrefix sortTok ((pre ++ memberText st kSort (.arr vals) ++ post).drop k) = false) :
    lastSort (pre ++ memberText st kSort (.arr vals) ++ post) = .ok (some (.arr vals)) := by
  have hac : st.afterColon.all isWs = true := by
    simp only [Style.valid, Bool.and_eq_true] at hst; exact hst.2
  obtain ⟨r0, hr0⟩ : ∃ r, render st (.arr vals) = '[' :: r := by
    cases vals with
    | nil => exact ⟨_, by simp [render]; rfl⟩
    | cons x xs => exact ⟨_, by simp [render]; rfl⟩
  have htext : pre ++ memberText st kSort (.arr vals) ++ post =
      (pre ++ ['"']) ++ ('s' :: 'o' :: 'r' :: 't' :: '"' :: ':' :: (st.afterColon ++ (render st (.arr vals) ++ post))) := by
    simp [memberText, hbc, renderStr_sort, sortTok]
  have hpre : isPrefix sortTok ((pre ++ memberText st kSort (.arr vals) ++ post).drop pre.length) = true := by
    rw [htext, List.append_assoc, drop_append_length']
    simp [sortTok, isPrefix]
  have hr := rfind_eq_some sortTok (by simp [sortTok]) _ pre.length hpre hlast
  have hdrop : (pre ++ memberText st kSort (.arr vals) ++ post).drop (pre.length + 1) =
      's' :: 'o' :: 'r' :: 't' :: '"' :: ':' :: (st.afterColon ++ (render st (.arr vals) ++ post)) := by
    rw [htext, show pre.length + 1 = (pre ++ ['"']).length by simp, drop_append_length']
  have hlen : vals.length + 1 ≤ (render st (.arr vals) ++ post).length := by
    cases vals with
    | nil => rw [hr0]; simp only [List.cons_append, List.length_cons, List.length_nil]; omega
    | cons x xs =>
      have := renderElems_length st (x :: xs) hv
      simp only [render, List.length_append, List.length_cons] at this ⊢
      omega
  have hskip : skipPySpace (st.afterColon ++ (render st (.arr vals) ++ post)) = render st (.arr vals) ++ post := by
    rw [hr0]
    exact skipPySpace_append st.afterColon '[' (r0 ++ post) hac (by decide)
  unfold lastSort
  rw [hr]
  simp only [hdrop]
  have hpfx : isPrefix sortLit ('s' :: 'o' :: 'r' :: 't' :: '"' :: ':' :: (st.afterColon ++ (render st (.arr vals) ++ post))) = true := by
    simp [sortLit, isPrefix]
  rw [if_pos hpfx]
  simp only [List.drop_succ_cons, List.drop_zero, hskip]
  rw [pValue_flat_array st hst vals hv _ hlen post]

end JsonFast
