import RallyModel.Alloc
/-! Helper lemmas for C02 (core only). -/
namespace Alloc

theorem sum_range_step (n t q : Nat) :
    ((List.range n).map (fun j => q + if j < t then 1 else 0)).sum = q * n + min t n := by
  induction n with
  | zero => simp
  | succ n ih =>
    rw [List.range_succ, List.map_append, List.sum_append, ih]
    simp only [List.map_cons, List.map_nil, List.sum_cons, List.sum_nil]
    by_cases h : n < t
    · simp only [h, if_true]; rw [Nat.mul_succ]; omega
    · simp only [h, if_false]; rw [Nat.mul_succ]; omega

theorem perWorker_sum (cores cnt : Nat) (h : cores > 0) : (perWorker cores cnt).sum = cnt := by
  unfold perWorker
  rw [sum_range_step]
  have hlt : cnt % cores < cores := Nat.mod_lt _ h
  rw [Nat.min_eq_left (Nat.le_of_lt hlt)]
  have := Nat.div_add_mod cnt cores
  rw [Nat.mul_comm] at this
  exact this

theorem perWorker_length (cores cnt : Nat) : (perWorker cores cnt).length = cores := by
  simp [perWorker]

theorem perWorker_balanced (cores cnt : Nat) (a b : Nat)
    (ha : a ∈ perWorker cores cnt) (hb : b ∈ perWorker cores cnt) : a ≤ b + 1 := by
  simp only [perWorker, List.mem_map, List.mem_range] at ha hb
  obtain ⟨i, _, rfl⟩ := ha
  obtain ⟨j, _, rfl⟩ := hb
  split <;> split <;> omega

theorem ranges_flatten (start : Nat) (cs : List Nat) :
    (ranges start cs).flatten = List.range' start cs.sum := by
  induction cs generalizing start with
  | nil => simp [ranges]
  | cons c cs ih =>
    simp only [ranges, List.flatten_cons, List.sum_cons, ih]
    rw [← List.range'_append_1]

theorem ranges_length (start : Nat) (cs : List Nat) : (ranges start cs).length = cs.length := by
  induction cs generalizing start with
  | nil => simp [ranges]
  | cons c cs ih => simp [ranges, ih]

theorem ranges_lengths (start : Nat) (cs : List Nat) : (ranges start cs).map List.length = cs := by
  induction cs generalizing start with
  | nil => simp [ranges]
  | cons c cs ih => simp [ranges, ih]

/-- all client ids handed out by `assignFrom`, in order -/
def flatClients (a : List (Nat × List (List Nat))) : List Nat := (a.map (fun p => p.2.flatten)).flatten

theorem assignFrom_flat (per : Nat) (hosts : List Host) (idx rem : Nat)
    (hc : ∀ h ∈ hosts, h.cores > 0) :
    flatClients (assignFrom per hosts idx rem) = List.range' idx (rem - assignRemaining per hosts rem) := by
  induction hosts generalizing idx rem with
  | nil => simp [assignFrom, assignRemaining, flatClients]
  | cons h hs ih =>
    have hh : h.cores > 0 := hc h List.mem_cons_self
    have ih' := ih (idx + min per rem) (rem - min per rem) (fun x hx => hc x (List.mem_cons_of_mem _ hx))
    simp only [flatClients] at ih' ⊢
    simp only [assignFrom, assignRemaining, List.map_cons, List.flatten_cons, ih', ranges_flatten,
      perWorker_sum _ _ hh]
    have h1 : assignRemaining per hs (rem - min per rem) ≤ rem - min per rem := by
      clear ih ih' hc
      generalize rem - min per rem = x
      induction hs generalizing x with
      | nil => simp [assignRemaining]
      | cons y ys ihy =>
        simp only [assignRemaining]
        exact Nat.le_trans (ihy _) (Nat.sub_le _ _)
    have h2 : min per rem ≤ rem := Nat.min_le_right _ _
    have : rem - assignRemaining per hs (rem - min per rem) =
        min per rem + (rem - min per rem - assignRemaining per hs (rem - min per rem)) := by omega
    rw [this, ← List.range'_append_1]

theorem assignRemaining_zero (per : Nat) (hosts : List Host) (rem : Nat)
    (h : rem ≤ per * hosts.length) : assignRemaining per hosts rem = 0 := by
  induction hosts generalizing rem with
  | nil => simpa [assignRemaining] using h
  | cons x xs ih =>
    simp only [assignRemaining]
    apply ih
    simp only [List.length_cons, Nat.mul_succ] at h
    by_cases hp : per ≤ rem
    · rw [Nat.min_eq_left hp]; omega
    · have : rem ≤ per := Nat.le_of_lt (Nat.lt_of_not_le hp)
      rw [Nat.min_eq_right this]; omega

theorem ceilDiv_mul_ge (n h : Nat) (hh : h > 0) : n ≤ ceilDiv n h * h := by
  unfold ceilDiv
  have := Nat.div_add_mod (n + h - 1) h
  have hm : (n + h - 1) % h < h := Nat.mod_lt _ hh
  have : h * ((n + h - 1) / h) = (n + h - 1) - (n + h - 1) % h := by omega
  rw [Nat.mul_comm]
  omega

/-! ### allocation matrix -/

theorem mem_rowIdxs {m total r c : Nat} (hm : m > 0) (hr : r < m) :
    c ∈ rowIdxs m total r ↔ c < total ∧ c % m = r := by
  unfold rowIdxs
  simp only [List.mem_map, List.mem_range]
  constructor
  · rintro ⟨k, hk, rfl⟩
    have h1 : (k + 1) * m ≤ total + m - 1 - r := by
      have := (Nat.le_div_iff_mul_le hm).mp hk
      exact this
    rw [Nat.succ_mul] at h1
    refine ⟨by omega, ?_⟩
    rw [Nat.add_mul_mod_self_right, Nat.mod_eq_of_lt hr]
  · rintro ⟨hc, hmod⟩
    refine ⟨c / m, ?_, ?_⟩
    · apply (Nat.le_div_iff_mul_le hm).mpr
      have := Nat.div_add_mod c m
      rw [Nat.succ_mul]
      have h3 : c / m * m = m * (c / m) := Nat.mul_comm _ _
      omega
    · have := Nat.div_add_mod c m
      have h3 : c / m * m = m * (c / m) := Nat.mul_comm _ _
      omega

theorem rowIdxs_length_add_pad (m total r : Nat) (hm : m > 0) (hr : r < m) :
    (rowIdxs m total r).length + (if total % m > 0 ∧ total % m ≤ r then 1 else 0) = ceilDiv total m := by
  unfold rowIdxs ceilDiv
  simp only [List.length_map, List.length_range]
  have hd := Nat.div_add_mod total m
  have ht : total % m < m := Nat.mod_lt _ hm
  generalize total / m = q at hd
  generalize total % m = t at hd ht ⊢
  subst hd
  have c1 : q * m = m * q := Nat.mul_comm _ _
  have c2 : (q + 1) * m = m * q + m := by rw [Nat.succ_mul, c1]
  have c3 : (q + 1 + 1) * m = m * q + m + m := by rw [Nat.succ_mul, c2]
  have key : ∀ x k, k * m ≤ x → x < (k + 1) * m → x / m = k :=
    fun x k h1 h2 => Nat.div_eq_of_lt_le h1 h2
  by_cases h0 : t = 0
  · subst h0
    have hp : ¬ (0 > 0 ∧ 0 ≤ r) := fun h => Nat.lt_irrefl 0 h.1
    rw [if_neg hp, key (m * q + 0 + m - 1 - r) q (by omega) (by omega),
      key (m * q + 0 + m - 1) q (by omega) (by omega)]
    rfl
  · by_cases hrt : t ≤ r
    · have hp : t > 0 ∧ t ≤ r := ⟨by omega, hrt⟩
      rw [if_pos hp, key (m * q + t + m - 1 - r) q (by omega) (by omega),
        key (m * q + t + m - 1) (q + 1) (by omega) (by omega)]
    · have hp : ¬ (t > 0 ∧ t ≤ r) := fun h => hrt h.2
      rw [if_neg hp, key (m * q + t + m - 1 - r) (q + 1) (by omega) (by omega),
        key (m * q + t + m - 1) (q + 1) (by omega) (by omega)]

theorem elemRow_length (m : Nat) (e : Element) (j r : Nat) (hm : m > 0) (hr : r < m) :
    (elemRow m e j r).length = ceilDiv e.total m + 1 := by
  unfold elemRow
  simp only [List.length_append, List.length_map, List.length_cons, List.length_nil]
  have := rowIdxs_length_add_pad m e.total r hm hr
  split <;> simp_all <;> omega

theorem rowFrom_length (m : Nat) (s : List Element) (j r : Nat) (hm : m > 0) (hr : r < m) :
    (rowFrom m r s j).length = (s.map (fun e => ceilDiv e.total m + 1)).sum := by
  induction s generalizing j with
  | nil => simp [rowFrom]
  | cons e es ih => simp [rowFrom, elemRow_length m e j r hm hr, ih]

theorem maxClients_pos (s : List Element) : maxClients s > 0 := by
  unfold maxClients
  have : ∀ (l : List Element) (a : Nat), a > 0 → l.foldl (fun m e => max m e.clients) a > 0 := by
    intro l
    induction l with
    | nil => intro a ha; simpa using ha
    | cons x xs ih => intro a ha; simp only [List.foldl_cons]; apply ih; omega
  exact this s 1 (by omega)

theorem taskEntry_not_join (e : Element) (c : Nat) : (taskEntry e c).isJoin = false := by
  unfold taskEntry
  split <;> rfl

theorem map_isJoin_tasks (e : Element) (l : List Nat) :
    (l.map (taskEntry e)).map Entry.isJoin = List.replicate l.length false := by
  induction l with
  | nil => rfl
  | cons c cs ih =>
    simp only [List.map_cons, List.length_cons, List.replicate_succ, ih, taskEntry_not_join]

/-- the join-point pattern of the entries appended for one element does not depend on the row -/
theorem elemRow_isJoin (m : Nat) (e : Element) (j r : Nat) (hm : m > 0) (hr : r < m) :
    (elemRow m e j r).map Entry.isJoin = List.replicate (ceilDiv e.total m) false ++ [true] := by
  have hlen := rowIdxs_length_add_pad m e.total r hm hr
  have ht := map_isJoin_tasks e (rowIdxs m e.total r)
  unfold elemRow
  simp only [List.map_append]
  rw [ht]
  by_cases hp : e.total % m > 0 ∧ e.total % m ≤ r
  · rw [if_pos hp] at hlen ⊢
    rw [← hlen, List.replicate_succ']
    simp [Entry.isJoin]
  · rw [if_neg hp] at hlen ⊢
    rw [Nat.add_zero] at hlen
    rw [hlen]
    simp [Entry.isJoin]

theorem rowFrom_isJoin (m : Nat) (s : List Element) (j r r' : Nat) (hm : m > 0) (hr : r < m) (hr' : r' < m) :
    (rowFrom m r s j).map Entry.isJoin = (rowFrom m r' s j).map Entry.isJoin := by
  induction s generalizing j with
  | nil => simp [rowFrom]
  | cons e es ih =>
    simp only [rowFrom, List.map_append, elemRow_isJoin m e j r hm hr, elemRow_isJoin m e j r' hm hr', ih]

theorem count_isJoin_rowFrom (m : Nat) (s : List Element) (j r : Nat) (hm : m > 0) (hr : r < m) :
    ((rowFrom m r s j).filter Entry.isJoin).length = s.length := by
  induction s generalizing j with
  | nil => simp [rowFrom]
  | cons e es ih =>
    simp only [rowFrom, List.filter_append, List.length_append, ih, List.length_cons]
    have h := elemRow_isJoin m e j r hm hr
    have : ((elemRow m e j r).filter Entry.isJoin).length = 1 := by
      have h2 : ((elemRow m e j r).filter Entry.isJoin).length = ((elemRow m e j r).map Entry.isJoin).count true := by
        rw [List.count_eq_length_filter, List.filter_map, List.length_map]
        congr 1
        apply List.filter_congr
        intro x _; simp
      rw [h2, h]
      simp [List.count_append, List.count_replicate]
    omega

end Alloc
