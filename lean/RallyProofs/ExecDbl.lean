import RallyModel.Dbl
import RallyModel.Exec
import Mathlib.Tactic.Linarith
import Mathlib.Algebra.Order.Field.Basic
import Mathlib.Data.Rat.Floor
import Mathlib.Algebra.Order.Field.Power
import Mathlib.Tactic.FieldSimp
import Mathlib.Tactic.Ring
/-! IEEE-754 error bounds for the two float expressions of the pacing code (C05):
`1 / (T / C / w)` (DeterministicScheduler via UnitAwareScheduler) and `ramp * (i / total)` (ramp_up_wait_time).
`Dbl.fl` is round-to-nearest-even at 53 bits with unbounded exponent, i.e. the bounds are about doubles in the normal range.
Self-contained (own namespace) so that it does not depend on other properties' files. -/
namespace ExecDbl
open Dbl

theorem pow2_eq_zpow (e : Int) : pow2 e = (2 : Rat) ^ e := by
  unfold pow2
  split
  · rename_i h
    have : e = (e.toNat : Int) := (Int.toNat_of_nonneg h).symm
    conv_rhs => rw [this]
    rw [zpow_natCast]; push_cast; rfl
  · rename_i h
    have hneg : 0 ≤ -e := by omega
    have : e = -((-e).toNat : Int) := by rw [Int.toNat_of_nonneg hneg]; ring
    conv_rhs => rw [this]
    rw [zpow_neg, zpow_natCast]; push_cast; simp

theorem qabs_eq_abs (q : Rat) : qabs q = |q| := by
  unfold qabs
  split
  · rename_i h; rw [abs_of_neg h]
  · rename_i h; rw [abs_of_nonneg (not_lt.mp h)]

theorem pow2_ilog2_le {q : Rat} (hq : q ≠ 0) : (2 : Rat) ^ (ilog2 q) ≤ |q| := by
  unfold ilog2
  simp only [pow2_eq_zpow, qabs_eq_abs]
  split
  · assumption
  · -- 2^(e0-1) ≤ |q|
    set a := |q| with ha
    have hapos : 0 < a := abs_pos.mpr hq
    have hnum_pos : 0 < a.num := Rat.num_pos.mpr hapos
    set n := a.num.natAbs with hn
    set d := a.den with hd
    have hn0 : n ≠ 0 := by rw [hn]; omega
    have hd0 : d ≠ 0 := a.den_nz
    have h1 : (2 : Rat) ^ n.log2 ≤ (n : Rat) := by exact_mod_cast Nat.log2_self_le hn0
    have h2 : (d : Rat) < (2 : Rat) ^ (d.log2 + 1) := by exact_mod_cast (Nat.lt_log2_self (n := d))
    have hnq : (n : Rat) = (a.num : Rat) := by
      rw [hn, ← Int.cast_natCast, Int.natCast_natAbs, abs_of_pos hnum_pos]
    have haq : a = (n : Rat) / (d : Rat) := by rw [hnq]; exact (Rat.num_div_den a).symm
    have hdpos : (0 : Rat) < d := by exact_mod_cast Nat.pos_of_ne_zero hd0
    have h2pos : (0 : Rat) < (2 : Rat) ^ (d.log2 + 1) := by positivity
    have : (2 : Rat) ^ ((n.log2 : Int) - (d.log2 : Int) - 1) = (2 : Rat) ^ n.log2 / (2 : Rat) ^ (d.log2 + 1) := by
      rw [show ((n.log2 : Int) - (d.log2 : Int) - 1) = (n.log2 : Int) - ((d.log2 + 1 : Nat) : Int) by push_cast; ring]
      rw [zpow_sub₀ (by norm_num : (2 : Rat) ≠ 0), zpow_natCast, zpow_natCast]
    rw [this, haq]
    calc (2 : Rat) ^ n.log2 / (2 : Rat) ^ (d.log2 + 1) ≤ (n : Rat) / (2 : Rat) ^ (d.log2 + 1) :=
          div_le_div_of_nonneg_right h1 (le_of_lt h2pos)
      _ ≤ (n : Rat) / (d : Rat) := div_le_div_of_nonneg_left (Nat.cast_nonneg _) hdpos (le_of_lt h2)

theorem rhe_err (q : Rat) : |((rhe q : Int) : Rat) - q| ≤ 1 / 2 := by
  unfold rhe
  have hf : q.floor = ⌊q⌋ := rfl
  have h1 := Int.floor_le q
  have h2 := Int.lt_floor_add_one q
  simp only [hf]
  split_ifs <;> rw [abs_le] <;> constructor <;> push_cast <;> linarith

/-- unit round-off: rounding to the nearest double changes a number by at most 2^-53 of its magnitude -/
theorem fl_rel_err (q : Rat) : |fl q - q| ≤ |q| / 2 ^ 53 := by
  unfold fl
  split
  · rename_i h; simp [h]
  · rename_i hq
    simp only [pow2_eq_zpow]
    set e := ilog2 q - 52 with he
    have hP : (0 : Rat) < (2 : Rat) ^ e := by positivity
    have hx : q = q / (2 : Rat) ^ e * (2 : Rat) ^ e := by field_simp
    have h1 := rhe_err (q / (2 : Rat) ^ e)
    have : ((rhe (q / (2 : Rat) ^ e) : Int) : Rat) * (2 : Rat) ^ e - q
        = (((rhe (q / (2 : Rat) ^ e) : Int) : Rat) - q / (2 : Rat) ^ e) * (2 : Rat) ^ e := by
      rw [sub_mul, ← hx]
    rw [this, abs_mul, abs_of_pos hP]
    have h2 := pow2_ilog2_le hq
    have h3 : (2 : Rat) ^ e = (2 : Rat) ^ (ilog2 q) / 2 ^ 52 := by
      rw [he, zpow_sub₀ (by norm_num : (2 : Rat) ≠ 0)]; norm_num
    calc |((rhe (q / (2 : Rat) ^ e) : Int) : Rat) - q / (2 : Rat) ^ e| * (2 : Rat) ^ e
        ≤ 1 / 2 * (2 : Rat) ^ e := mul_le_mul_of_nonneg_right h1 (le_of_lt hP)
      _ = (2 : Rat) ^ (ilog2 q) / 2 ^ 53 := by rw [h3]; ring
      _ ≤ |q| / 2 ^ 53 := div_le_div_of_nonneg_right h2 (by positivity)

def u : Rat := 1 / 2 ^ 53

theorem fl_bounds {q : Rat} (hq : 0 < q) : q * (1 - u) ≤ fl q ∧ fl q ≤ q * (1 + u) := by
  have h := fl_rel_err q
  rw [abs_of_pos hq, abs_le] at h
  unfold u
  constructor <;> nlinarith [h.1, h.2]

/-- the per-client wait time the code computes in doubles, `1 / (T / C / w)`, is within a relative
    error of 2^-51 of the exact `w * C / T` -/
theorem wait_ieee_bound (T : Rat) (C w : Nat) (hT : 0 < T) (hC : 0 < C) (hw : 0 < w) :
    |fl (1 / fl (fl (T / (C : Rat)) / (w : Rat))) - (w : Rat) * (C : Rat) / T| ≤ (w : Rat) * (C : Rat) / T / 2 ^ 51 := by
  have hCq : (0 : Rat) < C := by exact_mod_cast hC
  have hwq : (0 : Rat) < w := by exact_mod_cast hw
  have hu : u = 1 / 2 ^ 53 := rfl
  have hu0 : 0 < u := by rw [hu]; positivity
  have hu1 : u < 1 := by rw [hu]; norm_num
  set a := T / (C : Rat) with ha
  have hapos : 0 < a := div_pos hT hCq
  obtain ⟨a1, a2⟩ := fl_bounds hapos
  have ha'pos : 0 < fl a := lt_of_lt_of_le (mul_pos hapos (by linarith)) a1
  set b := fl a / (w : Rat) with hb
  have hbpos : 0 < b := div_pos ha'pos hwq
  obtain ⟨b1, b2⟩ := fl_bounds hbpos
  have hb'pos : 0 < fl b := lt_of_lt_of_le (mul_pos hbpos (by linarith)) b1
  set c := 1 / fl b with hc
  have hcpos : 0 < c := by positivity
  obtain ⟨c1, c2⟩ := fl_bounds hcpos
  set x := (w : Rat) * (C : Rat) / T with hx
  have hxpos : 0 < x := by positivity
  -- b is within (1±u) of w⁻¹·a, c within (1±u)² of x
  have hbx : b * x = fl a / a := by
    rw [hb, hx, ha]; field_simp
  have hlo : x * ((1 - u) / (1 + u) ^ 2) ≤ fl c := by
    have h1 : fl b ≤ a / (w : Rat) * (1 + u) ^ 2 := by
      calc fl b ≤ b * (1 + u) := b2
        _ = fl a / (w : Rat) * (1 + u) := by rw [hb]
        _ ≤ a * (1 + u) / (w : Rat) * (1 + u) := by
            apply mul_le_mul_of_nonneg_right _ (by linarith)
            exact div_le_div_of_nonneg_right a2 (le_of_lt hwq)
        _ = a / (w : Rat) * (1 + u) ^ 2 := by ring
    have h2 : 1 / (a / (w : Rat) * (1 + u) ^ 2) ≤ c := by
      rw [hc]; exact one_div_le_one_div_of_le hb'pos h1
    have h3 : 1 / (a / (w : Rat) * (1 + u) ^ 2) = x / (1 + u) ^ 2 := by
      rw [hx, ha]; field_simp
    calc x * ((1 - u) / (1 + u) ^ 2) = x / (1 + u) ^ 2 * (1 - u) := by ring
      _ ≤ c * (1 - u) := by rw [← h3]; exact mul_le_mul_of_nonneg_right h2 (by linarith)
      _ ≤ fl c := c1
  have hhi : fl c ≤ x * ((1 + u) / (1 - u) ^ 2) := by
    have h1 : a / (w : Rat) * (1 - u) ^ 2 ≤ fl b := by
      calc a / (w : Rat) * (1 - u) ^ 2 = a * (1 - u) / (w : Rat) * (1 - u) := by ring
        _ ≤ fl a / (w : Rat) * (1 - u) := by
            apply mul_le_mul_of_nonneg_right _ (by linarith)
            exact div_le_div_of_nonneg_right a1 (le_of_lt hwq)
        _ = b * (1 - u) := by rw [hb]
        _ ≤ fl b := b1
    have hpos : 0 < a / (w : Rat) * (1 - u) ^ 2 := by
      have : 0 < 1 - u := by linarith
      positivity
    have h2 : c ≤ 1 / (a / (w : Rat) * (1 - u) ^ 2) := by
      rw [hc]; exact one_div_le_one_div_of_le hpos h1
    have h3 : 1 / (a / (w : Rat) * (1 - u) ^ 2) = x / (1 - u) ^ 2 := by
      have : (1 - u) ≠ 0 := by linarith
      rw [hx, ha]; field_simp
    calc fl c ≤ c * (1 + u) := c2
      _ ≤ x / (1 - u) ^ 2 * (1 + u) := by rw [← h3]; exact mul_le_mul_of_nonneg_right h2 (by linarith)
      _ = x * ((1 + u) / (1 - u) ^ 2) := by ring
  have hn1 : (1 + u) / (1 - u) ^ 2 ≤ 1 + 1 / 2 ^ 51 := by rw [hu]; norm_num
  have hn2 : 1 - 1 / 2 ^ 51 ≤ (1 - u) / (1 + u) ^ 2 := by rw [hu]; norm_num
  rw [abs_le]
  constructor
  · have := mul_le_mul_of_nonneg_left hn2 (le_of_lt hxpos)
    have hx2 : x / 2 ^ 51 = x * (1 / 2 ^ 51) := by ring
    linarith
  · have := mul_le_mul_of_nonneg_left hn1 (le_of_lt hxpos)
    have hx2 : x / 2 ^ 51 = x * (1 / 2 ^ 51) := by ring
    linarith

/-- `ramp * (i / total)` in doubles is within a relative error of 2^-51 of the exact value -/
theorem ramp_ieee_bound (ramp : Rat) (g total : Nat) (hr : 0 < ramp) (ht : 0 < total) :
    |fl (ramp * fl ((g : Rat) / (total : Rat))) - ramp * ((g : Rat) / (total : Rat))| ≤ ramp * ((g : Rat) / (total : Rat)) / 2 ^ 51 := by
  have htq : (0 : Rat) < total := by exact_mod_cast ht
  have hu : u = 1 / 2 ^ 53 := rfl
  have hu0 : 0 < u := by rw [hu]; positivity
  have hu1 : u < 1 := by rw [hu]; norm_num
  rcases Nat.eq_zero_or_pos g with hg | hg
  · subst hg; simp [fl]
  · have hgq : (0 : Rat) < g := by exact_mod_cast hg
    set a := (g : Rat) / (total : Rat) with ha
    have hapos : 0 < a := div_pos hgq htq
    obtain ⟨a1, a2⟩ := fl_bounds hapos
    have ha'pos : 0 < fl a := lt_of_lt_of_le (mul_pos hapos (by linarith)) a1
    have hbpos : 0 < ramp * fl a := mul_pos hr ha'pos
    obtain ⟨b1, b2⟩ := fl_bounds hbpos
    set x := ramp * a with hx
    have hxpos : 0 < x := mul_pos hr hapos
    have hlo : x * (1 - u) ^ 2 ≤ fl (ramp * fl a) := by
      calc x * (1 - u) ^ 2 = ramp * (a * (1 - u)) * (1 - u) := by rw [hx]; ring
        _ ≤ ramp * fl a * (1 - u) := by
            apply mul_le_mul_of_nonneg_right _ (by linarith)
            exact mul_le_mul_of_nonneg_left a1 (le_of_lt hr)
        _ ≤ fl (ramp * fl a) := b1
    have hhi : fl (ramp * fl a) ≤ x * (1 + u) ^ 2 := by
      calc fl (ramp * fl a) ≤ ramp * fl a * (1 + u) := b2
        _ ≤ ramp * (a * (1 + u)) * (1 + u) := by
            apply mul_le_mul_of_nonneg_right _ (by linarith)
            exact mul_le_mul_of_nonneg_left a2 (le_of_lt hr)
        _ = x * (1 + u) ^ 2 := by rw [hx]; ring
    have hn1 : (1 + u) ^ 2 ≤ 1 + 1 / 2 ^ 51 := by rw [hu]; norm_num
    have hn2 : 1 - 1 / 2 ^ 51 ≤ (1 - u) ^ 2 := by rw [hu]; norm_num
    rw [abs_le]
    have hx2 : x / 2 ^ 51 = x * (1 / 2 ^ 51) := by ring
    constructor
    · have := mul_le_mul_of_nonneg_left hn2 (le_of_lt hxpos); linarith
    · have := mul_le_mul_of_nonneg_left hn1 (le_of_lt hxpos); linarith
end ExecDbl
