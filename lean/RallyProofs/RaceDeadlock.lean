import RallyProofs.RaceCompletion
/-! Deadlock-freedom of the race protocol model when every task ends by itself (C01). -/
namespace Race

def Cfg.AllFinite (cfg : Cfg) : Prop :=
  ∀ w e, ∀ col ∈ cfg.elems w e, ∀ t ∈ col, t.finite = true

/-- the tasks an executor runs are finite (follows from `AllFinite`) -/
def FInv (s : State) : Prop :=
  ∀ w ts, (s.ws w).exec = .running ts → ∀ p ∈ ts, p.1.finite = true

theorem setDone_fst (ts : List (TaskA × Bool)) (i : Nat) : ∀ p ∈ setDone ts i, ∃ q ∈ ts, p.1 = q.1 := by
  intro p hp
  unfold setDone at hp
  simp only [List.mem_map] at hp
  obtain ⟨⟨q, j⟩, hq, rfl⟩ := hp
  have hz := List.mem_zipIdx hq
  have hq' : q ∈ ts := by
    rw [hz.2.2]
    exact List.getElem_mem _
  refine ⟨q, hq', ?_⟩
  simp only
  split <;> rfl

/-- FInv only looks at the executors -/
theorem finv_frame {s s' : State} (h : FInv s)
    (hf : ∀ w ts, (s'.ws w).exec = .running ts → (s.ws w).exec = .running ts ∨ ∀ p ∈ ts, p.1.finite = true) : FInv s' := by
  intro w ts hw p hp
  rcases hf w ts hw with h1 | h1
  · exact h w ts h1 p hp
  · exact h1 p hp

theorem finv_upd {s : State} {w : Nat} (h : FInv s) (ws' : WState)
    (hx : ∀ ts, ws'.exec = .running ts → (s.ws w).exec = .running ts ∨ ∀ p ∈ ts, p.1.finite = true) :
    FInv { s with ws := upd s.ws w ws' } := by
  apply finv_frame h
  intro v ts hv
  by_cases hvw : v = w
  · subst hvw
    simp only [upd_same] at hv
    exact hx ts hv
  · left; simpa [upd, hvw] using hv

theorem finv_driveNext {cfg : Cfg} {w : Nat} {s0 s' : State} (haf : cfg.AllFinite) (h0 : FInv s0)
    (hd : driveNext cfg w s0 = some s') : FInv s' := by
  rcases driveNext_cases hd with ⟨j, rfl⟩ | ⟨e, c, col, hcol, rfl, _, _⟩
  · apply finv_frame h0
    intro v ts hv
    by_cases hvw : v = w
    · subst hvw; simp [toJoin] at hv
    · left; simpa [toJoin, upd, hvw] using hv
  · apply finv_frame h0
    intro v ts hv
    by_cases hvw : v = w
    · subst hvw
      right
      simp only [upd_same, Exec.running.injEq] at hv
      subst hv
      intro p hp
      simp only [List.mem_map] at hp
      obtain ⟨t, ht, rfl⟩ := hp
      exact haf v e col (List.mem_of_getElem? hcol) t ht
    · left; simpa [upd, hvw] using hv

theorem step_finv {cfg : Cfg} {s s' : State} {e : Event} (haf : cfg.AllFinite) (hf : FInv s)
    (h : step cfg s e = some s') : FInv s' := by
  cases e with
  | deliverDW w =>
    simp only [step] at h
    cases hq : s.d2w w with
    | nil => simp [hq] at h
    | cons m rest =>
      simp only [hq] at h
      cases m with
      | startWorker =>
        simp only at h
        cases hp : (s.ws w).pos with
        | unstarted =>
          simp only [hp] at h; injection h with h; subst h
          apply finv_frame hf
          intro v ts hv
          by_cases hvw : v = w
          · subst hvw; simp [toJoin] at hv
          · left; simpa [toJoin, upd, hvw] using hv
        | atJoin j => simp [hp] at h
        | inCol e c => simp [hp] at h
      | drive =>
        simp only at h; injection h with h; subst h
        exact finv_upd (s := { s with d2w := upd s.d2w w rest }) (by exact hf) _ (fun ts hx => Or.inl hx)
      | cct =>
        simp only at h
        split at h <;> (injection h with h; subst h)
        · exact hf
        · exact finv_upd (s := { s with d2w := upd s.d2w w rest }) (by exact hf) _ (fun ts hx => Or.inl hx)
  | wakeW w =>
    simp only [step] at h
    by_cases hwk0 : (s.ws w).wake = 0
    · simp [hwk0] at h
    rw [if_neg hwk0] at h
    by_cases hsd : (s.ws w).startDriving = true
    · rw [if_pos hsd] at h
      exact finv_driveNext haf (finv_upd (w := w) hf { (s.ws w) with wake := (s.ws w).wake - 1, startDriving := false } (fun ts hx => Or.inl hx)) h
    · rw [if_neg hsd] at h
      cases hexec : (s.ws w).exec with
      | finished =>
        simp only [hexec] at h
        exact finv_driveNext haf (finv_upd (w := w) hf { (s.ws w) with wake := (s.ws w).wake - 1, exec := .none } (fun ts hx => by simp at hx)) h
      | none =>
        simp only [hexec] at h; injection h with h; subst h
        exact finv_upd hf _ (fun ts hx => by simp [hexec] at hx)
      | running ts =>
        simp only [hexec] at h; injection h with h; subst h
        exact finv_upd hf _ (fun ts' hx => Or.inl (by simpa [hexec] using hx))
  | taskDone w i =>
    simp only [step] at h
    cases hexec : (s.ws w).exec with
    | none => simp [hexec] at h
    | finished => simp [hexec] at h
    | running ts =>
      simp only [hexec] at h
      split at h
      · split at h
        · injection h with h; subst h
          apply finv_upd hf
          intro ts' hx
          right
          simp only [Exec.running.injEq] at hx
          subst hx
          intro p hp
          obtain ⟨q, hq, hpq⟩ := setDone_fst ts i p hp
          rw [hpq]
          exact hf w ts hexec q hq
        · exact absurd h (by simp)
      · exact absurd h (by simp)
  | execFinish w =>
    simp only [step] at h
    cases hexec : (s.ws w).exec with
    | none => simp [hexec] at h
    | finished => simp [hexec] at h
    | running ts =>
      simp only [hexec] at h
      split at h
      · injection h with h; subst h
        exact finv_upd hf _ (fun ts' hx => by simp at hx)
      · exact absurd h (by simp)
  | deliverWD w =>
    simp only [step] at h
    cases hq : s.w2d w with
    | nil => simp [hq] at h
    | cons m rest =>
      cases m with
      | jpr j =>
      simp only [hq] at h
      injection h with h
      have hframe : s'.ws = s.ws := by
        unfold joinpointReached at h
        simp only at h
        split at h
        · split at h <;> (subst h; rfl)
        · rcases mayComplete_shape cfg w (cfg.joins j)
            { s with w2d := upd s.w2d w rest, d := { s.d with completed := s.d.completed + 1, reported := w :: s.d.reported } }
            with hm | ⟨hm, _⟩ <;> (rw [hm] at h; subst h; rfl)
      exact finv_frame hf (fun v ts hv => Or.inl (by rw [← hframe]; exact hv))

theorem reach_finv {cfg : Cfg} {s : State} (haf : cfg.AllFinite) (h : Reach cfg s) : FInv s := by
  induction h with
  | init => intro w ts hw; simp [init] at hw
  | step s s' e hr hstep ih => exact step_finv haf ih hstep

/-- a list that contains every number below `n` has at least `n` elements -/
theorem length_ge_of_full {l : List Nat} {n : Nat} (hfull : ∀ x, x < n → x ∈ l) : n ≤ l.length := by
  have h1 : Finset.range n ⊆ l.toFinset := by
    intro x hx
    simp only [Finset.mem_range] at hx
    simpa using hfull x hx
  have h2 := Finset.card_le_card h1
  rw [Finset.card_range] at h2
  exact Nat.le_trans h2 (List.toFinset_card_le l)

/-- "the state changes": not an idle poll -/
def Changed (s s' : State) : Prop :=
  (∃ w, (s'.d2w w).length ≠ (s.d2w w).length) ∨ (∃ w, (s'.w2d w).length ≠ (s.w2d w).length) ∨ ∃ w, s'.ws w ≠ s.ws w

theorem deliverDW_enabled {cfg : Cfg} {s : State} {w : Nat} (hw : w < cfg.W) (hinv : Inv cfg s) (hne : s.d2w w ≠ []) :
    ∃ s', step cfg s (.deliverDW w) = some s' ∧ Changed s s' := by
  have hwi := hinv.winv w hw
  cases hq : s.d2w w with
  | nil => exact absurd hq hne
  | cons m rest =>
    have hch : ∀ s' : State, s'.d2w w = rest → Changed s s' := by
      intro s' hs'
      exact Or.inl ⟨w, by rw [hs', hq]; simp⟩
    cases m with
    | startWorker =>
      have hp : (s.ws w).pos = .unstarted := by
        unfold WInv at hwi
        cases hp : (s.ws w).pos with
        | unstarted => rfl
        | atJoin j => simp only [hp] at hwi; exact absurd (by rw [hq]; simp) hwi.1
        | inCol e c => simp only [hp] at hwi; exact absurd (by rw [hq]; simp) hwi.2.2.1
      exact ⟨toJoin w 0 { s with d2w := upd s.d2w w rest }, by simp only [step, hq, hp], hch _ (by simp [toJoin])⟩
    | drive =>
      exact ⟨{ s with d2w := upd s.d2w w rest, ws := upd s.ws w { (s.ws w) with startDriving := true, wake := (s.ws w).wake + 1 } },
        by simp only [step, hq], hch _ (by simp)⟩
    | cct =>
      by_cases hpk : (parked (s.ws w) && !(s.ws w).startDriving) = true
      · exact ⟨{ s with d2w := upd s.d2w w rest }, by simp only [step, hq, if_pos hpk], hch _ (by simp)⟩
      · exact ⟨{ s with d2w := upd s.d2w w rest, ws := upd s.ws w { (s.ws w) with complete := true } },
          by simp only [step, hq, if_neg hpk], hch _ (by simp)⟩

theorem joinpointReached_w2d (cfg : Cfg) (w : Nat) (ji : JoinInfo) (s : State) :
    (joinpointReached cfg w ji s).w2d = s.w2d := by
  unfold joinpointReached
  simp only
  split
  · split <;> rfl
  · rcases mayComplete_shape cfg w ji { s with d := { s.d with completed := s.d.completed + 1, reported := w :: s.d.reported } }
      with hm | ⟨hm, _⟩ <;> rw [hm]

theorem deliverWD_enabled {cfg : Cfg} {s : State} {w : Nat} (hne : s.w2d w ≠ []) :
    ∃ s', step cfg s (.deliverWD w) = some s' ∧ Changed s s' := by
  cases hq : s.w2d w with
  | nil => exact absurd hq hne
  | cons m rest =>
    cases m with
    | jpr j =>
    refine ⟨joinpointReached cfg w (cfg.joins j) { s with w2d := upd s.w2d w rest }, by simp only [step, hq], Or.inr (Or.inl ⟨w, ?_⟩)⟩
    rw [joinpointReached_w2d, hq]
    simp

/-- `driveNext` is enabled for a released worker of an unfinished race and moves it -/
theorem driveNext_enabled {cfg : Cfg} {s0 : State} {w e c : Nat} (he : e < cfg.S)
    (hpos : (s0.ws w).pos = .atJoin e ∧ c = 0 ∨ ∃ c0, (s0.ws w).pos = .inCol e c0 ∧ c = c0 + 1) :
    ∃ s', driveNext cfg w s0 = some s' ∧ (s'.ws w).pos ≠ (s0.ws w).pos := by
  have hlt : ¬ e ≥ cfg.S := by omega
  unfold driveNext
  rcases hpos with ⟨hp, rfl⟩ | ⟨c0, hp, rfl⟩
  · simp only [hp, if_neg hlt]
    split
    · split
      · exact ⟨_, rfl, by simp [toJoin]⟩
      · exact ⟨_, rfl, by simp⟩
    · exact ⟨_, rfl, by simp [toJoin]⟩
  · simp only [hp, if_neg hlt]
    split
    · split
      · exact ⟨_, rfl, by simp [toJoin]⟩
      · exact ⟨_, rfl, by simp⟩
    · exact ⟨_, rfl, by simp [toJoin]⟩

/-- **no deadlock**: in every reachable state of a race that is not over, some event is enabled that changes
    the state (i.e. is not an idle poll), provided every task ends by itself. -/
theorem no_deadlock {cfg : Cfg} {s : State} (hwf : cfg.WF) (haf : cfg.AllFinite) (hr : Reach cfg s)
    (hunf : s.d.stepP1 ≤ cfg.S) :
    ∃ e s', step cfg s e = some s' ∧ Changed s s' := by
  have hinv := reach_inv hwf hr
  have hfin := reach_finv haf hr
  by_cases hch : ∃ w, w < cfg.W ∧ s.d2w w ≠ []
  · obtain ⟨w, hw, hne⟩ := hch
    obtain ⟨s', h1, h2⟩ := deliverDW_enabled hw hinv hne
    exact ⟨_, s', h1, h2⟩
  by_cases hch2 : ∃ w, w < cfg.W ∧ s.w2d w ≠ []
  · obtain ⟨w, _, hne⟩ := hch2
    obtain ⟨s', h1, h2⟩ := deliverWD_enabled (cfg := cfg) hne
    exact ⟨_, s', h1, h2⟩
  -- all channels are empty: some worker must be able to move
  have hd2w : ∀ w, w < cfg.W → s.d2w w = [] := by
    intro w hw; by_contra hne; exact hch ⟨w, hw, hne⟩
  have hw2d : ∀ w, w < cfg.W → s.w2d w = [] := by
    intro w hw; by_contra hne; exact hch2 ⟨w, hw, hne⟩
  -- not everybody is waiting at the barrier
  have hmover : ∃ w, w < cfg.W ∧ w ∉ s.d.reported := by
    by_contra hall
    have hfull : ∀ x, x < cfg.W → x ∈ s.d.reported := by
      intro x hx; by_contra hx'; exact hall ⟨x, hx, hx'⟩
    have := length_ge_of_full hfull
    have h2 := hinv.completed_lt
    rw [hinv.completed_eq] at h2
    omega
  obtain ⟨w, hw, hnr⟩ := hmover
  have hwi := hinv.winv w hw
  unfold WInv at hwi
  have hchange : ∀ (s' : State), (s'.ws w ≠ s.ws w) → Changed s s' := fun s' h => Or.inr (Or.inr ⟨w, h⟩)
  cases hp : (s.ws w).pos with
  | unstarted => simp only [hp] at hwi; rw [hd2w w hw] at hwi; simp at hwi
  | atJoin j =>
    simp only [hp] at hwi
    obtain ⟨_, hex, hjS, hcase⟩ := hwi
    rcases hcase with ⟨_, _, _, _, _, halt⟩ | ⟨hjD, _, _, h3⟩
    · rcases halt with ⟨hq, _⟩ | ⟨_, hmem⟩
      · rw [hw2d w hw] at hq; simp at hq
      · exact absurd hmem hnr
    · rcases h3 with ⟨hD, _⟩ | ⟨_, hdc, _⟩ | ⟨hDS, _, hsd, hwk⟩
      · omega
      · rw [hd2w w hw] at hdc; simp [driveCount] at hdc
      · -- armed: the wake-up drives on
        have hwk0 : ¬ (s.ws w).wake = 0 := by omega
        obtain ⟨s', hs', hne⟩ := driveNext_enabled (cfg := cfg) (w := w) (e := j) (c := 0)
          (s0 := { s with ws := upd s.ws w { (s.ws w) with wake := (s.ws w).wake - 1, startDriving := false } })
          (by omega) (Or.inl ⟨by simp [hp], rfl⟩)
        refine ⟨.wakeW w, s', by simp only [step, if_neg hwk0, if_pos hsd]; exact hs', hchange s' ?_⟩
        intro heq
        apply hne
        rw [heq]
        simp
  | inCol e c =>
    simp only [hp] at hwi
    obtain ⟨heD, hDS, _, _, _, _, hsd, hwk, hex⟩ := hwi
    have hwk0 : ¬ (s.ws w).wake = 0 := by omega
    have hnsd : ¬ (s.ws w).startDriving = true := by simp [hsd]
    cases hexec : (s.ws w).exec with
    | none => exact absurd hexec hex
    | finished =>
      obtain ⟨s', hs', hne⟩ := driveNext_enabled (cfg := cfg) (w := w) (e := e) (c := c + 1)
        (s0 := { s with ws := upd s.ws w { (s.ws w) with wake := (s.ws w).wake - 1, exec := .none } })
        (by omega) (Or.inr ⟨c, by simp [hp], rfl⟩)
      refine ⟨.wakeW w, s', by simp only [step, if_neg hwk0, if_neg hnsd, hexec]; exact hs', hchange s' ?_⟩
      intro heq
      apply hne
      rw [heq]
      simp
    | running ts =>
      by_cases had : allDone ts = true
      · refine ⟨.execFinish w, { s with ws := upd s.ws w { (s.ws w) with exec := .finished } },
          by simp only [step, hexec, if_pos had], hchange _ ?_⟩
        intro heq
        have := congrArg WState.exec heq
        simp only [upd_same] at this
        rw [hexec] at this
        cases this
      · -- some task has not returned yet; it is finite, so it can
        have hex2 : ∃ (i : Nat) (t : TaskA), ts[i]? = some (t, false) := by
          unfold allDone at had
          simp only [List.all_eq_true, not_forall] at had
          obtain ⟨p, hpm, hpf⟩ := had
          obtain ⟨i, hi, hget⟩ := List.getElem_of_mem hpm
          refine ⟨i, p.1, ?_⟩
          rw [List.getElem?_eq_getElem hi, hget]
          have : p.2 = false := by simpa using hpf
          rw [← this]
        obtain ⟨i, t, hget⟩ := hex2
        have htf : t.finite = true := hfin w ts hexec (t, false) (List.mem_of_getElem? hget)
        refine ⟨.taskDone w i, { s with ws := upd s.ws w { (s.ws w) with exec := .running (setDone ts i), complete := (s.ws w).complete || t.cp || t.acp } },
          by simp only [step, hexec, hget, htf, Bool.true_or, if_true], hchange _ ?_⟩
        intro heq
        have hx := congrArg WState.exec heq
        simp only [upd_same] at hx
        rw [hexec] at hx
        injection hx with hx
        -- position i differs: it was not done and is done now
        have hi : i < ts.length := by
          by_contra hc
          rw [List.getElem?_eq_none (by omega)] at hget
          cases hget
        have h1 : (setDone ts i)[i]? = some (t, true) := by
          unfold setDone
          simp [List.getElem?_map, List.getElem?_zipIdx, hget]
        rw [hx, hget] at h1
        cases h1

end Race
