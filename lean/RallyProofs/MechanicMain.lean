import RallyProofs.MechanicNodeInv
import RallyProofs.MechanicCount

set_option linter.unusedSimpArgs false
set_option linter.unusedVariables false

namespace Mechanic

local notation "RS(" h ")" => Out.recv (Aid.node h) Aid.disp (Msg.startNodes h Aid.mech)
local notation "NSs(" h ")" => Out.send (Aid.node h) Aid.mech Msg.nodesStarted
local notation "NPs(" h ")" => Out.send (Aid.node h) Aid.mech Msg.nodesStopped
local notation "NSr(" h ")" => Out.recv Aid.mech (Aid.node h) Msg.nodesStarted
local notation "NPr(" h ")" => Out.recv Aid.mech (Aid.node h) Msg.nodesStopped
local notation "STs(" h ")" => Out.send Aid.mech (Aid.node h) Msg.stopNodes
local notation "ES" => Out.send Aid.mech Aid.rc Msg.engineStarted
local notation "EP" => Out.send Aid.mech Aid.rc Msg.engineStopped
local notation "RSE" => Out.recv Aid.mech Aid.rc Msg.stopEngine

/-! ### exact results of the MechanicActor's handlers in the situations the protocol reaches -/

theorem mech_start_exact (cfg : Config) (st : MSt) (hh : cfg.hosts ≠ []) (hx : cfg.external = false) :
    recvMech cfg st .startEngine .rc =
      ⟨{ st with raceControl := some .rc, external := false, children := List.replicate (nHosts cfg) none,
                 status := .starting, received := 0 },
        [Eff.createDisp, Eff.tell .disp .startEngine], false⟩ := by
  have : cfg.hosts.isEmpty = false := by cases h : cfg.hosts <;> simp_all
  simp [recvMech, mechStart, guard, this, hx]

theorem mech_start_empty (cfg : Config) (st : MSt) (hh : cfg.hosts = []) :
    recvMech cfg st .startEngine .rc = ⟨{ st with raceControl := some .rc }, [Eff.tell .rc (.failure .guard)], false⟩ := by
  simp [recvMech, mechStart, guard, hh]

theorem mech_ns_last (cfg : Config) (st : MSt) (a : Aid) (hs : st.status = .starting) (hn : some a ∉ st.children)
    (hrc : st.raceControl = some .rc) (hl : st.received + 1 = st.children.length) :
    recvMech cfg st .nodesStarted a =
      ⟨{ st with children := (some a :: st.children).dropLast, received := 0, status := .clusterStarted },
        [Eff.tell .rc .engineStarted], false⟩ := by
  simp [recvMech, mechNodesStarted, transition, onStarted, guard, hn, hs, hrc, hl]

theorem mech_ns_more (cfg : Config) (st : MSt) (a : Aid) (hs : st.status = .starting) (hn : some a ∉ st.children)
    (hl : st.received + 1 < st.children.length) :
    recvMech cfg st .nodesStarted a =
      ⟨{ st with children := (some a :: st.children).dropLast, received := st.received + 1 }, [], false⟩ := by
  have h1 : ¬ st.received + 1 = st.children.length := by omega
  have h2 : ¬ st.children.length < st.received + 1 := by omega
  simp [recvMech, mechNodesStarted, transition, guard, hn, hs, h1, h2]

theorem mech_stop_exact (cfg : Config) (st : MSt) (src : Aid) (hx : st.external = false) :
    recvMech cfg st .stopEngine src =
      ⟨{ st with status := .clusterStopping }, (somes st.children).map (Eff.tell · .stopNodes), false⟩ := by
  simp [recvMech, mechStop, guard, hx]

theorem exitReqs_ok (l : List (Option Aid)) (h : ∀ c ∈ l, c ≠ none) : (exitReqs l).2 = false := by
  induction l with
  | nil => rfl
  | cons c r ih =>
    cases c with
    | none => exact absurd rfl (h none List.mem_cons_self)
    | some a => simp only [exitReqs]; exact ih (fun c hc => h c (List.mem_cons_of_mem _ hc))

theorem mech_np_last (cfg : Config) (st : MSt) (a : Aid) (hs : st.status = .clusterStopping)
    (hrc : st.raceControl = some .rc) (hc : ∀ c ∈ st.children, c ≠ none) (hl : st.received + 1 = st.children.length) :
    recvMech cfg st .nodesStopped a =
      ⟨{ st with children := [], received := 0, status := .clusterStopped },
        Eff.tell .rc .engineStopped :: (exitReqs st.children).1, false⟩ := by
  have := exitReqs_ok st.children hc
  simp [recvMech, mechNodesStopped, transition, onStopped, guard, hs, hrc, hl, this]

theorem mech_np_more (cfg : Config) (st : MSt) (a : Aid) (hs : st.status = .clusterStopping)
    (hl : st.received + 1 < st.children.length) :
    recvMech cfg st .nodesStopped a = ⟨{ st with received := st.received + 1 }, [], false⟩ := by
  have h1 : ¬ st.received + 1 = st.children.length := by omega
  have h2 : ¬ st.received + 1 > st.children.length := by omega
  simp [recvMech, mechNodesStopped, transition, guard, hs, h1, h2]


/-! ### what a message at the head of a channel tells about the past -/

theorem count_recv_le_send {cfg : Config} {s : State} {tr : List Out} (hr : Reach cfg s tr) (a b : Aid) (m : Msg)
    (hw : m ≠ .wakeup) : tr.count (Out.recv b a m) ≤ tr.count (Out.send a b m) := by
  have := conservation hr a b m hw; omega

theorem started_of_NSs {cfg : Config} {s : State} {tr : List Out} (hr : Reach cfg s tr) {h : Nat}
    (hm : NSs(h) ∈ tr) : h < nHosts cfg ∧ tr.count NSs(h) ≤ 1 ∧ s.m.status ≠ .none := by
  have hN := ni_reach hr h
  have h1 : 0 < tr.count NSs(h) := List.count_pos_iff.2 hm
  have h2 := hN.n2
  have hRS : RS(h) ∈ tr := List.count_pos_iff.1 (by omega)
  have hlt := hN.n0 hRS
  have h3 := count_recv_le_send hr .disp (.node h) (.startNodes h .mech) (by intro hx; cases hx)
  have h4 := count_SN_le hr hlt
  refine ⟨hlt, by omega, ?_⟩
  have hSN := recv_sent hr (by intro hx; cases hx) hRS
  have hD := di_reach hr
  have h5 := hD.d2 h hlt
  have h6 : 0 < tr.count (Out.send Aid.disp (Aid.node h) (Msg.startNodes h Aid.mech)) := List.count_pos_iff.2 hSN
  have hw : s.d.work.isSome = true := by
    cases hx : s.d.work.isSome
    · rw [hx] at h5; simp at h5; omega
    · rfl
  have h7 := hD.d1
  rw [hw] at h7
  have h8 : Out.recv .disp .mech .startEngine ∈ tr := List.count_pos_iff.1 (by simp at h7; omega)
  have h9 := recv_sent hr (by intro hx; cases hx) h8
  intro hnone
  exact (ms_reach hr).ms1 hnone h9

theorem head_nodesStarted {cfg : Config} {s : State} {tr : List Out} (hr : Reach cfg s tr) {a : Aid} {rest : List Msg}
    (hc : s.chan a .mech = .nodesStarted :: rest) :
    ∃ h, a = .node h ∧ h < nHosts cfg ∧ NSr(h) ∉ tr ∧ s.m.status ≠ .none := by
  have ht := (ty_reach hr).chan a .mech .nodesStarted (by rw [hc]; exact List.mem_cons_self)
  cases a <;> simp [allowed] at ht
  rename_i h
  have hs := chan_sent hr (a := .node h) (b := .mech) (m := .nodesStarted) (by rw [hc]; exact List.mem_cons_self)
  obtain ⟨h1, h2, h3⟩ := started_of_NSs hr hs
  have h4 := head_count hr hc
  exact ⟨h, rfl, h1, fun hx => by have := List.count_pos_iff.2 hx; omega, h3⟩

theorem none_no_NSr {cfg : Config} {s : State} {tr : List Out} (hr : Reach cfg s tr) (hn : s.m.status = .none) (h : Nat) :
    NSr(h) ∉ tr := by
  intro hx
  have := recv_sent hr (by intro hx; cases hx) hx
  exact (started_of_NSs hr this).2.2 hn

theorem head_stopEngine {cfg : Config} {s : State} {tr : List Out} (hr : Reach cfg s tr) {rest : List Msg}
    (hc : s.chan .rc .mech = .stopEngine :: rest) : RSE ∉ tr ∧ ES ∈ tr := by
  have hR := rinv_reach hr
  have hs := chan_sent hr (a := .rc) (b := .mech) (m := .stopEngine) (by rw [hc]; exact List.mem_cons_self)
  have h1 : 0 < tr.count (Out.send .rc .mech .stopEngine) := List.count_pos_iff.2 hs
  have h2 := hR.r2
  have hss : s.r.sentStop = true := by
    cases hx : s.r.sentStop
    · rw [hx] at h2; simp at h2; omega
    · rfl
  rw [hss] at h2
  have h3 := head_count hr hc
  exact ⟨fun hx => by have := List.count_pos_iff.2 hx; simp at h2; omega, hR.r4 (hR.r3 hss)⟩

theorem count_NPs_le {cfg : Config} {s : State} {tr : List Out} (hr : Reach cfg s tr) (h : Nat) : tr.count NPs(h) ≤ 1 := by
  have hN := ni_reach hr h
  cases hm : (s.n h).mech with
  | some m => rw [List.count_eq_zero_of_not_mem (hN.n5 m hm).2.2.2.2]; omega
  | none =>
    rcases hN.n6 hm with ⟨_, h6⟩ | ⟨_, h6, _⟩
    · rw [List.count_eq_zero_of_not_mem h6]; omega
    · exact h6


/-! ### the MechanicActor's acknowledgement counting (cluster provisioned by Rally) -/

def cS (cfg : Config) (tr : List Out) : Nat := cnt (nHosts cfg) (fun h => NSr(h) ∈ tr)
def cPp (cfg : Config) (tr : List Out) : Nat := cnt (nHosts cfg) (fun h => NPr(h) ∈ tr)

structure MI (cfg : Config) (s : State) (tr : List Out) : Prop where
  i0 : (s.m.status = .none ∨ s.m.status = .starting ∨ s.m.status = .clusterStarted) → EP ∉ tr ∧ ∀ h, NPr(h) ∉ tr
  i1 : s.m.status = .starting → s.m.raceControl = some .rc ∧ s.m.external = false ∧ ES ∉ tr ∧
        ∃ l : List Aid, s.m.children = l.map some ++ List.replicate (nHosts cfg - l.length) none ∧
          l.length ≤ nHosts cfg ∧ s.m.received = l.length ∧ l.length = cS cfg tr ∧
          ∀ a, a ∈ l ↔ ∃ h, h < nHosts cfg ∧ a = .node h ∧ NSr(h) ∈ tr
  i2 : (s.m.status = .clusterStarted ∨ s.m.status = .clusterStopping) → s.m.raceControl = some .rc ∧
        s.m.external = false ∧ s.m.children.length = nHosts cfg ∧ (∀ c ∈ s.m.children, c ≠ none)
  i2r : s.m.status = .clusterStarted → s.m.received = 0
  i3 : s.m.status = .clusterStopping → s.m.received = cPp cfg tr ∧ EP ∉ tr
  i4 : s.m.status = .clusterStopped → ∀ h, h < nHosts cfg → NPr(h) ∈ tr
  i5 : (s.m.status ≠ .none ∧ s.m.status ≠ .starting) → ∀ h, h < nHosts cfg → NSr(h) ∈ tr
  i6 : EP ∈ tr → ∀ h, h < nHosts cfg → NPr(h) ∈ tr
  i7 : RSE ∈ tr ↔ (s.m.status = .clusterStopping ∨ s.m.status = .clusterStopped)
  i8 : tr.count ES ≤ 1 ∧ tr.count EP ≤ 1
  i9 : ∀ h, STs(h) ∈ tr → RSE ∈ tr

/-- outputs that the acknowledgement counting does not look at -/
structure Quiet (o : List Out) : Prop where
  q1 : ∀ h, NSr(h) ∉ o
  q2 : ∀ h, NPr(h) ∉ o
  q3 : ES ∉ o
  q4 : EP ∉ o
  q5 : RSE ∉ o
  q6 : ∀ h, STs(h) ∉ o

theorem mem_append_quiet {x : Out} {tr o : List Out} (h : x ∉ o) : x ∈ tr ++ o ↔ x ∈ tr := by
  constructor
  · intro hx; rcases List.mem_append.1 hx with hx | hx
    · exact hx
    · exact absurd hx h
  · exact List.mem_append_left _

theorem MI_quiet {cfg : Config} {s s1 : State} {tr o : List Out} (ih : MI cfg s tr) (hq : Quiet o)
    (hm : s1.m = s.m ∨ (s1.m.status = .none ∧ s.m.status = .none)) : MI cfg s1 (tr ++ o) := by
  have r1 := fun h => mem_append_quiet (tr := tr) (hq.q1 h)
  have r2 := fun h => mem_append_quiet (tr := tr) (hq.q2 h)
  have r3 := mem_append_quiet (tr := tr) hq.q3
  have r4 := mem_append_quiet (tr := tr) hq.q4
  have r5 := mem_append_quiet (tr := tr) hq.q5
  have r6 := fun h => mem_append_quiet (tr := tr) (hq.q6 h)
  have c1 : cS cfg (tr ++ o) = cS cfg tr := cnt_congr (fun i _ => r1 i)
  have c2 : cPp cfg (tr ++ o) = cPp cfg tr := cnt_congr (fun i _ => r2 i)
  have c3 : (tr ++ o).count ES = tr.count ES := by rw [List.count_append, List.count_eq_zero_of_not_mem hq.q3]; rfl
  have c4 : (tr ++ o).count EP = tr.count EP := by rw [List.count_append, List.count_eq_zero_of_not_mem hq.q4]; rfl
  rcases hm with hm | ⟨hn1, hn⟩
  · refine ⟨?_, ?_, ?_, ?_, ?_, ?_, ?_, ?_, ?_, ?_, ?_⟩
    · intro hs; simp only [r2, r4]; rw [hm] at hs; exact ih.i0 hs
    · intro hs; rw [hm] at hs ⊢; simp only [r1, r3, c1]; exact ih.i1 hs
    · intro hs; rw [hm] at hs ⊢; exact ih.i2 hs
    · intro hs; rw [hm] at hs ⊢; exact ih.i2r hs
    · intro hs; rw [hm] at hs ⊢; simp only [r4, c2]; exact ih.i3 hs
    · intro hs; rw [hm] at hs; simp only [r2]; exact ih.i4 hs
    · intro hs; rw [hm] at hs; simp only [r1]; exact ih.i5 hs
    · simp only [r2, r4]; exact ih.i6
    · simp only [r5]; rw [hm]; exact ih.i7
    · simp only [c3, c4]; exact ih.i8
    · simp only [r5, r6]; exact ih.i9
  · refine ⟨?_, ?_, ?_, ?_, ?_, ?_, ?_, ?_, ?_, ?_, ?_⟩
    · intro _; simp only [r2, r4]; exact ih.i0 (Or.inl hn)
    · intro hs; rw [hn1] at hs; cases hs
    · intro hs; rw [hn1] at hs; rcases hs with hs | hs <;> cases hs
    · intro hs; rw [hn1] at hs; cases hs
    · intro hs; rw [hn1] at hs; cases hs
    · intro hs; rw [hn1] at hs; cases hs
    · intro hs; exact absurd hn1 hs.1
    · simp only [r2, r4]; exact ih.i6
    · simp only [r5]; rw [hn1]; have := ih.i7; rw [hn] at this; exact this
    · simp only [c3, c4]; exact ih.i8
    · simp only [r5, r6]; exact ih.i9

theorem dropLast_append_replicate {α : Type} (x : List α) (n : Nat) (a : α) :
    (x ++ List.replicate (n + 1) a).dropLast = x ++ List.replicate n a := by
  rw [List.replicate_succ', ← List.append_assoc, List.dropLast_concat]


theorem quiet_of_other {dst src : Aid} {msg : Msg} {effs : List Eff} (hd : dst ≠ .mech) :
    Quiet (Out.recv dst src msg :: effs.map (toOut dst)) := by
  refine ⟨?_, ?_, ?_, ?_, ?_, ?_⟩
  · intro h hx; exact hd (mem_outs_recv.1 hx).1.symm
  · intro h hx; exact hd (mem_outs_recv.1 hx).1.symm
  · intro hx; exact hd (mem_outs_send.1 hx).1.symm
  · intro hx; exact hd (mem_outs_send.1 hx).1.symm
  · intro hx; exact hd (mem_outs_recv.1 hx).1.symm
  · intro h hx; exact hd (mem_outs_send.1 hx).1.symm

theorem quiet_single (o : Out) (h1 : ∀ a m, o ≠ Out.recv .mech a m) (h2 : ∀ b m, o ≠ Out.send .mech b m) : Quiet [o] := by
  refine ⟨?_, ?_, ?_, ?_, ?_, ?_⟩ <;> simp <;> first | (intro h hx; exact absurd hx.symm (h1 _ _)) | (intro hx; exact absurd hx.symm (h1 _ _)) | (intro h hx; exact absurd hx.symm (h2 _ _)) | (intro hx; exact absurd hx.symm (h2 _ _))

theorem mi_reach {cfg : Config} (hx : cfg.external = false) {s : State} {tr : List Out} (hr : Reach cfg s tr) :
    MI cfg s tr := by
  induction hr with
  | init =>
    refine ⟨by simp, ?_, ?_, ?_, ?_, ?_, ?_, by simp, by simp [State.init, MSt.init], by simp, by simp⟩ <;>
      simp [State.init, MSt.init]
  | @step s s' tr outs e hr hs ih =>
    have hT := ty_reach hr
    have hM := ms_reach hr
    have hR := rinv_reach hr
    refine step_elim (motive := fun s' outs => MI cfg s' (tr ++ outs)) hs ?_ ?_ ?_ ?_ ?_
    · intro _; exact MI_quiet ih (quiet_single _ (by intro a m h; cases h) (by intro a m h; cases h)) (Or.inl rfl)
    · intro _ _; exact MI_quiet ih (quiet_single _ (by intro a m h; cases h) (by intro a m h; cases h)) (Or.inl rfl)
    · intro added ip _; exact MI_quiet ih (quiet_single _ (by intro a m h; cases h) (by intro a m h; cases h)) (Or.inl rfl)
    · intro s0 dst src msg hp _
      obtain ⟨_, _, h3, _⟩ := pre_allowed hT hp
      exact MI_quiet ih (quiet_single _ (by intro a m h; cases h) (by intro a m h; cases h)) (Or.inl h3)
    · intro s0 dst src msg s1 effs hp hh
      obtain ⟨ha0, _, h3, _⟩ := pre_allowed hT hp
      by_cases hd : dst = .mech
      · subst hd
        obtain ⟨he, h1⟩ := handle_mech' hh
        rw [h3] at he h1
        have ha : allowed (nHosts cfg) src .mech msg := by
          rcases ha0 with ha | ⟨_, k, hk, _⟩
          · exact ha
          · cases hk
        clear ha0
        have hst : (applyEffs Aid.mech s1 effs).m = (recvMech cfg s.m msg src).st := by rw [applyEffs_m, h1]
        have hpop : ∃ rest, s.chan src .mech = msg :: rest := by
          cases hp with
          | pop _ _ _ rest hc => exact ⟨rest, hc⟩
        obtain ⟨rest, hc⟩ := hpop
        cases msg <;> cases src <;> simp only [allowed] at ha
        · -- StartEngine from race control
          have hnone : s.m.status = .none := by
            have := head_count hr hc
            have h1 := hR.r1
            have : tr.count (Out.recv .mech .rc .startEngine) = 0 := by split at h1 <;> omega
            by_cases hn : s.m.status = .none
            · exact hn
            · exact absurd (List.count_pos_iff.2 (hM.ms3 hn)) (by omega)
          by_cases hh0 : cfg.hosts = []
          · rw [mech_start_empty cfg s.m hh0] at he hst
            have he' : effs = [Eff.tell .rc (.failure .guard)] := by rw [he]; simp [poisonEff]
            subst he'
            refine MI_quiet ih ?_ (Or.inr ⟨by rw [hst]; exact hnone, hnone⟩)
            refine ⟨?_, ?_, ?_, ?_, ?_, ?_⟩ <;> simp [toOut]
          · rw [mech_start_exact cfg s.m hh0 hx] at he hst
            have he' : effs = [Eff.createDisp, Eff.tell .disp .startEngine] := by rw [he]; simp [poisonEff]
            subst he'
            have hq : Quiet [Out.recv Aid.mech Aid.rc Msg.startEngine, toOut Aid.mech Eff.createDisp,
                toOut Aid.mech (Eff.tell Aid.disp Msg.startEngine)] := by
              refine ⟨?_, ?_, ?_, ?_, ?_, ?_⟩ <;> simp [toOut]
            have i0 := ih.i0 (Or.inl hnone)
            have hRSE : RSE ∉ tr := fun hx => by
              rcases ih.i7.1 hx with h | h <;> (rw [hnone] at h; cases h)
            simp only [List.map_cons, List.map_nil]
            refine ⟨?_, ?_, ?_, ?_, ?_, ?_, ?_, ?_, ?_, ?_, ?_⟩
            · intro _; simp only [mem_append_quiet hq.q4, mem_append_quiet (hq.q2 _)]; exact i0
            · intro _
              rw [hst]
              refine ⟨rfl, rfl, by rw [mem_append_quiet hq.q3]; exact hM.ms4 hnone, [], by simp, by simp, rfl, ?_, ?_⟩
              · symm; apply cnt_zero
                intro i _; rw [mem_append_quiet (hq.q1 _)]; exact none_no_NSr hr hnone i
              · intro a; simp only [List.not_mem_nil, false_iff, not_exists, not_and]
                intro i _ _; rw [mem_append_quiet (hq.q1 _)]; exact none_no_NSr hr hnone i
            · intro hs; rw [hst] at hs; rcases hs with hs | hs <;> cases hs
            · intro hs; rw [hst] at hs; cases hs
            · intro hs; rw [hst] at hs; cases hs
            · intro hs; rw [hst] at hs; cases hs
            · intro hs; rw [hst] at hs; exact absurd rfl hs.2
            · rw [mem_append_quiet hq.q4]; intro h; exact absurd h i0.1
            · rw [mem_append_quiet hq.q5, hst]; simp; exact hRSE
            · rw [List.count_append, List.count_append, List.count_eq_zero_of_not_mem hq.q3,
                List.count_eq_zero_of_not_mem hq.q4]; exact ih.i8
            · intro h; rw [mem_append_quiet (hq.q6 h), mem_append_quiet hq.q5]; exact ih.i9 h
        · -- StopEngine from race control: only in cluster_started
          obtain ⟨hRSE, hES⟩ := head_stopEngine hr hc
          have hcs : s.m.status = .clusterStarted := by
            cases hs : s.m.status with
            | none => exact absurd hES (hM.ms4 hs)
            | starting => exact absurd hES (ih.i1 hs).2.2.1
            | clusterStarted => rfl
            | clusterStopping => exact absurd (ih.i7.2 (Or.inl hs)) hRSE
            | clusterStopped => exact absurd (ih.i7.2 (Or.inr hs)) hRSE
          obtain ⟨hrc, hext, hlen, hall⟩ := ih.i2 (Or.inl hcs)
          rw [mech_stop_exact cfg s.m .rc hext] at he hst
          have he' : effs = (somes s.m.children).map (Eff.tell · .stopNodes) := by rw [he]; simp [poisonEff]
          have i0 := ih.i0 (Or.inr (Or.inr hcs))
          have hsend : ∀ b m, Out.send .mech b m ∈ Out.recv Aid.mech Aid.rc Msg.stopEngine :: effs.map (toOut Aid.mech) →
              m = .stopNodes := by
            intro b m hx
            have := (mem_outs_send.1 hx).2
            rw [he'] at this
            obtain ⟨a, _, h5⟩ := List.mem_map.1 this
            injection h5 with _ h5; exact h5.symm
          have q1 : ∀ h, NSr(h) ∉ Out.recv Aid.mech Aid.rc Msg.stopEngine :: effs.map (toOut Aid.mech) := by
            intro h hx; have := (mem_outs_recv.1 hx).2.1; cases this
          have q2 : ∀ h, NPr(h) ∉ Out.recv Aid.mech Aid.rc Msg.stopEngine :: effs.map (toOut Aid.mech) := by
            intro h hx; have := (mem_outs_recv.1 hx).2.1; cases this
          have q3 : ES ∉ Out.recv Aid.mech Aid.rc Msg.stopEngine :: effs.map (toOut Aid.mech) := by
            intro hx; cases hsend _ _ hx
          have q4 : EP ∉ Out.recv Aid.mech Aid.rc Msg.stopEngine :: effs.map (toOut Aid.mech) := by
            intro hx; cases hsend _ _ hx
          have hRSE' : RSE ∈ tr ++ Out.recv Aid.mech Aid.rc Msg.stopEngine :: effs.map (toOut Aid.mech) :=
            List.mem_append_right _ List.mem_cons_self
          refine ⟨?_, ?_, ?_, ?_, ?_, ?_, ?_, ?_, ?_, ?_, ?_⟩
          · intro hs; rw [hst] at hs; rcases hs with hs | hs | hs <;> cases hs
          · intro hs; rw [hst] at hs; cases hs
          · intro _; rw [hst]; exact ⟨hrc, hext, hlen, hall⟩
          · intro hs; rw [hst] at hs; cases hs
          · intro _; rw [hst]
            refine ⟨?_, by rw [mem_append_quiet q4]; exact i0.1⟩
            show s.m.received = _
            rw [ih.i2r hcs]; symm; apply cnt_zero
            intro i _; rw [mem_append_quiet (q2 i)]; exact i0.2 i
          · intro hs; rw [hst] at hs; cases hs
          · intro _ h hh; rw [mem_append_quiet (q1 h)]; exact ih.i5 (by rw [hcs]; exact ⟨by simp, by simp⟩) h hh
          · rw [mem_append_quiet q4]; intro h; exact absurd h i0.1
          · rw [hst]; simp
          · rw [List.count_append, List.count_append, List.count_eq_zero_of_not_mem q3,
              List.count_eq_zero_of_not_mem q4]; exact ih.i8
          · intro h _; exact hRSE'
        · -- NodesStarted from a node actor: only while starting, and for the first time
          rename_i h0
          obtain ⟨h, heq, hlt, hNSr, hnn⟩ := head_nodesStarted hr hc
          injection heq with heq; subst heq
          have hs : s.m.status = .starting := by
            cases hs : s.m.status with
            | none => exact absurd hs hnn
            | starting => rfl
            | clusterStarted => exact absurd (ih.i5 (by rw [hs]; exact ⟨by simp, by simp⟩) _ hlt) hNSr
            | clusterStopping => exact absurd (ih.i5 (by rw [hs]; exact ⟨by simp, by simp⟩) _ hlt) hNSr
            | clusterStopped => exact absurd (ih.i5 (by rw [hs]; exact ⟨by simp, by simp⟩) _ hlt) hNSr
          obtain ⟨hrc, hext, hES, l, hch, hlen, hrec, hcs, hiff⟩ := ih.i1 hs
          have i0 := ih.i0 (Or.inr (Or.inl hs))
          have hnl : Aid.node h0 ∉ l := by
            intro hx; obtain ⟨i, _, hi, hm⟩ := (hiff _).1 hx; injection hi with hi; subst hi; exact hNSr hm
          have hnc : some (Aid.node h0) ∉ s.m.children := by
            rw [hch]; simp only [List.mem_append, List.mem_map, List.mem_replicate]
            rintro (⟨a, ha1, ha2⟩ | ⟨_, hx⟩)
            · injection ha2 with ha2; subst ha2; exact hnl ha1
            · cases hx
          have hltl : l.length < nHosts cfg := by rw [hcs]; exact cnt_lt hlt hNSr
          have hclen : s.m.children.length = nHosts cfg := by rw [hch]; simp; omega
          have hch' : (some (Aid.node h0) :: s.m.children).dropLast =
              (Aid.node h0 :: l).map some ++ List.replicate (nHosts cfg - (l.length + 1)) none := by
            rw [hch]
            have : nHosts cfg - l.length = (nHosts cfg - (l.length + 1)) + 1 := by omega
            rw [this, ← List.cons_append, ← List.map_cons, dropLast_append_replicate]
          have hRSE : RSE ∉ tr := fun hx => by
            rcases ih.i7.1 hx with h | h <;> (rw [hs] at h; cases h)
          -- the outputs of this step
          have o1 : ∀ i, NSr(i) ∈ Out.recv Aid.mech (Aid.node h0) Msg.nodesStarted :: effs.map (toOut Aid.mech) ↔ i = h0 := by
            intro i; constructor
            · intro hx; have := (mem_outs_recv.1 hx).2.1; injection this
            · intro hx; subst hx; exact List.mem_cons_self
          have q2 : ∀ i, NPr(i) ∉ Out.recv Aid.mech (Aid.node h0) Msg.nodesStarted :: effs.map (toOut Aid.mech) := by
            intro i hx; have := (mem_outs_recv.1 hx).2.2; cases this
          have q5 : RSE ∉ Out.recv Aid.mech (Aid.node h0) Msg.nodesStarted :: effs.map (toOut Aid.mech) := by
            intro hx; have := (mem_outs_recv.1 hx).2.2; cases this
          have hcS : cS cfg (tr ++ Out.recv Aid.mech (Aid.node h0) Msg.nodesStarted :: effs.map (toOut Aid.mech)) =
              cS cfg tr + 1 := by
            unfold cS
            refine cnt_step (P := fun i => NSr(i) ∈ tr)
              (Q := fun i => NSr(i) ∈ tr ++ Out.recv Aid.mech (Aid.node h0) Msg.nodesStarted :: effs.map (toOut Aid.mech))
              hlt hNSr (List.mem_append_right _ ((o1 h0).2 rfl)) ?_
            intro i _ hne
            constructor
            · intro hx; rcases List.mem_append.1 hx with hx | hx
              · exact hx
              · exact absurd ((o1 i).1 hx) hne
            · exact List.mem_append_left _
          by_cases hlast : s.m.received + 1 = s.m.children.length
          · -- the last acknowledgement: EngineStarted
            rw [mech_ns_last cfg s.m _ hs hnc hrc hlast] at he hst
            have he' : effs = [Eff.tell .rc .engineStarted] := by rw [he]; simp [poisonEff]
            have hall : ∀ i, i < nHosts cfg → NSr(i) ∈ tr ++ Out.recv Aid.mech (Aid.node h0) Msg.nodesStarted :: effs.map (toOut Aid.mech) := by
              apply cnt_eq_all
              show cS cfg _ = _
              rw [hcS, ← hcs, ← hrec, hlast, hclen]
            have q4 : EP ∉ Out.recv Aid.mech (Aid.node h0) Msg.nodesStarted :: effs.map (toOut Aid.mech) := by
              rw [he']; simp [toOut]
            have q6 : ∀ i, STs(i) ∉ Out.recv Aid.mech (Aid.node h0) Msg.nodesStarted :: effs.map (toOut Aid.mech) := by
              rw [he']; simp [toOut]
            have hl1 : l.length + 1 = nHosts cfg := by omega
            refine ⟨?_, ?_, ?_, ?_, ?_, ?_, ?_, ?_, ?_, ?_, ?_⟩
            · intro _; simp only [mem_append_quiet q4, mem_append_quiet (q2 _)]; exact i0
            · intro hs'; rw [hst] at hs'; cases hs'
            · intro _; rw [hst]
              refine ⟨hrc, hext, ?_, ?_⟩
              · show ((some (Aid.node h0) :: s.m.children).dropLast).length = _
                simp [hclen]
              · show ∀ c ∈ (some (Aid.node h0) :: s.m.children).dropLast, c ≠ none
                rw [hch']
                have : nHosts cfg - (l.length + 1) = 0 := by omega
                rw [this]
                intro c hc; simp at hc
                rcases hc with hc | ⟨a, _, hc⟩ <;> (subst hc; simp)
            · intro _; rw [hst]
            · intro hs'; rw [hst] at hs'; cases hs'
            · intro hs'; rw [hst] at hs'; cases hs'
            · intro _; exact hall
            · rw [mem_append_quiet q4]; intro h; exact absurd h i0.1
            · rw [mem_append_quiet q5, hst]; simp; exact hRSE
            · rw [List.count_append, List.count_append, List.count_eq_zero_of_not_mem q4,
                List.count_eq_zero_of_not_mem hES, he']
              simp [toOut]; exact ih.i8.2
            · intro i; rw [mem_append_quiet (q6 i), mem_append_quiet q5]; exact ih.i9 i
          · -- more acknowledgements are expected
            have hmore : s.m.received + 1 < s.m.children.length := by omega
            rw [mech_ns_more cfg s.m _ hs hnc hmore] at he hst
            have he' : effs = [] := by rw [he]; simp [poisonEff]
            have q3 : ES ∉ Out.recv Aid.mech (Aid.node h0) Msg.nodesStarted :: effs.map (toOut Aid.mech) := by
              rw [he']; simp
            have q4 : EP ∉ Out.recv Aid.mech (Aid.node h0) Msg.nodesStarted :: effs.map (toOut Aid.mech) := by
              rw [he']; simp
            have q6 : ∀ i, STs(i) ∉ Out.recv Aid.mech (Aid.node h0) Msg.nodesStarted :: effs.map (toOut Aid.mech) := by
              rw [he']; simp
            refine ⟨?_, ?_, ?_, ?_, ?_, ?_, ?_, ?_, ?_, ?_, ?_⟩
            · intro _; simp only [mem_append_quiet q4, mem_append_quiet (q2 _)]; exact i0
            · intro _; rw [hst]
              refine ⟨hrc, hext, by rw [mem_append_quiet q3]; exact hES, Aid.node h0 :: l, ?_, ?_, ?_, ?_, ?_⟩
              · show (some (Aid.node h0) :: s.m.children).dropLast = _
                rw [hch']; simp
              · simp; omega
              · show s.m.received + 1 = _
                simp [hrec]
              · rw [hcS, ← hcs]; simp
              · intro a
                simp only [List.mem_cons]
                constructor
                · rintro (hx | hx)
                  · exact ⟨h0, hlt, hx, List.mem_append_right _ ((o1 h0).2 rfl)⟩
                  · obtain ⟨i, hi1, hi2, hi3⟩ := (hiff a).1 hx
                    exact ⟨i, hi1, hi2, List.mem_append_left _ hi3⟩
                · rintro ⟨i, hi1, hi2, hi3⟩
                  rcases List.mem_append.1 hi3 with hi3 | hi3
                  · exact Or.inr ((hiff a).2 ⟨i, hi1, hi2, hi3⟩)
                  · have := (o1 i).1 hi3; subst this; exact Or.inl hi2
            · intro hs'; rw [hst] at hs'; rw [hs] at hs'; rcases hs' with hs' | hs' <;> cases hs'
            · intro hs'; rw [hst] at hs'; rw [hs] at hs'; cases hs'
            · intro hs'; rw [hst] at hs'; rw [hs] at hs'; cases hs'
            · intro hs'; rw [hst] at hs'; rw [hs] at hs'; cases hs'
            · intro hs'; rw [hst] at hs'; exact absurd hs hs'.2
            · rw [mem_append_quiet q4]; intro h; exact absurd h i0.1
            · rw [mem_append_quiet q5, hst]
              show RSE ∈ tr ↔ (s.m.status = _ ∨ s.m.status = _)
              exact ih.i7
            · rw [List.count_append, List.count_append, List.count_eq_zero_of_not_mem q4,
                List.count_eq_zero_of_not_mem q3]; exact ih.i8
            · intro i; rw [mem_append_quiet (q6 i), mem_append_quiet q5]; exact ih.i9 i
        · -- NodesStopped from a node actor: only while stopping, and for the first time
          rename_i h0
          have hNPs := chan_sent hr (a := .node h0) (b := .mech) (m := .nodesStopped) (by rw [hc]; exact List.mem_cons_self)
          have hNPr : NPr(h0) ∉ tr := by
            have := head_count hr hc
            have := count_NPs_le hr h0
            intro hx; have := List.count_pos_iff.2 hx; omega
          have hRSE : RSE ∈ tr := by
            have h7 := (ni_reach hr h0).n7 hNPs
            exact ih.i9 h0 (recv_sent hr (by intro hx; cases hx) h7)
          have hs : s.m.status = .clusterStopping := by
            rcases ih.i7.1 hRSE with h | h
            · exact h
            · exact absurd (ih.i4 h h0 ha) hNPr
          obtain ⟨hrc, hext, hclen, hall⟩ := ih.i2 (Or.inr hs)
          obtain ⟨hrec, hEP⟩ := ih.i3 hs
          have hlt : cPp cfg tr < nHosts cfg := cnt_lt ha hNPr
          have o1 : ∀ i, NPr(i) ∈ Out.recv Aid.mech (Aid.node h0) Msg.nodesStopped :: effs.map (toOut Aid.mech) ↔ i = h0 := by
            intro i; constructor
            · intro hx; have := (mem_outs_recv.1 hx).2.1; injection this
            · intro hx; subst hx; exact List.mem_cons_self
          have q1 : ∀ i, NSr(i) ∉ Out.recv Aid.mech (Aid.node h0) Msg.nodesStopped :: effs.map (toOut Aid.mech) := by
            intro i hx; have := (mem_outs_recv.1 hx).2.2; cases this
          have q5 : RSE ∉ Out.recv Aid.mech (Aid.node h0) Msg.nodesStopped :: effs.map (toOut Aid.mech) := by
            intro hx; have := (mem_outs_recv.1 hx).2.2; cases this
          have hcP : cPp cfg (tr ++ Out.recv Aid.mech (Aid.node h0) Msg.nodesStopped :: effs.map (toOut Aid.mech)) =
              cPp cfg tr + 1 := by
            unfold cPp
            refine cnt_step (P := fun i => NPr(i) ∈ tr)
              (Q := fun i => NPr(i) ∈ tr ++ Out.recv Aid.mech (Aid.node h0) Msg.nodesStopped :: effs.map (toOut Aid.mech))
              ha hNPr (List.mem_append_right _ ((o1 h0).2 rfl)) ?_
            intro i _ hne
            constructor
            · intro hx; rcases List.mem_append.1 hx with hx | hx
              · exact hx
              · exact absurd ((o1 i).1 hx) hne
            · exact List.mem_append_left _
          have hi5 : ∀ h, h < nHosts cfg → NSr(h) ∈ tr ++ Out.recv Aid.mech (Aid.node h0) Msg.nodesStopped :: effs.map (toOut Aid.mech) :=
            fun h hh => List.mem_append_left _ (ih.i5 (by rw [hs]; exact ⟨by simp, by simp⟩) h hh)
          by_cases hlast : s.m.received + 1 = s.m.children.length
          · -- the last confirmation: EngineStopped, then ActorExitRequest to every node actor
            rw [mech_np_last cfg s.m _ hs hrc hall hlast] at he hst
            have he' : effs = Eff.tell .rc .engineStopped :: (exitReqs s.m.children).1 := by rw [he]; simp [poisonEff]
            have hsend : ∀ b m, Out.send .mech b m ∈ Out.recv Aid.mech (Aid.node h0) Msg.nodesStopped :: effs.map (toOut Aid.mech) →
                m = .engineStopped ∨ m = .exitReq := by
              intro b m hx
              have := (mem_outs_send.1 hx).2
              rw [he'] at this
              rcases List.mem_cons.1 this with h5 | h5
              · injection h5 with _ h5; exact Or.inl h5
              · exact Or.inr (mem_exitReqs h5).1
            have q3 : ES ∉ Out.recv Aid.mech (Aid.node h0) Msg.nodesStopped :: effs.map (toOut Aid.mech) := by
              intro hx; rcases hsend _ _ hx with h | h <;> cases h
            have q6 : ∀ i, STs(i) ∉ Out.recv Aid.mech (Aid.node h0) Msg.nodesStopped :: effs.map (toOut Aid.mech) := by
              intro i hx; rcases hsend _ _ hx with h | h <;> cases h
            have hallP : ∀ i, i < nHosts cfg → NPr(i) ∈ tr ++ Out.recv Aid.mech (Aid.node h0) Msg.nodesStopped :: effs.map (toOut Aid.mech) := by
              apply cnt_eq_all
              show cPp cfg _ = _
              rw [hcP, ← hrec, hlast, hclen]
            have hcEP : (Out.recv Aid.mech (Aid.node h0) Msg.nodesStopped :: effs.map (toOut Aid.mech)).count EP = 1 := by
              rw [count_outs_send, he', List.count_cons]
              have : (exitReqs s.m.children).1.count (Eff.tell Aid.rc Msg.engineStopped) = 0 := by
                apply List.count_eq_zero_of_not_mem
                intro hx; cases (mem_exitReqs hx).1
              rw [this]; simp
            refine ⟨?_, ?_, ?_, ?_, ?_, ?_, ?_, ?_, ?_, ?_, ?_⟩
            · intro hs'; rw [hst] at hs'; rcases hs' with hs' | hs' | hs' <;> cases hs'
            · intro hs'; rw [hst] at hs'; cases hs'
            · intro hs'; rw [hst] at hs'; rcases hs' with hs' | hs' <;> cases hs'
            · intro hs'; rw [hst] at hs'; cases hs'
            · intro hs'; rw [hst] at hs'; cases hs'
            · intro _; exact hallP
            · intro _; exact hi5
            · intro _; exact hallP
            · rw [hst]; simp; exact Or.inl hRSE
            · rw [List.count_append, List.count_append, List.count_eq_zero_of_not_mem q3,
                List.count_eq_zero_of_not_mem hEP, hcEP]
              exact ⟨ih.i8.1, by omega⟩
            · intro i; rw [mem_append_quiet (q6 i)]; intro hx; exact List.mem_append_left _ (ih.i9 i hx)
          · -- more confirmations are expected
            have hmore : s.m.received + 1 < s.m.children.length := by rw [hclen, hrec]; omega
            rw [mech_np_more cfg s.m _ hs hmore] at he hst
            have he' : effs = [] := by rw [he]; simp [poisonEff]
            have q3 : ES ∉ Out.recv Aid.mech (Aid.node h0) Msg.nodesStopped :: effs.map (toOut Aid.mech) := by
              rw [he']; simp
            have q4 : EP ∉ Out.recv Aid.mech (Aid.node h0) Msg.nodesStopped :: effs.map (toOut Aid.mech) := by
              rw [he']; simp
            have q6 : ∀ i, STs(i) ∉ Out.recv Aid.mech (Aid.node h0) Msg.nodesStopped :: effs.map (toOut Aid.mech) := by
              rw [he']; simp
            refine ⟨?_, ?_, ?_, ?_, ?_, ?_, ?_, ?_, ?_, ?_, ?_⟩
            · intro hs'; rw [hst] at hs'; rw [hs] at hs'; rcases hs' with hs' | hs' | hs' <;> cases hs'
            · intro hs'; rw [hst] at hs'; rw [hs] at hs'; cases hs'
            · intro _; rw [hst]; exact ⟨hrc, hext, hclen, hall⟩
            · intro hs'; rw [hst] at hs'; rw [hs] at hs'; cases hs'
            · intro _; rw [hst]
              refine ⟨?_, by rw [mem_append_quiet q4]; exact hEP⟩
              show s.m.received + 1 = _
              rw [hcP, hrec]
            · intro hs'; rw [hst] at hs'; rw [hs] at hs'; cases hs'
            · intro _; exact hi5
            · rw [mem_append_quiet q4]; intro h; exact absurd h hEP
            · rw [mem_append_quiet q5, hst]
              show RSE ∈ tr ↔ (s.m.status = _ ∨ s.m.status = _)
              exact ih.i7
            · rw [List.count_append, List.count_append, List.count_eq_zero_of_not_mem q4,
                List.count_eq_zero_of_not_mem q3]; exact ih.i8
            · intro i; rw [mem_append_quiet (q6 i), mem_append_quiet q5]; exact ih.i9 i
        · -- BenchmarkFailure from the Dispatcher: forwarded, nothing else changes
          rename_i k
          have hq : Quiet (Out.recv Aid.mech Aid.disp (Msg.failure k) :: effs.map (toOut Aid.mech)) := by
            have hsend : ∀ b m, Out.send .mech b m ∈ Out.recv Aid.mech Aid.disp (Msg.failure k) :: effs.map (toOut Aid.mech) →
                (∃ k', m = .failure k') ∨ ∃ pm, m = .poison pm := by
              intro b m hx
              have := (mem_outs_send.1 hx).2
              rw [he] at this
              rcases List.mem_append.1 this with h5 | h5
              · simp only [recvMech] at h5; exact Or.inl ⟨_, (tellRc_tell h5).1⟩
              · exact Or.inr ⟨_, (poisonEff_tell h5).1⟩
            refine ⟨?_, ?_, ?_, ?_, ?_, ?_⟩
            · intro i hx; have := (mem_outs_recv.1 hx).2.2; cases this
            · intro i hx; have := (mem_outs_recv.1 hx).2.2; cases this
            · intro hx; rcases hsend _ _ hx with ⟨_, h⟩ | ⟨_, h⟩ <;> cases h
            · intro hx; rcases hsend _ _ hx with ⟨_, h⟩ | ⟨_, h⟩ <;> cases h
            · intro hx; have := (mem_outs_recv.1 hx).2.2; cases this
            · intro i hx; rcases hsend _ _ hx with ⟨_, h⟩ | ⟨_, h⟩ <;> cases h
          exact MI_quiet ih hq (Or.inl (by rw [hst]; simp [recvMech]))
        · -- BenchmarkFailure from a node actor: forwarded, nothing else changes
          rename_i k h0
          have hq : Quiet (Out.recv Aid.mech (Aid.node h0) (Msg.failure k) :: effs.map (toOut Aid.mech)) := by
            have hsend : ∀ b m, Out.send .mech b m ∈ Out.recv Aid.mech (Aid.node h0) (Msg.failure k) :: effs.map (toOut Aid.mech) →
                (∃ k', m = .failure k') ∨ ∃ pm, m = .poison pm := by
              intro b m hx
              have := (mem_outs_send.1 hx).2
              rw [he] at this
              rcases List.mem_append.1 this with h5 | h5
              · simp only [recvMech] at h5; exact Or.inl ⟨_, (tellRc_tell h5).1⟩
              · exact Or.inr ⟨_, (poisonEff_tell h5).1⟩
            refine ⟨?_, ?_, ?_, ?_, ?_, ?_⟩
            · intro i hx; have := (mem_outs_recv.1 hx).2.2; cases this
            · intro i hx; have := (mem_outs_recv.1 hx).2.2; cases this
            · intro hx; rcases hsend _ _ hx with ⟨_, h⟩ | ⟨_, h⟩ <;> cases h
            · intro hx; rcases hsend _ _ hx with ⟨_, h⟩ | ⟨_, h⟩ <;> cases h
            · intro hx; have := (mem_outs_recv.1 hx).2.2; cases this
            · intro i hx; rcases hsend _ _ hx with ⟨_, h⟩ | ⟨_, h⟩ <;> cases h
          exact MI_quiet ih hq (Or.inl (by rw [hst]; simp [recvMech]))
      · exact MI_quiet ih (quiet_of_other hd) (Or.inl (by rw [applyEffs_m, handle_m_other hd hh, h3]))

end Mechanic
