import RallyModel.ShipJoin

/-! Invariant of the worker-side step end (`RallyModel/ShipJoin.lean`) over every interleaving. -/

namespace ShipJoin

theorem shipped_append (a b : List Msg) : shipped (a ++ b) = shipped a ++ shipped b := by
  induction a with
  | nil => rfl
  | cons m r ih => cases m <;> simp [shipped, ih]

theorem shippedBefore_append (a b : List Msg) (h : Msg.joinPoint ∉ a) :
    shippedBefore (a ++ b) = shipped a ++ shippedBefore b := by
  induction a with
  | nil => rfl
  | cons m r ih =>
    cases m with
    | update ids => simp at h; simp [shipped, shippedBefore, ih h]
    | joinPoint => simp at h

structure Inv (s : St) : Prop where
  cons : shipped s.sent ++ s.q = s.added
  lost : s.lost = []
  fin : s.pc ≠ .idle → s.pc ≠ .drained → s.finished = true
  qe : s.pc = .shipped ∨ s.pc = .dropped ∨ s.pc = .joined → s.q = []
  nj : s.pc ≠ .joined → Msg.joinPoint ∉ s.sent
  sb : shippedBefore s.sent = shipped s.sent
  last : s.pc = .joined → s.sent.getLast? = some Msg.joinPoint

theorem inv_init (todo : List Nat) : Inv (init todo) := by
  constructor <;> simp [init, shipped, shippedBefore]

theorem inv_ship {s : St} (h : Inv s) (hp : s.pc ≠ .joined) :
    shipped (ship s).sent ++ (ship s).q = s.added ∧ (ship s).lost = [] ∧ (ship s).q = [] ∧ Msg.joinPoint ∉ (ship s).sent ∧
    shippedBefore (ship s).sent = shipped (ship s).sent ∧ (ship s).finished = s.finished ∧ (ship s).pc = s.pc ∧
    (ship s).added = s.added ∧ (ship s).todo = s.todo ∧ (ship s).futureSet = s.futureSet := by
  have hc := h.cons
  have hn := h.nj hp
  unfold ship
  split
  · rename_i hq
    simp [hq] at hc
    simp [hq, hc, h.lost, hn, h.sb]
  · rename_i x r hq
    simp [hq] at hc
    simp [shipped_append, shipped, hc, h.lost, hn, shippedBefore_append _ _ hn, shippedBefore]

theorem inv_step {e : Ev} {s s' : St} (h : Inv s) (hs : step true e s = some s') : Inv s' := by
  cases e with
  | add =>
    simp only [step] at hs
    split at hs
    · simp at hs
    · rename_i x r ht
      split at hs
      · simp at hs
      · rename_i hf
        simp at hs; subst hs
        have hfin := h.fin
        have hqe := h.qe
        have hpc : s.pc = .idle ∨ s.pc = .drained := by
          rcases hp : s.pc <;> simp [hp] at hfin ⊢ <;> simp [hfin] at hf
        constructor
        · simp [← h.cons]
        · exact h.lost
        · intro a b; simp at a b; rcases hpc with p | p <;> simp [p] at a b
        · intro a; simp at a; rcases hpc with p | p <;> simp [p] at a
        · exact h.nj
        · exact h.sb
        · intro a; simp at a; rcases hpc with p | p <;> simp [p] at a
  | finish =>
    simp only [step] at hs
    split at hs
    · simp at hs
    · rename_i hf
      simp at hs; subst hs
      have hfin := h.fin
      have hpc : s.pc = .idle ∨ s.pc = .drained := by
        rcases hp : s.pc <;> simp [hp] at hfin ⊢ <;> simp [hfin] at hf
      constructor
      · exact h.cons
      · exact h.lost
      · intro _ _; rfl
      · exact h.qe
      · exact h.nj
      · exact h.sb
      · exact h.last
  | wakeDrain =>
    simp only [step] at hs
    split at hs
    · rename_i hp
      simp at hs; subst hs
      obtain ⟨a, b, c, d, e, f, g, i, j, k⟩ := inv_ship h (by simp [hp])
      constructor <;> simp_all
    · simp at hs
  | checkDone =>
    simp only [step] at hs
    split at hs
    · rename_i hp
      split at hs
      · rename_i hd
        simp at hs; subst hs
        simp at hd
        constructor
        · exact h.cons
        · exact h.lost
        · intro _ _; exact hd.2
        · intro a; simp at a
        · intro _; exact h.nj (by simp [hp])
        · exact h.sb
        · intro a; simp at a
      · simp at hs; subst hs
        constructor
        · exact h.cons
        · exact h.lost
        · intro a; simp at a
        · intro a; simp at a
        · intro _; exact h.nj (by simp [hp])
        · exact h.sb
        · intro a; simp at a
    · simp at hs
  | driveWait =>
    simp only [step] at hs
    split at hs
    · rename_i hp
      split at hs
      · simp at hs
      · simp at hs; subst hs
        have hf := h.fin (by simp [hp]) (by simp [hp])
        constructor
        · exact h.cons
        · exact h.lost
        · intro _ _; exact hf
        · intro a; simp at a
        · intro _; exact h.nj (by simp [hp])
        · exact h.sb
        · intro a; simp at a
    · simp at hs
  | driveDrain =>
    simp only [step] at hs
    split at hs
    · rename_i hp
      simp at hs; subst hs
      have hf := h.fin (by simp [hp]) (by simp [hp])
      obtain ⟨a, b, c, d, e, f, g, i, j, k⟩ := inv_ship h (by simp [hp])
      constructor <;> simp_all
    · simp at hs
  | driveDrop =>
    simp only [step] at hs
    split at hs
    · rename_i hp
      simp at hs; subst hs
      have hf := h.fin (by simp [hp]) (by simp [hp])
      have hq := h.qe (Or.inl hp)
      have hc := h.cons
      have hn := h.nj (by simp [hp])
      constructor
      · simpa [hq] using hc
      · simp [h.lost, hq]
      · intro _ _; exact hf
      · intro _; rfl
      · intro _; exact hn
      · exact h.sb
      · intro a; simp at a
    · simp at hs
  | sendJoin =>
    simp only [step] at hs
    split at hs
    · rename_i hp
      simp at hs; subst hs
      have hf := h.fin (by simp [hp]) (by simp [hp])
      have hq := h.qe (Or.inr (Or.inl hp))
      have hc := h.cons
      have hn := h.nj (by simp [hp])
      constructor
      · simpa [shipped_append, shipped, hq] using hc
      · exact h.lost
      · intro _ _; exact hf
      · intro _; exact hq
      · intro a; simp at a
      · simp [shippedBefore_append _ _ hn, shipped_append, shipped, shippedBefore]
      · intro _; simp
    · simp at hs

theorem inv_run {evs : List Ev} {s s' : St} (h : Inv s) (hr : run true evs s = some s') : Inv s' := by
  induction evs generalizing s with
  | nil => simp [run] at hr; subst hr; exact h
  | cons e es ih =>
    simp only [run] at hr
    cases hst : step true e s with
    | none => simp [hst] at hr
    | some s1 => simp [hst] at hr; exact ih (inv_step h hst) hr

/-- what the thread has added and what it would still add is the script it started with, for both variants of `drive()` -/
theorem added_todo_step {jd : Bool} {e : Ev} {s s' : St} (hs : step jd e s = some s') : s'.added ++ s'.todo = s.added ++ s.todo := by
  cases e <;> simp only [step] at hs
  · split at hs
    · simp at hs
    · rename_i x r ht
      split at hs
      · simp at hs
      · simp at hs; subst hs; simp [ht]
  · split at hs <;> simp at hs; subst hs; rfl
  · split at hs <;> simp at hs; subst hs; unfold ship; split <;> rfl
  · split at hs
    · split at hs <;> (simp at hs; subst hs; rfl)
    · simp at hs
  · split at hs
    · split at hs <;> simp at hs; subst hs; rfl
    · simp at hs
  · split at hs <;> simp at hs; subst hs; cases jd <;> simp <;> (unfold ship; split <;> rfl)
  · split at hs <;> simp at hs; subst hs; rfl
  · split at hs <;> simp at hs; subst hs; rfl

theorem added_todo_run {jd : Bool} {evs : List Ev} {s s' : St} (hr : run jd evs s = some s') : s'.added ++ s'.todo = s.added ++ s.todo := by
  induction evs generalizing s with
  | nil => simp [run] at hr; subst hr; rfl
  | cons e es ih =>
    simp only [run] at hr
    cases hst : step jd e s with
    | none => simp [hst] at hr
    | some s1 => simp [hst] at hr; rw [ih hr, added_todo_step hst]

end ShipJoin
