import RallyProofs.MechanicInv

set_option linter.unusedSimpArgs false
set_option linter.unusedVariables false

namespace Mechanic

/-! ### facts about one run of the MechanicActor's handler -/

theorem onStarted_st (st : MSt) : (onStarted st).st = st := by unfold onStarted; split <;> rfl
theorem onStopped_status (st : MSt) : (onStopped st).st.status = st.status := by
  unfold onStopped; split
  · rfl
  · split <;> rfl

theorem transition_cases (st : MSt) (e n : Status) (k : MSt → Res MSt) :
    (st.status = e ∧ st.received + 1 = st.children.length ∧
        transition st e n k = k { st with received := 0, status := n }) ∨
      ((transition st e n k).effs = [] ∧ (transition st e n k).st.status = st.status ∧
        (transition st e n k).st.children = st.children ∧ (transition st e n k).st.raceControl = st.raceControl ∧
        (transition st e n k).st.external = st.external ∧
        ((transition st e n k).raised = false → st.status = e ∧ st.received + 1 < st.children.length ∧
          (transition st e n k).st.received = st.received + 1)) := by
  unfold transition
  by_cases h1 : st.status = e
  · simp only [h1, if_true]
    by_cases h2 : st.received + 1 = st.children.length
    · left; simp [h2]
    · right
      simp only [h2, if_false]
      split
      · simp
      · simp; omega
  · right; simp [h1]

theorem mech_status_none {cfg : Config} {st : MSt} {msg : Msg} {src : Aid}
    (h : (recvMech cfg st msg src).st.status = .none) : st.status = .none := by
  cases msg <;> simp only [recvMech, guard_st, tellRc_st] at h <;> try exact h
  · -- startEngine
    simp only [mechStart] at h
    split at h
    · exact h
    · split at h <;> cases h
  · -- stopEngine
    simp only [mechStop] at h
    split at h
    · rw [onStopped_status] at h; exact h
    · cases h
  · -- nodesStarted
    simp only [mechNodesStarted] at h
    rcases transition_cases (if some src ∈ st.children then st else { st with children := (some src :: st.children).dropLast })
      .starting .clusterStarted onStarted with ⟨_, _, h3⟩ | ⟨_, h3, _⟩
    · rw [h3, onStarted_st] at h; cases h
    · rw [h3] at h; split at h <;> exact h
  · -- nodesStopped
    simp only [mechNodesStopped] at h
    rcases transition_cases st .clusterStopping .clusterStopped onStopped with ⟨_, _, h3⟩ | ⟨_, h3, _⟩
    · rw [h3, onStopped_status] at h; cases h
    · rw [h3] at h; exact h
  · -- childExited
    split at h <;> first | exact h | (rw [tellRc_st] at h; exact h)

theorem mech_leaves_none {cfg : Config} {st : MSt} {msg : Msg} {src : Aid} (h0 : st.status = .none)
    (h : (recvMech cfg st msg src).st.status ≠ .none) : msg = .startEngine ∨ msg = .stopEngine := by
  cases msg <;> simp only [recvMech, guard_st, tellRc_st] at h <;> try (first | exact absurd h0 h | simp)
  · -- nodesStarted
    exfalso; apply h
    simp only [mechNodesStarted]
    rcases transition_cases (if some src ∈ st.children then st else { st with children := (some src :: st.children).dropLast })
      .starting .clusterStarted onStarted with ⟨h1, _, _⟩ | ⟨_, h3, _⟩
    · split at h1 <;> (rw [h0] at h1; cases h1)
    · rw [h3]; split <;> exact h0
  · -- nodesStopped
    exfalso; apply h
    simp only [mechNodesStopped]
    rcases transition_cases st .clusterStopping .clusterStopped onStopped with ⟨h1, _, _⟩ | ⟨_, h3, _⟩
    · rw [h0] at h1; cases h1
    · rw [h3]; exact h0
  · -- childExited
    exfalso; apply h
    split <;> first | exact h0 | (rw [tellRc_st]; exact h0)


theorem onStarted_tell {st : MSt} {d : Aid} {m : Msg} (h : Eff.tell d m ∈ (onStarted st).effs) :
    m = .engineStarted ∧ st.raceControl = some d := by
  unfold onStarted at h; split at h
  · simp at h
  · rename_i r hr; simp at h; obtain ⟨h1, h2⟩ := h; subst h1 h2; exact ⟨rfl, hr⟩

theorem onStopped_tell {st : MSt} {d : Aid} {m : Msg} (h : Eff.tell d m ∈ (onStopped st).effs) :
    (m = .engineStopped ∧ st.raceControl = some d) ∨ (m = .exitReq ∧ some d ∈ st.children) := by
  unfold onStopped at h; split at h
  · simp at h
  · rename_i r hr
    have key : Eff.tell d m ∈ Eff.tell r Msg.engineStopped :: (exitReqs st.children).1 →
        (m = .engineStopped ∧ st.raceControl = some d) ∨ (m = .exitReq ∧ some d ∈ st.children) := by
      intro h
      rcases List.mem_cons.1 h with h | h
      · injection h with h1 h2; subst h1 h2; exact Or.inl ⟨rfl, hr⟩
      · exact Or.inr (mem_exitReqs h)
    split at h <;> exact key h

theorem tellRc_tell {st : MSt} {m0 : Msg} {d : Aid} {m : Msg} (h : Eff.tell d m ∈ (tellRc st m0).effs) :
    m = m0 ∧ st.raceControl = some d := by
  unfold tellRc at h; split at h
  · simp at h
  · rename_i r hr; simp at h; obtain ⟨h1, h2⟩ := h; subst h1 h2; exact ⟨rfl, hr⟩

/-- what the MechanicActor tells, by kind, in one run (no typing assumption) -/
theorem mech_tell {cfg : Config} {st : MSt} {msg : Msg} {src d : Aid} {m : Msg}
    (h : Eff.tell d m ∈ (recvMech cfg st msg src).effs) :
    (m = .failure .guard) ∨
    (msg = .startEngine ∧ m = .startEngine ∧ d = .disp ∧ cfg.external = false ∧
        (recvMech cfg st msg src).st.status = .starting) ∨
    (msg = .startEngine ∧ m = .engineStarted ∧ cfg.external = true ∧ (recvMech cfg st msg src).st.status = .clusterStarted) ∨
    (msg = .nodesStarted ∧ m = .engineStarted ∧ (recvMech cfg st msg src).st.status = .clusterStarted ∧ st.status = .starting) ∨
    (msg = .stopEngine ∧ (m = .stopNodes ∨ m = .engineStopped ∨ m = .exitReq)) ∨
    (msg = .nodesStopped ∧ (m = .engineStopped ∨ m = .exitReq) ∧ st.status = .clusterStopping ∧
        (recvMech cfg st msg src).st.status = .clusterStopped) ∨
    (∃ k, m = .failure k ∧ (msg = .failure k ∨ (∃ x, msg = .childExited x) ∨ ∃ pm, msg = .poison pm)) := by
  cases msg <;> simp only [recvMech, guard_effs_eq, guard_st, List.mem_append] at h ⊢ <;> try (simp at h; done)
  · -- startEngine
    rcases h with h | h
    · simp only [mechStart] at h ⊢
      split at h
      · simp at h
      · split at h
        · rename_i hh0 hx
          have hne : ¬ cfg.hosts = [] := by simpa [List.isEmpty_iff] using hh0
          simp at h; obtain ⟨_, h2⟩ := h; subst h2; right; right; left; simp [hx, hne]
        · rename_i hh0 hx
          have hne : ¬ cfg.hosts = [] := by simpa [List.isEmpty_iff] using hh0
          simp at h; obtain ⟨h1, h2⟩ := h; subst h1 h2; right; left; simp [hx, hne]
    · split at h <;> simp at h; left; exact h.2
  · -- stopEngine
    rcases h with h | h
    · simp only [mechStop] at h
      split at h
      · rcases onStopped_tell h with h | h <;> simp [h.1]
      · simp only [List.mem_map] at h; obtain ⟨_, _, h⟩ := h; injection h with _ h; subst h; simp
    · split at h <;> simp at h; left; exact h.2
  · -- nodesStarted
    rcases h with h | h
    · simp only [mechNodesStarted] at h ⊢
      rcases transition_cases (if some src ∈ st.children then st else { st with children := (some src :: st.children).dropLast })
        .starting .clusterStarted onStarted with ⟨h1, _, h3⟩ | ⟨h3, _⟩
      · rw [h3] at h ⊢
        have := (onStarted_tell h).1; subst this
        right; right; right; left
        refine ⟨trivial, rfl, by rw [onStarted_st], ?_⟩
        split at h1 <;> exact h1
      · rw [h3] at h; simp at h
    · split at h <;> simp at h; left; exact h.2
  · -- nodesStopped
    rcases h with h | h
    · simp only [mechNodesStopped] at h ⊢
      rcases transition_cases st .clusterStopping .clusterStopped onStopped with ⟨h1, _, h3⟩ | ⟨h3, _⟩
      · rw [h3] at h ⊢
        right; right; right; right; right; left
        refine ⟨trivial, ?_, h1, by rw [onStopped_status]⟩
        rcases onStopped_tell h with h | h <;> simp [h.1]
      · rw [h3] at h; simp at h
    · split at h <;> simp at h; left; exact h.2
  · -- failure
    rename_i k
    have := (tellRc_tell h).1; subst this
    right; right; right; right; right; right; exact ⟨k, rfl, Or.inl rfl⟩
  · -- childExited
    rename_i x
    split at h
    · simp at h
    · have := (tellRc_tell h).1; subst this
      right; right; right; right; right; right; exact ⟨_, rfl, Or.inr (Or.inl ⟨x, rfl⟩)⟩
  · -- poison
    rename_i pm
    have := (tellRc_tell h).1; subst this
    right; right; right; right; right; right; exact ⟨_, rfl, Or.inr (Or.inr ⟨pm, rfl⟩)⟩

theorem poisonEff_tell {r : Bool} {src : Aid} {msg : Msg} {d : Aid} {m : Msg}
    (h : Eff.tell d m ∈ poisonEff r src msg) : m = .poison msg ∧ d = src := by
  unfold poisonEff at h
  split at h
  · split at h
    · simp at h
    · simp at h; exact ⟨h.2, h.1⟩
  · simp at h


/-! ### trace helpers -/

theorem mem_outs_send {dst src : Aid} {msg : Msg} {effs : List Eff} {a b : Aid} {m : Msg} :
    Out.send a b m ∈ (Out.recv dst src msg :: effs.map (toOut dst)) ↔ a = dst ∧ Eff.tell b m ∈ effs := by
  simp only [List.mem_cons, List.mem_map]
  constructor
  · rintro (h | ⟨e, he, h⟩)
    · cases h
    · cases e <;> simp only [toOut] at h <;> try cases h
      exact ⟨rfl, he⟩
  · rintro ⟨h1, h2⟩; subst h1; exact Or.inr ⟨_, h2, rfl⟩

theorem mem_outs_recv {dst src : Aid} {msg : Msg} {effs : List Eff} {a b : Aid} {m : Msg} :
    Out.recv a b m ∈ (Out.recv dst src msg :: effs.map (toOut dst)) ↔ a = dst ∧ b = src ∧ m = msg := by
  simp only [List.mem_cons, List.mem_map]
  constructor
  · rintro (h | ⟨e, he, h⟩)
    · injection h with h1 h2 h3; exact ⟨h1, h2, h3⟩
    · cases e <;> simp only [toOut] at h <;> cases h
  · rintro ⟨h1, h2, h3⟩; subst h1 h2 h3; exact Or.inl rfl

theorem mem_outs_call {dst src : Aid} {msg : Msg} {effs : List Eff} {h : Nat} {c : Call} :
    Out.call h c ∈ (Out.recv dst src msg :: effs.map (toOut dst)) ↔ Eff.call h c ∈ effs := by
  simp only [List.mem_cons, List.mem_map]
  constructor
  · rintro (h | ⟨e, he, h⟩)
    · cases h
    · cases e <;> simp only [toOut] at h <;> try cases h
      exact he
  · intro h2; exact Or.inr ⟨_, h2, rfl⟩

theorem handle_m_other {cfg : Config} {s0 s1 : State} {dst src : Aid} {msg : Msg} {effs : List Eff}
    (hd : dst ≠ .mech) (hh : handle cfg s0 dst src msg = some (s1, effs)) : s1.m = s0.m := by
  cases dst with
  | rc => rw [(handle_rc hh).2]
  | sys => rw [(handle_sys hh).2]
  | mech => exact absurd rfl hd
  | disp => rw [(handle_disp hh).2.2]
  | node h => rw [(handle_node hh).2.2]

theorem handle_mech' {cfg : Config} {s0 s1 : State} {src : Aid} {msg : Msg} {effs : List Eff}
    (h : handle cfg s0 .mech src msg = some (s1, effs)) :
    effs = (recvMech cfg s0.m msg src).effs ++ poisonEff (recvMech cfg s0.m msg src).raised src msg ∧
      s1 = { s0 with m := (recvMech cfg s0.m msg src).st } := by
  obtain ⟨h1, h2⟩ := handle_mech h
  rw [mech_run] at h1 h2
  exact ⟨h1, h2⟩

/-! ### the MechanicActor starts the Dispatcher at most once -/

structure MS (s : State) (tr : List Out) : Prop where
  ms1 : s.m.status = .none → Out.send .mech .disp .startEngine ∉ tr
  ms2 : tr.count (Out.send .mech .disp .startEngine) ≤ 1
  ms3 : s.m.status ≠ .none → Out.recv .mech .rc .startEngine ∈ tr
  ms4 : s.m.status = .none → Out.send .mech .rc .engineStarted ∉ tr

theorem mechStart_count (cfg : Config) (st : MSt) (src : Aid) :
    ((recvMech cfg st .startEngine src).effs ++ poisonEff (recvMech cfg st .startEngine src).raised src .startEngine).count
      (Eff.tell .disp .startEngine) ≤ 1 := by
  simp only [recvMech, guard_effs_eq, guard_raised, poisonEff, mechStart]
  split
  · simp [List.count_cons]
  · split <;> simp [List.count_cons]

theorem count_map_toOut_send (dst : Aid) (effs : List Eff) (b : Aid) (m : Msg) :
    (effs.map (toOut dst)).count (Out.send dst b m) = effs.count (Eff.tell b m) := by
  induction effs with
  | nil => simp
  | cons e r ih =>
    simp only [List.map_cons, List.count_cons, ih]
    cases e with
    | tell d m' =>
      by_cases h : d = b ∧ m' = m
      · obtain ⟨h1, h2⟩ := h; subst h1 h2; simp [toOut]
      · have h1 : ¬ (toOut dst (Eff.tell d m') == Out.send dst b m) = true := by
          simp only [toOut, beq_iff_eq]; intro hh; injection hh with _ h2 h3; exact h ⟨h2, h3⟩
        have h2 : ¬ (Eff.tell d m' == Eff.tell b m) = true := by
          simp only [beq_iff_eq]; intro hh; injection hh with h2 h3; exact h ⟨h2, h3⟩
        simp [h1, h2]
    | _ => simp [toOut]

theorem count_outs_send {dst src : Aid} {msg : Msg} {effs : List Eff} {b : Aid} {m : Msg} :
    (Out.recv dst src msg :: effs.map (toOut dst)).count (Out.send dst b m) = effs.count (Eff.tell b m) := by
  rw [List.count_cons, count_map_toOut_send]
  simp

theorem ms_reach {cfg : Config} {s : State} {tr : List Out} (hr : Reach cfg s tr) : MS s tr := by
  induction hr with
  | init => exact ⟨by simp, by simp, by simp [State.init, MSt.init], by simp⟩
  | @step s s' tr outs e hr hs ih =>
    have hT := ty_reach hr
    have hR := rinv_reach hr
    refine step_elim (motive := fun s' outs => MS s' (tr ++ outs)) hs ?_ ?_ ?_ ?_ ?_
    · intro _
      exact ⟨fun h => by simpa using ih.ms1 h, by simpa [List.count_append] using ih.ms2,
        fun h => List.mem_append_left _ (ih.ms3 h), fun h => by simpa using ih.ms4 h⟩
    · intro _ _
      exact ⟨fun h => by simpa using ih.ms1 h, by simpa [List.count_append] using ih.ms2,
        fun h => List.mem_append_left _ (ih.ms3 h), fun h => by simpa using ih.ms4 h⟩
    · intro added ip _
      exact ⟨fun h => by simpa using ih.ms1 h, by simpa [List.count_append] using ih.ms2,
        fun h => List.mem_append_left _ (ih.ms3 h), fun h => by simpa using ih.ms4 h⟩
    · intro s0 dst src msg hp _
      obtain ⟨_, _, h3, _⟩ := pre_allowed hT hp
      exact ⟨fun h => by simpa using ih.ms1 (h3 ▸ h), by simpa [List.count_append] using ih.ms2,
        fun h => List.mem_append_left _ (ih.ms3 (h3 ▸ h)), fun h => by simpa using ih.ms4 (h3 ▸ h)⟩
    · intro s0 dst src msg s1 effs hp hh
      obtain ⟨ha, _, h3, _⟩ := pre_allowed hT hp
      by_cases hd : dst = .mech
      · subst hd
        obtain ⟨he, h1⟩ := handle_mech' hh
        rw [h3] at he h1
        have ha : allowed (nHosts cfg) src .mech msg := by
          rcases ha with ha | ⟨_, k, hk, _⟩
          · exact ha
          · cases hk
        have hst : (applyEffs Aid.mech s1 effs).m = (recvMech cfg s.m msg src).st := by rw [applyEffs_m, h1]
        -- the head of the channel, if it is StartEngine, is the first one
        have hfirst : msg = .startEngine → s.m.status = .none := by
          intro hm; subst hm
          cases hp with
          | pop _ _ _ rest hc =>
            have hsrc : src = .rc := by cases src <;> simp [allowed] at ha; rfl
            subst hsrc
            have := head_count hr hc
            have h1 := hR.r1
            have : tr.count (Out.recv .mech .rc .startEngine) = 0 := by split at h1 <;> omega
            by_cases hn : s.m.status = .none
            · exact hn
            · exact absurd (List.count_pos_iff.2 (ih.ms3 hn)) (by omega)
        refine ⟨?_, ?_, ?_, ?_⟩
        · intro hs'
          rw [hst] at hs'
          have h0 := mech_status_none hs'
          intro hm
          rcases List.mem_append.1 hm with hm | hm
          · exact ih.ms1 h0 hm
          · obtain ⟨_, hm⟩ := mem_outs_send.1 hm
            rw [he] at hm
            rcases List.mem_append.1 hm with hm | hm
            · rcases mech_tell hm with h | ⟨_, _, _, _, h⟩ | ⟨_, h, _⟩ | ⟨_, h, _⟩ | ⟨_, h⟩ | ⟨_, h, _⟩ | ⟨k, h, _⟩
              · cases h
              · rw [hs'] at h; cases h
              · cases h
              · cases h
              · rcases h with h | h | h <;> cases h
              · rcases h with h | h <;> cases h
              · cases h
            · cases (poisonEff_tell hm).1
        · rw [List.count_append, count_outs_send, he]
          by_cases hm : msg = .startEngine
          · have h0 := ih.ms1 (hfirst hm)
            have : tr.count (Out.send .mech .disp .startEngine) = 0 := List.count_eq_zero_of_not_mem h0
            subst hm
            have := mechStart_count cfg s.m src
            omega
          · have : ((recvMech cfg s.m msg src).effs ++ poisonEff (recvMech cfg s.m msg src).raised src msg).count
                (Eff.tell .disp .startEngine) = 0 := by
              apply List.count_eq_zero_of_not_mem
              intro hm2
              rcases List.mem_append.1 hm2 with hm2 | hm2
              · rcases mech_tell hm2 with h | ⟨h, _⟩ | ⟨_, h, _⟩ | ⟨_, h, _⟩ | ⟨_, h⟩ | ⟨_, h, _⟩ | ⟨k, h, _⟩
                · cases h
                · exact hm h
                · cases h
                · cases h
                · rcases h with h | h | h <;> cases h
                · rcases h with h | h <;> cases h
                · cases h
              · cases (poisonEff_tell hm2).1
            have := ih.ms2
            omega
        · intro hs'
          rw [hst] at hs'
          by_cases hn : s.m.status = .none
          · rcases mech_leaves_none hn hs' with hm | hm
            · subst hm
              have hsrc : src = .rc := by cases src <;> simp [allowed] at ha; rfl
              subst hsrc
              exact List.mem_append_right _ (mem_outs_recv.2 ⟨rfl, rfl, rfl⟩)
            · subst hm
              exfalso
              have hsrc : src = .rc := by cases src <;> simp [allowed] at ha; rfl
              subst hsrc
              cases hp with
              | pop _ _ _ rest hc =>
                have hs1 := chan_sent hr (a := .rc) (b := .mech) (m := .stopEngine) (by rw [hc]; exact List.mem_cons_self)
                have h2 := hR.r2
                have : s.r.sentStop = true := by
                  by_cases hx : s.r.sentStop = true
                  · exact hx
                  · simp [hx] at h2; exact absurd hs1 (by simpa using List.count_eq_zero.1 h2)
                exact ih.ms4 hn (hR.r4 (hR.r3 this))
          · exact List.mem_append_left _ (ih.ms3 hn)
        · intro hs'
          rw [hst] at hs'
          have h0 := mech_status_none hs'
          intro hm
          rcases List.mem_append.1 hm with hm | hm
          · exact ih.ms4 h0 hm
          · obtain ⟨_, hm⟩ := mem_outs_send.1 hm
            rw [he] at hm
            rcases List.mem_append.1 hm with hm | hm
            · rcases mech_tell hm with h | ⟨_, h, _⟩ | ⟨_, _, _, h⟩ | ⟨_, _, h, _⟩ | ⟨_, h⟩ | ⟨_, h, _⟩ | ⟨k, h, _⟩
              · cases h
              · cases h
              · rw [hs'] at h; cases h
              · rw [hs'] at h; cases h
              · rcases h with h | h | h <;> cases h
              · rcases h with h | h <;> cases h
              · cases h
            · cases (poisonEff_tell hm).1
      · have hm1 := handle_m_other hd hh
        have hne : ∀ b m, Out.send .mech b m ∉ (Out.recv dst src msg :: effs.map (toOut dst)) := by
          intro b m hm; exact hd (mem_outs_send.1 hm).1.symm
        have hst : (applyEffs dst s1 effs).m = s.m := by rw [applyEffs_m, hm1, h3]
        refine ⟨?_, ?_, ?_, ?_⟩
        · intro h hm; rw [hst] at h
          rcases List.mem_append.1 hm with hm | hm
          · exact ih.ms1 h hm
          · exact hne _ _ hm
        · rw [List.count_append, List.count_eq_zero_of_not_mem (hne _ _)]; exact ih.ms2
        · intro h; rw [hst] at h; exact List.mem_append_left _ (ih.ms3 h)
        · intro h hm; rw [hst] at h
          rcases List.mem_append.1 hm with hm | hm
          · exact ih.ms4 h hm
          · exact hne _ _ hm

end Mechanic
