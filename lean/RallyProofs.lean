import RallyProofs.Alloc
import RallyProofs.Versions
