import RallyProofs.Versions
