import RallyProps.C15
