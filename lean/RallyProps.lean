import RallyProps.C02
import RallyProps.C15
