import Drivers.Main
