#!/usr/bin/env python3
"""Regenerates Drivers/Dispatch.lean, RallyModel.lean, RallyProofs.lean, RallyProps.lean from the files present.
Convention: Drivers/<Name>.lean defines `Drivers.<Name>.handle : String → Lean.Json → Except String Lean.Json`
and serves the model key <name> (lower case)."""
import os, re
here = os.path.dirname(os.path.abspath(__file__))
skip = {"Main", "Util", "Dispatch"}
import subprocess
names = sorted(f[:-5] for f in os.listdir(os.path.join(here, "Drivers")) if f.endswith(".lean") and f[:-5] not in skip)
# only dispatch to handlers that compile right now (a half-written handler must not take the driver down)
def builds(targets):
    return subprocess.run(["lake", "build"] + ["+Drivers." + t for t in targets], cwd=here, capture_output=True, text=True).returncode == 0
if names and not builds(names):
    good = [n for n in names if builds([n])]
    bad = [n for n in names if n not in good]
    print("gen_dispatch: excluded (do not compile):", bad)
    names = good
out = ["import Lean.Data.Json", "import Drivers.Util"] + [f"import Drivers.{n}" for n in names]
out += ["open Lean", "", "def dispatch (m op : String) (a : Json) : Except String Json :=", "  match m with"]
for n in names:
    out.append(f'  | "{n.lower()}" => Drivers.{n}.handle op a')
out += ['  | "ping" => .ok (DUtil.ok (Json.str "pong"))', '  | _ => .error s!"unknown model {m}"', ""]
def write_if_changed(path, text):
    if not os.path.exists(path) or open(path).read() != text:
        open(path, "w").write(text)
write_if_changed(os.path.join(here, "Drivers", "Dispatch.lean"), "\n".join(out))
write_if_changed(os.path.join(here, "Drivers.lean"), "import Drivers.Main\n")
for lib in ("RallyModel", "RallyProofs", "RallyProps", "RallyGen"):
    mods = sorted(f[:-5] for f in os.listdir(os.path.join(here, lib)) if f.endswith(".lean"))
    write_if_changed(os.path.join(here, lib + ".lean"), "\n".join(f"import {lib}.{m}" for m in mods) + "\n")
