/-
Model of the actor protocol of a race (esrally/driver/driver.py): Worker (receiveMsg_StartWorker / Drive /
CompleteCurrentTask / WakeupMessage, drive, at_joinpoint, current_tasks_and_advance), Driver
(joinpoint_reached, move_to_next_task, may_complete_current_task), the executor thread at the granularity
"task finishes / future done" with the `complete` flag logic of AsyncExecutor (completed = complete.is_set()
or runner.completed; the finally block), FIFO channels per (sender, receiver) pair, wake-ups that fire at any
time after they were armed.  Import-free.

The model follows the tree *after* the three `fix:` commits for C01 (skip branch keeps driving, completion
honoured while start_driving, `any` completion only by workers that ran such a task).
-/
namespace Race

structure TaskA where
  client : Nat
  tid : Nat
  finite : Bool      -- ends by its own loop control (iterations / time period); otherwise only through `complete`
  cp : Bool          -- completes_parent
  acp : Bool         -- any_completes_parent
deriving Repr, DecidableEq

inductive Col
  | join (id : Nat) (completing : List Nat) (anyC : List Nat)   -- client ids executing the completing / any-completing tasks
  | tasks (ts : List TaskA)                                      -- non-None allocations of this worker's clients (non-empty)
  | empty                                                        -- every client of this worker has `None` here
deriving Repr, DecidableEq

structure Cfg where
  W : Nat                       -- number of workers
  S : Nat                       -- Driver.number_of_steps
  cols : Nat → List Col         -- worker → its ClientAllocations by task index
  workerOf : Nat → Nat          -- Driver.clients_per_worker
  clientsOf : Nat → List Nat    -- worker → its client ids

inductive Exec
  | none                                   -- executor_future is None
  | running (ts : List (TaskA × Bool))     -- future not done; Bool = this client's AsyncExecutor has returned
  | finished                               -- future done without exception
deriving Repr, DecidableEq

structure WState where
  cur : Nat := 0               -- current_task_index
  nxt : Nat := 0               -- next_task_index
  startDriving : Bool := false
  complete : Bool := false
  exec : Exec := .none
  wake : Nat := 0              -- pending wake-ups
deriving Repr, DecidableEq

inductive MsgDW | startWorker | drive | cct
deriving Repr, DecidableEq

inductive MsgWD | jpr (col : Nat)           -- JoinPointReached carrying the join point at column `col`
deriving Repr, DecidableEq

inductive MsgDR | taskFinished | benchComplete
deriving Repr, DecidableEq

structure DState where
  stepP1 : Nat := 0            -- current_step + 1
  completed : Nat := 0         -- currently_completed
  reported : List Nat := []    -- keys of workers_completed_current_step
  cctSent : Bool := false
deriving Repr, DecidableEq

structure State where
  ws : Nat → WState
  d : DState
  d2w : Nat → List MsgDW
  w2d : Nat → List MsgWD
  d2r : List MsgDR              -- everything race control has been sent, oldest first
  starts : List (Nat × Nat)     -- history: (client, tid) of every executor start

inductive Event
  | deliverDW (w : Nat)
  | deliverWD (w : Nat)
  | wakeW (w : Nat)
  | taskDone (w : Nat) (i : Nat)     -- environment: the i-th running task of worker w returns
  | execFinish (w : Nat)             -- environment: the future of worker w becomes done
deriving Repr, DecidableEq

def upd {α : Type} (f : Nat → α) (i : Nat) (v : α) : Nat → α := fun j => if j = i then v else f j

def init (cfg : Cfg) : State :=
  { ws := fun _ => {}, d := {}, d2w := fun w => if w < cfg.W then [.startWorker] else [], w2d := fun _ => [],
    d2r := [], starts := [] }

/-- `current_tasks_and_advance` repeated while the column is empty: first non-empty column at index ≥ `i` -/
def advance (cols : List Col) : Nat → Nat → Option (Nat × Col)
  | _, 0 => none
  | i, fuel + 1 =>
    match cols[i]? with
    | none => none                                  -- IndexError in the real code
    | some .empty => advance cols (i + 1) fuel
    | some c => some (i, c)

def isJoinAt (cols : List Col) (i : Nat) : Bool :=
  match cols[i]? with
  | some (.join ..) => true
  | some .empty => true        -- `all(...)` over an empty list: never rested upon (drive skips empty columns)
  | _ => false

/-- `Worker.drive` -/
def drive (cfg : Cfg) (w : Nat) : Nat → State → Option State
  | 0, _ => none
  | fuel + 1, s =>
    let ws := s.ws w
    match advance (cfg.cols w) ws.nxt (cfg.cols w).length with
    | none => none
    | some (i, .join _ _ _) =>
      some { s with
        ws := upd s.ws w { ws with cur := i, nxt := i + 1, complete := false, exec := .none },
        w2d := upd s.w2d w (s.w2d w ++ [.jpr i]) }
    | some (i, .tasks ts) =>
      if ws.complete then
        -- asked to complete everything up to the next join point: skip and keep driving (repaired code)
        drive cfg w fuel { s with ws := upd s.ws w { ws with cur := i, nxt := i + 1 } }
      else
        some { s with
          ws := upd s.ws w { ws with cur := i, nxt := i + 1, exec := .running (ts.map fun t => (t, false)), wake := ws.wake + 1 },
          starts := s.starts ++ ts.map fun t => (t.client, t.tid) }
    | some (_, .empty) => none

def sendAll (W : Nat) (d2w : Nat → List MsgDW) (m : MsgDW) : Nat → List MsgDW :=
  fun w => if w < W then d2w w ++ [m] else d2w w

/-- `Driver.may_complete_current_task` for the join point reported by worker `w` -/
def mayComplete (cfg : Cfg) (w : Nat) (completing anyC : List Nat) (s : State) : State :=
  if (anyC.any fun c => (cfg.clientsOf w).contains c) && !s.d.cctSent then
    { s with d := { s.d with cctSent := true }, d2w := sendAll cfg.W s.d2w .cct }
  else if !completing.isEmpty && !s.d.cctSent then
    if completing.all fun c => s.d.reported.contains (cfg.workerOf c) then
      { s with d := { s.d with cctSent := true }, d2w := sendAll cfg.W s.d2w .cct }
    else s
  else s

/-- `Driver.joinpoint_reached` -/
def joinpointReached (cfg : Cfg) (w : Nat) (completing anyC : List Nat) (s : State) : State :=
  let d1 := { s.d with completed := s.d.completed + 1, reported := w :: s.d.reported }
  if d1.completed = cfg.W then
    let d2 : DState := { stepP1 := d1.stepP1 + 1, completed := 0, reported := [], cctSent := false }
    if d2.stepP1 = cfg.S + 1 then
      { s with d := d2, d2r := s.d2r ++ [.benchComplete] }
    else
      { s with d := d2, d2r := s.d2r ++ [.taskFinished], d2w := sendAll cfg.W s.d2w .drive }
  else
    mayComplete cfg w completing anyC { s with d := d1 }

def allDone (ts : List (TaskA × Bool)) : Bool := ts.all (·.2)

def setDone (ts : List (TaskA × Bool)) (i : Nat) : List (TaskA × Bool) :=
  ts.zipIdx.map fun (p, j) => if j = i then (p.1, true) else p

/-- one atomic step; `none` = the event is not enabled (or the real handler would raise) -/
def step (cfg : Cfg) (s : State) : Event → Option State
  | .deliverDW w =>
    match s.d2w w with
    | [] => none
    | m :: rest =>
      let s1 := { s with d2w := upd s.d2w w rest }
      let ws := s.ws w
      match m with
      | .startWorker => drive cfg w ((cfg.cols w).length + 1) { s1 with ws := upd s.ws w { ws with cur := 0 } }
      | .drive => some { s1 with ws := upd s.ws w { ws with startDriving := true, wake := ws.wake + 1 } }
      | .cct =>
        if isJoinAt (cfg.cols w) ws.cur && !ws.startDriving then some s1
        else some { s1 with ws := upd s.ws w { ws with complete := true } }
  | .wakeW w =>
    let ws := s.ws w
    if ws.wake = 0 then none else
    let ws1 := { ws with wake := ws.wake - 1 }
    if ws.startDriving then
      drive cfg w ((cfg.cols w).length + 1) { s with ws := upd s.ws w { ws1 with startDriving := false } }
    else
      match ws.exec with
      | .finished => drive cfg w ((cfg.cols w).length + 1) { s with ws := upd s.ws w { ws1 with exec := .none } }
      | _ => some { s with ws := upd s.ws w { ws1 with wake := ws1.wake + 1 } }
  | .taskDone w i =>
    let ws := s.ws w
    match ws.exec with
    | .running ts =>
      match ts[i]? with
      | some (t, false) =>
        if t.finite || (ws.complete && !t.cp) then
          some { s with ws := upd s.ws w { ws with exec := .running (setDone ts i), complete := ws.complete || t.cp || t.acp } }
        else none
      | _ => none
    | _ => none
  | .execFinish w =>
    let ws := s.ws w
    match ws.exec with
    | .running ts => if allDone ts then some { s with ws := upd s.ws w { ws with exec := .finished } } else none
    | _ => none
  | .deliverWD w =>
    match s.w2d w with
    | [] => none
    | .jpr col :: rest =>
      match (cfg.cols w)[col]? with
      | some (.join _ completing anyC) => some (joinpointReached cfg w completing anyC { s with w2d := upd s.w2d w rest })
      | _ => none

/-- states reachable from `init` -/
inductive Reach (cfg : Cfg) : State → Prop
  | init : Reach cfg (init cfg)
  | step (s s' : State) (e : Event) : Reach cfg s → step cfg s e = some s' → Reach cfg s'

end Race
