/-
Model of the actor protocol of a race (esrally/driver/driver.py): Worker (receiveMsg_StartWorker / Drive /
CompleteCurrentTask / WakeupMessage, drive, at_joinpoint, current_tasks_and_advance), Driver
(joinpoint_reached, move_to_next_task, may_complete_current_task), the executor thread at the granularity
"task returns / future done" with the `complete` flag logic of AsyncExecutor (completed = complete.is_set()
or runner.completed; the finally block), FIFO channels per (sender, receiver) pair, wake-ups that fire at any
time after they were armed.  Import-free.

A worker's slice of the allocation matrix is kept grouped: `elems w e` = the non-empty task columns of
schedule element `e` for worker `w` (columns where all its clients have `None` are skipped by `drive`),
`joins j` = the join point with id `j`.  The position of a worker is "parked at join j" or "in column c of
element e" (the line-protocol driver converts the flat `current_task_index` of the code to this form).

The model follows the tree *after* the three `fix:` commits for C01 (skip branch keeps driving, completion
honoured while start_driving, `any` completion only by workers that ran such a task).
-/
namespace Race

structure TaskA where
  client : Nat
  tid : Nat
  finite : Bool      -- ends by its own loop control (iterations / time period); otherwise only through `complete`
  cp : Bool          -- completes_parent
  acp : Bool         -- any_completes_parent
deriving Repr, DecidableEq

structure JoinInfo where
  completing : List Nat      -- clients executing the named completing task of the preceding element
  anyC : List Nat            -- clients executing tasks any of which completes the preceding element
deriving Repr, DecidableEq

structure Cfg where
  W : Nat                                  -- number of workers
  S : Nat                                  -- Driver.number_of_steps = number of schedule elements
  elems : Nat → Nat → List (List TaskA)    -- worker → element → its non-empty task columns, in order
  joins : Nat → JoinInfo                   -- join point id → its completed-by information
  workerOf : Nat → Nat                     -- Driver.clients_per_worker
  clientsOf : Nat → List Nat               -- worker → its client ids

inductive Pos
  | unstarted                       -- StartWorker not yet received
  | atJoin (j : Nat)                -- parked at join point j (JoinPointReached sent)
  | inCol (e c : Nat)               -- executing (or having executed) column c of element e
deriving Repr, DecidableEq

inductive Exec
  | none                                   -- executor_future is None
  | running (ts : List (TaskA × Bool))     -- future not done; Bool = this client's AsyncExecutor has returned
  | finished                               -- future done without exception
deriving Repr, DecidableEq

structure WState where
  pos : Pos := .unstarted
  startDriving : Bool := false
  complete : Bool := false
  exec : Exec := .none
  wake : Nat := 0              -- pending wake-ups
deriving Repr, DecidableEq

inductive MsgDW | startWorker | drive | cct
deriving Repr, DecidableEq

inductive MsgWD | jpr (j : Nat)             -- JoinPointReached for join point j
deriving Repr, DecidableEq

inductive MsgDR | taskFinished | benchComplete
deriving Repr, DecidableEq

structure DState where
  stepP1 : Nat := 0            -- current_step + 1 = number of times the barrier has opened
  completed : Nat := 0         -- currently_completed
  reported : List Nat := []    -- keys of workers_completed_current_step
  cctSent : Bool := false
deriving Repr, DecidableEq

structure State where
  ws : Nat → WState
  d : DState
  d2w : Nat → List MsgDW
  w2d : Nat → List MsgWD
  d2r : List MsgDR                    -- everything race control has been sent, oldest first
  entered : List (Nat × Nat × Nat)    -- history: (worker, element, column) of every executor start

inductive Event
  | deliverDW (w : Nat)
  | deliverWD (w : Nat)
  | wakeW (w : Nat)
  | taskDone (w : Nat) (i : Nat)     -- environment: the i-th running task of worker w returns
  | execFinish (w : Nat)             -- environment: the future of worker w becomes done
deriving Repr, DecidableEq

def upd {α : Type} (f : Nat → α) (i : Nat) (v : α) : Nat → α := fun j => if j = i then v else f j

def init (cfg : Cfg) : State :=
  { ws := fun _ => {}, d := {}, d2w := fun w => if w < cfg.W then [.startWorker] else [], w2d := fun _ => [],
    d2r := [], entered := [] }

/-- reaching join point `j`: the join-point branch of `Worker.drive` -/
def toJoin (w j : Nat) (s : State) : State :=
  let ws := s.ws w
  { s with
    ws := upd s.ws w { ws with pos := .atJoin j, complete := false, exec := .none },
    w2d := upd s.w2d w (s.w2d w ++ [.jpr j]) }

/-- `Worker.drive` from the current position: the next non-empty column of the current element, or — if there is
    none, or the worker has been asked to complete everything up to the next join point — the next join point -/
def driveNext (cfg : Cfg) (w : Nat) (s : State) : Option State :=
  let ws := s.ws w
  let go (e c : Nat) : Option State :=
    if e ≥ cfg.S then none else        -- nothing is allocated after the last join point (IndexError in the code)
    match (cfg.elems w e)[c]? with
    | some ts =>
      if ws.complete then some (toJoin w (e + 1) s)
      else some { s with
        ws := upd s.ws w { ws with pos := .inCol e c, exec := .running (ts.map fun t => (t, false)), wake := ws.wake + 1 },
        entered := s.entered ++ [(w, e, c)] }
    | none => some (toJoin w (e + 1) s)
  match ws.pos with
  | .unstarted => none
  | .atJoin j => go j 0
  | .inCol e c => go e (c + 1)

def sendAll (W : Nat) (d2w : Nat → List MsgDW) (m : MsgDW) : Nat → List MsgDW :=
  fun w => if w < W then d2w w ++ [m] else d2w w

/-- `Driver.may_complete_current_task` for the join point reported by worker `w` -/
def mayComplete (cfg : Cfg) (w : Nat) (ji : JoinInfo) (s : State) : State :=
  if (ji.anyC.any fun c => (cfg.clientsOf w).contains c) && !s.d.cctSent then
    { s with d := { s.d with cctSent := true }, d2w := sendAll cfg.W s.d2w .cct }
  else if !ji.completing.isEmpty && !s.d.cctSent then
    if ji.completing.all fun c => s.d.reported.contains (cfg.workerOf c) then
      { s with d := { s.d with cctSent := true }, d2w := sendAll cfg.W s.d2w .cct }
    else s
  else s

/-- `Driver.joinpoint_reached` -/
def joinpointReached (cfg : Cfg) (w : Nat) (ji : JoinInfo) (s : State) : State :=
  let d1 : DState := { s.d with completed := s.d.completed + 1, reported := w :: s.d.reported }
  if d1.completed = cfg.W then
    let d2 : DState := { stepP1 := s.d.stepP1 + 1, completed := 0, reported := [], cctSent := false }
    if d2.stepP1 = cfg.S + 1 then
      { s with d := d2, d2r := s.d2r ++ [.benchComplete] }
    else
      { s with d := d2, d2r := s.d2r ++ [.taskFinished], d2w := sendAll cfg.W s.d2w .drive }
  else
    mayComplete cfg w ji { s with d := d1 }

def allDone (ts : List (TaskA × Bool)) : Bool := ts.all (·.2)

def setDone (ts : List (TaskA × Bool)) (i : Nat) : List (TaskA × Bool) :=
  ts.zipIdx.map fun (p, j) => if j = i then (p.1, true) else p

def parked (ws : WState) : Bool :=
  match ws.pos with
  | .inCol .. => false
  | _ => true

/-- one atomic step; `none` = the event is not enabled (or the real handler would raise) -/
def step (cfg : Cfg) (s : State) : Event → Option State
  | .deliverDW w =>
    match s.d2w w with
    | [] => none
    | m :: rest =>
      let s1 := { s with d2w := upd s.d2w w rest }
      let ws := s.ws w
      match m with
      | .startWorker =>
        match ws.pos with
        | .unstarted => some (toJoin w 0 s1)
        | _ => none
      | .drive => some { s1 with ws := upd s.ws w { ws with startDriving := true, wake := ws.wake + 1 } }
      | .cct =>
        if parked ws && !ws.startDriving then some s1
        else some { s1 with ws := upd s.ws w { ws with complete := true } }
  | .wakeW w =>
    let ws := s.ws w
    if ws.wake = 0 then none else
    let ws1 := { ws with wake := ws.wake - 1 }
    if ws.startDriving then
      driveNext cfg w { s with ws := upd s.ws w { ws1 with startDriving := false } }
    else
      match ws.exec with
      | .finished => driveNext cfg w { s with ws := upd s.ws w { ws1 with exec := .none } }
      | _ => some { s with ws := upd s.ws w { ws1 with wake := ws1.wake + 1 } }
  | .taskDone w i =>
    let ws := s.ws w
    match ws.exec with
    | .running ts =>
      match ts[i]? with
      | some (t, false) =>
        if t.finite || (ws.complete && !t.cp) then
          some { s with ws := upd s.ws w { ws with exec := .running (setDone ts i), complete := ws.complete || t.cp || t.acp } }
        else none
      | _ => none
    | _ => none
  | .execFinish w =>
    let ws := s.ws w
    match ws.exec with
    | .running ts => if allDone ts then some { s with ws := upd s.ws w { ws with exec := .finished } } else none
    | _ => none
  | .deliverWD w =>
    match s.w2d w with
    | [] => none
    | .jpr j :: rest => some (joinpointReached cfg w (cfg.joins j) { s with w2d := upd s.w2d w rest })

/-- states reachable from `init` -/
inductive Reach (cfg : Cfg) : State → Prop
  | init : Reach cfg (init cfg)
  | step (s s' : State) (e : Event) : Reach cfg s → step cfg s e = some s' → Reach cfg s'

end Race
