import RallyModel.Mechanic

/-! What `Mechanic.stop_engine` does one call below the actors (round 6):

* `provisioner.cleanup(preserve, install_dir, data_paths)` on a directory tree, and
* `ProcessLauncher.stop(nodes, metrics_store)` including the telemetry / metrics-store steps, for nodes whose
  process may already be gone when the engine is stopped. -/

namespace Mechanic

namespace Cleanup

/-- a path is its list of components; a component is an atom (two names are equal or different, nothing
else: `data1` and `data10` are two different atoms) -/
abbrev Path := List Nat

/-- `q` is `p` itself or lies below `p` -/
def below (p q : Path) : Bool := p.isPrefixOf q

/-- `shutil.rmtree(p)`: `p` and everything below it is gone -/
def rmtree (fs : List Path) (p : Path) : List Path := fs.filter (fun q => !below p q)

/-- `delete_path`: `if os.path.exists(p): shutil.rmtree(p)` -/
def deletePath (fs : List Path) (p : Path) : List Path := if fs.contains p then rmtree fs p else fs

/-- `provisioner.cleanup`: with `preserve` nothing happens; otherwise every data path, then the installation -/
def cleanup (preserve : Bool) (install : Path) (dataPaths : List Path) (fs : List Path) : List Path :=
  if preserve then fs else deletePath (dataPaths.foldl deletePath fs) install

/-- the car variable `data_paths` as `ElasticsearchInstaller._data_paths` sees it: not defined, a string, a list,
anything else (number, mapping, tuple, null) -/
inductive CarVar
  | absent
  | str (p : Path)
  | list (ps : List Path)
  | other

/-- `ElasticsearchInstaller._data_paths`; component `0` is the name `data`; `none` = SystemSetupError -/
def dataPathsOf (home : Path) : CarVar → Option (List Path)
  | .absent => some [home ++ [0]]
  | .str p => some [p]
  | .list ps => some ps
  | .other => none

end Cleanup

namespace Launcher

/-- what `ProcessLauncher.stop` does besides signalling processes, per node (a node = its installation directory):
`telemetry.add_metadata_for_node`, `detach_from_node(running=True)`, `detach_from_node(running=False)`,
`store_system_metrics`, and the returned `stopped_nodes` -/
structure Tele where
  metaInfo : List Nat
  detachedRunning : List Nat
  detachedStopped : List Nat
  stored : List Nat
  stopped : List Nat

def Tele.empty : Tele := ⟨[], [], [], [], []⟩

/-- one iteration of the loop in `ProcessLauncher.stop` (metrics store given): meta data first; if a process with the
tracked pid exists: detach(running), terminate + wait, `stopped_nodes.append`, detach(not running); the system metrics
are stored *in any case* -/
def stopNodeT (x : World × Tele) (n : Nat × Nat) : World × Tele :=
  let t1 : Tele := { x.2 with metaInfo := x.2.metaInfo ++ [n.1] }
  if n.2 ∈ x.1.running then
    (stopNode x.1 n.2,
     { t1 with detachedRunning := t1.detachedRunning ++ [n.1], stopped := t1.stopped ++ [n.1],
               detachedStopped := t1.detachedStopped ++ [n.1], stored := t1.stored ++ [n.1] })
  else (x.1, { t1 with stored := t1.stored ++ [n.1] })

/-- `ProcessLauncher.stop` -/
def stopAllT (x : World × Tele) (nodes : List (Nat × Nat)) : World × Tele := nodes.foldl stopNodeT x

/-- a node process disappears on its own (OOM, operator) -/
def die (w : World) (pid : Nat) : World := { w with running := w.running.erase pid }

end Launcher

end Mechanic
