import RallyModel.Dbl
import RallyModel.Alloc
/-
Model of the bulk-indexing parameter source (C03):

  esrally/track/params.py   bounds, number_of_bulks, build_conflicting_ids, GenerateActionMetaData,
                            Slice, IndexDataReader / MetadataIndexDataReader / SourceOnlyIndexDataReader,
                            create_default_reader, create_readers, chain, bulk_generator,
                            bulk_data_based, PartitionBulkIndexParamSource (+ the loop of
                            driver.ScheduleHandle that calls `params()` until StopIteration)
  esrally/driver/driver.py  schedule_for: how a `TaskAllocation` (model: `Alloc.Entry.task`, C02) becomes the
                            `partition(index, count)` call on the shared parameter source
  esrally/utils/io.py       prepare_file_offset_table, FileOffsetTable.find_closest_offset,
                            skip_lines, MmapSource.readline/readlines

Two layers.
* byte layer (section 6): a data file is a `List Byte`; `mm.readline()` is `lineLen` on the rest of the
  file; the offset table is built from the text-mode line split (`splitLines`).  It justifies the line
  layer: after `Slice.open` (skip_lines with or without a table) the source delivers the lines
  `(splitLines bytes).drop offset` (`RallyProofs/Bulk.lean: splitLines_drop_skipLines`).
* line layer (sections 1–5): a data file is the list of its lines, of any type `α` (the driver uses line
  numbers, the theorems hold for every `α`).

Floats are exact IEEE doubles on `Rat` (`Dbl`).  Random draws (`random.random`, `randint`, `expovariate`,
`shuffle`) are an explicit oracle indexed by call number; the theorems quantify over all oracles that
respect the library contracts (`randint(0, hi) ≤ hi`, `shuffle` permutes).
Import-free apart from `Dbl`.
-/
namespace Bulk
open Dbl

/-! ## 1. slice arithmetic: `bounds`, `number_of_bulks` -/

/-- `round(docs_per_client * k)` with `docs_per_client = total_docs / num_clients` (int / int: correctly
    rounded quotient; float * int: the int is converted first).  Parametric in the rounding function so
    that the partition theorem can be stated for any rounding satisfying explicit laws. -/
def offDocsWith (fl : Rat → Rat) (total n k : Nat) : Int :=
  rhe (fl (fl ((total : Rat) / (n : Rat)) * fl (k : Rat)))

/-- `bounds(total_docs, start_client_index, end_client_index, num_clients, includes_action_and_meta_data)`
    → `(offset_lines, docs, lines)` -/
def boundsWith (fl : Rat → Rat) (total s e n : Nat) (withMeta : Bool) : Int × Int × Int :=
  let lpd : Int := if withMeta then 2 else 1
  let startDocs := offDocsWith fl total n s
  let endDocs := offDocsWith fl total n (e + 1)
  (startDocs * lpd, endDocs - startDocs, (endDocs - startDocs) * lpd)

def offDocs (total n k : Nat) : Int := offDocsWith Dbl.fl total n k
def bounds (total s e n : Nat) (withMeta : Bool) : Int × Int × Int := boundsWith Dbl.fl total s e n withMeta

/-- `complete_bulks, rest = (num_docs // bulk_size, num_docs % bulk_size)`; `+1` if `rest > 0` -/
def bulksOf (numDocs : Int) (bulkSize : Nat) : Int :=
  numDocs / (bulkSize : Int) + (if numDocs % (bulkSize : Int) > 0 then 1 else 0)

/-! ## 2. document sets, configuration, random oracle -/

structure DocSet (α : Type) where
  lines : List α          -- the data file, line by line
  numDocs : Nat           -- `number_of_documents` declared by the track
  withMeta : Bool         -- `includes_action_and_meta_data`
  dataStream : Bool       -- no `target_index` but a `target_data_stream` (→ `use_create`)

abbrev Corpus (α : Type) := List (DocSet α)

/-- `number_of_bulks(corpora, start, end, total_partitions, bulk_size)` -/
def numberOfBulks {α : Type} (corpora : List (Corpus α)) (s e n bulkSize : Nat) : Int :=
  (corpora.flatten.map fun d => bulksOf (bounds d.numDocs s e n d.withMeta).2.1 bulkSize).sum

inductive Conflicts
  | none | sequential | random
deriving DecidableEq, Repr

structure Cfg where
  batchSize : Nat
  bulkSize : Nat
  conflicts : Conflicts
  prob : Option Rat        -- `conflict-probability` (a double), `None` without conflicts
  onUpdate : Bool          -- `on-conflict == "update"`
  recency : Option Rat
  pct : Rat                -- `ingest-percentage` (a double)
  looped : Bool

/-- the random module, by call number -/
structure Oracle where
  rand : Nat → Rat                   -- k-th `random.random()`
  randint : Nat → Nat → Nat          -- k-th `random.randint(0, hi)`
  randexp : Nat → Rat                -- k-th `random.expovariate(..)`
  shuffle : Nat → List Int → List Int -- k-th `random.shuffle(ids)` (result order)

/-- how many draws of each kind have been made -/
structure Cnt where
  r : Nat
  i : Nat
  e : Nat
  s : Nat
deriving DecidableEq, Repr

/-! ## 3. ids and action-and-meta-data lines -/

/-- `build_conflicting_ids(conflicts, docs_to_index, offset, shuffle)` -/
def buildConflictingIds (c : Conflicts) (docsToIndex : Int) (offset : Int) (shuffle : List Int → List Int) :
    Option (List Int) :=
  match c with
  | .none => Option.none
  | .sequential => some ((List.range docsToIndex.toNat).map fun (i : Nat) => offset + (i : Int))
  | .random => some (shuffle ((List.range docsToIndex.toNat).map fun (i : Nat) => offset + (i : Int)))

inductive Action
  | index | update | create
deriving DecidableEq, Repr

/-- `GenerateActionMetaData` (fields that matter + `id_up_to`) -/
structure Gen where
  ids : Option (List Int)
  prob : Rat               -- `conflict_probability / 100.0`, or 0
  onUpdate : Bool
  recency : Rat
  useCreate : Bool
  idUpTo : Nat

def mkGen (ids : Option (List Int)) (prob : Option Rat) (onUpdate : Bool) (recency : Option Rat) (useCreate : Bool) : Gen :=
  { ids := ids
    prob := match prob with | some p => fdiv p 100 | Option.none => 0
    onUpdate := onUpdate
    recency := recency.getD 0
    useCreate := useCreate
    idUpTo := 0 }

/-- Python list indexing with a (possibly negative) int -/
def pyGet (l : List Int) (i : Int) : Option Int :=
  if 0 ≤ i then l[i.toNat]? else if -(l.length : Int) ≤ i then l[((l.length : Int) + i).toNat]? else Option.none

inductive GenRes
  | item (act : Action) (id : Option Int) (conflict : Bool) (g : Gen) (c : Cnt)
  | stop (c : Cnt)          -- StopIteration
  | indexError (c : Cnt)    -- ids[idx] out of range

/-- index chosen for a conflict: `randint(0, id_up_to - 1)` or the recency-biased formula -/
def conflictIdx (o : Oracle) (g : Gen) (c : Cnt) : Int × Cnt :=
  if g.recency = 0 then
    (((o.randint c.i (g.idUpTo - 1) : Nat) : Int), { c with i := c.i + 1 })
  else
    let x := o.randexp c.e
    let idxRange : Rat := if 1 < x then 1 else x             -- min(randexp(..), 1)
    (rhe (fmul (ofInt ((g.idUpTo : Int) - 1)) (fsub 1 idxRange)), { c with e := c.e + 1 })

/-- `GenerateActionMetaData.__next__` -/
def Gen.next (o : Oracle) (g : Gen) (c : Cnt) : GenRes :=
  match g.ids with
  | Option.none => .item (if g.useCreate then .create else .index) Option.none false g c
  | some ids =>
    -- `self.conflict_probability and self.id_up_to > 0 and self.rand() <= self.conflict_probability`
    let draw : Bool := decide (g.prob ≠ 0) && decide (0 < g.idUpTo)
    let c1 : Cnt := if draw then { c with r := c.r + 1 } else c
    if draw && decide (o.rand c.r ≤ g.prob) then
      let ic := conflictIdx o g c1
      match pyGet ids ic.1 with
      | Option.none => .indexError ic.2
      | some id => .item (if g.onUpdate then .update else .index) (some id) true g ic.2
    else
      if ids.length ≤ g.idUpTo then .stop c1
      else
        match ids[g.idUpTo]? with
        | Option.none => .stop c1
        | some id => .item .index (some id) false { g with idUpTo := g.idUpTo + 1 } c1

/-! ## 4. Slice and the readers -/

/-- `Slice` after `open` (the source is positioned at line `offset`; `rest` = the lines from there on) -/
structure Slice (α : Type) where
  rest : List α
  numberOfLines : Nat
  currentLine : Nat
  bulkSize : Nat

/-- `Slice.__next__`: `none` = StopIteration -/
def Slice.next {α : Type} (s : Slice α) : Option (List α × Slice α) :=
  if s.numberOfLines ≤ s.currentLine then Option.none
  else
    let lines := s.rest.take (min s.bulkSize (s.numberOfLines - s.currentLine))
    if lines.length = 0 then Option.none
    else some (lines, { s with rest := s.rest.drop lines.length, currentLine := s.currentLine + lines.length })

/-- one line of a bulk body -/
inductive Item (α : Type)
  | src (a : α)                                -- a line copied from the data file
  | am (act : Action) (id : Option Int)         -- a generated action-and-meta-data line
  | upd (a : α)                                -- `{"doc":<a stripped>}\n` (update on conflict)
deriving Repr

structure Bulk (α : Type) where
  docs : Nat                 -- `bulk-size` of the params dict (`docs_in_bulk`)
  body : List (Item α)

inductive Kind
  | sourceOnly               -- SourceOnlyIndexDataReader (file already has action lines)
  | fast (act : Action)      -- MetadataIndexDataReader._read_bulk_fast (constant action line)
  | regular                  -- MetadataIndexDataReader._read_bulk_regular
deriving DecidableEq, Repr

structure RState (α : Type) where
  slice : Slice α
  gen : Gen
  cnt : Cnt
  crashed : Bool             -- an IndexError escaped (sticky; the whole result is then an error)

inductive ItemsRes (α : Type)
  | done (items : List (Item α)) (g : Gen) (c : Cnt)
  | stopped (g : Gen) (c : Cnt)
  | crashed (c : Cnt)

/-- the `for doc in docs` loop of `_read_bulk_regular` -/
def regularItems {α : Type} (o : Oracle) : List α → Gen → Cnt → ItemsRes α
  | [], g, c => .done [] g c
  | d :: ds, g, c =>
    match g.next o c with
    | .stop c1 => .stopped g c1
    | .indexError c1 => .crashed c1
    | .item act id _ g1 c1 =>
      match regularItems o ds g1 c1 with
      | .done items g2 c2 => .done (.am act id :: (if act = .update then .upd d else .src d) :: items) g2 c2
      | r => r

inductive BulkRes (α : Type)
  | stop (st : RState α)
  | bulk (n : Nat) (body : List (Item α)) (st : RState α)

/-- `read_bulk()` of the three readers -/
def readBulk {α : Type} (o : Oracle) (k : Kind) (st : RState α) : BulkRes α :=
  if st.crashed then .stop st else
  match st.slice.next with
  | Option.none => .stop st
  | some (ls, sl) =>
    match k with
    | .sourceOnly => .bulk (ls.length / 2) (ls.map .src) { st with slice := sl }
    | .fast act => .bulk ls.length (ls.flatMap fun d => [.am act Option.none, .src d]) { st with slice := sl }
    | .regular =>
      match regularItems o ls st.gen st.cnt with
      | .done items g c => .bulk ls.length items { st with slice := sl, gen := g, cnt := c }
      | .stopped g c => .stop { st with slice := sl, gen := g, cnt := c }
      | .crashed c => .stop { st with slice := sl, cnt := c, crashed := true }

/-- `IndexDataReader.__next__`: the `while docs_in_batch < batch_size` loop.  `fuel` counts the remaining
    iterations; called with `fuel = batchSize` it is never the reason to stop (every iteration adds ≥ 1). -/
def readBatch {α : Type} (o : Oracle) (k : Kind) (batchSize : Nat) :
    Nat → RState α → Nat → List (Bulk α) × RState α
  | 0, st, _ => ([], st)
  | fuel + 1, st, docsInBatch =>
    if docsInBatch < batchSize then
      match readBulk o k st with
      | .stop st1 => ([], st1)
      | .bulk n body st1 =>
        if n = 0 then ([], st1)
        else
          let r := readBatch o k batchSize fuel st1 (docsInBatch + n)
          (⟨n, body⟩ :: r.1, r.2)
    else ([], st)

/-- all batches of one reader, flattened by `bulk_generator` (`docs_in_batch == 0` ⇔ empty batch → the
    reader is exhausted).  `fuel` = number of `__next__` calls allowed; `numberOfLines + 1` suffices
    (every non-empty batch consumes a line; `slice_reads_range` shows nothing is left behind). -/
def readerBulks {α : Type} (o : Oracle) (k : Kind) (batchSize : Nat) : Nat → RState α → List (Bulk α) × RState α
  | 0, st => ([], st)
  | fuel + 1, st =>
    match readBatch o k batchSize batchSize st 0 with
    | ([], st1) => ([], st1)
    | (b :: bs, st1) =>
      let r := readerBulks o k batchSize fuel st1
      (b :: bs ++ r.1, r.2)

/-! ## 5. reader construction, staggering, the per-worker parameter source -/

inductive Err
  | zeroDivision      -- `start_client_index % len(corpora)` with no corpora
  | rallyError        -- "Conflicts cannot be generated with append only data streams"
  | indexError        -- ids[idx]
  | assertion         -- RallyAssertionError: total partitions changed
  | noPartition       -- params() before partition(): self.partitions[0]
  | percentCompletedZeroDivision -- `percent_completed` with total_bulks = 0 (pre-fix code only, see `runCallsPinned`)
deriving DecidableEq, Repr

/-- a reader as built by `create_default_reader` (not yet opened) -/
structure Reader (α : Type) where
  kind : Kind
  slice : Slice α
  gen : Gen

/-- `create_default_reader(docs, offset, num_lines, num_docs, …)`; `sc` = number of shuffles so far -/
def createDefaultReader {α : Type} (o : Oracle) (cfg : Cfg) (d : DocSet α) (offset numLines numDocs : Int) (sc : Nat) :
    Except Err (Reader α × Nat) :=
  if d.dataStream && decide (cfg.conflicts ≠ .none) then .error .rallyError
  else if d.withMeta then
    .ok ({ kind := .sourceOnly
           slice := ⟨d.lines.drop offset.toNat, numLines.toNat, 0, cfg.bulkSize * 2⟩
           gen := mkGen Option.none Option.none false Option.none false }, sc)
  else
    let ids := buildConflictingIds cfg.conflicts numDocs offset (o.shuffle sc)
    let sc1 := if cfg.conflicts = .random then sc + 1 else sc
    let g := mkGen ids cfg.prob cfg.onUpdate cfg.recency d.dataStream
    .ok ({ kind := if ids.isSome then .regular else .fast (if d.dataStream then .create else .index)
           slice := ⟨d.lines.drop offset.toNat, numLines.toNat, 0, cfg.bulkSize⟩
           gen := g }, sc1)

/-- the readers of one corpus (`for docs in corpus.documents: … if num_docs > 0`) -/
def corpusReaders {α : Type} (o : Oracle) (cfg : Cfg) (n s e : Nat) : Corpus α → Nat → Except Err (List (Reader α) × Nat)
  | [], sc => .ok ([], sc)
  | d :: ds, sc =>
    let b := bounds d.numDocs s e n d.withMeta
    if 0 < b.2.1 then
      match createDefaultReader o cfg d b.1 b.2.2 b.2.1 sc with
      | .error err => .error err
      | .ok (r, sc1) =>
        match corpusReaders o cfg n s e ds sc1 with
        | .error err => .error err
        | .ok (rs, sc2) => .ok (r :: rs, sc2)
    else corpusReaders o cfg n s e ds sc

def queuesOf {α : Type} (o : Oracle) (cfg : Cfg) (n s e : Nat) : List (Corpus α) → Nat → Except Err (List (List (Reader α)) × Nat)
  | [], sc => .ok ([], sc)
  | c :: cs, sc =>
    match corpusReaders o cfg n s e c sc with
    | .error err => .error err
    | .ok (q, sc1) =>
      match queuesOf o cfg n s e cs sc1 with
      | .error err => .error err
      | .ok (qs, sc2) => .ok (q :: qs, sc2)

/-- one pass of `for reader_queue in corpora_readers: if reader_queue: … popleft()` -/
def heads {ρ : Type} : List (List ρ) → List ρ
  | [] => []
  | [] :: qs => heads qs
  | (r :: _) :: qs => r :: heads qs

def tails {ρ : Type} : List (List ρ) → List (List ρ)
  | [] => []
  | [] :: qs => [] :: tails qs
  | (_ :: q) :: qs => q :: tails qs

def total {ρ : Type} (qs : List (List ρ)) : Nat := (qs.map List.length).sum

/-- `while total_readers > 0:` round robin over the queues; `fuel ≥ total qs` passes suffice -/
def stagger {ρ : Type} : Nat → List (List ρ) → List ρ
  | 0, _ => []
  | fuel + 1, qs => if total qs = 0 then [] else heads qs ++ stagger fuel (tails qs)

/-- `corpora[start:] + corpora[:start]` -/
def rotate {β : Type} (l : List β) (k : Nat) : List β := l.drop k ++ l.take k

/-- `create_readers(num_clients, start_client_index, end_client_index, corpora, …)` -/
def createReaders {α : Type} (o : Oracle) (cfg : Cfg) (corpora : List (Corpus α)) (n s e : Nat) (sc : Nat) :
    Except Err (List (Reader α) × Nat) :=
  if corpora.length = 0 then .error .zeroDivision
  else
    match queuesOf o cfg n s e (rotate corpora (s % corpora.length)) sc with
    | .error err => .error err
    | .ok (qs, sc1) => .ok (stagger (total qs) qs, sc1)

/-- `bulk_generator(chain(*readers), …)`: every reader is opened, drained and closed in turn -/
def chainBulks {α : Type} (o : Oracle) (batchSize : Nat) : List (Reader α) → Cnt → Bool → List (Bulk α) × Cnt × Bool
  | [], c, crashed => ([], c, crashed)
  | r :: rs, c, crashed =>
    let x := readerBulks o r.kind batchSize (r.slice.numberOfLines + 1) ⟨r.slice, r.gen, c, crashed⟩
    let y := chainBulks o batchSize rs x.2.cnt x.2.crashed
    (x.1 ++ y.1, y.2)

/-- all bulks the generator of `bulk_data_based(num_clients, start, end, corpora, …)` yields -/
def workerBulks {α : Type} (o : Oracle) (cfg : Cfg) (corpora : List (Corpus α)) (n s e : Nat) (c : Cnt) :
    Except Err (List (Bulk α) × Cnt) :=
  match createReaders o cfg corpora n s e c.s with
  | .error err => .error err
  | .ok (rs, sc) =>
    let x := chainBulks o cfg.batchSize rs { c with s := sc } false
    if x.2.2 then .error .indexError else .ok (x.1, x.2.1)

/-- `math.ceil((all_bulks * self.ingest_percentage) / 100)` -/
def totalBulksOf (allBulks : Int) (pct : Rat) : Int := fceil (fdiv (fmul (ofInt allBulks) pct) 100)

/-- `PartitionBulkIndexParamSource` (one per task and worker, shared by the co-located clients) -/
structure PState (α : Type) where
  partitions : List Nat
  totalPartitions : Option Nat
  currentBulk : Nat
  totalBulks : Int
  internal : List (Bulk α)        -- what the generator `internal_params` still has to yield
  cnt : Cnt

def PState.init {α : Type} : PState α := ⟨[], Option.none, 0, 1, [], ⟨0, 0, 0, 0⟩⟩

/-- `partition(partition_index, total_partitions)` -/
def PState.partition {α : Type} (p : PState α) (idx tot : Nat) : Except Err (PState α) :=
  match p.totalPartitions with
  | Option.none => .ok { p with totalPartitions := some tot, partitions := p.partitions ++ [idx] }
  | some t => if t ≠ tot then .error .assertion else .ok { p with partitions := p.partitions ++ [idx] }

def listMin : List Nat → Option Nat
  | [] => Option.none
  | x :: xs => match listMin xs with | Option.none => some x | some m => some (min x m)

def listMax : List Nat → Option Nat
  | [] => Option.none
  | x :: xs => match listMax xs with | Option.none => some x | some m => some (max x m)

/-- `_init_internal_params`: `sorted(self.partitions)[0]` / `[-1]` are the minimum / maximum -/
def PState.initInternal {α : Type} (o : Oracle) (cfg : Cfg) (corpora : List (Corpus α)) (p : PState α) : Except Err (PState α) :=
  match listMin p.partitions, listMax p.partitions, p.totalPartitions with
  | some s, some e, some n =>
    match workerBulks o cfg corpora n s e p.cnt with
    | .error err => .error err
    | .ok (bs, c) =>
      .ok { p with internal := bs, cnt := c,
                   totalBulks := totalBulksOf (numberOfBulks corpora s e n cfg.bulkSize) cfg.pct }
  | _, _, _ => .error .noPartition

inductive PRes (α : Type)
  | bulk (b : Bulk α)
  | stopIteration
  | error (err : Err)

/-- `self.current_bulk += 1; return next(self.internal_params)` -/
def PState.emit {α : Type} (p : PState α) : PRes α × PState α :=
  match p.internal with
  | [] => (.stopIteration, { p with currentBulk := p.currentBulk + 1 })
  | b :: rest => (.bulk b, { p with currentBulk := p.currentBulk + 1, internal := rest })

/-- `PartitionBulkIndexParamSource.params()` -/
def PState.params {α : Type} (o : Oracle) (cfg : Cfg) (corpora : List (Corpus α)) (p : PState α) : PRes α × PState α :=
  match (if p.currentBulk = 0 then p.initInternal o cfg corpora else .ok p) with
  | .error err => (.error err, p)
  | .ok p1 =>
    if (p1.currentBulk : Int) = p1.totalBulks then
      if cfg.looped then
        match ({ p1 with currentBulk := 0 } : PState α).initInternal o cfg corpora with
        | .error err => (.error err, { p1 with currentBulk := 0 })
        | .ok p2 => p2.emit
      else (.stopIteration, p1)
    else p1.emit

/-- The co-located clients of one worker: `calls` is the order in which clients ask for their next
    bulk (`ScheduleHandle.__call__`: a client stops at its first StopIteration; an exception ends the
    run).  Calls by a client that has already stopped do not exist in the real system and are skipped.
    Result: the `(client, bulk)` pairs in emission order, the clients that have stopped, the final state. -/
def runCalls {α : Type} (o : Oracle) (cfg : Cfg) (corpora : List (Corpus α)) :
    List Nat → PState α → List Nat → Except Err (List (Nat × Bulk α) × List Nat × PState α)
  | [], p, stopped => .ok ([], stopped, p)
  | c :: cs, p, stopped =>
    if c ∈ stopped then runCalls o cfg corpora cs p stopped
    else
      -- (`percent_completed` is evaluated first; since fix b9aff71 it is 1.0 when `total_bulks = 0` and cannot fail)
      match p.params o cfg corpora with
      | (.error err, _) => .error err
      | (.stopIteration, p1) => runCalls o cfg corpora cs p1 (c :: stopped)
      | (.bulk b, p1) =>
        match runCalls o cfg corpora cs p1 stopped with
        | .error err => .error err
        | .ok (out, st, p2) => .ok ((c, b) :: out, st, p2)

/-- PINNED pre-fix code (before b9aff71), kept only for the historical `…_pinned` witness:
    `percent_completed = current_bulk / total_bulks`, evaluated by `ScheduleHandle.__call__` before every
    `params()`, raised ZeroDivisionError once a group without any bulk had been initialised by another
    co-located client. -/
def runCallsPinned {α : Type} (o : Oracle) (cfg : Cfg) (corpora : List (Corpus α)) :
    List Nat → PState α → List Nat → Except Err (List (Nat × Bulk α) × List Nat × PState α)
  | [], p, stopped => .ok ([], stopped, p)
  | c :: cs, p, stopped =>
    if c ∈ stopped then runCallsPinned o cfg corpora cs p stopped
    else if p.totalBulks = 0 then .error .percentCompletedZeroDivision
    else
      match p.params o cfg corpora with
      | (.error err, _) => .error err
      | (.stopIteration, p1) => runCallsPinned o cfg corpora cs p1 (c :: stopped)
      | (.bulk b, p1) =>
        match runCallsPinned o cfg corpora cs p1 stopped with
        | .error err => .error err
        | .ok (out, st, p2) => .ok ((c, b) :: out, st, p2)

/-- `schedule_for` calls `partition(client_index, task.clients)` for every co-located client first -/
def partitionAll {α : Type} (n : Nat) : List Nat → PState α → Except Err (PState α)
  | [], p => .ok p
  | c :: cs, p => match p.partition c n with | .error err => .error err | .ok p1 => partitionAll n cs p1

/-- `schedule_for(task_allocation, parameter_source)`:
    `parameter_source.partition(task_allocation.client_index_in_task, task.clients)` — the number of partitions
    is the client count of the *task* (`sub.clients`), not `task_allocation.total_clients` (the client count of
    the enclosing schedule element, the 4th field of `Alloc.Entry.task`, which only serves ramp-up).
    Join points and `None` paddings are not tasks. -/
def scheduleForPartition {α : Type} (p : PState α) : Alloc.Entry → Except Err (PState α)
  | .task sub idxInTask _ _ => p.partition idxInTask sub.clients
  | _ => .ok p

/-- `AsyncIoAdapter.run`: `schedule_for` for every co-located client of the task, on the one shared source -/
def partitionEntries {α : Type} : List Alloc.Entry → PState α → Except Err (PState α)
  | [], p => .ok p
  | en :: es, p =>
    match scheduleForPartition p en with
    | .error err => .error err
    | .ok p1 => partitionEntries es p1

/-- `Worker.drive` between two join points, for one bulk task: the worker executes the columns of its allocation
    one after the other (`current_tasks_and_advance`), each by a NEW `AsyncIoAdapter`.  `AsyncIoAdapter.run` starts
    with an empty `params_per_task` dict, so every (worker, column, task) gets a new parameter source
    (`PState.init`), partitioned by `schedule_for` for the task allocations of that column only.
    `cols` = per column: the worker's allocations of the task and the order of `params()` calls;
    result = per column: the (client index, bulk) pairs handed out and the clients that have seen StopIteration. -/
def runColumns {α : Type} (o : Oracle) (cfg : Cfg) (corpora : List (Corpus α)) :
    List (List Alloc.Entry × List Nat) → Except Err (List (List (Nat × Bulk α) × List Nat))
  | [] => .ok []
  | (entries, calls) :: rest =>
    match partitionEntries entries (PState.init : PState α) with
    | .error err => .error err
    | .ok p0 =>
      match runCalls o cfg corpora calls p0 [] with
      | .error err => .error err
      | .ok (out, stopped, _) =>
        match runColumns o cfg corpora rest with
        | .error err => .error err
        | .ok outs => .ok ((out, stopped) :: outs)

/-- NOT the code — the alternative in which the worker keeps the task's parameter source for the following
    columns (late `partition()` calls on a source that has already handed out bulks); only used to show that the
    per-column rule matters (`shared_source_loses_documents`). -/
def runColumnsShared {α : Type} (o : Oracle) (cfg : Cfg) (corpora : List (Corpus α)) :
    List (List Alloc.Entry × List Nat) → PState α → Except Err (List (List (Nat × Bulk α) × List Nat))
  | [], _ => .ok []
  | (entries, calls) :: rest, p =>
    match partitionEntries entries p with
    | .error err => .error err
    | .ok p0 =>
      match runCalls o cfg corpora calls p0 [] with
      | .error err => .error err
      | .ok (out, stopped, p1) =>
        match runColumnsShared o cfg corpora rest p1 with
        | .error err => .error err
        | .ok outs => .ok ((out, stopped) :: outs)

/-- the allocations of the leaf task with identity `t` (`Alloc.Sub.id`) among the allocations of a column -/
def entriesOfTask (t : Nat) (es : List Alloc.Entry) : List Alloc.Entry :=
  es.filter fun en => match en with
    | .task sub _ _ _ => sub.id == t
    | _ => false

/-- `AsyncIoAdapter.run`: the dict of parameter sources is keyed by the TASK (`if task not in params_per_task`), not by
    the operation the task references: two tasks of one column that are built from the same named bulk operation (the
    usual way a track reuses an operation) get one source each.  So what task `t` does in the columns of a worker is
    `runColumns` on ITS allocations only — the other tasks of the column, same operation or not, do not exist for it.
    `cols` = per column: all allocations of the column (any tasks) and, per task id, the order of `params()` calls. -/
def runTaskColumns {α : Type} (o : Oracle) (cfg : Cfg) (corpora : List (Corpus α)) (t : Nat)
    (cols : List (List Alloc.Entry × (Nat → List Nat))) : Except Err (List (List (Nat × Bulk α) × List Nat)) :=
  runColumns o cfg corpora (cols.map fun col => (entriesOfTask t col.1, col.2 t))

/-- NOT the code — sources keyed by the operation: all tasks of a column that reference the operation share one live
    source (every allocation is registered on it; `calls` name the callers by global client index).  Only used to show
    that the key matters (`shared_operation_source_splits_corpus`). -/
def runColumnByOperation {α : Type} (o : Oracle) (cfg : Cfg) (corpora : List (Corpus α)) (entries : List Alloc.Entry)
    (calls : List Nat) : Except Err (List (Nat × Bulk α) × List Nat) :=
  match partitionEntries entries (PState.init : PState α) with
  | .error err => .error err
  | .ok p0 =>
    match runCalls o cfg corpora calls p0 [] with
    | .error err => .error err
    | .ok (out, stopped, _) => .ok (out, stopped)

/-! ## 6. byte layer: offset table, skip_lines, mmap readline -/

abbrev Byte := Nat

/-- number of bytes `mm.readline()` consumes at the head of `bs` (0 at end of file) -/
def lineLen : List Byte → Nat
  | [] => 0
  | b :: bs => if b = 10 then 1 else 1 + lineLen bs

/-- the lines a text-mode reader sees (terminators kept; the last line may lack one).  Domain: no `\r`. -/
def splitLines : List Byte → List (List Byte)
  | [] => []
  | b :: bs =>
    if b = 10 then [b] :: splitLines bs
    else
      match splitLines bs with
      | [] => [[b]]
      | l :: ls => (b :: l) :: ls

/-- an open `MmapSource`: the byte position and the bytes from there on (`rest = bytes.drop pos`) -/
structure Src where
  pos : Nat
  rest : List Byte

/-- `mm.seek(off)` on the file `bs` -/
def Src.seek (bs : List Byte) (off : Nat) : Src := ⟨off, bs.drop off⟩

/-- `mm.readline()`: the line (empty at end of file) and the source afterwards -/
def Src.readline (s : Src) : List Byte × Src :=
  let n := lineLen s.rest
  (s.rest.take n, ⟨s.pos + n, s.rest.drop n⟩)

/-- `k` calls of `data_file.readline()` (results dropped) -/
def Src.skip : Src → Nat → Src
  | s, 0 => s
  | s, k + 1 => Src.skip s.readline.2 k

/-- `MmapSource.readlines(k)`: stops at the first empty line -/
def Src.readlines : Src → Nat → List (List Byte) × Src
  | s, 0 => ([], s)
  | s, k + 1 =>
    let r := s.readline
    if r.1.length = 0 then ([], s)
    else
      let q := Src.readlines r.2 k
      (r.1 :: q.1, q.2)

/-- the loop of `prepare_file_offset_table`: `lineNo`/`pos` = lines read / `tell()` so far -/
def tableLoop (every : Nat) : List (List Byte) → Nat → Nat → List (Nat × Nat) × Nat
  | [], lineNo, _ => ([], lineNo)
  | l :: ls, lineNo, pos =>
    let r := tableLoop every ls (lineNo + 1) (pos + l.length)
    if (lineNo + 1) % every = 0 then ((lineNo + 1, pos + l.length) :: r.1, r.2) else r

/-- `prepare_file_offset_table(path)` → (table written to `<path>.offset`, number of lines read);
    the real code uses `every = 50000` -/
def prepareOffsetTable (every : Nat) (bs : List Byte) : List (Nat × Nat) × Nat :=
  tableLoop every (splitLines bs) 0 0

/-- `FileOffsetTable.find_closest_offset(target)` → (offset in bytes, remaining lines) -/
def findClosest (target : Nat) : List (Nat × Nat) → Nat × Nat → Nat × Nat
  | [], acc => acc
  | (lineNo, off) :: rest, acc =>
    if lineNo ≤ target then findClosest target rest (off, target - lineNo) else acc

/-- `skip_lines(path, data_file, n)` on a freshly opened source: the source afterwards
    (`tbl = none`: no `.offset` file exists) -/
def skipLines (tbl : Option (List (Nat × Nat))) (bs : List Byte) (n : Nat) : Src :=
  if n = 0 then ⟨0, bs⟩
  else
    let p := match tbl with
      | some t => findClosest n t (0, n)
      | Option.none => (0, n)
    (Src.seek bs p.1).skip p.2

/-! ## 9. from the track specification to the document sets (`TrackSpecificationReader._create_corpora`)

A setting of the track file is `none` when its key is absent.  `_r(spec, key, mandatory=False, default_value=d)`
returns the value under the key whenever the key is there - also `false` - and `d` only when it is absent. -/

/-- a document set as the track file writes it -/
structure DocSpec (α : Type) where
  lines : List α
  numDocs : Nat
  withMeta : Option Bool          -- "includes-action-and-meta-data" of the document set
  targetIndex : Option Nat        -- "target-index" of the document set
  targetDataStream : Option Nat   -- "target-data-stream" of the document set

/-- a corpus as the track file writes it: defaults on corpus level, then the document sets -/
structure CorpusSpec (α : Type) where
  withMeta : Option Bool
  targetIndex : Option Nat
  targetDataStream : Option Nat
  documents : List (DocSpec α)

/-- `_r(.., mandatory=False, default_value=d)` -/
def rDefault {β : Type} (v : Option β) (d : β) : β :=
  match v with
  | Option.some x => x
  | Option.none => d

/-- `includes_action_and_meta_data` of a document set: its own setting, else the corpus', else `False` -/
def DocSpec.declared {α : Type} (c : CorpusSpec α) (d : DocSpec α) : Bool :=
  rDefault d.withMeta (rDefault c.withMeta false)

/-- `corpus_target_idx` / `corpus_target_ds`: with exactly one declared index (data stream) it is the default -/
def corpusTarget (declaredNames : List Nat) (own : Option Nat) : Option Nat :=
  match declaredNames with
  | [] => Option.none
  | [x] => Option.some (rDefault own x)
  | _ => own

/-- `(target_idx, target_ds)` of a document set without action lines; `none` = `TrackSyntaxError` -/
def docTargets {α : Type} (indices streams : List Nat) (c : CorpusSpec α) (d : DocSpec α) : Option (Option Nat × Option Nat) :=
  let cIdx := corpusTarget indices c.targetIndex
  let cDs := corpusTarget streams c.targetDataStream
  if !streams.isEmpty && cDs.isNone && d.targetDataStream.isNone then Option.none     -- mandatory element missing
  else
    let ds := match d.targetDataStream with | Option.some x => Option.some x | Option.none => cDs
    if ds.isSome && !indices.isEmpty then Option.none                                  -- data stream target with indices
    else if !indices.isEmpty && cIdx.isNone && d.targetIndex.isNone then Option.none  -- mandatory element missing
    else
      let idx := match d.targetIndex with | Option.some x => Option.some x | Option.none => cIdx
      if idx.isSome && !streams.isEmpty then Option.none                               -- index target with data streams
      else if idx.isNone && ds.isNone then Option.none                                 -- "a target-… is required"
      else Option.some (idx, ds)

/-- one `track.Documents(...)` of `_create_corpora` -/
def resolveDoc {α : Type} (indices streams : List Nat) (c : CorpusSpec α) (d : DocSpec α) : Option (DocSet α) :=
  if DocSpec.declared c d then Option.some ⟨d.lines, d.numDocs, true, false⟩
  else
    match docTargets indices streams c d with
    | Option.none => Option.none
    | Option.some t => Option.some ⟨d.lines, d.numDocs, false, t.1.isNone⟩

def resolveDocs {α : Type} (indices streams : List Nat) (c : CorpusSpec α) : List (DocSpec α) → Option (Corpus α)
  | [] => Option.some []
  | d :: ds =>
    match resolveDoc indices streams c d with
    | Option.none => Option.none
    | Option.some x =>
      match resolveDocs indices streams c ds with
      | Option.none => Option.none
      | Option.some xs => Option.some (x :: xs)

def resolveAll {α : Type} (indices streams : List Nat) : List (CorpusSpec α) → Option (List (Corpus α))
  | [] => Option.some []
  | c :: cs =>
    match resolveDocs indices streams c c.documents with
    | Option.none => Option.none
    | Option.some x =>
      match resolveAll indices streams cs with
      | Option.none => Option.none
      | Option.some xs => Option.some (x :: xs)

/-- `TrackSpecificationReader._create_corpora(corpora_specs, indices, data_streams)`; `none` = `TrackSyntaxError` -/
def resolveCorpora {α : Type} (indices streams : List Nat) (specs : List (CorpusSpec α)) : Option (List (Corpus α)) :=
  if !indices.isEmpty && !streams.isEmpty then Option.none else resolveAll indices streams specs

/-- NOT the code: the document-level setting and the corpus-level default joined by truthiness (`doc or corpus`) -/
def DocSpec.declaredOr {α : Type} (c : CorpusSpec α) (d : DocSpec α) : Bool :=
  rDefault d.withMeta false || rDefault c.withMeta false

end Bulk
