/-
Model of the sample pipeline of a race (C07):
  Sampler.add (bounded queue) → Worker.send_samples / Sampler.samples (drain, UpdateSamples message)
  → Driver.update_samples (raw_samples) → Driver.post_process_samples / SamplePostprocessor.__call__
  (snapshot, down-sampling `idx % factor == 0`, throughput calculator fed with every sample)
  → metrics_store.to_externalizable(clear=True) in TaskFinished / BenchmarkComplete
  → BenchmarkCoordinator.on_task_finished / on_benchmark_complete (bulk_add).
Samples are identified by a number (`Sid`); "the records of sample i" (latency, service_time, processing_time and
one service_time per dependent timing) travel together and are represented by `i` itself.  Import-free.
-/
namespace Samples

abbrev Sid := Nat

structure Cfg where
  cap : Nat          -- reporting/sample.queue.size
  factor : Nat       -- metrics.request.downsample.factor (≥ 1)

structure State where
  samplers : List (Nat × Sid)          -- all Sampler.q entries, tagged with their worker, oldest first
  w2d : List (Nat × List Sid)          -- UpdateSamples messages in flight, tagged with the sending worker (FIFO per worker)
  raw : List Sid                       -- Driver.raw_samples
  dstore : List Sid                    -- records in the driver's metrics store (by sample)
  d2r : List (List Sid)                -- hand-overs in flight to race control (TaskFinished / BenchmarkComplete)
  rstore : List Sid                    -- records in race control's metrics store (by sample)
  fed : List Sid                       -- history: everything given to the throughput calculator
  downsampled : List Sid               -- history: samples whose request records were dropped by down-sampling
  dropped : List Sid                   -- history: samples rejected by a full queue
  accepted : List Sid                  -- history: samples accepted by a queue

def init : State :=
  { samplers := [], w2d := [], raw := [], dstore := [], d2r := [], rstore := [], fed := [],
    downsampled := [], dropped := [], accepted := [] }

inductive Event
  | request (w : Nat) (sid : Sid)      -- an executed request produces a sample
  | ship (w : Nat)                     -- Worker.send_samples
  | deliverU (w : Nat)                 -- DriverActor.receiveMsg_UpdateSamples
  | postprocess                        -- Driver.post_process_samples (periodic tick or step boundary)
  | handover                           -- to_externalizable(clear=True) into TaskFinished / BenchmarkComplete
  | deliverR                           -- BenchmarkCoordinator.on_task_finished / on_benchmark_complete
deriving Repr, DecidableEq

/-- the queue of worker `w` -/
def queueOf (s : State) (w : Nat) : List Sid := (s.samplers.filter fun p => p.1 == w).map (·.2)

/-- remove the first message tagged `w` (FIFO per sender) -/
def extractFirst (w : Nat) : List (Nat × List Sid) → Option (List Sid × List (Nat × List Sid))
  | [] => none
  | (v, m) :: rest =>
    if v == w then some (m, rest)
    else match extractFirst w rest with
      | none => none
      | some (m', rest') => some (m', (v, m) :: rest')

/-- the samples of a post-processing call that keep their request records: positions ≡ 0 (mod factor) -/
def keep (factor : Nat) (l : List Sid) : List Sid :=
  (l.zipIdx.filter fun p => p.2 % factor == 0).map (·.1)

def lose (factor : Nat) (l : List Sid) : List Sid :=
  (l.zipIdx.filter fun p => !(p.2 % factor == 0)).map (·.1)

def step (cfg : Cfg) (s : State) : Event → Option State
  | .request w sid =>
    if (queueOf s w).length < cfg.cap then
      some { s with samplers := s.samplers ++ [(w, sid)], accepted := s.accepted ++ [sid] }
    else
      some { s with dropped := s.dropped ++ [sid] }        -- queue.Full: logged and dropped
  | .ship w =>
    if (queueOf s w).isEmpty then some s                    -- nothing to send
    else some { s with samplers := s.samplers.filter (fun p => !(p.1 == w)), w2d := s.w2d ++ [(w, queueOf s w)] }
  | .deliverU w =>
    match extractFirst w s.w2d with
    | none => none
    | some (m, rest) => some { s with w2d := rest, raw := s.raw ++ m }
  | .postprocess =>
    some { s with raw := [], dstore := s.dstore ++ keep cfg.factor s.raw, downsampled := s.downsampled ++ lose cfg.factor s.raw,
                  fed := s.fed ++ s.raw }
  | .handover => some { s with dstore := [], d2r := s.d2r ++ [s.dstore] }
  | .deliverR =>
    match s.d2r with
    | [] => none
    | m :: rest => some { s with d2r := rest, rstore := s.rstore ++ m }

def run (cfg : Cfg) : State → List Event → Option State
  | s, [] => some s
  | s, e :: es =>
    match step cfg s e with
    | some s' => run cfg s' es
    | none => none

/-! ### the records of a sample (`SamplePostprocessor.__call__`, loop body) -/

inductive Metric
  | latency | serviceTime | processingTime
deriving Repr, DecidableEq

/-- what the post-processor reads from a `Sample`; `deps` = (operation, operation-type) of each dependent timing
    (`Sample.dependent_timings` gives them the client, task and sample type of their request) -/
structure Info where
  client : Nat
  task : String
  op : String
  opType : String
  normal : Bool                 -- sample type: normal (true) / warmup (false)
  deps : List (String × String)
deriving Repr, DecidableEq

structure Record where
  name : Metric
  client : Nat
  task : String
  op : String
  opType : String
  normal : Bool
deriving Repr, DecidableEq

/-- the request records stored for one sample: latency, service_time, processing_time with the sample's own labels,
    then one service_time per dependent timing with that timing's labels -/
def recordsOf (i : Info) : List Record :=
  [⟨.latency, i.client, i.task, i.op, i.opType, i.normal⟩,
   ⟨.serviceTime, i.client, i.task, i.op, i.opType, i.normal⟩,
   ⟨.processingTime, i.client, i.task, i.op, i.opType, i.normal⟩]
  ++ i.deps.map fun d => ⟨.serviceTime, i.client, i.task, d.1, d.2, i.normal⟩

/-- the records behind a list of sample ids -/
def records (info : Sid → Info) (l : List Sid) : List Record := l.flatMap fun a => recordsOf (info a)

/-! ### flushing: what the end of a step does (every worker ships, the driver receives, post-processes and hands
over, race control receives) -/

def drained (s : State) : Prop :=
  s.samplers = [] ∧ s.w2d = [] ∧ s.raw = [] ∧ s.dstore = [] ∧ s.d2r = []

def Event.isRequest : Event → Bool
  | .request .. => true
  | _ => false

/-- one `ship` per worker that still has queued samples (in order of first appearance); `fuel` ≥ length of the list -/
def shipAllF : Nat → List (Nat × Sid) → List Event
  | 0, _ => []
  | _ + 1, [] => []
  | n + 1, (w, _) :: rest => .ship w :: shipAllF n (rest.filter fun p => !(p.1 == w))

def shipAll (l : List (Nat × Sid)) : List Event := shipAllF l.length l

/-- the workers a list of events ships for -/
def shipped : List Event → List Nat
  | [] => []
  | .ship w :: es => w :: shipped es
  | _ :: es => shipped es

/-- the flush of state `s`: every worker with queued samples ships, the driver receives every shipment in sending order,
    one post-processing call, one hand-over, race control receives every hand-over -/
def flush (s : State) : List Event :=
  shipAll s.samplers
  ++ (s.w2d.map (·.1) ++ shipped (shipAll s.samplers)).map Event.deliverU
  ++ [.postprocess, .handover]
  ++ List.replicate (s.d2r.length + 1) .deliverR

/-! ### the driver's periodic post-processing (`DriverActor.receiveMsg_WakeupMessage`): a timer that grows by the wake-up
interval `w` and fires (and is reset) when it reaches the post-processing interval `p` -/

/-- one wake-up of an unfinished race: new timer, whether `post_process_samples` is called -/
def wake (w p t : Nat) : Nat × Bool :=
  if t + w ≥ p then (0, true) else (t + w, false)

/-- the timer after `n` wake-ups and how often post-processing fired -/
def wakes (w p : Nat) : Nat → Nat → Nat × Nat
  | 0, t => (t, 0)
  | n + 1, t =>
    let r := wake w p t
    let rest := wakes w p n r.1
    (rest.1, (if r.2 then 1 else 0) + rest.2)

/-! ### the step boundary (`DriverActor.receiveMsg_JoinPointReached` → `Driver.joinpoint_reached` → `move_to_next_task` /
`DriverActor.on_benchmark_complete`): the driver-side decision when a hand-over takes place.  The last worker that reports the
join point makes the driver post-process what is in `raw_samples` and hand over the WHOLE store (`to_externalizable(clear=True)`,
whatever the post-processing call at the join point found: the store is also filled by the periodic ticks); at the last step the
store is closed after the hand-over. -/

structure DCfg where
  cfg : Cfg
  workers : Nat        -- len(Driver.workers)
  steps : Nat          -- Driver.number_of_steps

structure DState where
  s : State
  completed : Nat      -- Driver.currently_completed
  stepNo : Nat         -- join points passed so far (Driver.current_step + 1)
  lost : List Sid      -- history: records that were still in the driver's store when it was closed
  closed : Bool        -- Driver.metrics_store is None

def dinit : DState := { s := init, completed := 0, stepNo := 0, lost := [], closed := false }

inductive DEvent
  | pipe (e : Event)   -- request / ship / deliverU / deliverR as before; postprocess = the periodic tick of the driver's wake-up
  | joinpoint          -- one worker's JoinPointReached message is handled by the driver
deriving Repr, DecidableEq

def DCfg.finished (c : DCfg) (d : DState) : Bool := d.stepNo == c.steps

/-- the hand-over of a step boundary: `post_process_samples()` then `to_externalizable(clear=True)` -/
def boundary (cfg : Cfg) (s : State) : Option State :=
  (step cfg s .postprocess).bind fun s1 => step cfg s1 .handover

def dstep (c : DCfg) (d : DState) : DEvent → Option DState
  | .pipe .handover => none                     -- the store is externalized at step boundaries only
  | .pipe .postprocess =>                       -- receiveMsg_WakeupMessage: `elif not self.driver.finished()`
    if c.finished d then some d else (step c.cfg d.s .postprocess).map fun s' => { d with s := s' }
  | .pipe (.request w sid) => (step c.cfg d.s (.request w sid)).map fun s' => { d with s := s' }
  | .pipe (.ship w) => (step c.cfg d.s (.ship w)).map fun s' => { d with s := s' }
  | .pipe (.deliverU w) => (step c.cfg d.s (.deliverU w)).map fun s' => { d with s := s' }
  | .pipe .deliverR => (step c.cfg d.s .deliverR).map fun s' => { d with s := s' }
  | .joinpoint =>
    if c.finished d then none                   -- no join point after the last one
    else if d.completed + 1 == c.workers then
      match boundary c.cfg d.s with
      | none => none
      | some s2 =>
        if d.stepNo + 1 == c.steps then
          -- m = to_externalizable(clear=True); metrics_store.close(); metrics_store = None; on_benchmark_complete(m)
          some { s := { s2 with dstore := [] }, completed := 0, stepNo := d.stepNo + 1, lost := d.lost ++ s2.dstore, closed := true }
        else
          -- move_to_next_task: m = to_externalizable(clear=True); on_task_finished(m, waiting_period)
          some { d with s := s2, completed := 0, stepNo := d.stepNo + 1 }
    else some { d with completed := d.completed + 1 }

def drun (c : DCfg) : DState → List DEvent → Option DState
  | d, [] => some d
  | d, e :: es =>
    match dstep c d e with
    | some d' => drun c d' es
    | none => none

end Samples
