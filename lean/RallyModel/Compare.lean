import RallyModel.Dbl
/-!
Model of `esrally/reporter.py :: ComparisonReporter` (C20): `_line`, `_diff`, the formatters of
`esrally/utils/convert.py` that the comparison uses, and `_metrics_table` as an interpreter of a
*generated* block table (`RallyGen/CompareRows.lean`, written by `harness/c20.py::translate` from a
behavioural probe of the real `_metrics_table`: per `_line` call site the source metric, label, unit
source, `treat_increase_as_improvement`, formatter, processing-time flag and the sign convention of the
relative difference; per block its kind and the `… is None: return` guards).

Numbers.  A Python value in a race result is an `int` (arbitrary precision) or a `float`.
Floats are kept in **sign–magnitude** form (`SM`): IEEE-754 round-to-nearest-even is symmetric in the
sign, so every basic operation is "operate on the magnitudes exactly, round with `Dbl.fl`, compute the
sign bit by the IEEE rule".  This keeps `-0.0` (which the real code prints as `-0.00%`) exact.
Only the normal range is modelled: the driver accepts magnitudes 0 or in [2^-300, 2^300] (no
intermediate result can then leave the normal range) and answers `OutOfDomain` otherwise.
Import-free apart from `RallyModel.Dbl`.
-/
namespace Compare

abbrev Str := List Char

/-- a finite double in sign–magnitude form; `mag ≥ 0` is itself a double -/
structure SM where
  neg : Bool
  mag : Rat
deriving DecidableEq

inductive Val
  | int (i : Int)
  | flt (x : SM)
deriving DecidableEq

def SM.val (x : SM) : Rat := if x.neg then -x.mag else x.mag

/-- `float(v)` -/
def Val.toSM : Val → SM
  | .int i => ⟨decide (i < 0), Dbl.fl ((i.natAbs : Nat) : Rat)⟩
  | .flt x => x

/-- exact numeric value (Python compares int and float exactly) -/
def Val.rat : Val → Rat
  | .int i => (i : Rat)
  | .flt x => x.val

/-- `bool(v)` -/
def Val.truthy : Val → Bool
  | .int i => i != 0
  | .flt x => x.mag != 0

/-- IEEE `x - y` -/
def fsub (x y : SM) : SM :=
  let r := x.val - y.val
  if r = 0 then ⟨x.neg && !y.neg, 0⟩ else ⟨decide (r < 0), Dbl.fl (Dbl.qabs r)⟩

/-- Python `a - b` -/
def Val.sub : Val → Val → Val
  | .int i, .int j => .int (i - j)
  | a, b => .flt (fsub a.toSM b.toSM)

/-- `v * k` and `v / k` for a positive float constant `k` -/
def Val.mulK (v : Val) (k : Rat) : Val := .flt ⟨v.toSM.neg, Dbl.fl (v.toSM.mag * k)⟩
def Val.divK (v : Val) (k : Rat) : Val := .flt ⟨v.toSM.neg, Dbl.fl (v.toSM.mag / k)⟩

/-- Python `n / d` (true division; `d` truthy).  int/int is correctly rounded from the exact quotient. -/
def Val.div : Val → Val → SM
  | .int i, .int j => ⟨decide (i < 0) != decide (j < 0), Dbl.fl (((i.natAbs : Nat) : Rat) / ((j.natAbs : Nat) : Rat))⟩
  | n, d => ⟨n.toSM.neg != d.toSM.neg, Dbl.fl (n.toSM.mag / d.toSM.mag)⟩

/-- the formatters used by `ComparisonReporter` (convert.py) -/
inductive Fmt
  | ident      -- lambda x: x
  | msToMin    -- ms / 1000.0 / 60.0 if ms else ms
  | msToSec    -- ms / 1000.0 if ms else ms
  | bytesToGb  -- b / 1024.0 / 1024.0 / 1024.0 if b else b
  | bytesToMb  -- b / 1024.0 / 1024.0 if b else b
  | bytesToKb  -- b / 1024.0 if b else b
  | times100   -- factor(100.0): v * 100.0
deriving DecidableEq

def Fmt.apply : Fmt → Val → Val
  | .ident, v => v
  | .msToMin, v => if v.truthy then (v.divK 1000).divK 60 else v
  | .msToSec, v => if v.truthy then v.divK 1000 else v
  | .bytesToGb, v => if v.truthy then ((v.divK 1024).divK 1024).divK 1024 else v
  | .bytesToMb, v => if v.truthy then (v.divK 1024).divK 1024 else v
  | .bytesToKb, v => if v.truthy then v.divK 1024 else v
  | .times100, v => v.mulK 100

/-- `formatter(contender - baseline)` -/
def diffVal (f : Fmt) (b c : Val) : Val := f.apply (c.sub b)

/-- Python `abs(v)` -/
def Val.abs : Val → Val
  | .int i => .int (i.natAbs : Int)
  | .flt x => .flt ⟨false, x.mag⟩

/-- `_safe_divide(contender - baseline, d) * 100.0` where `d` is `baseline` (`absB = false`, the code as
    it stands) or `abs(baseline)` (`absB = true`); which one a call site uses is probed by `translate`. -/
def pctVal (absB : Bool) (b c : Val) : Val :=
  let n := c.sub b
  let d := if absB then b.abs else b
  let q : Val := if d.truthy then .flt (n.div d) else .int 0
  q.mulK 100

inductive Colour
  | none      -- plain: no escape codes
  | green | red | neutral
deriving DecidableEq

/-- A Diff / Diff % cell: colour tag, the explicit `+`, the `-` produced by the float formatting,
    and the scaled integer `n` whose decimal expansion (with `prec` fraction digits) is printed. -/
structure DCell where
  colour : Colour
  plus : Bool
  neg : Bool
  n : Nat
  prec : Nat
  pct : Bool
deriving DecidableEq

/-- `10**-precision` -/
def thr (prec : Nat) : Rat := Dbl.fl (1 / ((10 ^ prec : Nat) : Rat))

/-- `f"{x:.{prec}f}"`: CPython rounds the exact binary value correctly (ties to even) -/
def scaled (prec : Nat) (mag : Rat) : Nat := (Dbl.rhe (mag * ((10 ^ prec : Nat) : Rat))).toNat

/-- the tail of `_diff`: threshold, sign prefix, colour -/
def mkCell (plain incGood : Bool) (prec : Nat) (pct : Bool) (v : Val) : DCell :=
  let greater := if plain then Colour.none else if incGood then Colour.green else Colour.red
  let smaller := if plain then Colour.none else if incGood then Colour.red else Colour.green
  let neutr := if plain then Colour.none else Colour.neutral
  let q := v.rat
  let p := v.toSM
  let n := scaled prec p.mag
  if q ≥ thr prec then ⟨greater, true, p.neg, n, prec, pct⟩
  else if q ≤ -(thr prec) then ⟨smaller, false, p.neg, n, prec, pct⟩
  else ⟨neutr, false, p.neg, n, prec, pct⟩

def diffCell (plain incGood : Bool) (f : Fmt) (b c : Val) : DCell := mkCell plain incGood 5 false (diffVal f b c)
def pctCell (plain incGood absB : Bool) (b c : Val) : DCell := mkCell plain incGood 2 true (pctVal absB b c)

/-! ### rendering -/

def digitChar : Nat → Char
  | 0 => '0' | 1 => '1' | 2 => '2' | 3 => '3' | 4 => '4' | 5 => '5' | 6 => '6' | 7 => '7' | 8 => '8' | _ => '9'

/-- `w` decimal digits of `n` (most significant first, leading zeros) -/
def digitsW : Nat → Nat → Str
  | 0, _ => []
  | w + 1, n => digitsW w (n / 10) ++ [digitChar (n % 10)]

/-- decimal digits of `n` without leading zeros (`"0"` for 0); structural on a fuel `f ≥ n` -/
def natDigitsF : Nat → Nat → Str
  | 0, n => [digitChar n]
  | f + 1, n => if n < 10 then [digitChar n] else natDigitsF f (n / 10) ++ [digitChar (n % 10)]

def natDigits (n : Nat) : Str := natDigitsF n n

def fixedStr (prec n : Nat) : Str := natDigits (n / 10 ^ prec) ++ ['.'] ++ digitsW prec (n % 10 ^ prec)

def esc : Char := Char.ofNat 27

def wrap : Colour → Str → Str
  | .none, s => s
  | .green, s => [esc, '[', '3', '2', ';', '1', 'm'] ++ s ++ [esc, '[', '0', 'm']
  | .red, s => [esc, '[', '3', '1', ';', '1', 'm'] ++ s ++ [esc, '[', '0', 'm']
  | .neutral, s => [esc, '[', '3', '9', ';', '1', 'm'] ++ s ++ [esc, '[', '0', 'm']

def DCell.text (d : DCell) : Str :=
  (if d.plus then ['+'] else []) ++ (if d.neg then ['-'] else []) ++ fixedStr d.prec d.n ++ (if d.pct then ['%'] else [])

def DCell.render (d : DCell) : Str := wrap d.colour d.text

/-- remove `ESC … m` sequences (what "without colour codes" means): `inEsc` = inside a sequence -/
def stripAux : Bool → Str → Str
  | _, [] => []
  | false, c :: rest => if c = esc then stripAux true rest else c :: stripAux false rest
  | true, c :: rest => if c = 'm' then stripAux false rest else stripAux true rest

def stripAnsi (s : Str) : Str := stripAux false s

def DCell.uncolour (d : DCell) : DCell := { d with colour := .none }

/-! ### rows and the table -/

structure Row where
  label : Str
  task : Str
  base : Val
  cont : Val
  diff : DCell
  unit : Option Str
  pct : DCell
deriving DecidableEq

def Row.uncolour (r : Row) : Row := { r with diff := r.diff.uncolour, pct := r.pct.uncolour }

def lookup {α : Type} (k : Str) : List (Str × α) → Option α
  | [] => none
  | (k', v) :: rest => if k = k' then some v else lookup k rest

/-- the values reachable from one place: global attributes, one task's record, or one list entry.
    `vals` holds the leaves that are present (not `None`) under a flattened key such as
    `total_time_per_shard.min` or `latency.99_9`; `units` the unit strings. -/
structure Scope where
  vals : List (Str × Val)
  units : List (Str × Str)

/-- one record of `op_metrics`: the `task` key (absent in race files before Rally 0.8.0), the `operation`
    key and the values -/
structure TaskM where
  task : Option Str
  operation : Str
  sc : Scope

/-- `r.get("task", r["operation"])`: the name a record is listed and looked up under – the operation only
    counts when the record has no task key at all -/
def TaskM.name (t : TaskM) : Str :=
  match t.task with
  | some n => n
  | none => t.operation

structure Entry where
  id : Str
  sc : Scope

structure Stats where
  glob : Scope
  tasks : List TaskM
  /-- list-valued attributes after `GlobalStats.__init__` defaulting: `none` = Python `None` -/
  lists : List (Str × Option (List Entry))

inductive UnitSrc
  | const (s : Str)
  | key (k : Str)    -- read from the *baseline* scope
deriving DecidableEq

/-- one `_line(...)` call site (generated) -/
structure RowSpec where
  key : Str
  label : Str
  unit : UnitSrc
  incGood : Bool    -- treat_increase_as_improvement
  fmt : Fmt
  needsProc : Bool  -- only with reporting/output.processingtime
  pctAbs : Bool     -- the relative difference divides by abs(baseline) (false: by baseline)
deriving DecidableEq

inductive Block
  | scalars (rows : List RowSpec)
  /-- `for b in baseline.<key>: for c in contender.<key>: if c[id] == b[id]: rows…`; with `guardB = some g`
      the whole block is skipped when the baseline's `g` is `None`, with `guardC = some g` when the contender's is -/
  | joined (listKey : Str) (guardB guardC : Option Str) (rows : List RowSpec)
  | tasks (rows : List RowSpec)

inductive Err
  | typeError   -- iterating `None`
  | notFound    -- `exceptions.NotFound`: no stored race with that id
deriving DecidableEq

def unitOf (u : UnitSrc) (b : Scope) : Option Str :=
  match u with
  | .const s => some s
  | .key k => lookup k b.units

def mkRow (plain : Bool) (s : RowSpec) (task : Str) (unit : Option Str) (bv cv : Val) : Row :=
  { label := s.label, task := task, base := s.fmt.apply bv, cont := s.fmt.apply cv,
    diff := diffCell plain s.incGood s.fmt bv cv, unit := unit, pct := pctCell plain s.incGood s.pctAbs bv cv }

/-- `_line`: a row iff both values are present -/
def line (plain : Bool) (s : RowSpec) (task : Str) (b c : Scope) : Option Row :=
  match lookup s.key b.vals, lookup s.key c.vals with
  | some bv, some cv => some (mkRow plain s task (unitOf s.unit b) bv cv)
  | _, _ => none

def active (showProc : Bool) (s : RowSpec) : Bool := !s.needsProc || showProc

def scopeRows (plain showProc : Bool) (specs : List RowSpec) (task : Str) (b c : Scope) : List Row :=
  (specs.filter (active showProc)).filterMap (fun s => line plain s task b c)

/-- `GlobalStats.metrics(task)`: first record `r` with `r.get("task", r["operation"]) == task`
    (`GlobalStats.tasks()` is `b.tasks.map TaskM.name`, the loop of `taskRows`) -/
def findTask (n : Str) : List TaskM → Option TaskM
  | [] => none
  | t :: rest => if t.name = n then some t else findTask n rest

def taskRows (plain showProc : Bool) (specs : List RowSpec) (b c : Stats) : List Row :=
  b.tasks.flatMap (fun t =>
    match findTask t.name c.tasks, findTask t.name b.tasks with
    | some ct, some bt => scopeRows plain showProc specs t.name bt.sc ct.sc
    | _, _ => [])

def getList (k : Str) (s : Stats) : Option (List Entry) :=
  match lookup k s.lists with
  | some (some l) => some l
  | _ => none

/-- `if baseline_stats.<guard> is None: return []` -/
def guardSkips (guard : Option Str) (b : Stats) : Bool :=
  match guard with
  | some g => (getList g b).isNone
  | none => false

def joinRows (plain showProc : Bool) (k : Str) (guardB guardC : Option Str) (specs : List RowSpec) (b c : Stats) :
    Except Err (List Row) :=
  if guardSkips guardB b || guardSkips guardC c then .ok [] else
  match getList k b with
  | none => .error .typeError
  | some [] => .ok []
  | some bl =>
    match getList k c with
    | none => .error .typeError
    | some cl =>
      .ok (bl.flatMap (fun be => (cl.filter (fun ce => ce.id = be.id)).flatMap
        (fun ce => scopeRows plain showProc specs be.id be.sc ce.sc)))

def blockRows (plain showProc : Bool) (b c : Stats) : Block → Except Err (List Row)
  | .scalars specs => .ok (scopeRows plain showProc specs [] b.glob c.glob)
  | .joined k gb gc specs => joinRows plain showProc k gb gc specs b c
  | .tasks specs => .ok (taskRows plain showProc specs b c)

/-- `ComparisonReporter._metrics_table(baseline, contender, plain)` -/
def metricsTable (blocks : List Block) (plain showProc : Bool) (b c : Stats) : Except Err (List Row) :=
  match blocks with
  | [] => .ok []
  | blk :: rest =>
    match blockRows plain showProc b c blk, metricsTable rest plain showProc b c with
    | .ok r, .ok rs => .ok (r ++ rs)
    | .error e, _ => .error e
    | _, .error e => .error e

def Block.specs : Block → List RowSpec
  | .scalars r => r
  | .joined _ _ _ r => r
  | .tasks r => r

def allSpecs (blocks : List Block) : List RowSpec := blocks.flatMap Block.specs

/-! ### sizes with a value-dependent unit (`_report_disk_usage_stats_per_field`) -/

/-- the units `convert._bytes_to_human` chooses from -/
inductive HUnit
  | gb | mb | kb | bytes
deriving DecidableEq

def HUnit.str : HUnit → Str
  | .gb => ['G', 'B']
  | .mb => ['M', 'B']
  | .kb => ['k', 'B']
  | .bytes => ['b', 'y', 't', 'e', 's']

/-- `partial(convert.bytes_to_unit, unit)` -/
def HUnit.fmt : HUnit → Fmt
  | .gb => .bytesToGb
  | .mb => .bytesToMb
  | .kb => .bytesToKb
  | .bytes => .ident

/-- bytes per unit -/
def HUnit.factor : HUnit → Rat
  | .gb => 1073741824
  | .mb => 1048576
  | .kb => 1024
  | .bytes => 1

/-- `convert.bytes_to_human_unit(b)`: the largest unit in which `|b|` exceeds 1 -/
def humanUnit (v : Val) : HUnit :=
  let g := (Fmt.bytesToGb.apply v).rat
  if g > 1 ∨ g < -1 then .gb else
  let m := (Fmt.bytesToMb.apply v).rat
  if m > 1 ∨ m < -1 then .mb else
  let k := (Fmt.bytesToKb.apply v).rat
  if k > 1 ∨ k < -1 then .kb else .bytes

/-- Python `min(a, b)` -/
def pymin (a b : Val) : Val := if b.rat < a.rat then b else a

/-- one row of the per-field disk usage: the unit is chosen from the smaller of the two values and used for
    baseline, contender and difference -/
def diskRow (plain incGood pctAbs : Bool) (label : Str) (bv cv : Val) : Row :=
  let u := humanUnit (pymin bv cv)
  mkRow plain ⟨[], label, .const u.str, incGood, u.fmt, false, pctAbs⟩ [] (some u.str) bv cv

/-! ### `reporter.compare(cfg, baseline_id, contender_id)` on a file race store -/

/-- the stored races: one directory per race id (`FileRaceStore`), hence an exact-name lookup -/
def findRace (id : Str) (store : List (Str × Stats)) : Option Stats := lookup id store

def compareById (blocks : List Block) (plain showProc : Bool) (store : List (Str × Stats)) (bid cid : Str) :
    Except Err (List Row) :=
  match findRace bid store, findRace cid store with
  | some b, some c => metricsTable blocks plain showProc b c
  | _, _ => .error .notFound

/-! ### several comparisons through ONE reporter object -/

/-- what a call can change on a `ComparisonReporter` instance: `self.plain` (every other attribute is set in
    `__init__` from the configuration and only read) -/
structure RState where
  plain : Bool

/-- `_metrics_table(b, c, plain)` or `report(r1, r2)` on the instance -/
inductive Call
  | table (plain : Bool) (b c : Stats)
  | report (b c : Stats)

/-- a table built while the instance is in state `s` (`_diff` reads `self.plain`) -/
def tableIn (blocks : List Block) (showProc : Bool) (s : RState) (b c : Stats) : Except Err (List Row) :=
  metricsTable blocks s.plain showProc b c

/-- one call: `_metrics_table` first stores its argument in `self.plain`; `report` builds the plain table (report
    file) and then the rich table (console) -/
def callStep (blocks : List Block) (showProc : Bool) (s : RState) : Call → RState × List (Except Err (List Row))
  | .table p b c => (⟨p⟩, [tableIn blocks showProc ⟨p⟩ b c])
  | .report b c => (⟨false⟩, [tableIn blocks showProc ⟨true⟩ b c, tableIn blocks showProc ⟨false⟩ b c])

/-- a history of calls on one instance, starting in state `s` -/
def runSession (blocks : List Block) (showProc : Bool) : RState → List Call → List (List (Except Err (List Row)))
  | _, [] => []
  | s, c :: cs => (callStep blocks showProc s c).2 :: runSession blocks showProc (callStep blocks showProc s c).1 cs

/-- the same call on a reporter of its own -/
def freshCall (blocks : List Block) (showProc : Bool) (c : Call) : List (Except Err (List Row)) :=
  (callStep blocks showProc ⟨false⟩ c).2

/-! ### the per-task record a race stores (`GlobalStatsCalculator.summary_stats`, `GlobalStats.add_op_metrics`) -/

def kTpMin : Str := ['t', 'h', 'r', 'o', 'u', 'g', 'h', 'p', 'u', 't', '.', 'm', 'i', 'n']
def kTpMean : Str := ['t', 'h', 'r', 'o', 'u', 'g', 'h', 'p', 'u', 't', '.', 'm', 'e', 'a', 'n']
def kTpMedian : Str := ['t', 'h', 'r', 'o', 'u', 'g', 'h', 'p', 'u', 't', '.', 'm', 'e', 'd', 'i', 'a', 'n']
def kTpMax : Str := ['t', 'h', 'r', 'o', 'u', 'g', 'h', 'p', 'u', 't', '.', 'm', 'a', 'x']
def kTpUnit : Str := ['t', 'h', 'r', 'o', 'u', 'g', 'h', 'p', 'u', 't', '.', 'u', 'n', 'i', 't']
def kErrorRate : Str := ['e', 'r', 'r', 'o', 'r', '_', 'r', 'a', 't', 'e']

/-- `GlobalStatsCalculator.summary_stats("throughput", task, op_type)`: with a mean, a median and min / max statistics
    of the samples of type normal the four numbers are stored together; otherwise (a task without such samples, e.g.
    every request failed or only warm-up samples) all four are `None`. The unit is stored either way. -/
def summaryStats (mean median : Option Val) (stats : Option (Val × Val)) (unit : Option Str) : Scope :=
  let units := match unit with
    | some u => [(kTpUnit, u)]
    | none => []
  match mean, median, stats with
  | some me, some md, some (mn, mx) => ⟨[(kTpMin, mn), (kTpMean, me), (kTpMedian, md), (kTpMax, mx)], units⟩
  | _, _, _ => ⟨[], units⟩

/-- `GlobalStats.add_op_metrics(task, operation, throughput, latency, service_time, processing_time, error_rate, …)`:
    the record of a task always carries an error rate (a number), next to whatever throughput statistics and
    percentiles (`timings`, flattened keys such as `service_time.99_9`) exist -/
def opRecord (task op : Str) (tp : Scope) (timings : List (Str × Val)) (err : Val) : TaskM :=
  ⟨some task, op, ⟨(kErrorRate, err) :: (tp.vals ++ timings), tp.units⟩⟩

/-- `_line` lists a call site iff both values are present (the counting form of `line`) -/
def bothPresent (b c : Scope) (s : RowSpec) : Bool := (lookup s.key b.vals).isSome && (lookup s.key c.vals).isSome

/-- the rows of one task in a finished table -/
def rowsOfTask (t : Str) (rows : List Row) : List Row := rows.filter (fun r => r.task = t)

/-- substring test used by the direction table -/
def hasInfix (pat : Str) : Str → Bool
  | [] => pat.isEmpty
  | c :: rest => pat.isPrefixOf (c :: rest) || hasInfix pat rest

end Compare
