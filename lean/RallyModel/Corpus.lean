/-
Model of corpus preparation (C14):

  esrally/track/loader.py   DocumentSetPreparator.prepare_document_set / prepare_bundled_document_set /
                            create_file_offset_table, Downloader.download, Decompressor.decompress
  esrally/utils/net.py      download, download_http, _download_http
  esrally/utils/io.py       decompress (+ _do_decompress_manually[_external|_with_lib], _do_decompress),
                            prepare_file_offset_table, FileOffsetTable.is_valid, remove_file_offset_table

Import-free.  The file system is abstract: five names (document file, archive, `<target>.tmp`,
`<document>.offset`, `<document>.offset.tmp`), each absent or (size, content id, mtime).  Content id `pub` means "the first
`size` bytes of the published file of that name", `other t` is any other byte string (registered
under tag `t` by the harness).  Every operation is a sequence of *atomic* file-system steps; each
function returns, besides its result and the final state, the list of the states after each atomic
step (`trace`): a crash after any step leaves exactly one of these states behind.

What the environment does is an input, not modelled:
  * `Attempt`      what one HTTP request/response does (status, Content-Length, body chunks, how the
                   body ends as seen through urllib3 with enforce_content_length)
  * `World.dc`     what the decompression library / external tool does with given archive bytes
  * `World.lines`  number of lines `prepare_file_offset_table` counts in given document bytes
  * `World.tbl`    sizes of the successive writes of the offset table for given document bytes
  * `World.decodeFails`  whether reading given document bytes as UTF-8 text fails (torn multi-byte character)
-/
namespace Corpus

inductive Cid
  | pub
  | other (tag : Nat)
deriving DecidableEq, Repr

structure File where
  size : Nat
  cid : Cid
  mtime : Nat
deriving DecidableEq, Repr

/-- content of `<document>.offset` -/
inductive OffC
  | complete (size : Nat) (cid : Cid)            -- the whole table for the document bytes (size, cid)
  | torn (size : Nat) (cid : Cid) (bytes : Nat)  -- only its first `bytes` bytes (file still open / crash)
  | junk (tag : Nat)                             -- anything else
deriving DecidableEq, Repr

structure OffFile where
  content : OffC
  mtime : Nat
deriving DecidableEq, Repr

structure FS where
  doc : Option File
  arch : Option File
  tmp : Option File
  off : Option OffFile
  offTmp : Option OffFile   -- `<document>.offset.tmp`: the table while it is being built
  clock : Nat          -- "now": stamp of the next mutation
deriving DecidableEq, Repr

inductive Slot
  | doc
  | arch
  | tmp
deriving DecidableEq, Repr

def FS.get (fs : FS) : Slot → Option File
  | .doc => fs.doc
  | .arch => fs.arch
  | .tmp => fs.tmp

def FS.set (fs : FS) (s : Slot) (v : Option File) : FS :=
  match s with
  | .doc => { fs with doc := v }
  | .arch => { fs with arch := v }
  | .tmp => { fs with tmp := v }

def FS.tick (fs : FS) : FS := { fs with clock := fs.clock + 1 }

/-! ## atomic steps -/

/-- `open(name, "wb")`: create or truncate -/
def create (fs : FS) (s : Slot) : FS := (fs.set s (some ⟨0, .pub, fs.clock⟩)).tick

/-- one `write(chunk)` of `n` bytes of content family `c` (an empty file is a prefix of anything) -/
def append (fs : FS) (s : Slot) (n : Nat) (c : Cid) : FS :=
  match fs.get s with
  | none => fs
  | some f => (fs.set s (some ⟨f.size + n, if f.size + n = 0 then .pub else c, fs.clock⟩)).tick

/-- `os.remove(name)` -/
def remove (fs : FS) (s : Slot) : FS := (fs.set s none).tick

/-- `os.rename(tmp, target)`: the file keeps its mtime -/
def rename (fs : FS) (tgt : Slot) : FS := ((fs.set tgt fs.tmp).set .tmp none).tick

/-- `os.utime(name, t)` (tarfile restores the member's mtime) -/
def touch (fs : FS) (s : Slot) (t : Nat) : FS :=
  match fs.get s with
  | none => fs
  | some f => (fs.set s (some { f with mtime := t })).tick

/-- successive writes; returns the final state and the state after each write -/
def writeAll (fs : FS) (s : Slot) (c : Cid) : List Nat → FS × List FS
  | [] => (fs, [])
  | n :: ns =>
    let fs1 := append fs s n c
    let r := writeAll fs1 s c ns
    (r.1, fs1 :: r.2)

/-! ## specification of a document set, environment -/

structure Spec where
  hasArchive : Bool        -- document_archive is not None (document_file is always set by the loader)
  csize : Option Nat       -- compressed-bytes
  usize : Option Nat       -- uncompressed-bytes
  nlines : Nat             -- Documents.number_of_lines
  hasBaseUrl : Bool        -- bool(base_url)
  offline : Bool
  testMode : Bool
deriving DecidableEq, Repr

inductive BodyEnd
  | clean            -- stream ends normally
  | protocolError    -- urllib3.exceptions.ProtocolError (dropped connection, IncompleteRead vs Content-Length)
  | readTimeout      -- urllib3.exceptions.ReadTimeoutError
deriving DecidableEq, Repr

inductive Attempt
  | connectFail      -- `_request` itself raises (MaxRetryError …): not retried by download_http
  | resp (status : Nat) (contentLength : Option Nat) (cid : Cid) (chunks : List Nat) (fin : BodyEnd)
deriving DecidableEq, Repr

/-- what decompressing a given archive does (library / tool behaviour) -/
structure DcOutcome where
  openFails : Bool             -- zip/tar: archive cannot be opened → raw exception before any write
  hitsDoc : Bool               -- the name written is the document file's name
  ext : Option (Nat × Bool)    -- external tool used: bytes it writes, exit status ok
  cid : Cid                    -- content family of what is written
  chunks : List Nat            -- writes of the library path
  fails : Bool                 -- library path raises after these writes
  wrapped : Bool               -- … as RuntimeError (zip/tar `_do_decompress`) instead of the raw exception
  mtime : Option Nat           -- tar family: extraction restores the member's mtime
deriving DecidableEq, Repr

structure World where
  dSize : Nat                              -- real size of the published document file
  aSize : Nat                              -- real size of the published archive
  lines : Cid → Nat → Nat                  -- lines counted in document bytes (cid, size)
  dc : Cid → Nat → DcOutcome               -- decompression of archive bytes (cid, size)
  tbl : Cid → Nat → List Nat               -- writes of the offset table for document bytes (cid, size)
  decodeFails : Cid → Nat → Bool           -- reading these document bytes as UTF-8 text raises (after those writes)

/-- exceptions the code raises (class + message kind) -/
inductive CodeErr
  | noBaseUrl                -- DataError "Cannot download data because no base URL is provided."
  | presentWrongSizeNoUrl    -- DataError "[…] is present but does not have the expected size … cannot be downloaded"
  | offline                  -- SystemSetupError "Cannot find […]. Please disable offline mode and retry."
  | testMode404              -- DataError "This track does not support test mode. …"
  | httpStatus (code : Nat)  -- DataError "Could not download […] (HTTP status: code)"
  | httpError (code : Nat)   -- urllib.error.HTTPError (inside net.download only)
  | downloadCorrupt          -- DataError "Download of […] is corrupt. …" (net.download)
  | downloadedCorrupt        -- DataError "[…] is corrupt. Downloaded …" (Downloader.download)
  | notDownloaded            -- SystemSetupError "Could not download … Verify data are available"
  | protocolError            -- urllib3 ProtocolError after the last retry
  | readTimeout              -- urllib3 ReadTimeoutError after the last retry
  | connectError             -- whatever `_request` raised
  | osError                  -- FileNotFoundError of os.path.getsize / open
  | didNotCreate             -- DataError "Decompressing […] did not create […]"
  | extractedCorrupt         -- DataError "[…] is corrupt. Extracted …"
  | decompressRaw            -- raw exception of the decompression library
  | decompressRuntime        -- RuntimeError "Could not decompress provided archive"
  | linesMismatch            -- DataError "Data in […] are invalid. Expected [n] lines but got [m]."
  | unicodeError             -- UnicodeDecodeError out of prepare_file_offset_table
  | bundledDocWrongSize      -- DataError "[doc] is present but does not have the expected size of"
  | bundledArchiveWrongSize  -- DataError "[archive] is present but does not have the expected size of"
deriving DecidableEq, Repr

/-- result of an operation: final state, states after each atomic step -/
structure Out (α : Type) where
  res : Except CodeErr α
  fs : FS
  trace : List FS

/-! ## net.py -/

def HTTP_DOWNLOAD_RETRIES : Nat := 10

/-- `if expected_size_in_bytes is None: expected_size_in_bytes = size_from_content_header` -/
def expectedOr (expected cl : Option Nat) : Option Nat :=
  match expected with
  | none => cl
  | some e => some e

/-- `_download_http`: one request; returns the (possibly header-derived) expected size -/
def attemptHttp (fs : FS) (a : Attempt) (expected : Option Nat) : Out (Option Nat) :=
  match a with
  | .connectFail => ⟨.error .connectError, fs, []⟩
  | .resp status cl cid chunks fin =>
    let fs1 := create fs .tmp                                  -- open(local_path, "wb")
    if status > 299 then ⟨.error (.httpError status), fs1, [fs1]⟩
    else
      let expected' := expectedOr expected cl
      let w := writeAll fs1 .tmp cid chunks
      match fin with
      | .clean => ⟨.ok expected', w.1, fs1 :: w.2⟩
      | .protocolError => ⟨.error .protocolError, w.1, fs1 :: w.2⟩
      | .readTimeout => ⟨.error .readTimeout, w.1, fs1 :: w.2⟩

def retriable : CodeErr → Bool
  | .protocolError => true
  | .readTimeout => true
  | _ => false

/-- `download_http`: `for i in range(RETRIES + 1)`; `left` = iterations left.  Returns the unused plan. -/
def downloadHttp (fs : FS) (expected : Option Nat) : Nat → List Attempt → Out (Option Nat) × List Attempt
  | 0, plan => (⟨.ok none, fs, []⟩, plan)                      -- loop falls through: returns None
  | left + 1, plan =>
    let a := plan.head?.getD .connectFail
    let rest := plan.tail
    let r := attemptHttp fs a expected
    match r.res with
    | .ok e => (⟨.ok e, r.fs, r.trace⟩, rest)
    | .error err =>
      if retriable err && left != 0 then
        let r2 := downloadHttp r.fs expected left rest
        (⟨r2.1.res, r2.1.fs, r.trace ++ r2.1.trace⟩, r2.2)
      else (⟨.error err, r.fs, r.trace⟩, rest)

/-- `expected is None or size == expected` -/
def sizeIs (f : File) : Option Nat → Bool
  | none => true
  | some e => f.size == e

/-- `net.download(url, local_path, expected_size_in_bytes)` for http(s) URLs -/
def netDownload (fs : FS) (tgt : Slot) (expected : Option Nat) (plan : List Attempt) : Out Unit × List Attempt :=
  let d := downloadHttp fs expected (HTTP_DOWNLOAD_RETRIES + 1) plan
  let r := d.1
  match r.res with
  | .error err =>
    -- except BaseException: if os.path.isfile(tmp): os.remove(tmp); raise
    match r.fs.tmp with
    | some _ => let fs2 := remove r.fs .tmp; (⟨.error err, fs2, r.trace ++ [fs2]⟩, d.2)
    | none => (⟨.error err, r.fs, r.trace⟩, d.2)
  | .ok expected' =>
    match r.fs.tmp with
    | none => (⟨.error .osError, r.fs, r.trace⟩, d.2)           -- os.path.getsize(tmp) on a missing file
    | some t =>
      -- `if expected is not None and download_size != expected: remove tmp; raise` else rename
      if sizeIs t expected' then
        let fs2 := rename r.fs tgt
        (⟨.ok (), fs2, r.trace ++ [fs2]⟩, d.2)
      else
        let fs2 := remove r.fs .tmp
        (⟨.error .downloadCorrupt, fs2, r.trace ++ [fs2]⟩, d.2)

/-! ## loader.Downloader -/

def downloaderDownload (spec : Spec) (fs : FS) (tgt : Slot) (size : Option Nat) (plan : List Attempt) :
    Out Unit × List Attempt :=
  if !spec.hasBaseUrl then (⟨.error .noBaseUrl, fs, []⟩, plan)
  else if spec.offline then (⟨.error .offline, fs, []⟩, plan)
  else
    let d := netDownload fs tgt size plan
    let r := d.1
    match r.res with
    | .error (.httpError code) =>
      if code == 404 && spec.testMode then (⟨.error .testMode404, r.fs, r.trace⟩, d.2)
      else (⟨.error (.httpStatus code), r.fs, r.trace⟩, d.2)
    | .error e => (⟨.error e, r.fs, r.trace⟩, d.2)
    | .ok () =>
      match r.fs.get tgt with
      | none => (⟨.error .notDownloaded, r.fs, r.trace⟩, d.2)
      | some f =>
        if sizeIs f size then (⟨.ok (), r.fs, r.trace⟩, d.2)
        else (⟨.error .downloadedCorrupt, r.fs, r.trace⟩, d.2)

/-! ## io.decompress and loader.Decompressor -/

/-- writes to the document name only if the archive's output name is the document's name -/
def dcCreate (o : DcOutcome) (fs : FS) : FS := if o.hitsDoc then create fs .doc else fs.tick
def dcWrite (o : DcOutcome) (fs : FS) (chunks : List Nat) : FS × List FS :=
  if o.hitsDoc then writeAll fs .doc o.cid chunks else (fs, [])

/-- one output file written from scratch: `open(out, "wb")`, then the writes -/
def dcPhase (o : DcOutcome) (fs : FS) (chunks : List Nat) : FS × List FS :=
  let a := dcCreate o fs
  let b := dcWrite o a chunks
  (b.1, a :: b.2)

/-- tarfile restores the member's mtime once the member is written (even if reading on fails later) -/
def dcTouch (o : DcOutcome) (fs : FS) : FS × List FS :=
  match o.mtime with
  | some t => if o.hitsDoc then (touch fs .doc t, [touch fs .doc t]) else (fs, [])
  | none => (fs, [])

def dcError (o : DcOutcome) : Option CodeErr :=
  if o.fails then some (if o.wrapped then CodeErr.decompressRuntime else CodeErr.decompressRaw) else none

/-- `io.decompress(archive, dir)`; `none` = returned normally -/
def ioDecompress (o : DcOutcome) (fs : FS) : Option CodeErr × FS × List FS :=
  if o.openFails then (some .decompressRaw, fs, [])
  else
    match o.ext with
    | some (n, true) =>
      -- external tool (`_do_decompress_manually_external`): open(out, "wb"); the tool writes to it; exit 0
      let e := dcPhase o fs [n]
      (none, e.1, e.2)
    | some (n, false) =>
      -- the tool fails: fall back to the library, which starts the file again
      let e := dcPhase o fs [n]
      let b := dcPhase o e.1 o.chunks
      let c := dcTouch o b.1
      (dcError o, c.1, e.2 ++ b.2 ++ c.2)
    | none =>
      -- library (`_do_decompress_manually_with_lib` / extractall): open(out, "wb"); chunked writes
      let b := dcPhase o fs o.chunks
      let c := dcTouch o b.1
      (dcError o, c.1, b.2 ++ c.2)

/-- `Decompressor.decompress(archive_path, documents_path, uncompressed_size)` -/
def decompressorDecompress (w : World) (spec : Spec) (fs : FS) : Out Unit :=
  match fs.arch with
  | none => ⟨.error .osError, fs, []⟩
  | some a =>
    let r := ioDecompress (w.dc a.cid a.size) fs
    match r.1 with
    | some err => ⟨.error err, r.2.1, r.2.2⟩
    | none =>
      match r.2.1.doc with
      | none => ⟨.error .didNotCreate, r.2.1, r.2.2⟩
      | some d =>
        if sizeIs d spec.usize then ⟨.ok (), r.2.1, r.2.2⟩
        else ⟨.error .extractedCorrupt, r.2.1, r.2.2⟩

/-! ## offset table -/

def FS.setOff (fs : FS) (v : Option OffFile) : FS := { fs with off := v }
def FS.setOffTmp (fs : FS) (v : Option OffFile) : FS := { fs with offTmp := v }

/-- `FileOffsetTable.is_valid()`: exists and mtime(offset) >= mtime(data file) -/
def offsetValid (fs : FS) (d : File) : Bool :=
  match fs.off with
  | some o => decide (o.mtime ≥ d.mtime)
  | none => false

/-- successive `print(..., file=offset_file)`; the file is `<document>.offset.tmp` -/
def writeOff (fs : FS) (d : File) (done : Nat) : List Nat → FS × List FS
  | [] => (fs, [])
  | n :: ns =>
    let fs1 := (fs.setOffTmp (some ⟨.torn d.size d.cid (done + n), fs.clock⟩)).tick
    let r := writeOff fs1 d (done + n) ns
    (r.1, fs1 :: r.2)

/-- `io.prepare_file_offset_table(path)`: `none` if the table is considered valid, else lines read.
    The table is built under `<document>.offset.tmp` and published with `os.replace` when the build finished
    without exception; otherwise the temporary file is removed (`FileOffsetTable.__exit__`). -/
def prepareFileOffsetTable (w : World) (fs : FS) (d : File) : Except CodeErr (Option Nat) × FS × List FS :=
  if offsetValid fs d then (.ok none, fs, [])
  else
    let a := (fs.setOffTmp (some ⟨.torn d.size d.cid 0, fs.clock⟩)).tick          -- open(offset.tmp, "wt")
    let b := writeOff a d 0 (w.tbl d.cid d.size)
    if w.decodeFails d.cid d.size then
      let c := (b.1.setOffTmp none).tick                                          -- close; os.remove(offset.tmp)
      (.error .unicodeError, c, a :: b.2 ++ [c])
    else
      let c := (b.1.setOffTmp (some ⟨.complete d.size d.cid, b.1.clock⟩)).tick    -- close
      let e := ((c.setOff c.offTmp).setOffTmp none).tick                          -- os.replace(offset.tmp, offset)
      (.ok (some (w.lines d.cid d.size)), e, a :: b.2 ++ [c, e])

/-- `DocumentSetPreparator.create_file_offset_table(doc_path, expected_number_of_lines)` -/
def createFileOffsetTable (w : World) (spec : Spec) (fs : FS) : Out Unit :=
  match fs.doc with
  | none => ⟨.error .osError, fs, []⟩
  | some d =>
    let r := prepareFileOffsetTable w fs d
    match r.1 with
    | .error e => ⟨.error e, r.2.1, r.2.2⟩
    | .ok none => ⟨.ok (), r.2.1, r.2.2⟩
    | .ok (some n) =>
      -- `if lines_read is not None and lines_read != expected_number_of_lines`
      if n != spec.nlines then
        let fs2 := (r.2.1.setOff none).tick                                      -- remove_file_offset_table
        ⟨.error .linesMismatch, fs2, r.2.2 ++ [fs2]⟩
      else ⟨.ok (), r.2.1, r.2.2⟩

/-! ## DocumentSetPreparator -/

/-- `is_locally_available(p) and has_expected_size(p, size)` -/
def fileOk (f : Option File) (size : Option Nat) : Bool :=
  match f with
  | none => false
  | some f => sizeIs f size

def target (spec : Spec) : Slot := if spec.hasArchive then .arch else .doc
def targetSize (spec : Spec) : Option Nat := if spec.hasArchive then spec.csize else spec.usize

inductive Res (α : Type)
  | done (a : α)
  | raised (e : CodeErr)
  | outOfFuel              -- not a behaviour of the code: the model's loop bound was hit
deriving DecidableEq, Repr

structure POut (α : Type) where
  res : Res α
  fs : FS
  trace : List FS

def ofOut (o : Out Unit) : POut Unit :=
  ⟨match o.res with | .ok () => .done () | .error e => .raised e, o.fs, o.trace⟩

/-- `prepare_document_set`: the `while True` loop with fuel -/
def prepareLoop (w : World) (spec : Spec) : Nat → FS → List Attempt → POut Unit
  | 0, fs, _ => ⟨.outOfFuel, fs, []⟩
  | fuel + 1, fs, plan =>
    if fileOk fs.doc spec.usize then ofOut (createFileOffsetTable w spec fs)     -- break; create table
    else if spec.hasArchive && fileOk fs.arch spec.csize then
      let r := decompressorDecompress w spec fs
      match r.res with
      | .error e => ⟨.raised e, r.fs, r.trace⟩
      | .ok () =>
        let k := prepareLoop w spec fuel r.fs plan
        ⟨k.res, k.fs, r.trace ++ k.trace⟩
    else
      let d := downloaderDownload spec fs (target spec) (targetSize spec) plan
      let r := d.1
      match r.res with
      | .error .noBaseUrl =>
        if (fs.get (target spec)).isSome then ⟨.raised .presentWrongSizeNoUrl, r.fs, r.trace⟩
        else ⟨.raised .noBaseUrl, r.fs, r.trace⟩
      | .error e => ⟨.raised e, r.fs, r.trace⟩
      | .ok () =>
        let k := prepareLoop w spec fuel r.fs d.2
        ⟨k.res, k.fs, r.trace ++ k.trace⟩

/-- three iterations always suffice (theorem `C14.prepare_fuel_sufficient`) -/
def FUEL : Nat := 3

def prepare (w : World) (spec : Spec) (fs : FS) (plan : List Attempt) : POut Unit :=
  prepareLoop w spec FUEL fs plan

/-- `prepare_bundled_document_set`; `done true/false` = return value -/
def bundledLoop (w : World) (spec : Spec) : Nat → FS → POut Bool
  | 0, fs => ⟨.outOfFuel, fs, []⟩
  | fuel + 1, fs =>
    match fs.doc with
    | some d =>
      if sizeIs d spec.usize then
        let r := createFileOffsetTable w spec fs
        ⟨match r.res with | .ok () => .done true | .error e => .raised e, r.fs, r.trace⟩
      else ⟨.raised .bundledDocWrongSize, fs, []⟩
    | none =>
      if spec.hasArchive && fs.arch.isSome then
        if fileOk fs.arch spec.csize then
          let r := decompressorDecompress w spec fs
          match r.res with
          | .error e => ⟨.raised e, r.fs, r.trace⟩
          | .ok () =>
            let k := bundledLoop w spec fuel r.fs
            ⟨k.res, k.fs, r.trace ++ k.trace⟩
        else ⟨.raised .bundledArchiveWrongSize, fs, []⟩
      else ⟨.done false, fs, []⟩

def BFUEL : Nat := 2

def prepareBundled (w : World) (spec : Spec) (fs : FS) : POut Bool := bundledLoop w spec BFUEL fs

/-! ## DefaultTrackPreparator.prepare_docs and loader.set_absolute_data_path

`loader.data_dir` gives one directory (track repository: the corpus directory) or two (`--track-path`: the track
directory first, the corpus directory second).  Each directory is a file system of its own. -/

structure DOut where
  res : Res Unit
  track : FS          -- the track directory afterwards
  corpus : FS         -- the corpus directory afterwards

/-- `DefaultTrackPreparator.prepare_docs` for one bulk document set -/
def prepareDocs (w : World) (spec : Spec) (twoRoots : Bool) (fsT fsC : FS) (plan : List Attempt) : DOut :=
  if !twoRoots then
    let r := prepare w spec fsC plan                       -- prepare_document_set(document_set, data_root[0])
    ⟨r.res, fsT, r.fs⟩
  else
    let b := prepareBundled w spec fsT                     -- prepare_bundled_document_set(document_set, data_root[0])
    match b.res with
    | .done true => ⟨.done (), b.fs, fsC⟩
    | .done false =>
      let r := prepare w spec fsC plan                     -- fall back: prepare_document_set(document_set, data_root[1])
      ⟨r.res, b.fs, r.fs⟩
    | .raised e => ⟨.raised e, b.fs, fsC⟩                  -- a DataError of the bundled attempt is not caught
    | .outOfFuel => ⟨.outOfFuel, b.fs, fsC⟩

/-- `set_absolute_data_path` / `first_existing`: the directory whose document file the challenge will read -/
def resolveDoc (twoRoots : Bool) (fsT fsC : FS) : Option FS :=
  if twoRoots && fsT.doc.isSome then some fsT
  else if fsC.doc.isSome then some fsC
  else none

/-! ## which document sets a challenge uses: loader.used_corpora + BulkIndexParamSource.used_corpora

Names are numbers.  `TaskSel` is one leaf task of the selected challenge (parallel blocks flattened), with what its
operation's parameter source selects: only parameter sources that expose `corpora` (bulk) select anything. -/

structure DocSet where
  id : Nat
  corpus : Nat
  index : Option Nat        -- target-index
  stream : Option Nat       -- target-data-stream
  bulk : Bool               -- source-format == "bulk"
deriving DecidableEq, Repr

structure TaskSel where
  hasCorpora : Bool               -- the parameter source has a `corpora` attribute
  corpora : Option (List Nat)     -- "corpora" parameter (default: all corpora of the track)
  indices : List Nat              -- "indices" parameter; empty / missing = no restriction
  streams : List Nat              -- "data-streams" parameter; empty / missing = no restriction
deriving DecidableEq, Repr

/-- `corpus.name in corpora_names` and `DocumentCorpus.filter(source_format, target_indices, target_data_streams)` -/
def selects (t : TaskSel) (d : DocSet) : Bool :=
  t.hasCorpora && d.bulk &&
  (match t.corpora with
   | none => true
   | some cs => cs.contains d.corpus) &&
  (t.indices.isEmpty || (match d.index with
   | some i => t.indices.contains i
   | none => false)) &&
  (t.streams.isEmpty || (match d.stream with
   | some i => t.streams.contains i
   | none => false))

/-- a bulk parameter source whose filters match nothing raises RallyAssertionError -/
def taskMatchesNothing (docs : List DocSet) (t : TaskSel) : Bool := t.hasCorpora && !docs.any (selects t)

/-- `loader.used_corpora(track)`: the union, over **every** leaf task of the selected challenge, of what it selects -/
def usedDocsets (docs : List DocSet) (tasks : List TaskSel) : Option (List DocSet) :=
  if docs.isEmpty then some []
  else if tasks.any (taskMatchesNothing docs) then none
  else some (docs.filter (fun d => tasks.any (fun t => selects t d)))

/-- `DefaultTrackPreparator.on_prepare_track`: one `(prepare_docs, params)` task per used corpus (`corpora` = the corpus
    names of the track in order); a task is identified by the corpus it prepares -/
def prepareTasks (corpora : List Nat) (used : List DocSet) : List Nat :=
  corpora.filter (fun c => used.any (fun d => d.corpus == c))

end Corpus
