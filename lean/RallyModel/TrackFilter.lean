/-
Model of esrally/track/loader.py:TaskFilterTrackProcessor (_filters_from_filtered_tasks,
_filter_out_match, on_after_load_track) and track.Parallel.matches / Task*Filter.matches.
Import-free.  Strings are `List Char`.
-/
namespace TrackFilter

abbrev Str := List Char

structure Task where
  id : Nat               -- identity / payload standing for "all other properties"
  name : Str
  opType : Str
  tags : List Str
deriving Repr, DecidableEq

inductive Elem
  | leaf (t : Task)
  | par (ts : List Task) (payload : Nat)     -- payload: the parallel's own properties (clients, …)
deriving Repr, DecidableEq

inductive Filter
  | name (n : Str)
  | opType (t : Str)
  | tag (t : Str)
deriving Repr, DecidableEq

inductive Err
  | systemSetupError
deriving Repr, DecidableEq

/-- Python's `str.split(":")` -/
def splitColon : Str → List Str
  | [] => [[]]
  | c :: cs =>
    match splitColon cs with
    | [] => [[c]]            -- unreachable: splitColon never returns []
    | p :: ps => if c = ':' then [] :: p :: ps else (c :: p) :: ps

def typeKw : Str := ['t', 'y', 'p', 'e']
def tagKw : Str := ['t', 'a', 'g']

/-- one entry of `_filters_from_filtered_tasks` -/
def parseFilter (t : Str) : Except Err Filter :=
  match splitColon t with
  | [n] => .ok (.name n)
  | [k, v] => if k = typeKw then .ok (.opType v) else if k = tagKw then .ok (.tag v) else .error .systemSetupError
  | _ => .error .systemSetupError

def parseFilters : List Str → Except Err (List Filter)
  | [] => .ok []
  | t :: ts =>
    match parseFilter t with
    | .error e => .error e
    | .ok f =>
      match parseFilters ts with
      | .error e => .error e
      | .ok fs => .ok (f :: fs)

def Filter.matchesTask (f : Filter) (t : Task) : Bool :=
  match f with
  | .name n => n == t.name
  | .opType ty => ty == t.opType
  | .tag tg => t.tags.contains tg

/-- a task matches a filter list if it matches at least one filter -/
def matchesAny (fs : List Filter) (t : Task) : Bool := fs.any (·.matchesTask t)

/-- `Parallel.matches`: a parallel element matches a filter if any of its tasks does -/
def Filter.matchesElem (f : Filter) : Elem → Bool
  | .leaf t => f.matchesTask t
  | .par ts _ => ts.any f.matchesTask

/-- `_filter_out_match(task)` for a leaf task: the first matching filter decides -/
def filterOutTask (exclude : Bool) (fs : List Filter) (t : Task) : Bool :=
  if matchesAny fs t then exclude else !exclude

/-- `_filter_out_match(task)` for a schedule element -/
def filterOutElem (exclude : Bool) (fs : List Filter) : Elem → Bool
  | .leaf t => filterOutTask exclude fs t
  | .par ts p => if fs.any (·.matchesElem (.par ts p)) then false else !exclude

/-- what `on_after_load_track` leaves of one element (none = removed from the schedule).
    After the repair a parallel element all of whose tasks were removed is dropped as well. -/
def filterElem (exclude : Bool) (fs : List Filter) (e : Elem) : Option Elem :=
  if filterOutElem exclude fs e then none
  else match e with
    | .leaf t => some (.leaf t)
    | .par ts p =>
      let kept := ts.filter (fun t => !filterOutTask exclude fs t)
      if kept.isEmpty && !ts.isEmpty then none else some (.par kept p)

/-- pinned behaviour (before the repair): an emptied parallel stays in the schedule -/
def filterElemPinned (exclude : Bool) (fs : List Filter) (e : Elem) : Option Elem :=
  if filterOutElem exclude fs e then none
  else match e with
    | .leaf t => some (.leaf t)
    | .par ts p => some (.par (ts.filter (fun t => !filterOutTask exclude fs t)) p)

/-- `on_after_load_track` on one challenge's schedule -/
def applyFilters (exclude : Bool) (fs : List Filter) (sched : List Elem) : List Elem :=
  if fs.isEmpty then sched else sched.filterMap (filterElem exclude fs)

def applyFiltersPinned (exclude : Bool) (fs : List Filter) (sched : List Elem) : List Elem :=
  if fs.isEmpty then sched else sched.filterMap (filterElemPinned exclude fs)

/-- leaf tasks of a schedule in order -/
def leaves : List Elem → List Task
  | [] => []
  | .leaf t :: es => t :: leaves es
  | .par ts _ :: es => ts ++ leaves es

end TrackFilter
