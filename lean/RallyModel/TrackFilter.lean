/-
Model of esrally/track/loader.py:TaskFilterTrackProcessor (_filters_from_filtered_tasks,
_filter_out_match, on_after_load_track) and track.Parallel.matches / Task*Filter.matches.
Import-free.  Strings are `List Char`.
-/
namespace TrackFilter

abbrev Str := List Char

structure Task where
  id : Nat               -- identity / payload standing for "all other properties"
  name : Str
  opType : Str
  tags : List Str
deriving Repr, DecidableEq

inductive Elem
  | leaf (t : Task)
  | par (ts : List Task) (payload : Nat)     -- payload: the parallel's own properties (clients, …)
deriving Repr, DecidableEq

inductive Filter
  | name (n : Str)
  | opType (t : Str)
  | tag (t : Str)
deriving Repr, DecidableEq

inductive Err
  | systemSetupError
deriving Repr, DecidableEq

/-- Python's `str.split(":")` -/
def splitColon : Str → List Str
  | [] => [[]]
  | c :: cs =>
    match splitColon cs with
    | [] => [[c]]            -- unreachable: splitColon never returns []
    | p :: ps => if c = ':' then [] :: p :: ps else (c :: p) :: ps

def typeKw : Str := ['t', 'y', 'p', 'e']
def tagKw : Str := ['t', 'a', 'g']

/-- one entry of `_filters_from_filtered_tasks` -/
def parseFilter (t : Str) : Except Err Filter :=
  match splitColon t with
  | [n] => .ok (.name n)
  | [k, v] => if k = typeKw then .ok (.opType v) else if k = tagKw then .ok (.tag v) else .error .systemSetupError
  | _ => .error .systemSetupError

def parseFilters : List Str → Except Err (List Filter)
  | [] => .ok []
  | t :: ts =>
    match parseFilter t with
    | .error e => .error e
    | .ok f =>
      match parseFilters ts with
      | .error e => .error e
      | .ok fs => .ok (f :: fs)

def Filter.matchesTask (f : Filter) (t : Task) : Bool :=
  match f with
  | .name n => n == t.name
  | .opType ty => ty == t.opType
  | .tag tg => t.tags.contains tg

/-- a task matches a filter list if it matches at least one filter -/
def matchesAny (fs : List Filter) (t : Task) : Bool := fs.any (·.matchesTask t)

/-- `Parallel.matches`: a parallel element matches a filter if any of its tasks does -/
def Filter.matchesElem (f : Filter) : Elem → Bool
  | .leaf t => f.matchesTask t
  | .par ts _ => ts.any f.matchesTask

/-- `_filter_out_match(task)` for a leaf task: the first matching filter decides -/
def filterOutTask (exclude : Bool) (fs : List Filter) (t : Task) : Bool :=
  if matchesAny fs t then exclude else !exclude

/-- `_filter_out_match(task)` for a schedule element -/
def filterOutElem (exclude : Bool) (fs : List Filter) : Elem → Bool
  | .leaf t => filterOutTask exclude fs t
  | .par ts p => if fs.any (·.matchesElem (.par ts p)) then false else !exclude

/-- what `on_after_load_track` leaves of one element (none = removed from the schedule).
    After the repair a parallel element all of whose tasks were removed is dropped as well. -/
def filterElem (exclude : Bool) (fs : List Filter) (e : Elem) : Option Elem :=
  if filterOutElem exclude fs e then none
  else match e with
    | .leaf t => some (.leaf t)
    | .par ts p =>
      let kept := ts.filter (fun t => !filterOutTask exclude fs t)
      if kept.isEmpty && !ts.isEmpty then none else some (.par kept p)

/-- pinned behaviour (before the repair): an emptied parallel stays in the schedule -/
def filterElemPinned (exclude : Bool) (fs : List Filter) (e : Elem) : Option Elem :=
  if filterOutElem exclude fs e then none
  else match e with
    | .leaf t => some (.leaf t)
    | .par ts p => some (.par (ts.filter (fun t => !filterOutTask exclude fs t)) p)

/-- `on_after_load_track` on one challenge's schedule -/
def applyFilters (exclude : Bool) (fs : List Filter) (sched : List Elem) : List Elem :=
  if fs.isEmpty then sched else sched.filterMap (filterElem exclude fs)

def applyFiltersPinned (exclude : Bool) (fs : List Filter) (sched : List Elem) : List Elem :=
  if fs.isEmpty then sched else sched.filterMap (filterElemPinned exclude fs)

/-- leaf tasks of a schedule in order -/
def leaves : List Elem → List Task
  | [] => []
  | .leaf t :: es => t :: leaves es
  | .par ts _ :: es => ts ++ leaves es

/-! ## the specification reader in front of the filter

`TrackSpecificationReader.parse_operations / parse_operation / parse_task / parse_parallel /
_create_challenges`, as far as they decide which NAME, which OPERATION TYPE and which TAGS a task has —
the three things a filter looks at.  The `operations` block is read once into a table; every task of
every challenge is resolved against that same table; the table is only read after that. -/

/-- the value of `"operation"` in a task (or an entry of the `operations` block) -/
inductive OpRef
  | plain (s : Str)                               -- "operation": "force-merge"
  | inline (name : Option Str) (opType : Str)     -- "operation": {"name": …, "operation-type": …, …}
deriving Repr, DecidableEq

/-- what `parse_operation` returns, reduced to name and type (the type is kept as written) -/
structure OpDef where
  name : Str
  opType : Str
deriving Repr, DecidableEq

inductive ReadErr
  | trackSyntaxError
deriving Repr, DecidableEq

/-- `parse_operation`: a plain string is name and type at once; without `name` the type is the name -/
def parseOperation : OpRef → OpDef
  | .plain s => ⟨s, s⟩
  | .inline (some n) ty => ⟨n, ty⟩
  | .inline none ty => ⟨ty, ty⟩

/-- `name in ops` / `ops[name]` -/
def lookupOp (ops : List OpDef) (n : Str) : Option OpDef := ops.find? (fun d => d.name == n)

/-- `parse_operations`: the table in the order of the block; a second operation of a name is an error -/
def parseOperationsFrom (acc : List OpDef) : List OpRef → Except ReadErr (List OpDef)
  | [] => .ok acc
  | r :: rs =>
    let d := parseOperation r
    if (lookupOp acc d.name).isSome then .error .trackSyntaxError else parseOperationsFrom (acc ++ [d]) rs

def parseOperations (block : List OpRef) : Except ReadErr (List OpDef) := parseOperationsFrom [] block

/-- `parse_task`, first statement: a plain string that names an entry of the table is that entry;
    anything else is an operation of its own (`parse_operation`) and is NOT put into the table -/
def resolveOp (ops : List OpDef) : OpRef → OpDef
  | .plain s =>
    match lookupOp ops s with
    | some d => d
    | none => parseOperation (.plain s)
  | .inline n ty => parseOperation (.inline n ty)

/-- the value of `"tags"` in a task -/
inductive TagsSpec
  | absent
  | one (s : Str)            -- "tags": "setup"
  | many (l : List Str)      -- "tags": ["setup", "slow"]
deriving Repr, DecidableEq

/-- `Task.__init__`: one string is the list of that string; nothing / an empty list is no tag -/
def normTags : TagsSpec → List Str
  | .absent => []
  | .one s => [s]
  | .many l => l

structure TaskSpec where
  id : Nat
  name : Option Str          -- "name" of the task; default: the name of its operation
  op : OpRef
  tags : TagsSpec
deriving Repr, DecidableEq

inductive ElemSpec
  | leaf (t : TaskSpec)
  | par (ts : List TaskSpec) (payload : Nat)
deriving Repr, DecidableEq

def readTask (ops : List OpDef) (s : TaskSpec) : Task :=
  let d := resolveOp ops s.op
  ⟨s.id, s.name.getD d.name, d.opType, normTags s.tags⟩

def readElem (ops : List OpDef) : ElemSpec → Elem
  | .leaf t => .leaf (readTask ops t)
  | .par ts p => .par (ts.map (readTask ops)) p

def readSchedule (ops : List OpDef) (es : List ElemSpec) : List Elem := es.map (readElem ops)

def specLeaves : List ElemSpec → List TaskSpec
  | [] => []
  | .leaf t :: es => t :: specLeaves es
  | .par ts _ :: es => ts ++ specLeaves es

def distinct : List Str → Bool
  | [] => true
  | x :: xs => !xs.contains x && distinct xs

/-- one challenge: its schedule, refused if two of its tasks carry the same name -/
def readChallenge (ops : List OpDef) (es : List ElemSpec) : Except ReadErr (List Elem) :=
  let s := readSchedule ops es
  if distinct ((leaves s).map (·.name)) then .ok s else .error .trackSyntaxError

def readChallenges (ops : List OpDef) : List (List ElemSpec) → Except ReadErr (List (List Elem))
  | [] => .ok []
  | c :: cs =>
    match readChallenge ops c with
    | .error e => .error e
    | .ok s =>
      match readChallenges ops cs with
      | .error e => .error e
      | .ok ss => .ok (s :: ss)

/-- the reader on a whole specification: `operations` block, then all challenges against ONE table -/
def readTrack (block : List OpRef) (chs : List (List ElemSpec)) : Except ReadErr (List (List Elem)) :=
  match parseOperations block with
  | .error e => .error e
  | .ok ops => readChallenges ops chs

/-- the loader: read the specification, then `on_after_load_track` on every challenge -/
def readAndFilter (block : List OpRef) (chs : List (List ElemSpec)) (exclude : Bool) (fs : List Filter) :
    Except ReadErr (List (List Elem)) :=
  match readTrack block chs with
  | .error e => .error e
  | .ok ss => .ok (ss.map (applyFilters exclude fs))

end TrackFilter
