/-
IEEE-754 binary64 arithmetic on exact rationals (DESIGN.md 6.1).

A finite double is represented by the `Rat` it denotes.  `fl` rounds a rational to the nearest
double (ties to even) in the *normal* range; `fadd a b = fl (a + b)` etc. are then exactly what
CPython computes for `a + b` on floats (IEEE basic operations are correctly rounded).
Outside the normal range (`inRange q = false`) the driver answers out-of-range instead of guessing.
Import-free (core `Rat`).
-/
namespace Dbl

/-- 2^e as a rational, e any integer -/
def pow2 (e : Int) : Rat :=
  if e ≥ 0 then ((2 ^ e.toNat : Nat) : Rat) else 1 / ((2 ^ (-e).toNat : Nat) : Rat)

def qabs (q : Rat) : Rat := if q < 0 then -q else q

/-- Python's `round(x)` for one argument: round half to even, to an integer -/
def rhe (q : Rat) : Int :=
  let f := q.floor
  let d := q - (f : Rat)
  if d < 1/2 then f
  else if d > 1/2 then f + 1
  else if f % 2 = 0 then f else f + 1

/-- ⌊log₂ |q|⌋ for q ≠ 0 -/
def ilog2 (q : Rat) : Int :=
  let a := qabs q
  let e0 : Int := (a.num.natAbs.log2 : Int) - (a.den.log2 : Int)
  if pow2 e0 ≤ a then e0 else e0 - 1

/-- round to nearest binary64 (normal range), ties to even -/
def fl (q : Rat) : Rat :=
  if q = 0 then 0 else
  let e := ilog2 q - 52
  ((rhe (q / pow2 e) : Int) : Rat) * pow2 e

def inRange (q : Rat) : Bool :=
  q = 0 || (decide (pow2 (-1022) ≤ qabs q) && decide (qabs q < pow2 1024))

def fadd (a b : Rat) : Rat := fl (a + b)
def fsub (a b : Rat) : Rat := fl (a - b)
def fmul (a b : Rat) : Rat := fl (a * b)
def fdiv (a b : Rat) : Rat := fl (a / b)
def ofInt (i : Int) : Rat := fl (i : Rat)
def ofNat (n : Nat) : Rat := fl (n : Rat)

/-- `math.ceil`, `math.floor`, `int()` on a double -/
def fceil (q : Rat) : Int := q.ceil
def ffloor (q : Rat) : Int := q.floor
def ftrunc (q : Rat) : Int := if q < 0 then q.ceil else q.floor

/-- Python's `round(x, n)` for a double `x` and n ≥ 0 *when the decimal value is computed exactly*:
    CPython rounds the exact binary value correctly (round-half-even on the exact value), then
    converts the decimal result back to the nearest double. -/
def roundN (q : Rat) (n : Nat) : Rat :=
  let s : Rat := ((10 ^ n : Nat) : Rat)
  fl (((rhe (q * s) : Int) : Rat) / s)

end Dbl
