import RallyModel.Alloc
import RallyModel.Race
/-
The configuration of the race protocol model (C01) derived from the allocator model (C02): what
`Driver.start_benchmark` hands to its workers (`ClientAllocations` per worker, built from `Allocator.allocations`
and `calculate_worker_assignments`; workers without clients are not started) and what `Worker.drive` /
`ClientAllocations.tasks` / `is_joinpoint` make of it (columns in which all of a worker's clients have `None` are
skipped).  Import-free apart from the two models.
-/
namespace RaceOfAlloc
open Alloc Race

/-- the client ids of every worker that gets at least one client, in worker-id order
    (`Driver.start_benchmark`: "don't assign workers without any clients") -/
def workersOf (hosts : List Host) (n : Nat) : List (List Nat) :=
  ((assign hosts n).flatMap (·.2)).filter fun l => !l.isEmpty

/-- number of task columns of an element in an allocation matrix of `m` rows -/
def ncols (m : Nat) (e : Element) : Nat := (e.total + m - 1) / m

/-- the task allocation of logical client `c` of element `e`, as the race model sees it (it runs on physical client `r`) -/
def toTaskA (finite : Nat → Bool) (r : Nat) : Entry → Option TaskA
  | .task sub _ _ _ => some ⟨r, sub.id, finite sub.id, sub.completesParent, sub.anyCompletes⟩
  | _ => none

/-- column `k` of element `e` for a worker whose clients are `rows`: physical client `r` executes logical client
    `r + k·m` of the element, if there is one -/
def column (finite : Nat → Bool) (m : Nat) (e : Element) (rows : List Nat) (k : Nat) : List TaskA :=
  rows.filterMap fun r => if r + k * m < e.total then toTaskA finite r (taskEntry e (r + k * m)) else none

/-- the non-empty columns of element `e` for that worker, in order -/
def elemCols (finite : Nat → Bool) (m : Nat) (e : Element) (rows : List Nat) : List (List TaskA) :=
  ((List.range (ncols m e)).map (column finite m e rows)).filter fun c => !c.isEmpty

/-- the race configuration of a schedule and a worker layout; `finite tid` = the task ends by its own loop control -/
def cfgOf (finite : Nat → Bool) (sched : List Element) (workers : List (List Nat)) : Cfg :=
  let m := maxClients sched
  { W := workers.length
    S := sched.length
    elems := fun w e =>
      match workers[w]?, sched[e]? with
      | some rows, some el => elemCols finite m el rows
      | _, _ => []
    joins := fun j =>
      match j with
      | 0 => ⟨[], []⟩
      | j + 1 =>
        match sched[j]? with
        | some el => ⟨completingClients m el, anyCompletingClients m el⟩
        | none => ⟨[], []⟩
    workerOf := fun c => (workers.findIdx? fun l => l.contains c).getD 0
    clientsOf := fun w => (workers[w]?).getD [] }

end RaceOfAlloc
