import RallyModel.Dbl
/-!
# C08 — model of `metrics.InMemoryMetricsStore` statistics, `GlobalStatsCalculator`, `GlobalStats`

Mirrors esrally/metrics.py statement by statement (import-free; floats are `Dbl` rationals):

* `_get` / `get` / `get_unit`           → `matchE`, `getE`, `valuesE`, `unitE`   (KeyError on missing keys)
* `percentile_value`                    → `percentileD` (float rank, as the code computes it)
                                          `percentileI` (the ideal linear-interpolation definition on `Rat`)
* `get_percentiles`, `get_median`       → `percentilesOf`, `medianOf`
* `get_stats`, `get_mean`               → `statsOf`, `meanOf`          (`statistics.mean` = exact sum, rounded once)
* `get_error_rate`                      → `errCountE`, `errorRateE`
* `get_one(... sort_key, reverse)`      → `durationE`
* `percentiles_for_sample_size`         → `pctsFor` over a generated table (`RallyGen/Percentiles.lean`)
* `GlobalStatsCalculator.summary_stats / single_latency / __call__` → `summaryOf`, `latencyOf`, `calcE`
* `GlobalStats.__init__ / v / as_dict`, `Race.as_dict / from_dict` (results part) → `gsInit`, `gsV`, `raceStoreLoad`

Not modelled (only exercised by the correspondence harness): the `"sum"` entry of `get_stats`
(CPython's compensated float `sum`), the cluster-wide totals (`sum`, `median` of non-request metrics),
`shard_stats`, ML/transform/disk-usage lists, `meta` merging, `as_flat_list`, the JSON codec itself.
-/
namespace Stats

abbrev Str := List Char

inductive SType | warmup | normal
  deriving DecidableEq, Repr

inductive Err | keyError | indexError | assertionError
  deriving DecidableEq, Repr

/-- one metrics document (the keys the statistics code reads) -/
structure Rec where
  name : Str
  /-- `doc["task"]`; the writer omits the key for a falsy task -/
  task : Option Str
  /-- `doc["operation-type"]`; omitted for a falsy operation type -/
  opType : Option Str
  stype : SType
  value : Rat
  unit : Option Str
  /-- `doc["meta"]["success"]`: `none` = key absent (→ KeyError in `get_error_rate`) -/
  success : Option Bool
  /-- `doc["relative-time"]` -/
  relTime : Rat

/-- the filter arguments of `_get(name, task, operation_type, sample_type, node_name=None, …)` -/
structure Query where
  name : Str
  task : Option Str
  opType : Option Str
  stype : Option SType

def nServiceTime : Str := ['s', 'e', 'r', 'v', 'i', 'c', 'e', '_', 't', 'i', 'm', 'e']
def nThroughput : Str := ['t', 'h', 'r', 'o', 'u', 'g', 'h', 'p', 'u', 't']
def nLatency : Str := ['l', 'a', 't', 'e', 'n', 'c', 'y']
def nProcessingTime : Str := ['p', 'r', 'o', 'c', 'e', 's', 's', 'i', 'n', 'g', '_', 't', 'i', 'm', 'e']

/-! ## `_get` -/

/-- `(x is None or doc[key] == x)`; `doc[key]` raises KeyError when the key is absent -/
def keyEq (q : Option Str) (d : Option Str) : Except Err Bool :=
  match q, d with
  | none, _ => .ok true
  | some _, none => .error .keyError
  | some t, some x => .ok (x == t)

def stypeOk (q : Option SType) (d : SType) : Bool :=
  match q with
  | none => true
  | some s => d == s

/-- the `and` chain of `_get`, evaluated left to right with short circuit -/
def matchE (q : Query) (d : Rec) : Except Err Bool :=
  if d.name != q.name then .ok false else
  match keyEq q.task d.task with
  | .error e => .error e
  | .ok false => .ok false
  | .ok true =>
    match keyEq q.opType d.opType with
    | .error e => .error e
    | .ok false => .ok false
    | .ok true => .ok (stypeOk q.stype d.stype)

/-- the list comprehension of `_get` (document order, first KeyError aborts) -/
def getE : List Rec → Query → Except Err (List Rec)
  | [], _ => .ok []
  | d :: ds, q =>
    match matchE q d with
    | .error e => .error e
    | .ok b =>
      match getE ds q with
      | .error e => .error e
      | .ok r => .ok (if b then d :: r else r)

/-- the declarative filter `getE` computes when no key is missing (lemma `getE_ok`) -/
def optEq (q d : Option Str) : Bool :=
  match q with
  | none => true
  | some t => d == some t

def matchP (q : Query) (d : Rec) : Bool :=
  d.name == q.name && optEq q.task d.task && optEq q.opType d.opType && stypeOk q.stype d.stype

def valuesE (recs : List Rec) (q : Query) : Except Err (List Rat) :=
  (getE recs q).map (·.map Rec.value)

/-- `get_unit`: `_first_or_none(_get(name, task, operation_type, None, node_name, unit))` -/
def unitE (recs : List Rec) (name : Str) (task opType : Option Str) : Except Err (Option Str) :=
  (getE recs ⟨name, task, opType, none⟩).map (fun r => r.head?.bind Rec.unit)

/-! ## percentiles -/

def sortR (vs : List Rat) : List Rat := vs.mergeSort (fun a b => decide (a ≤ b))

/-- Python list indexing with an `int` (negative indices count from the end) -/
def pyIndex (l : List Rat) (i : Int) : Except Err Rat :=
  let j : Int := if i < 0 then i + l.length else i
  if j < 0 then .error .indexError else
  match l[j.toNat]? with
  | some x => .ok x
  | none => .error .indexError

/-- `rank = float(percentile) / 100.0 * (len(sorted_values) - 1)`; `p` is the double `float(percentile)` -/
def rankD (n : Nat) (p : Rat) : Rat := Dbl.fmul (Dbl.fdiv p 100) (Dbl.ofInt ((n : Int) - 1))

/-- `InMemoryMetricsStore.percentile_value` as CPython computes it (IEEE doubles) -/
def percentileD (s : List Rat) (p : Rat) : Except Err Rat :=
  let rank := rankD s.length p
  let ir := Dbl.ftrunc rank
  if rank = (ir : Rat) then pyIndex s ir
  else
    let lr := Dbl.ffloor rank
    let hi := Dbl.fceil rank
    let fr := Dbl.fsub rank (lr : Rat)
    match pyIndex s lr with
    | .error e => .error e
    | .ok lo =>
      match pyIndex s hi with
      | .error e => .error e
      | .ok h => .ok (Dbl.fadd lo (Dbl.fmul (Dbl.fsub h lo) fr))

/-- the ideal rank `p/100 · (n-1)` -/
def rankI (n : Nat) (p : Rat) : Rat := p / 100 * ((n : Rat) - 1)

/-- linear interpolation between the neighbours of a real-valued rank -/
def interp (s : List Rat) (r : Rat) : Rat :=
  let lo := s.getD r.floor.toNat 0
  let hi := s.getD r.ceil.toNat 0
  lo + (hi - lo) * (r - (r.floor : Rat))

/-- the linear-interpolation percentile on exact rationals (the definition the code implements in floats) -/
def percentileI (s : List Rat) (p : Rat) : Rat := interp s (rankI s.length p)

/-- median of a sorted list, the textbook definition (what `statistics.median` computes) -/
def medianS (s : List Rat) : Rat :=
  if s.length % 2 = 1 then s.getD (s.length / 2) 0
  else (s.getD (s.length / 2 - 1) 0 + s.getD (s.length / 2) 0) / 2

/-- the loop over the requested percentiles (first IndexError aborts) -/
def pctList (s : List Rat) : List Rat → Except Err (List (Rat × Rat))
  | [] => .ok []
  | p :: ps =>
    match percentileD s p with
    | .error e => .error e
    | .ok v =>
      match pctList s ps with
      | .error e => .error e
      | .ok r => .ok ((p, v) :: r)

/-- `get_percentiles` after the `get`: empty result for no values -/
def percentilesOf (vs : List Rat) (ps : List Rat) : Except Err (List (Rat × Rat)) :=
  if vs.length > 0 then pctList (sortR vs) ps else .ok []

/-- `get_median`: `percentiles["50.0"] if percentiles else None` -/
def medianOf (vs : List Rat) : Except Err (Option Rat) :=
  (percentilesOf vs [50]).map (fun r => r.head?.map Prod.snd)

/-! ## stats -/

structure StatsR where
  count : Nat
  min : Rat
  max : Rat
  avg : Rat
  deriving Repr, DecidableEq

/-- `statistics.mean`: exact rational sum, divided exactly, converted to a double once -/
def meanD (s : List Rat) : Rat := Dbl.fl (s.sum / (s.length : Rat))

/-- `get_stats` after the `get` (the `"sum"` entry is not modelled) -/
def statsOf (vs : List Rat) : Option StatsR :=
  let s := sortR vs
  match s with
  | [] => none
  | x :: _ => some ⟨s.length, x, s.getLastD x, meanD s⟩

def meanOf (vs : List Rat) : Option Rat := (statsOf vs).map (·.avg)

/-! ## error rate -/

/-- one loop iteration of `get_error_rate`: `none` = not counted, `some b` = counted, `b` = is an error -/
def errStepE (task : Str) (opType : Option Str) (st : Option SType) (d : Rec) : Except Err (Option Bool) :=
  if d.name != nServiceTime then .ok none else
  match keyEq (some task) d.task with
  | .error e => .error e
  | .ok false => .ok none
  | .ok true =>
    match keyEq opType d.opType with
    | .error e => .error e
    | .ok false => .ok none
    | .ok true =>
      if stypeOk st d.stype then
        match d.success with
        | none => .error .keyError
        | some b => .ok (some (!b))
      else .ok none

/-- (errors, total) -/
def errCountE (task : Str) (opType : Option Str) (st : Option SType) : List Rec → Except Err (Nat × Nat)
  | [] => .ok (0, 0)
  | d :: ds =>
    match errStepE task opType st d with
    | .error e => .error e
    | .ok c =>
      match errCountE task opType st ds with
      | .error e => .error e
      | .ok (e, t) =>
        match c with
        | none => .ok (e, t)
        | some true => .ok (e + 1, t + 1)
        | some false => .ok (e, t + 1)

/-- `error / total_count` (int true division = correctly rounded quotient) or `0.0` -/
def rateOf (c : Nat × Nat) : Rat := if c.2 > 0 then Dbl.fl ((c.1 : Rat) / (c.2 : Rat)) else 0

def errorRateE (recs : List Rec) (task : Str) (opType : Option Str) (st : Option SType) : Except Err Rat :=
  (errCountE task opType st recs).map rateOf

/-! ## duration: `get_one("service_time", task=…, mapper=relative-time, sort_key="relative-time", sort_reverse=True)` -/

def sortByRelTimeDesc (recs : List Rec) : List Rec := recs.mergeSort (fun a b => decide (b.relTime ≤ a.relTime))

def firstMatchE (task : Str) : List Rec → Except Err (Option Rat)
  | [] => .ok none
  | d :: ds =>
    if d.name != nServiceTime then firstMatchE task ds else
    match d.task with
    | none => .error .keyError
    | some t => if t == task then .ok (some d.relTime) else firstMatchE task ds

/-- `convert.seconds_to_ms`: `s * 1000 if s else s` (what `_put_metric` stores as `relative-time`) -/
def secondsToMs (t : Rat) : Rat := if t = 0 then 0 else Dbl.fmul t 1000

def durationE (recs : List Rec) (task : Str) : Except Err (Option Rat) :=
  firstMatchE task (sortByRelTimeDesc recs)

/-! ## `percentiles_for_sample_size` over the generated table -/

/-- one row: sample sizes `≥ lo` (up to the next row) report these `(percentile, encoded key)` pairs -/
structure PRow where
  lo : Nat
  pcts : List (Rat × Str)

abbrev PTable := List PRow

/-- rows are in ascending `lo`; the last row whose `lo ≤ n` applies; `n < 1` is the AssertionError -/
def pctsFor (tbl : PTable) (n : Nat) : Except Err (List (Rat × Str)) :=
  if n < 1 then .error .assertionError else
  match (tbl.filter (fun r => r.lo ≤ n)).getLast? with
  | none => .error .assertionError
  | some r => .ok r.pcts

/-! ## `GlobalStatsCalculator` -/

structure Summary where
  min : Option Rat
  mean : Option Rat
  median : Option Rat
  max : Option Rat
  unit : Option Str
  deriving DecidableEq

/-- `single_latency` result: `none` = `{}`; percentile entries carry the encoded key -/
structure Latency where
  pcts : List (Str × Rat)
  mean : Option Rat
  unit : Option Str
  deriving DecidableEq

structure Task where
  name : Str
  opName : Str
  opType : Str
  inReport : Bool

structure OpMetrics where
  task : Str
  operation : Str
  throughput : Summary
  latency : Option Latency
  serviceTime : Option Latency
  processingTime : Option Latency
  errorRate : Rat
  duration : Option Rat
  deriving DecidableEq

/-- `summary_stats` given the normal-type values and the unit:
    `if mean is not None and median is not None and stats` -/
def summaryOf (vs : List Rat) (unit : Option Str) : Except Err Summary :=
  match medianOf vs with
  | .error e => .error e
  | .ok median =>
    let mean := meanOf vs
    match statsOf vs with
    | some st =>
      if mean.isSome && median.isSome then .ok ⟨some st.min, mean, median, some st.max, unit⟩
      else .ok ⟨none, none, none, none, unit⟩
    | none => .ok ⟨none, none, none, none, unit⟩

/-- Python truthiness of a number-or-None (used by the pinned code only) -/
def truthy (o : Option Rat) : Bool :=
  match o with
  | none => false
  | some q => q != 0

/-- HISTORICAL: `summary_stats` of the pinned code before the `fix:` commit, `if mean and median and stats` —
    a mean or median equal to 0 took the all-`None` branch. Not used by the driver. -/
def summaryOfPinned (vs : List Rat) (unit : Option Str) : Except Err Summary :=
  match medianOf vs with
  | .error e => .error e
  | .ok median =>
    let mean := meanOf vs
    match statsOf vs with
    | some st =>
      if truthy mean && truthy median then .ok ⟨some st.min, mean, median, some st.max, unit⟩
      else .ok ⟨none, none, none, none, unit⟩
    | none => .ok ⟨none, none, none, none, unit⟩

/-- `sample_size = stats["count"] if stats else 0` -/
def countOf (vs : List Rat) : Nat :=
  match statsOf vs with
  | some st => st.count
  | none => 0

/-- `single_latency` given the normal-type values and the unit -/
def latencyOf (tbl : PTable) (vs : List Rat) (unit : Option Str) : Except Err (Option Latency) :=
  if countOf vs > 0 then
    match pctsFor tbl (countOf vs) with
    | .error e => .error e
    | .ok pk =>
      match percentilesOf vs (pk.map Prod.fst) with
      | .error e => .error e
      | .ok pv => .ok (some ⟨(pk.zip pv).map (fun x => (x.1.2, x.2.2)), meanOf vs, unit⟩)
  else .ok none

def taskQ (name : Str) (t : Task) (st : Option SType) : Query := ⟨name, some t.name, some t.opType, st⟩

def summaryE (recs : List Rec) (t : Task) (name : Str) : Except Err Summary :=
  match valuesE recs (taskQ name t (some .normal)) with
  | .error e => .error e
  | .ok vs =>
    match unitE recs name (some t.name) (some t.opType) with
    | .error e => .error e
    | .ok u => summaryOf vs u

def latencyE (tbl : PTable) (recs : List Rec) (t : Task) (name : Str) : Except Err (Option Latency) :=
  match valuesE recs (taskQ name t (some .normal)) with
  | .error e => .error e
  | .ok vs =>
    if vs.length > 0 then
      match unitE recs name (some t.name) (some t.opType) with
      | .error e => .error e
      | .ok u => latencyOf tbl vs u
    else .ok none

/-- one iteration of the loop in `GlobalStatsCalculator.__call__`: `none` = task not reported -/
def taskE (tbl : PTable) (recs : List Rec) (t : Task) : Except Err (Option OpMetrics) :=
  match errorRateE recs t.name (some t.opType) (some .normal) with
  | .error e => .error e
  | .ok er =>
    match durationE recs t.name with
    | .error e => .error e
    | .ok du =>
      if t.inReport || decide (er > 0) then
        match summaryE recs t nThroughput with
        | .error e => .error e
        | .ok th =>
          match latencyE tbl recs t nLatency with
          | .error e => .error e
          | .ok la =>
            match latencyE tbl recs t nServiceTime with
            | .error e => .error e
            | .ok se =>
              match latencyE tbl recs t nProcessingTime with
              | .error e => .error e
              | .ok pr => .ok (some ⟨t.name, t.opName, th, la, se, pr, er, du⟩)
      else .ok none

/-- `op_metrics` of `GlobalStatsCalculator.__call__` for a (flattened) schedule -/
def calcE (tbl : PTable) (recs : List Rec) : List Task → Except Err (List OpMetrics)
  | [] => .ok []
  | t :: ts =>
    match taskE tbl recs t with
    | .error e => .error e
    | .ok o =>
      match calcE tbl recs ts with
      | .error e => .error e
      | .ok r => .ok (match o with | some m => m :: r | none => r)

/-! ## `GlobalStats` ↔ dict, race file -/

/-- JSON-like values (what `json.dumps` accepts and `json.loads` returns) -/
inductive JVal where
  | null
  | bool (b : Bool)
  | int (i : Int)
  | flt (q : Rat)
  | str (s : Str)
  | arr (xs : List JVal)
  | obj (kvs : List (Str × JVal))

abbrev Dict := List (Str × JVal)

inductive Dflt | none | list | dict
  deriving DecidableEq, Repr

def Dflt.val : Dflt → JVal
  | .none => .null
  | .list => .arr []
  | .dict => .obj []

/-- one `self.<attr> = self.v(d, "<key>", default=…)` line of `GlobalStats.__init__` -/
structure KeySpec where
  attr : Str
  key : Str
  dflt : Dflt

/-- `dict.get` on an association list (keys unique) -/
def dictGet (d : Dict) (k : Str) : Option JVal := (d.find? (fun kv => kv.1 == k)).map Prod.snd

/-- `GlobalStats.v`: `d.get(k, default) if d else default` (`None` and `{}` are falsy) -/
def gsV (d : Option Dict) (k : Str) (dflt : JVal) : JVal :=
  match d with
  | none => dflt
  | some [] => dflt
  | some kv => (dictGet kv k).getD dflt

/-- `GlobalStats.__init__`: the instance `__dict__`, in assignment order -/
def gsInit (tbl : List KeySpec) (d : Option Dict) : Dict :=
  tbl.map (fun s => (s.attr, gsV d s.key s.dflt.val))

/-- `GlobalStats.as_dict` returns `self.__dict__` -/
def gsAsDict (o : Dict) : Dict := o

/-- `Race.as_dict` (results part): `if self.results: d["results"] = self.results.as_dict()` — a `GlobalStats`
    object is always truthy; `Race.from_dict`: `results = d.get("results")`, `__init__` turns `None` into `{}`.
    The JSON text in between is trusted to reproduce the value (finite floats, ints, strings, lists, dicts). -/
def raceStoreLoad (results : Option Dict) : Dict :=
  match results with
  | none => []
  | some o => gsAsDict o

/-- what `compare` / `list` see: `GlobalStats(race.results)` of the race read back from `race.json` -/
def readBack (tbl : List KeySpec) (results : Option Dict) : Dict := gsInit tbl (some (raceStoreLoad results))

/-! ## per-task lookup in `GlobalStats`: `tasks()`, `metrics(task)` (what `compare` uses after the read-back) -/

def sTask : Str := ['t', 'a', 's', 'k']
def sOperation : Str := ['o', 'p', 'e', 'r', 'a', 't', 'i', 'o', 'n']
def sOpMetrics : Str := ['o', 'p', '_', 'm', 'e', 't', 'r', 'i', 'c', 's']
def sThroughput : Str := nThroughput
def sErrorRate : Str := ['e', 'r', 'r', 'o', 'r', '_', 'r', 'a', 't', 'e']
def sDuration : Str := ['d', 'u', 'r', 'a', 't', 'i', 'o', 'n']
def sMin : Str := ['m', 'i', 'n']
def sMean : Str := ['m', 'e', 'a', 'n']
def sMedian : Str := ['m', 'e', 'd', 'i', 'a', 'n']
def sMax : Str := ['m', 'a', 'x']
def sUnit : Str := ['u', 'n', 'i', 't']

/-- Python `value == task` for a `str` task name: only an equal string compares equal -/
def jIsStr (v : JVal) (t : Str) : Bool :=
  match v with
  | .str s => s == t
  | _ => false

/-- `r.get("task", r["operation"])`: the default argument is evaluated first, so a record without an
    `operation` key raises KeyError even if it has a task (pre-0.8.0 records have no `task` key) -/
def recKeyE (r : Dict) : Except Err JVal :=
  match dictGet r sOperation with
  | none => .error .keyError
  | some op => .ok ((dictGet r sTask).getD op)

/-- `GlobalStats.tasks()` -/
def tasksE : List Dict → Except Err (List JVal)
  | [] => .ok []
  | r :: rs =>
    match recKeyE r with
    | .error e => .error e
    | .ok k =>
      match tasksE rs with
      | .error e => .error e
      | .ok ks => .ok (k :: ks)

/-- `GlobalStats.metrics(task)`: the first record whose task (or, without a task key, operation) is `task` -/
def metricsE : List Dict → Str → Except Err (Option Dict)
  | [], _ => .ok none
  | r :: rs, t =>
    match recKeyE r with
    | .error e => .error e
    | .ok k => if jIsStr k t then .ok (some r) else metricsE rs t

def optNumJ : Option Rat → JVal
  | none => .null
  | some q => .flt q

def optStrJ : Option Str → JVal
  | none => .null
  | some s => .str s

def summaryToJ (s : Summary) : JVal :=
  .obj [(sMin, optNumJ s.min), (sMean, optNumJ s.mean), (sMedian, optNumJ s.median), (sMax, optNumJ s.max), (sUnit, optStrJ s.unit)]

def latencyToJ : Option Latency → JVal
  | none => .obj []
  | some l => .obj (l.pcts.map (fun kv => (kv.1, JVal.flt kv.2)) ++ [(sMean, optNumJ l.mean), (sUnit, optStrJ l.unit)])

/-- the record `add_op_metrics` appends (without the optional `meta`) -/
def opToDict (m : OpMetrics) : Dict :=
  [(sTask, .str m.task), (sOperation, .str m.operation), (sThroughput, summaryToJ m.throughput),
   (nLatency, latencyToJ m.latency), (nServiceTime, latencyToJ m.serviceTime), (nProcessingTime, latencyToJ m.processingTime),
   (sErrorRate, .flt m.errorRate), (sDuration, optNumJ m.duration)]

/-- the `op_metrics` attribute of a `GlobalStats` dict as a record list (`none`: not a list of dicts) -/
def recsOfJ : List JVal → Option (List Dict)
  | [] => some []
  | .obj kvs :: xs => (recsOfJ xs).map (fun r => kvs :: r)
  | _ :: _ => none

def gsOpMetrics (o : Dict) : Option (List Dict) :=
  match dictGet o sOpMetrics with
  | some (.arr xs) => recsOfJ xs
  | _ => none

/-! ## the store as an object with state: histories of deliveries and queries on ONE store
    (`put_value_*` → `_add`, `bulk_add(memento)`, `to_externalizable(clear)`, any query in between) -/

/-- the read API (what race control, the calculator and the reporters call) -/
inductive QKind where
  | get (q : Query)
  | stats (q : Query)
  | mean (q : Query)
  | median (q : Query)
  | pcts (q : Query) (ps : List Rat)
  | unit (name : Str) (task op : Option Str)
  | errRate (task : Str) (op : Option Str) (st : Option SType)
  | duration (task : Str)
  | results (sched : List Task)

inductive Ans where
  | vals (l : List Rat)
  | stats (o : Option StatsR)
  | num (o : Option Rat)
  | pcts (l : List (Rat × Rat))
  | unit (o : Option Str)
  | rate (q : Rat)
  | ops (l : List OpMetrics)
  deriving DecidableEq

/-- every query is a function of the current document list only -/
def evalQ (tbl : PTable) (docs : List Rec) : QKind → Except Err Ans
  | .get q => (valuesE docs q).map .vals
  | .stats q => (valuesE docs q).map (fun vs => .stats (statsOf vs))
  | .mean q => (valuesE docs q).map (fun vs => .num (meanOf vs))
  | .median q => ((valuesE docs q).bind medianOf).map .num
  | .pcts q ps => ((valuesE docs q).bind (fun vs => percentilesOf vs ps)).map .pcts
  | .unit name task op => (unitE docs name task op).map .unit
  | .errRate task op st => (errorRateE docs task op st).map .rate
  | .duration task => (durationE docs task).map .num
  | .results sched => (calcE tbl docs sched).map .ops

/-- what happens to one store object -/
inductive SEv where
  /-- `put_value_cluster_level / put_value_node_level / put_doc` → `_add(doc)` -/
  | put (d : Rec)
  /-- `bulk_add(memento)`: the documents another store externalized, in their order -/
  | bulk (ds : List Rec)
  /-- `to_externalizable(clear)`; the receiver of the memento then asks `q` about its content -/
  | handover (clear : Bool) (q : QKind)
  | query (q : QKind)

def stepState (docs : List Rec) : SEv → List Rec
  | .put d => docs ++ [d]
  | .bulk ds => docs ++ ds
  | .handover clear _ => if clear then [] else docs
  | .query _ => docs

def stepAns (tbl : PTable) (docs : List Rec) : SEv → Option (Except Err Ans)
  | .put _ => none
  | .bulk _ => none
  | .handover _ q => some (evalQ tbl docs q)
  | .query q => some (evalQ tbl docs q)

/-- the answers a history produces, in order -/
def runHist (tbl : PTable) : List Rec → List SEv → List (Except Err Ans)
  | _, [] => []
  | docs, e :: es =>
    match stepAns tbl docs e with
    | some a => a :: runHist tbl (stepState docs e) es
    | none => runHist tbl (stepState docs e) es

def stateAfter (docs : List Rec) (h : List SEv) : List Rec := h.foldl stepState docs

def SEv.clears : SEv → Bool
  | .handover clear _ => clear
  | _ => false

def SEv.docs : SEv → List Rec
  | .put d => [d]
  | .bulk ds => ds
  | _ => []

/-- declarative: everything delivered since the last clearing hand-over, in delivery order -/
def delivered (h : List SEv) : List Rec :=
  ((h.reverse.takeWhile (fun e => !e.clears)).reverse).flatMap SEv.docs

/-! ## the race store directory over time: `FileRaceStore.store_race` / `find_by_race_id` / `list`
    on ONE root directory, several times for the same race id -/

/-- a stored document: which document it is (index into the documents of the case) and its race timestamp -/
structure RaceDoc where
  ts : Nat
  doc : Nat
  deriving DecidableEq, Repr

/-- `<root>/races/<race id>/race.json`: race id ↦ content (keys unique) -/
abbrev RaceDir := List (Str × RaceDoc)

inductive REv where
  /-- `store_race(race)`: `open(race.json, "w")` replaces whatever the file held -/
  | store (id : Str) (d : RaceDoc)
  | find (id : Str)
  /-- `list()` with `system/list.max_results = max` -/
  | list (max : Nat)

inductive RAns where
  | found (d : RaceDoc)
  | notFound
  | listed (l : List (Str × RaceDoc))
  deriving DecidableEq

def dirStore (m : RaceDir) (id : Str) (d : RaceDoc) : RaceDir := (id, d) :: m.filter (fun e => e.1 != id)

def dirFind (m : RaceDir) (id : Str) : Option RaceDoc := (m.find? (fun e => e.1 == id)).map Prod.snd

/-- `sorted(races, key=race_timestamp, reverse=True)[:max_results]` (ties: unspecified glob order — the harness
    keeps timestamps distinct) -/
def dirList (m : RaceDir) (max : Nat) : List (Str × RaceDoc) :=
  (m.mergeSort (fun a b => decide (b.2.ts ≤ a.2.ts))).take max

def dirStep (m : RaceDir) : REv → RaceDir
  | .store id d => dirStore m id d
  | _ => m

def dirAns (m : RaceDir) : REv → Option RAns
  | .store _ _ => none
  | .find id => some (match dirFind m id with | some d => .found d | none => .notFound)
  | .list max => some (.listed (dirList m max))

def dirAfter (m : RaceDir) (h : List REv) : RaceDir := h.foldl dirStep m

def raceRun : RaceDir → List REv → List RAns
  | _, [] => []
  | m, e :: es =>
    match dirAns m e with
    | some a => a :: raceRun (dirStep m e) es
    | none => raceRun (dirStep m e) es

/-- declarative: the document stored LAST for a race id in a history -/
def lastStored (h : List REv) (id : Str) : Option RaceDoc :=
  h.reverse.findSome? (fun e => match e with
    | .store i d => if i == id then some d else none
    | _ => none)

end Stats
