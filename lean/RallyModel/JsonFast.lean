/-
Model of the fast-path response parsing of esrally/driver/runner.py:

* `parse` (selective streaming parser on top of `ijson.parse`)            → `events`, `parseSel`
* `BulkIndex.detailed_stats / simple_stats / extract_error_details`        → `detailedStats`, `simpleStats`
* `SearchAfterExtractor` (`rfind` + regex capture + `json.loads`)          → `lastSort`, `searchAfterExtract`
* `CompositeAggExtractor`                                                  → `compositeExtract`
* `Query._request_body_query / _scroll_query / _search_after_query`        → `requestBodyDetailed`, `scrollQuery`,
                                                                             `searchAfterQuery`, `compositeQuery`

Import-free.  Strings are `List Char`.  JSON documents are values of `Json`; the text the real code sees is
`renderDoc style j` (explicit key order = list order, whitespace = `Style`), and the harness feeds exactly
that text to the real fast paths and to `json.loads`.  `events` is the model of what `ijson.parse`
(pure-python backend of ijson 2.6.1, the one installed) yields for that text; it is validated against the
real library on every generated document.
-/
import RallyModel.Dbl
namespace JsonFast

abbrev Str := List Char

/-! ## JSON values -/

/-- A JSON number literal, kept as its lexeme: `-`? int frac? exp?  (`exp = some (marker, digits)` with
    marker one of `e E e+ e- E+ E-`). -/
structure NumLit where
  neg : Bool
  int : Str
  frac : Str
  exp : Option (Str × Str)
deriving Repr, DecidableEq

inductive Json where
  | null
  | bool (b : Bool)
  | num (n : NumLit)
  | str (s : Str)
  | arr (xs : List Json)
  | obj (kvs : List (Str × Json))
deriving Repr

def isDig (c : Char) : Bool := decide ('0' ≤ c) && decide (c ≤ '9')

def NumLit.valid (n : NumLit) : Bool :=
  (n.int == ['0'] || (match n.int with | c :: _ => c != '0' | [] => false) && n.int.all isDig) &&
  n.frac.all isDig &&
  (match n.exp with
   | none => true
   | some (m, ds) =>
     (m == ['e'] || m == ['E'] || m == ['e', '+'] || m == ['e', '-'] || m == ['E', '+'] || m == ['E', '-']) &&
     !ds.isEmpty && ds.all isDig)

def NumLit.render (n : NumLit) : Str :=
  (if n.neg then ['-'] else []) ++ n.int ++ (if n.frac.isEmpty then [] else '.' :: n.frac) ++
  (match n.exp with | none => [] | some (m, ds) => m ++ ds)

/-- `'.' in s or 'e' in s or 'E' in s` of `ijson.common.number` is false -/
def NumLit.isInt (n : NumLit) : Bool := n.frac.isEmpty && n.exp.isNone

def digitsVal (ds : Str) : Nat := ds.foldl (fun n c => 10 * n + (c.toNat - 48)) 0

/-- value of an integer literal (Python `int(lexeme)`) -/
def NumLit.toInt? (n : NumLit) : Option Int :=
  if n.isInt then some (if n.neg then - (digitsVal n.int : Int) else (digitsVal n.int : Int)) else none

/-- all mantissa digits are zero: `bool(int(..))` / `bool(Decimal(..))` is False -/
def NumLit.isZero (n : NumLit) : Bool := n.int.all (· == '0') && n.frac.all (· == '0')

def Json.isScalar : Json → Bool
  | .arr _ => false
  | .obj _ => false
  | _ => true

/-! ## Rendering -/

/-- Whitespace choices (each field a string over space, tab, CR, LF) and string escaping choice. -/
structure Style where
  lead : Str := []
  trail : Str := []
  afterOpen : Str := []
  beforeClose : Str := []
  inEmpty : Str := []
  afterComma : Str := []
  beforeComma : Str := []
  beforeColon : Str := []
  afterColon : Str := []
  /-- escape every non-ASCII character as `\uXXXX` (surrogate pairs above the BMP) -/
  ascii : Bool := false
deriving Repr

def isWs (c : Char) : Bool := c == ' ' || c == '\t' || c == '\n' || c == '\r'

def Style.valid (st : Style) : Bool :=
  st.lead.all isWs && st.trail.all isWs && st.afterOpen.all isWs && st.beforeClose.all isWs && st.inEmpty.all isWs &&
  st.afterComma.all isWs && st.beforeComma.all isWs && st.beforeColon.all isWs && st.afterColon.all isWs

def hexDigit (n : Nat) : Char := if n < 10 then Char.ofNat (48 + n) else Char.ofNat (87 + n)

def hex4 (n : Nat) : Str :=
  [hexDigit (n / 4096 % 16), hexDigit (n / 256 % 16), hexDigit (n / 16 % 16), hexDigit (n % 16)]

def uEsc (n : Nat) : Str := '\\' :: 'u' :: hex4 n

/-- escaping of one character inside a JSON string (the set Jackson / `json.dumps` escape) -/
def escChar (ascii : Bool) (c : Char) : Str :=
  if c == '"' then ['\\', '"']
  else if c == '\\' then ['\\', '\\']
  else if c == '\n' then ['\\', 'n']
  else if c == '\r' then ['\\', 'r']
  else if c == '\t' then ['\\', 't']
  else if c.toNat == 8 then ['\\', 'b']
  else if c.toNat == 12 then ['\\', 'f']
  else if c.toNat < 32 then uEsc c.toNat
  else if ascii && c.toNat > 126 then
    (if c.toNat < 65536 then uEsc c.toNat
     else uEsc (55296 + (c.toNat - 65536) / 1024) ++ uEsc (56320 + (c.toNat - 65536) % 1024))
  else [c]

def escBody (ascii : Bool) : Str → Str
  | [] => []
  | c :: t => escChar ascii c ++ escBody ascii t

def renderStr (ascii : Bool) (s : Str) : Str := '"' :: (escBody ascii s ++ ['"'])

mutual
  def render (st : Style) : Json → Str
    | .null => ['n', 'u', 'l', 'l']
    | .bool true => ['t', 'r', 'u', 'e']
    | .bool false => ['f', 'a', 'l', 's', 'e']
    | .num n => n.render
    | .str s => renderStr st.ascii s
    | .arr xs =>
      match xs with
      | [] => '[' :: (st.inEmpty ++ [']'])
      | _ => '[' :: (st.afterOpen ++ renderElems st xs ++ st.beforeClose ++ [']'])
    | .obj kvs =>
      match kvs with
      | [] => '{' :: (st.inEmpty ++ ['}'])
      | _ => '{' :: (st.afterOpen ++ renderMembers st kvs ++ st.beforeClose ++ ['}'])
  def renderElems (st : Style) : List Json → Str
    | [] => []
    | x :: rest =>
      match rest with
      | [] => render st x
      | _ => render st x ++ st.beforeComma ++ ',' :: (st.afterComma ++ renderElems st rest)
  def renderMembers (st : Style) : List (Str × Json) → Str
    | [] => []
    | (k, v) :: rest =>
      match rest with
      | [] => renderStr st.ascii k ++ st.beforeColon ++ ':' :: (st.afterColon ++ render st v)
      | _ => renderStr st.ascii k ++ st.beforeColon ++ ':' :: (st.afterColon ++ render st v) ++ st.beforeComma ++
               ',' :: (st.afterComma ++ renderMembers st rest)
end

def renderDoc (st : Style) (j : Json) : Str := st.lead ++ render st j ++ st.trail

/-! ## The `ijson.parse` event stream -/

inductive Ev where
  | startMap | endMap | mapKey (k : Str) | startArray | endArray
  | null | boolean (b : Bool) | number (n : NumLit) | string (s : Str)
deriving Repr, DecidableEq

/-- scalar Python values that can end up in the dict returned by `parse` -/
inductive SVal where
  | none | bool (b : Bool) | num (n : NumLit) | str (s : Str)
deriving Repr, DecidableEq

/-- the third component of an ijson event -/
def Ev.value : Ev → SVal
  | .mapKey k => .str k
  | .boolean b => .bool b
  | .number n => .num n
  | .string s => .str s
  | _ => .none

/-- `event in ["null", "boolean", "integer", "double", "number", "string"]` -/
def Ev.isPrimitive : Ev → Bool
  | .null => true
  | .boolean _ => true
  | .number _ => true
  | .string _ => true
  | _ => false

/-- `'.'.join(path)` -/
def joinDots : List Str → Str
  | [] => []
  | a :: rest =>
    match rest with
    | [] => a
    | _ => a ++ '.' :: joinDots rest

def itemKey : Str := ['i', 't', 'e', 'm']

mutual
  /-- events of the value `j` located at `path` (ijson.common.parse: prefix = '.'.join(path)) -/
  def events (path : List Str) : Json → List (Str × Ev)
    | .null => [(joinDots path, .null)]
    | .bool b => [(joinDots path, .boolean b)]
    | .num n => [(joinDots path, .number n)]
    | .str s => [(joinDots path, .string s)]
    | .arr xs => (joinDots path, .startArray) :: (eventsElems (path ++ [itemKey]) xs ++ [(joinDots path, .endArray)])
    | .obj kvs => (joinDots path, .startMap) :: (eventsMembers path kvs ++ [(joinDots path, .endMap)])
  def eventsElems (path : List Str) : List Json → List (Str × Ev)
    | [] => []
    | x :: rest => events path x ++ eventsElems path rest
  def eventsMembers (path : List Str) : List (Str × Json) → List (Str × Ev)
    | [] => []
    | (k, v) :: rest => (joinDots path, .mapKey k) :: (events (path ++ [k]) v ++ eventsMembers path rest)
end

/-! ## Python dicts as association lists (insertion ordered, in-place update) -/

def dset {κ α : Type} [DecidableEq κ] (d : List (κ × α)) (k : κ) (v : α) : List (κ × α) :=
  match d with
  | [] => [(k, v)]
  | (k', v') :: t => if k' = k then (k, v) :: t else (k', v') :: dset t k v

def dget {κ α : Type} [DecidableEq κ] (d : List (κ × α)) (k : κ) : Option α :=
  match d with
  | [] => none
  | (k', v') :: t => if k' = k then some v' else dget t k

def dpop {κ α : Type} [DecidableEq κ] (d : List (κ × α)) (k : κ) : List (κ × α) :=
  match d with
  | [] => []
  | (k', v') :: t => if k' = k then t else (k', v') :: dpop t k

/-- `d.update(e)` -/
def dupdate {κ α : Type} [DecidableEq κ] (d e : List (κ × α)) : List (κ × α) :=
  e.foldl (fun acc kv => dset acc kv.1 kv.2) d

/-! ## `runner.parse` -/

/-- values of the dict returned by `parse`: scalars, list-emptiness flags (bools) and flat dicts -/
inductive PVal where
  | s (v : SVal)
  | dict (kvs : List (Str × SVal))
deriving Repr, DecidableEq

structure PS where
  parsed : List (Str × SVal) := []
  plists : List (Str × Bool) := []
  curObj : List (Str × SVal) := []
  /-- `current_list` (Python starts with None; it is only read after having been assigned) -/
  curList : Str := []
  expectEnd : Bool := false
  /-- `parsed_objects`; the key is `in_object`, which can be None -/
  pobjs : List (Option Str × List (Str × SVal)) := []
  inObj : Option Str := none
deriving Repr

def inObjTruthy : Option Str → Option Str
  | some (c :: t) => some (c :: t)
  | _ => none

/-- one iteration of the loop body of `parse` up to (excluding) the "found all" test -/
def step (props lists objs : List Str) (s0 : PS) (e : Str × Ev) : PS :=
  let s := if s0.expectEnd then
      { s0 with plists := dset s0.plists s0.curList (e.2 == Ev.endArray), expectEnd := false }
    else s0
  if e.1 ∈ props then { s with parsed := dset s.parsed e.1 e.2.value }
  else if e.1 ∈ lists ∧ e.2 = Ev.startArray then { s with curList := e.1, expectEnd := true }
  else if e.2 = Ev.endMap ∧ e.1 ∈ objs then { s with pobjs := dset s.pobjs s.inObj s.curObj, inObj := none }
  else if e.2 = Ev.startMap ∧ e.1 ∈ objs then { s with inObj := some e.1, curObj := [] }
  else
    match inObjTruthy s.inObj with
    | some io => if e.2.isPrimitive then { s with curObj := dset s.curObj (e.1.drop (io.length + 1)) e.2.value } else s
    | none => s

/-- "found all necessary properties" -/
def done (props lists objs : List Str) (s : PS) : Bool :=
  s.parsed.length == props.length && s.plists.length == lists.length && s.pobjs.length == objs.length

def run (props lists objs : List Str) : PS → List (Str × Ev) → PS
  | s, [] => s
  | s, e :: es =>
    let s' := step props lists objs s e
    if done props lists objs s' then s' else run props lists objs s' es

/-- `parsed.update(parsed_lists); parsed.update(parsed_objects)` -/
def finish (s : PS) : List (Option Str × PVal) :=
  dupdate (dupdate (s.parsed.map (fun kv => (some kv.1, PVal.s kv.2)))
      (s.plists.map (fun kv => (some kv.1, PVal.s (.bool kv.2)))))
    (s.pobjs.map (fun kv => (kv.1, PVal.dict kv.2)))

/-- `runner.parse(text, props, lists, objects)` on the event stream of the text
    (`lists`/`objects` = None behaves as the empty list) -/
def parseSel (props lists objs : List Str) (evs : List (Str × Ev)) : List (Option Str × PVal) :=
  finish (run props lists objs {} evs)

def pget (d : List (Option Str × PVal)) (k : Str) : Option PVal := dget d (some k)

/-- Python truthiness -/
def SVal.truthy : SVal → Bool
  | .none => false
  | .bool b => b
  | .num n => !n.isZero
  | .str s => !s.isEmpty

def PVal.truthy : PVal → Bool
  | .s v => v.truthy
  | .dict kvs => !kvs.isEmpty

/-! ## Full parsing (what `json.loads` gives), accessors with Python dict semantics -/

/-- `d.get(k)` on the dict built by `json.loads` from the members in text order (last duplicate wins) -/
def oget (kvs : List (Str × Json)) (k : Str) : Option Json :=
  match kvs with
  | [] => none
  | (k', v) :: t =>
    match oget t k with
    | some w => some w
    | none => if k' = k then some v else none

/-- `doc[k1][k2]...` through objects only -/
def getPath : Json → List Str → Option Json
  | j, [] => some j
  | .obj kvs, k :: rest =>
    match oget kvs k with
    | some v => getPath v rest
    | none => none
  | _, _ :: _ => none

def Json.toSVal : Json → SVal
  | .bool b => .bool b
  | .num n => .num n
  | .str s => .str s
  | _ => .none

inductive Err where
  | keyError | typeError | stopIteration | attributeError | zeroDivision
  | decode          -- json.JSONDecodeError
  | assertion       -- exceptions.RallyAssertionError
  | exhausted       -- the simulated endpoint has no further response (harness artefact)
  | unsupported     -- outside the modelled domain (floats where ints are expected, reprs, lone surrogates …)
deriving Repr, DecidableEq

/-! ## Bulk accounting -/

def kStatus : Str := ['s','t','a','t','u','s']
def kShards : Str := ['_','s','h','a','r','d','s']
def kFailed : Str := ['f','a','i','l','e','d']
def kTotal : Str := ['t','o','t','a','l']
def kSuccessful : Str := ['s','u','c','c','e','s','s','f','u','l']
def kItems : Str := ['i','t','e','m','s']
def kErrors : Str := ['e','r','r','o','r','s']
def kTook : Str := ['t','o','o','k']
def kError : Str := ['e','r','r','o','r']
def kReason : Str := ['r','e','a','s','o','n']
def kResult : Str := ['r','e','s','u','l','t']

/-- operand of an integer comparison `x > n` -/
def intOf : Json → Except Err Int
  | .num n => match n.toInt? with
    | some i => .ok i
    | none => .error .unsupported
  | .bool _ => .error .unsupported
  | _ => .error .typeError

/-- `data[k]` -/
def subscript (data : Json) (k : Str) : Except Err Json :=
  match data with
  | .obj kvs => match oget kvs k with
    | some v => .ok v
    | none => .error .keyError
  | _ => .error .typeError

/-- `next(iter(item.values()))` / `op, data = next(iter(item.items()))` -/
def itemData : Json → Except Err Json
  | .obj [] => .error .stopIteration
  | .obj ((k, v) :: rest) => match oget ((k, v) :: rest) k with
    | some w => .ok w
    | none => .ok v
  | _ => .error .attributeError

/-- `data["status"] > 299 or ("_shards" in data and data["_shards"]["failed"] > 0)` -/
def isFailed (data : Json) : Except Err Bool := do
  let st ← subscript data kStatus
  let s ← intOf st
  if s > 299 then return true
  match data with
  | .obj kvs =>
    match oget kvs kShards with
    | none => return false
    | some sh =>
      let f ← subscript sh kFailed
      let fi ← intOf f
      return decide (fi > 0)
  | _ => .error .typeError

/-- `%d` operand -/
def fmtD : Json → Except Err Unit
  | .num _ => .ok ()
  | .bool _ => .ok ()
  | _ => .error .typeError

/-- what `detailed_stats` does with an item before the failure test (ops counter, shards histogram) as
    far as it can raise -/
def detailedPre (data : Json) : Except Err Unit :=
  match data with
  | .obj kvs => do
    match oget kvs kResult with
    | some (.arr _) => .error .typeError
    | some (.obj _) => .error .typeError
    | _ => pure ()
    match oget kvs kShards with
    | none => pure ()
    | some sh =>
      let a ← subscript sh kTotal
      let b ← subscript sh kSuccessful
      let c ← subscript sh kFailed
      fmtD a
      fmtD b
      fmtD c
  | _ => .error .typeError

/-- `extract_error_details`: the tuple added to the set -/
def errorDetail (data : Json) : Except Err (Int × Option Str) := do
  let st ← subscript data kStatus
  let s ← intOf st
  match data with
  | .obj kvs =>
    match oget kvs kError with
    | none => return (s, none)
    | some .null => return (s, none)
    | some (.str e) => return (s, if e.isEmpty then none else some e)
    | some (.obj ekvs) =>
      if ekvs.isEmpty then return (s, none) else
      match oget ekvs kReason with
      | none => return (s, none)
      | some .null => return (s, none)
      | some (.str r) => return (s, some r)
      | some _ => .error .unsupported
    | some _ => .error .unsupported
  | _ => .error .typeError

def setAdd {α : Type} [DecidableEq α] (s : List α) (x : α) : List α := if x ∈ s then s else s ++ [x]

structure Counts where
  succ : Nat := 0
  err : Nat := 0
  details : List (Int × Option Str) := []
deriving Repr, DecidableEq

/-- the item loop shared by both paths (`detailed` adds the ops/histogram bookkeeping) -/
def countItems (detailed : Bool) : List Json → Counts → Except Err Counts
  | [], c => .ok c
  | item :: rest, c => do
    let data ← itemData item
    if detailed then detailedPre data
    let f ← isFailed data
    if f then
      let d ← errorDetail data
      countItems detailed rest { c with err := c.err + 1, details := setAdd c.details d }
    else
      countItems detailed rest { c with succ := c.succ + 1 }

/-- `for item in response["items"]` -/
def itemsOf (resp : Json) : Except Err (List Json) := do
  let it ← subscript resp kItems
  match it with
  | .arr xs => return xs
  | .obj [] => return []
  | .obj _ => .error .attributeError
  | .str [] => return []
  | .str _ => .error .attributeError
  | _ => .error .typeError

structure BulkStats where
  /-- fast path: `props.get("took")`; detailed path: `response.get("took")` when it is a scalar -/
  took : Option PVal
  success : Bool
  /-- None on the fast path when there is no error and the unit is not "docs" -/
  successCount : Option Int
  errorCount : Nat
  details : List (Int × Option Str)
deriving Repr, DecidableEq

def tookOf (resp : Json) : Except Err (Option PVal) :=
  match resp with
  | .obj kvs => match oget kvs kTook with
    | none => .ok none
    | some (.arr _) => .error .unsupported
    | some (.obj _) => .error .unsupported
    | some v => .ok (some (.s v.toSVal))
  | _ => .error .typeError

/-- the common tail of both paths (`error_description` sorts with a total key and cannot raise) -/
def statsOf (took : Option PVal) (c : Counts) : Except Err BulkStats :=
  .ok { took := took, success := c.err == 0, successCount := some c.succ, errorCount := c.err, details := c.details }

/-- `BulkIndex.detailed_stats` (the fields the property speaks about) -/
def detailedStats (resp : Json) : Except Err BulkStats :=
  match itemsOf resp with
  | .error e => .error e
  | .ok items =>
    match countItems true items {} with
    | .error e => .error e
    | .ok c =>
      match tookOf resp with
      | .error e => .error e
      | .ok took => statsOf took c

/-- `simple_stats` once the two lazily parsed properties are known -/
def simpleStatsWith (bulkSize : Int) (unitDocs : Bool) (resp : Json) (flag : Bool) (took : Option PVal) : Except Err BulkStats :=
  if flag then
    match itemsOf resp with
    | .error e => .error e
    | .ok items =>
      match countItems false items {} with
      | .error e => .error e
      | .ok c => statsOf took c
  else
    .ok { took := took, success := true, successCount := if unitDocs then some bulkSize else none,
          errorCount := 0, details := [] }

/-- `BulkIndex.simple_stats(bulk_size, unit, response)`; `unitDocs` = (unit == "docs") -/
def simpleStats (bulkSize : Int) (unitDocs : Bool) (resp : Json) : Except Err BulkStats :=
  let props := parseSel [kErrors, kTook] [] [] (events [] resp)
  simpleStatsWith bulkSize unitDocs resp
    (match pget props kErrors with
     | some v => v.truthy
     | none => false)
    (pget props kTook)

/-! ## `json.loads` (CPython's C scanner, strict mode) -/

def skipWs : Str → Str
  | [] => []
  | c :: t => if isWs c then skipWs t else c :: t

def hexVal (c : Char) : Option Nat :=
  if isDig c then some (c.toNat - 48)
  else if decide ('a' ≤ c) && decide (c ≤ 'f') then some (c.toNat - 87)
  else if decide ('A' ≤ c) && decide (c ≤ 'F') then some (c.toNat - 55)
  else none

def hex4Val (a b c d : Char) : Option Nat :=
  match hexVal a, hexVal b, hexVal c, hexVal d with
  | some w, some x, some y, some z => some (((w * 16 + x) * 16 + y) * 16 + z)
  | _, _, _, _ => none

def isHighSur (n : Nat) : Bool := decide (55296 ≤ n) && decide (n ≤ 56319)
def isLowSur (n : Nat) : Bool := decide (56320 ≤ n) && decide (n ≤ 57343)

def consOk (c : Char) (r : Except Err (Str × Str)) : Except Err (Str × Str) :=
  match r with
  | .ok (s, rest) => .ok (c :: s, rest)
  | .error e => .error e

/-- body of a string literal after the opening quote: (decoded, rest after the closing quote) -/
def pStr : Str → Except Err (Str × Str)
  | [] => .error .decode
  | c :: t =>
    if c == '"' then .ok ([], t)
    else if c == '\\' then
      match t with
      | [] => .error .decode
      | e :: t1 =>
        if e == '"' then consOk '"' (pStr t1)
        else if e == '\\' then consOk '\\' (pStr t1)
        else if e == '/' then consOk '/' (pStr t1)
        else if e == 'b' then consOk (Char.ofNat 8) (pStr t1)
        else if e == 'f' then consOk (Char.ofNat 12) (pStr t1)
        else if e == 'n' then consOk '\n' (pStr t1)
        else if e == 'r' then consOk '\r' (pStr t1)
        else if e == 't' then consOk '\t' (pStr t1)
        else if e == 'u' then
          match t1 with
          | a :: b :: c2 :: d :: t2 =>
            match hex4Val a b c2 d with
            | none => .error .decode
            | some n =>
              if isHighSur n then
                match t2 with
                | b1 :: u1 :: a' :: b' :: c' :: d' :: t3 =>
                  if b1 == '\\' && u1 == 'u' then
                    match hex4Val a' b' c' d' with
                    | some m =>
                      if isLowSur m then consOk (Char.ofNat (65536 + (n - 55296) * 1024 + (m - 56320))) (pStr t3)
                      else .error .unsupported
                    | none => .error .decode
                  else .error .unsupported
                | _ => .error .unsupported
              else if isLowSur n then .error .unsupported
              else consOk (Char.ofNat n) (pStr t2)
          | _ => .error .decode
        else .error .decode
    else if c.toNat < 32 then .error .decode
    else consOk c (pStr t)

def spanDig : Str → Str × Str
  | [] => ([], [])
  | c :: t => if isDig c then ((spanDig t).1.cons c, (spanDig t).2) else ([], c :: t)

def scanFrac (r : Str) : Str × Str :=
  match r with
  | [] => ([], r)
  | c :: t =>
    if c == '.' then
      let p := spanDig t
      if p.1.isEmpty then ([], r) else p
    else ([], r)

def scanExpDigits (m : Str) (t r : Str) : Option (Str × Str) × Str :=
  let p := spanDig t
  if p.1.isEmpty then (none, r) else (some (m, p.1), p.2)

def scanExp (r : Str) : Option (Str × Str) × Str :=
  match r with
  | e :: t =>
    if e == 'e' || e == 'E' then
      match t with
      | sg :: t' =>
        if sg == '+' || sg == '-' then scanExpDigits [e, sg] t' r else scanExpDigits [e] t r
      | [] => (none, r)
    else (none, r)
  | [] => (none, r)

def finishNum (neg : Bool) (int : Str) (r : Str) : NumLit × Str :=
  let f := scanFrac r
  let e := scanExp f.2
  ({ neg := neg, int := int, frac := f.1, exp := e.1 }, e.2)

def scanUnsigned (neg : Bool) (s : Str) : Option (NumLit × Str) :=
  match s with
  | [] => none
  | c :: t =>
    if c == '0' then some (finishNum neg ['0'] t)
    else if isDig c then
      let p := spanDig t
      some (finishNum neg (c :: p.1) p.2)
    else none

/-- `NUMBER_RE = (-?(?:0|[1-9]\d*))(\.\d+)?([eE][-+]?\d+)?` at the head of `s` -/
def scanNum (s : Str) : Option (NumLit × Str) :=
  match s with
  | [] => none
  | c :: t => if c == '-' then scanUnsigned true t else scanUnsigned false s

def isPrefix : Str → Str → Bool
  | [], _ => true
  | _ :: _, [] => false
  | a :: p, b :: s => a == b && isPrefix p s

mutual
  /-- `scan_once` at the head of `s` (fuel ≥ length of `s` + 1 is always enough) -/
  def pValue : Nat → Str → Except Err (Json × Str)
    | 0, _ => .error .unsupported
    | fuel + 1, s =>
      match s with
      | [] => .error .decode
      | c :: t =>
        if c == '"' then
          match pStr t with
          | .ok (x, r) => .ok (.str x, r)
          | .error e => .error e
        else if c == '[' then
          match skipWs t with
          | [] => .error .decode
          | c' :: t' => if c' == ']' then .ok (.arr [], t') else
            match pElems fuel (c' :: t') with
            | .ok (xs, r) => .ok (.arr xs, r)
            | .error e => .error e
        else if c == '{' then
          match skipWs t with
          | [] => .error .decode
          | c' :: t' => if c' == '}' then .ok (.obj [], t') else
            match pMembers fuel (c' :: t') with
            | .ok (kvs, r) => .ok (.obj kvs, r)
            | .error e => .error e
        else if isPrefix ['n','u','l','l'] s then .ok (.null, s.drop 4)
        else if isPrefix ['t','r','u','e'] s then .ok (.bool true, s.drop 4)
        else if isPrefix ['f','a','l','s','e'] s then .ok (.bool false, s.drop 5)
        else if isPrefix ['N','a','N'] s then .error .unsupported
        else if isPrefix ['I','n','f','i','n','i','t','y'] s then .error .unsupported
        else if isPrefix ['-','I','n','f','i','n','i','t','y'] s then .error .unsupported
        else
          match scanNum s with
          | some (n, r) => .ok (.num n, r)
          | none => .error .decode
  /-- elements of a non-empty array; `s` starts at the first element -/
  def pElems : Nat → Str → Except Err (List Json × Str)
    | 0, _ => .error .unsupported
    | fuel + 1, s =>
      match pValue fuel s with
      | .error e => .error e
      | .ok (v, r) =>
        match skipWs r with
        | [] => .error .decode
        | c :: r' =>
          if c == ']' then .ok ([v], r')
          else if c == ',' then
            match pElems fuel (skipWs r') with
            | .ok (xs, r'') => .ok (v :: xs, r'')
            | .error e => .error e
          else .error .decode
  /-- members of a non-empty object; `s` starts at the first key -/
  def pMembers : Nat → Str → Except Err (List (Str × Json) × Str)
    | 0, _ => .error .unsupported
    | fuel + 1, s =>
      match s with
      | [] => .error .decode
      | q :: t =>
        if q != '"' then .error .decode else
        match pStr t with
        | .error e => .error e
        | .ok (k, r) =>
          match skipWs r with
          | [] => .error .decode
          | c :: r1 =>
            if c != ':' then .error .decode else
            match pValue fuel (skipWs r1) with
            | .error e => .error e
            | .ok (v, r2) =>
              match skipWs r2 with
              | [] => .error .decode
              | c2 :: r3 =>
                if c2 == '}' then .ok ([(k, v)], r3)
                else if c2 == ',' then
                  match pMembers fuel (skipWs r3) with
                  | .ok (kvs, r4) => .ok ((k, v) :: kvs, r4)
                  | .error e => .error e
                else .error .decode
end

/-- `json.loads(s)` -/
def jsonLoads (s : Str) : Except Err Json :=
  match pValue (s.length + 1) (skipWs s) with
  | .error e => .error e
  | .ok (v, r) => if (skipWs r).isEmpty then .ok v else .error .decode

/-! ## `SearchAfterExtractor._get_last_sort` -/

def sortTok : Str := ['"', 's', 'o', 'r', 't', '"']
def sortLit : Str := ['s', 'o', 'r', 't', '"', ':']

/-- `s.rfind(pat)`: the highest index at which `pat` occurs (`none` = -1) -/
def rfind (pat : Str) : Str → Option Nat
  | [] => if pat.isEmpty then some 0 else none
  | c :: t =>
    match rfind pat t with
    | some i => some (i + 1)
    | none => if isPrefix pat (c :: t) then some 0 else none

/-- `s[i::]` with `i` the result of `rfind` (−1 selects the last character) -/
def sliceFrom (s : Str) (i : Option Nat) : Str :=
  match i with
  | some i => s.drop i
  | none => s.drop (s.length - 1)

/-- the characters up to and including the first `c` -/
def takeThrough (c : Char) : Str → Option Str
  | [] => none
  | x :: t =>
    if x == c then some [x]
    else match takeThrough c t with
      | some r => some (x :: r)
      | none => none

/-- `re.search(r'sort":([^\]]*])', s)`, group 1 -/
def reSearch : Str → Option Str
  | [] => none
  | c :: t =>
    if isPrefix sortLit (c :: t) then
      match takeThrough ']' ((c :: t).drop 6) with
      | some cap => some cap
      | none => reSearch t
    else reSearch t

/-- the extractor of the pinned revision (before commit 6007750): regex capture up to the first `]`,
    then `json.loads` of the capture — kept for the historical witness only -/
def lastSortPinned (text : Str) : Except Err (Option Json) :=
  match reSearch (sliceFrom text (rfind sortTok text)) with
  | none => .ok none
  | some cap =>
    match jsonLoads cap with
    | .ok v => .ok (some v)
    | .error e => .error e

/-- `\s` of Python's `re` on `str` -/
def isPySpace (c : Char) : Bool :=
  let n := c.toNat
  (decide (9 ≤ n) && decide (n ≤ 13)) || (decide (28 ≤ n) && decide (n ≤ 32)) || n == 133 || n == 160 || n == 5760 ||
  (decide (8192 ≤ n) && decide (n ≤ 8202)) || n == 8232 || n == 8233 || n == 8239 || n == 8287 || n == 12288

def skipPySpace : Str → Str
  | [] => []
  | c :: t => if isPySpace c then skipPySpace t else c :: t

/-- `_get_last_sort`: `rfind('"sort"')`; `re.compile(r'sort":\s*').match(s, i + 1)`; `raw_decode(s, m.end())[0]`
    (exactly one JSON value is decoded, whatever follows it is ignored) -/
def lastSort (text : Str) : Except Err (Option Json) :=
  match rfind sortTok text with
  | none => .ok none
  | some i =>
    let sl := text.drop (i + 1)
    if isPrefix sortLit sl then
      let r := skipPySpace (sl.drop 6)
      match pValue (r.length + 1) r with
      | .ok (v, _) => .ok (some v)
      | .error e => .error e
    else .ok none

/-! ## Extractors and page / hit accounting of `Query` -/

def kTimedOut : Str := ['t','i','m','e','d','_','o','u','t']
def kPitId : Str := ['p','i','t','_','i','d']
def kScrollId : Str := ['_','s','c','r','o','l','l','_','i','d']
def kHits : Str := ['h','i','t','s']
def kValue : Str := ['v','a','l','u','e']
def kRelation : Str := ['r','e','l','a','t','i','o','n']
def kSkipped : Str := ['s','k','i','p','p','e','d']
def kSort : Str := ['s','o','r','t']
def kAggregations : Str := ['a','g','g','r','e','g','a','t','i','o','n','s']
def kAfterKey : Str := ['a','f','t','e','r','_','k','e','y']
def kHitsTotal : Str := joinDots [kHits, kTotal]
def kHitsTotalValue : Str := joinDots [kHits, kTotal, kValue]
def kHitsTotalRelation : Str := joinDots [kHits, kTotal, kRelation]
def kHitsHits : Str := joinDots [kHits, kHits]
def kShardsTotal : Str := joinDots [kShards, kTotal]
def kShardsSuccessful : Str := joinDots [kShards, kSuccessful]
def kShardsSkipped : Str := joinDots [kShards, kSkipped]
def kShardsFailed : Str := joinDots [kShards, kFailed]

def pyNone : PVal := .s .none
def pyFalse : PVal := .s (.bool false)
def pyEq : PVal := .s (.str ['e', 'q'])

def NumLit.ofInt (i : Int) : NumLit :=
  { neg := decide (i < 0), int := (Nat.repr i.natAbs).toList, frac := [], exp := none }

def pyZero : PVal := .s (.num (NumLit.ofInt 0))

/-- operand of integer arithmetic / ordering (`0 + x`, `x / size`, `x < size`) -/
def intOfP : PVal → Except Err Int
  | .s (.num n) => match n.toInt? with
    | some i => .ok i
    | none => .error .unsupported
  | .s (.bool _) => .error .unsupported
  | _ => .error .typeError

/-- the properties requested by `SearchAfterExtractor` / `CompositeAggExtractor` -/
def pageProps (pit : Bool) (hitsTotal : PVal) : List Str :=
  [kTimedOut, kTook] ++ (if pit then [kPitId] else []) ++
  (if hitsTotal = pyNone then [kHitsTotal, kHitsTotalValue, kHitsTotalRelation] else [])

/-- "standardize these before returning..." -/
def standardize (parsed : List (Option Str × PVal)) (hitsTotal : PVal) : List (Option Str × PVal) :=
  let inner := match pget parsed kHitsTotal with
    | some v => v
    | none => hitsTotal
  let p1 := dpop parsed (some kHitsTotal)
  let v := match pget p1 kHitsTotalValue with
    | some v => v
    | none => inner
  let p3 := dset (dpop p1 (some kHitsTotalValue)) (some kHitsTotalValue) v
  dset p3 (some kHitsTotalRelation) (match pget p3 kHitsTotalRelation with
    | some r => r
    | none => pyEq)

/-- `not d.get(k)` -/
def optFalsy (o : Option PVal) : Bool :=
  match o with
  | some v => !v.truthy
  | none => true

def pitMissing (pit : Bool) (parsed : List (Option Str × PVal)) : Bool :=
  pit && optFalsy (pget parsed kPitId)

/-- `SearchAfterExtractor.__call__(response, get_point_in_time, hits_total)` -/
def searchAfterExtract (st : Style) (pit : Bool) (hitsTotal : PVal) (j : Json) :
    Except Err (List (Option Str × PVal) × Option Json) :=
  let parsed := parseSel (pageProps pit hitsTotal) [] [] (events [] j)
  if pitMissing pit parsed then .error .assertion else
  match lastSort (renderDoc st j) with
  | .error e => .error e
  | .ok ls => .ok (standardize parsed hitsTotal, ls)

def dotS : Str := ['.']

/-- `"aggregations." + ".".join(path_to_composite_agg) + ".after_key"` -/
def afterKeyPath (path : List Str) : Str := kAggregations ++ dotS ++ joinDots path ++ dotS ++ kAfterKey

/-- `CompositeAggExtractor.__call__(response, get_point_in_time, path_to_composite_agg, hits_total)` -/
def compositeExtract (pit : Bool) (path : List Str) (hitsTotal : PVal) (j : Json) :
    Except Err (List (Option Str × PVal)) :=
  let ak := afterKeyPath path
  let parsed := parseSel (pageProps pit hitsTotal) [] [ak] (events [] j)
  if pitMissing pit parsed then .error .assertion else
  let p := standardize parsed hitsTotal
  let akv := match pget p ak with
    | some v => v
    | none => pyNone
  .ok (dset (dpop p (some ak)) (some kAfterKey) akv)

structure PageAcc where
  pages : Nat := 0
  hits : PVal := pyNone
  hitsRel : PVal := pyNone
  took : Int := 0
  timedOut : PVal := pyFalse
  /-- values assigned to `body["search_after"]` / `composite["after"]`, i.e. sent with the following request -/
  cursors : List (Option Json) := []
  afters : List PVal := []
  /-- values handed to `CompositeContext.put(pit_op, ...)`, i.e. the pit id of the following request -/
  pitIds : List PVal := []
deriving Repr

def getOr (o : Option PVal) (d : PVal) : PVal :=
  match o with
  | some v => v
  | none => d

/-- what the page loops read from the dict an extractor returns (`parsed.get(...)`) -/
structure PageView where
  hitsValue : Option PVal
  hitsRel : Option PVal
  took : Option PVal
  timedOut : Option PVal
  pitId : Option PVal
  afterKey : Option PVal
deriving Repr, DecidableEq

def viewOf (parsed : List (Option Str × PVal)) : PageView :=
  { hitsValue := pget parsed kHitsTotalValue, hitsRel := pget parsed kHitsTotalRelation, took := pget parsed kTook,
    timedOut := pget parsed kTimedOut, pitId := pget parsed kPitId, afterKey := pget parsed kAfterKey }

/-- the bookkeeping shared by `_search_after_query` and `_composite_agg` after a page was parsed -/
def accountPage (pit : Bool) (page : Nat) (v : PageView) (acc : PageAcc) : Except Err PageAcc :=
  let acc := { acc with pages := page }
  let acc := if acc.hits = pyNone then
      { acc with hits := getOr v.hitsValue pyNone, hitsRel := getOr v.hitsRel pyNone }
    else acc
  match intOfP (getOr v.took pyNone) with
  | .error e => .error e
  | .ok t =>
    let acc := { acc with took := acc.took + t }
    let acc := if !acc.timedOut.truthy then { acc with timedOut := getOr v.timedOut pyNone } else acc
    .ok (if pit then { acc with pitIds := acc.pitIds ++ [getOr v.pitId pyNone] } else acc)

/-- `results.get("hits") / size > page` (int / int is correctly rounded true division, then exact comparison) -/
def morePages (hits : PVal) (size page : Nat) : Except Err Bool :=
  match intOfP hits with
  | .error e => .error e
  | .ok h =>
    if size = 0 then .error .zeroDivision else
    let q : Rat := (h : Rat) / (size : Rat)
    if !Dbl.inRange q then .error .unsupported else
    .ok (decide (Dbl.fl q > (page : Rat)))

/-- `_search_after_query` over an extraction function (`hits_total`, response) ↦ (what is read, cursor);
    `resps` are the responses the endpoint serves, in order; `page` starts at 1 -/
def saLoopWith (extract : PVal → Json → Except Err (PageView × Option Json)) (pit : Bool) (size total : Nat) :
    List Json → Nat → PageAcc → Except Err PageAcc
  | [], page, acc => if page > total then .ok acc else .error .exhausted
  | r :: rest, page, acc =>
    if page > total then .ok acc else
    match extract acc.hits r with
    | .error e => .error e
    | .ok (v, ls) =>
      match accountPage pit page v acc with
      | .error e => .error e
      | .ok acc =>
        match morePages acc.hits size page with
        | .error e => .error e
        | .ok true => saLoopWith extract pit size total rest (page + 1) { acc with cursors := acc.cursors ++ [ls] }
        | .ok false => .ok acc

/-- the fast extraction: `SearchAfterExtractor` -/
def saExtract (st : Style) (pit : Bool) (hitsTotal : PVal) (j : Json) : Except Err (PageView × Option Json) :=
  match searchAfterExtract st pit hitsTotal j with
  | .error e => .error e
  | .ok (parsed, ls) => .ok (viewOf parsed, ls)

def searchAfterQuery (st : Style) (pit : Bool) (size total : Nat) (resps : List Json) : Except Err PageAcc :=
  saLoopWith (saExtract st pit) pit size total resps 1 {}

/-- `_composite_agg` over an extraction function -/
def caLoopWith (extract : PVal → Json → Except Err PageView) (pit : Bool) (total : Nat) :
    List Json → Nat → PageAcc → Except Err PageAcc
  | [], page, acc => if page > total then .ok acc else .error .exhausted
  | r :: rest, page, acc =>
    if page > total then .ok acc else
    match extract acc.hits r with
    | .error e => .error e
    | .ok v =>
      match accountPage pit page v acc with
      | .error e => .error e
      | .ok acc =>
        match v.afterKey with
        | some (.dict d) => caLoopWith extract pit total rest (page + 1) { acc with afters := acc.afters ++ [.dict d] }
        | _ => .ok acc

def caExtract (pit : Bool) (path : List Str) (hitsTotal : PVal) (j : Json) : Except Err PageView :=
  match compositeExtract pit path hitsTotal j with
  | .error e => .error e
  | .ok parsed => .ok (viewOf parsed)

def compositeQuery (pit : Bool) (path : List Str) (total : Nat) (resps : List Json) : Except Err PageAcc :=
  caLoopWith (caExtract pit path) pit total resps 1 {}

/-! ### scroll -/

structure ScrollAcc where
  pages : Nat := 0
  hits : PVal := pyZero
  hitsRel : PVal := pyNone
  timedOut : PVal := pyFalse
  took : PVal := pyZero
  scrollId : PVal := pyNone
deriving Repr, DecidableEq

def scrollFirstProps : List Str := [kScrollId, kHitsTotal, kHitsTotalValue, kHitsTotalRelation, kTimedOut, kTook]
def scrollNextProps : List Str := [kTimedOut, kTook]

/-- what `_scroll_query` reads from `props` -/
structure ScrollView where
  scrollId : Option PVal
  /-- `props.get("hits.total.value", props.get("hits.total", 0))` -/
  hits : PVal
  hitsRel : Option PVal
  timedOut : Option PVal
  took : Option PVal
  /-- `props.get("hits.hits")`: is the list of hits empty? -/
  hitsEmpty : Option PVal
deriving Repr, DecidableEq

def scrollViewOf (props : List (Option Str × PVal)) : ScrollView :=
  { scrollId := pget props kScrollId,
    hits := getOr (pget props kHitsTotalValue) (getOr (pget props kHitsTotal) pyZero),
    hitsRel := pget props kHitsTotalRelation, timedOut := pget props kTimedOut, took := pget props kTook,
    hitsEmpty := pget props kHitsHits }

/-- the fast extraction of the first / the following pages -/
def scrollFirstView (j : Json) : ScrollView := scrollViewOf (parseSel scrollFirstProps [kHitsHits] [] (events [] j))
def scrollNextView (j : Json) : ScrollView := scrollViewOf (parseSel scrollNextProps [kHitsHits] [] (events [] j))

/-- `hits == 0` -/
def pyEqZero : PVal → Bool
  | .s (.num n) => n.isZero
  | .s (.bool b) => !b
  | _ => false

/-- `(size is not None and hits < size) or hits == 0` -/
def firstPageDone (size : Option Nat) (hits : PVal) : Except Err Bool :=
  match size with
  | some sz =>
    match intOfP hits with
    | .error e => .error e
    | .ok h => .ok (decide (h < (sz : Int)) || pyEqZero hits)
  | none => .ok (pyEqZero hits)

def scrollFirst (size : Option Nat) (v : ScrollView) : Except Err (ScrollAcc × Bool) :=
  let acc : ScrollAcc :=
    { pages := 0, hits := v.hits, hitsRel := getOr v.hitsRel pyEq,
      timedOut := getOr v.timedOut pyFalse, took := getOr v.took pyZero,
      scrollId := getOr v.scrollId pyNone }
  match firstPageDone size v.hits with
  | .error e => .error e
  | .ok d => .ok (acc, d)

def bothStr : PVal → PVal → Bool
  | .s (.str _), .s (.str _) => true
  | _, _ => false

def scrollNext (acc : ScrollAcc) (v : ScrollView) : Except Err (ScrollAcc × Bool) :=
  let to := if acc.timedOut.truthy then acc.timedOut else getOr v.timedOut pyFalse
  let nt := getOr v.took pyZero
  if bothStr acc.took nt then .error .unsupported else   -- str + str concatenates in Python
  match intOfP acc.took with
  | .error e => .error e
  | .ok a =>
    match intOfP nt with
    | .error e => .error e
    | .ok b =>
      .ok ({ acc with timedOut := to, took := .s (.num (NumLit.ofInt (a + b))) }, (getOr v.hitsEmpty pyFalse).truthy)

/-- iterations `page ≥ 1` of the loop of `_scroll_query`, over an extraction function -/
def scrollLoopWith (next : Json → ScrollView) (total : Nat) : List Json → Nat → ScrollAcc → Except Err ScrollAcc
  | [], page, acc => if page ≥ total then .ok acc else .error .exhausted
  | r :: rest, page, acc =>
    if page ≥ total then .ok acc else
    match scrollNext acc (next r) with
    | .error e => .error e
    | .ok (acc, d) =>
      let acc := { acc with pages := acc.pages + 1 }
      if d then .ok acc else scrollLoopWith next total rest (page + 1) acc

def scrollQueryWith (first next : Json → ScrollView) (size : Option Nat) (total : Nat) (resps : List Json) : Except Err ScrollAcc :=
  if total = 0 then .ok {} else
  match resps with
  | [] => .error .exhausted
  | r :: rest =>
    match scrollFirst size (first r) with
    | .error e => .error e
    | .ok (acc, d) =>
      let acc := { acc with pages := 1 }
      if d then .ok acc else scrollLoopWith next total rest 1 acc

/-- `_scroll_query` -/
def scrollQuery (size : Option Nat) (total : Nat) (resps : List Json) : Except Err ScrollAcc :=
  scrollQueryWith scrollFirstView scrollNextView size total resps

/-! ### request body search with detailed results -/

structure RBRes where
  hits : PVal
  hitsRel : PVal
  timedOut : PVal
  took : PVal
  shTotal : PVal
  shSuccessful : PVal
  shSkipped : PVal
  shFailed : PVal
deriving Repr

def rbProps : List Str :=
  [kHitsTotal, kHitsTotalValue, kHitsTotalRelation, kTimedOut, kTook, kShardsTotal, kShardsSuccessful, kShardsSkipped, kShardsFailed]

def requestBodyDetailed (j : Json) : RBRes :=
  let props := parseSel rbProps [] [] (events [] j)
  { hits := getOr (pget props kHitsTotalValue) (getOr (pget props kHitsTotal) pyZero),
    hitsRel := getOr (pget props kHitsTotalRelation) pyEq,
    timedOut := getOr (pget props kTimedOut) pyFalse,
    took := getOr (pget props kTook) pyZero,
    shTotal := getOr (pget props kShardsTotal) pyZero,
    shSuccessful := getOr (pget props kShardsSuccessful) pyZero,
    shSkipped := getOr (pget props kShardsSkipped) pyZero,
    shFailed := getOr (pget props kShardsFailed) pyZero }

/-! ## Objects and sessions: several calls on the SAME extractor / runner instance

Rally registers one runner instance per operation type and `Query.__init__` creates one `SearchAfterExtractor`
and one `CompositeAggExtractor` per `Query`; all tasks of that type (and all clients of a worker) share them.
`session` runs a list of calls on one instance, threading the instance state.  The instance attributes of the
extractors (`sort_pattern`, `decoder`) and of `BulkIndex` / `Query` (`logger`, serverless flags, the two
extractors) are assigned in `__init__` and never again: the modelled state is `Unit`.

The only thing the page loops leave behind is in the *request body* of the operation, which the parameter
source hands out again for the next invocation of the same task (`SearchParamSource.params` returns the same
dict): `body["search_after"]` resp. `composite["after"]` are removed when the loop stops because there are no
more results, but stay when it stops because `pages` is reached. -/

def session {σ α β : Type} (call : σ → α → σ × β) : σ → List α → List β
  | _, [] => []
  | s, a :: rest => (call s a).2 :: session call (call s a).1 rest

structure SaxCall where
  pit : Bool
  hitsTotal : PVal
  resp : Json

/-- `SearchAfterExtractor.__call__` on an instance -/
def saxCallOn (st : Style) (s : Unit) (c : SaxCall) : Unit × Except Err (List (Option Str × PVal) × Option Json) :=
  (s, searchAfterExtract st c.pit c.hitsTotal c.resp)

structure CaxCall where
  pit : Bool
  path : List Str
  hitsTotal : PVal
  resp : Json

/-- `CompositeAggExtractor.__call__` on an instance -/
def caxCallOn (s : Unit) (c : CaxCall) : Unit × Except Err (List (Option Str × PVal)) :=
  (s, compositeExtract c.pit c.path c.hitsTotal c.resp)

structure BulkCall where
  detailed : Bool
  bulkSize : Int
  unitDocs : Bool
  resp : Json

/-- `BulkIndex.detailed_stats` / `simple_stats` on an instance -/
def bulkCallOn (s : Unit) (c : BulkCall) : Unit × Except Err BulkStats :=
  (s, if c.detailed then detailedStats c.resp else simpleStats c.bulkSize c.unitDocs c.resp)

structure ParseCall where
  props : List Str
  lists : List Str
  objs : List Str
  resp : Json

/-- `runner.parse` (a module-level function: no instance at all) -/
def parseCallOn (s : Unit) (c : ParseCall) : Unit × List (Option Str × PVal) :=
  (s, parseSel c.props c.lists c.objs (events [] c.resp))

/-- what an invocation of `_search_after_query` / `_composite_agg` finds in and leaves in the request body:
    `none` = key absent -/
abbrev BodyLeft := Option (Option Json)
abbrev AfterLeft := Option PVal

def lastOpt {α : Type} : List α → Option α
  | [] => none
  | [a] => some a
  | _ :: b :: r => lastOpt (b :: r)

/-- the cursor left in the body after the loop: removed if the loop stopped for lack of results (one cursor
    less than pages), otherwise the last one assigned (or what was there, if none was assigned) -/
def saLeftAfter (left : BodyLeft) (acc : PageAcc) : BodyLeft :=
  if acc.cursors.length = acc.pages then
    match lastOpt acc.cursors with
    | some c => some c
    | none => left
  else none

def caLeftAfter (left : AfterLeft) (acc : PageAcc) : AfterLeft :=
  if acc.afters.length = acc.pages then
    match lastOpt acc.afters with
    | some c => some c
    | none => left
  else none

structure SaQCall where
  pit : Bool
  size : Nat
  total : Nat
  resps : List Json

/-- one invocation of a paginated-search task on the shared body: (what is left in the body,
    (result, `search_after` of the FIRST request = what the previous invocation left)) -/
def saQueryOn (st : Style) (left : BodyLeft) (c : SaQCall) : BodyLeft × (Except Err PageAcc × BodyLeft) :=
  match searchAfterQuery st c.pit c.size c.total c.resps with
  | .ok acc => (saLeftAfter left acc, (.ok acc, left))
  | .error e => (left, (.error e, left))

structure CaQCall where
  pit : Bool
  path : List Str
  total : Nat
  resps : List Json

def caQueryOn (left : AfterLeft) (c : CaQCall) : AfterLeft × (Except Err PageAcc × AfterLeft) :=
  match compositeQuery c.pit c.path c.total c.resps with
  | .ok acc => (caLeftAfter left acc, (.ok acc, left))
  | .error e => (left, (.error e, left))

end JsonFast
