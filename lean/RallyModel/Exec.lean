import RallyModel.Alloc
/-
One client's `AsyncExecutor` run on a virtual clock (C04, C05).

Mirrors, statement by statement,
  esrally/track/track.py     Task.target_throughput
  esrally/driver/scheduler.py scheduler_for, run_unthrottled, Unthrottled, DeterministicScheduler,
                              PoissonScheduler, UnitAwareScheduler
  esrally/driver/driver.py    schedule_for, requires_time_period_schedule, ScheduleHandle,
                              TimePeriodBased, IterationBased, AsyncExecutor.__call__,
                              execute_single, Sampler.add / Sampler.samples (also interleaved with a
                              concurrent reader, micro-step by micro-step)
  esrally/client/context.py   RequestContextHolder.update_request_start/_end, on_request_start/_end,
                              RequestContextManager.__enter__/__exit__ (nested contexts, exit by exception)

Time is `Rat`.  Every arithmetic operation the code performs on floats goes through the rounding
function `Cfg.r`: with `r = id` the model computes with exact rationals (what the property is
about), with `r = Dbl.fl` it computes exactly what CPython computes on doubles (used by the
correspondence check for non-dyadic inputs).  Comparisons are exact in both.

Inputs: task parameters + one `Req` per request the parameter source can deliver: how long
parameter generation, the client-side work before/after the wire request and the wire request take,
what the runner returns or raises, what `random.expovariate` would return, and what the
runner / parameter source report as progress.
Imports only `RallyModel.Alloc` (C02's model of the allocation matrix: where a client's `TaskAllocation` comes from).
-/
namespace Exec

abbrev Str := List Char

/-! ## `Task.target_throughput` -/

/-- a raw task parameter (`task.params.get(...)`) -/
inductive PVal
  | none
  | str (s : Str)
  | int (i : Int)
  | float (q : Rat)
  | bool (b : Bool)
  | other (truthy : Bool)      -- list, dict, …
deriving Repr, DecidableEq

structure Throughput where
  value : Rat
  unit : Str
deriving Repr, DecidableEq

inductive Err
  | invalidSyntax          -- exceptions.InvalidSyntax from Task.target_throughput
  | noScheduler            -- RallyError "No scheduler available for name"
  | zeroDivision           -- ZeroDivisionError escaping before the executor's try block
deriving Repr, DecidableEq

def PVal.truthy : PVal → Bool
  | .none => false
  | .str s => !s.isEmpty
  | .int i => i != 0
  | .float q => q != 0
  | .bool b => b
  | .other t => t

/-- `isinstance(v, numbers.Number) and not isinstance(v, bool)` -/
def PVal.numeric : PVal → Bool
  | .int _ => true
  | .float _ => true
  | _ => false

/-- `float(v)` for a numeric `v` -/
def PVal.toFloat (r : Rat → Rat) : PVal → Rat
  | .int i => r (i : Rat)
  | .float q => q
  | _ => 0

/-- `\d`, `\w`, `\s` on ASCII text, by code point -/
def isDigit (c : Char) : Bool := 48 ≤ c.toNat && c.toNat ≤ 57
def isWord (c : Char) : Bool :=
  isDigit c || (97 ≤ c.toNat && c.toNat ≤ 122) || (65 ≤ c.toNat && c.toNat ≤ 90) || c.toNat == 95
/-- blank, \t \n \v \f \r and the four separators 0x1c–0x1f -/
def isSpace (c : Char) : Bool := c.toNat == 32 || (9 ≤ c.toNat && c.toNat ≤ 13) || (28 ≤ c.toNat && c.toNat ≤ 31)

def digitsVal (ds : List Char) : Nat := ds.foldl (fun a c => 10 * a + (c.toNat - 48)) 0

/-- the number part `(\d*\.)?\d+` at the start of `s`: (exact decimal value, remaining text).
    Greedy with backtracking collapses to: maximal digit run, optionally `.` and a non-empty maximal
    digit run; a `.` that is not followed by a digit makes the whole match fail because the next
    pattern element is `\s`. -/
def matchNumber (s : Str) : Option (Rat × Str) :=
  let d1 := s.takeWhile isDigit
  match s.dropWhile isDigit with
  | '.' :: rest2 =>
    let d2 := rest2.takeWhile isDigit
    if d2.isEmpty then none
    else some ((digitsVal d1 : Rat) + (digitsVal d2 : Rat) / ((10 ^ d2.length : Nat) : Rat), rest2.dropWhile isDigit)
  | rest => if d1.isEmpty then none else some ((digitsVal d1 : Rat), rest)

/-- the unit part `\w+/s` at the start of `s` -/
def matchUnit (s : Str) : Option Str :=
  let w := s.takeWhile isWord
  match s.dropWhile isWord with
  | '/' :: 's' :: _ => if w.isEmpty then none else some (w ++ ['/', 's'])
  | _ => none

/-- `re.match(r"(?P<value>(\d*\.)?\d+)\s(?P<unit>\w+/s)", s)` (anchored at the start only) -/
def matchThroughput (s : Str) : Option (Rat × Str) :=
  match matchNumber s with
  | none => none
  | some (_, []) => none
  | some (v, sp :: rest) =>
    if isSpace sp then
      match matchUnit rest with
      | some u => some (v, u)
      | none => none
    else none

def opsPerS : Str := ['o', 'p', 's', '/', 's']

/-- `if value: return Throughput(value, unit) else: return None` -/
def finishThroughput (value : Option Rat) (unit : Str) : Option Throughput :=
  match value with
  | some v => if v != 0 then some ⟨v, unit⟩ else none
  | none => none

/-- `Task.target_throughput` for raw parameters `target-throughput` = `tt`, `target-interval` = `ti` -/
def targetThroughput (r : Rat → Rat) (tt ti : PVal) : Except Err (Option Throughput) :=
  if ti != .none && tt != .none then .error .invalidSyntax
  else if ti.truthy then
    if !ti.numeric then .error .invalidSyntax
    else .ok (finishThroughput (some (r (1 / ti.toFloat r))) opsPerS)
  else if tt.truthy then
    match tt with
    | .str s =>
      match matchThroughput s with
      | some (v, u) => .ok (finishThroughput (some (r v)) u)
      | none => .error .invalidSyntax
    | .int _ => .ok (finishThroughput (some (tt.toFloat r)) opsPerS)
    | .float _ => .ok (finishThroughput (some (tt.toFloat r)) opsPerS)
    | _ => .error .invalidSyntax
  else .ok none

/-! ## schedulers -/

inductive SchedKind | deterministic | poisson
deriving Repr, DecidableEq

/-- the scheduler a `UnitAwareScheduler` currently delegates to -/
inductive Inner
  | unthrottled
  | det (wait : Rat)        -- DeterministicScheduler.wait_time
  | poi (rate : Rat)        -- PoissonScheduler.rate
deriving Repr, DecidableEq

inductive Sched
  | plain                   -- `Unthrottled()` chosen by scheduler_for
  | unitAware (kind : SchedKind) (tp : Throughput) (first : Bool) (cw : Option Nat) (inner : Inner)
deriving Repr

def detName : Str := ['d', 'e', 't', 'e', 'r', 'm', 'i', 'n', 'i', 's', 't', 'i', 'c']
def poiName : Str := ['p', 'o', 'i', 's', 's', 'o', 'n']

/-- `run_unthrottled` -/
def runUnthrottled (tp : Option Throughput) (sched : Option Str) : Bool :=
  tp.isNone && (sched == none || sched == some poiName || sched == some detName)

/-- `scheduler_for` restricted to the built-in registry {deterministic, poisson} -/
def schedulerFor (tp : Option Throughput) (sched : Option Str) : Except Err Sched :=
  if runUnthrottled tp sched then .ok .plain
  else
    let name := sched.getD detName
    match tp with
    | none => .error .noScheduler       -- a custom name without target throughput: not registered
    | some t =>
      if name == detName then .ok (.unitAware .deterministic t true none .unthrottled)
      else if name == poiName then .ok (.unitAware .poisson t true none .unthrottled)
      else .error .noScheduler

def Inner.next (r : Rat → Rat) (i : Inner) (cur draw : Rat) : Rat :=
  match i with
  | .unthrottled => 0
  | .det w => r (cur + w)
  | .poi _ => r (cur + draw)

def Sched.inner : Sched → Inner
  | .plain => .unthrottled
  | .unitAware _ _ _ _ i => i

def Sched.next (r : Rat → Rat) (s : Sched) (cur draw : Rat) : Rat := s.inner.next r cur draw

/-- rate passed to `random.expovariate` by this `next` call, if any -/
def Sched.rateLog (s : Sched) : List Rat :=
  match s.inner with
  | .poi rate => [rate]
  | _ => []

inductive Cause
  | assertion       -- RallyAssertionError from execute_single (on-error=abort or fatal error)
  | setup           -- SystemSetupError (KeyError in the runner)
  | unitMismatch    -- RallyAssertionError from UnitAwareScheduler.after_request
  | other           -- any other exception raised by the runner
  | zeroDivision    -- task.clients = 0 / vanishing target throughput
  | noTimestamps    -- TypeError `None - None`: the request context was never stamped
deriving Repr, DecidableEq

def mkInner (r : Rat → Rat) (kind : SchedKind) (targetThroughput : Rat) : Except Cause Inner :=
  match kind with
  | .deterministic => if targetThroughput = 0 then .error .zeroDivision else .ok (.det (r (1 / targetThroughput)))
  | .poisson => .ok (.poi targetThroughput)

/-- the weight `UnitAwareScheduler.after_request` throttles with: the runner's weight when the units agree,
    1 when the target is given in ops/s (backwards-compatibility workaround), otherwise an error -/
def effectiveWeight (tp : Throughput) (weight : Nat) (unit : Str) : Except Cause Nat :=
  if unit ++ ['/', 's'] != tp.unit then
    if tp.unit == opsPerS then .ok 1 else .error .unitMismatch
  else .ok weight

/-- `target_throughput = value / clients / current_weight; self.scheduler = scheduler_class(task, target_throughput)` -/
def retarget (r : Rat → Rat) (clients : Nat) (kind : SchedKind) (tp : Throughput) (w : Nat) : Except Cause Sched :=
  if clients = 0 then .error .zeroDivision
  else
    match mkInner r kind (r (r (tp.value / (clients : Rat)) / (w : Rat))) with
    | .error e => .error e
    | .ok i => .ok (.unitAware kind tp false (some w) i)

/-- `UnitAwareScheduler.after_request(now, weight, unit, meta)`; `Unthrottled.after_request` is a no-op -/
def Sched.afterRequest (r : Rat → Rat) (clients : Nat) (s : Sched) (weight : Nat) (unit : Str) : Except Cause Sched :=
  match s with
  | .plain => .ok .plain
  | .unitAware kind tp first cw inner =>
    if weight > 0 && (first || cw != some weight) then
      match effectiveWeight tp weight unit with
      | .error e => .error e
      | .ok w => retarget r clients kind tp w
    else .ok (.unitAware kind tp first cw inner)

/-! ## loop control -/

inductive Loop
  | iter (warmup : Nat) (total : Option Nat) (it : Nat)                  -- IterationBased
  | time (warmup : Rat) (duration : Option Rat) (start now : Rat)        -- TimePeriodBased
deriving Repr

def Loop.infinite : Loop → Bool
  | .iter _ total _ => total.isNone
  | .time _ dur _ _ => dur.isNone

/-- `sample_type == Warmup` -/
def Loop.warmup (r : Rat → Rat) : Loop → Bool
  | .iter w _ it => it < w
  | .time w _ start now => r (now - start) < w

/-- `percent_completed` (only evaluated for a finite loop control) -/
def Loop.percent (r : Rat → Rat) : Loop → Rat
  | .iter _ total it => r (((it + 1 : Nat) : Rat) / ((total.getD 0 : Nat) : Rat))
  | .time _ dur start now => r (r (now - start) / dur.getD 0)

/-- `completed` (only evaluated for a finite loop control) -/
def Loop.completed (r : Rat → Rat) : Loop → Bool
  | .iter _ total it => it ≥ total.getD 0
  | .time _ dur start now => now ≥ r (start + dur.getD 0)

/-- the `while` condition of `ScheduleHandle.__call__`: `while True` / `while not completed` -/
def Loop.finished (r : Rat → Rat) (l : Loop) : Bool := !l.infinite && l.completed r

/-- `next()`; `clock` is `time.perf_counter()` at that moment -/
def Loop.next (clock : Rat) : Loop → Loop
  | .iter w t it => .iter w t (it + 1)
  | .time w d start _ => .time w d start clock

structure TaskP where
  warmupIt : Option Nat
  iters : Option Nat
  warmupT : Option Rat
  period : Option Rat
  rampUp : Option Rat
  clients : Nat
  sched : Option Str
  completesParent : Bool
  anyCompletesParent : Bool
deriving Repr

/-- `requires_time_period_schedule(task, runner, params)` -/
def requiresTimePeriod (t : TaskP) (runnerHasCompletion srcInfinite : Bool) : Bool :=
  if t.warmupT.isSome || t.period.isSome then true
  else if t.warmupIt.isSome || t.iters.isSome then false
  else if runnerHasCompletion then true
  else !srcInfinite

/-- the loop control `schedule_for` builds, started at `clock` -/
def scheduleLoop (r : Rat → Rat) (t : TaskP) (runnerHasCompletion srcInfinite : Bool) (clock : Rat) : Loop :=
  if requiresTimePeriod t runnerHasCompletion srcInfinite then
    let w := t.warmupT.getD 0      -- `x if x else 0`
    .time w (t.period.map (fun p => r (w + p))) clock clock
  else
    let w := t.warmupIt.getD 0
    let iterations : Option Nat :=
      match t.iters with
      | some n => if n != 0 then some n else (if srcInfinite then some 1 else none)
      | none => if srcInfinite then some 1 else none
    .iter w (iterations.map (fun n => w + n)) 0

/-! ## `execute_single` -/

inductive Outcome
  | tuple (w : Nat) (unit : Str)
  | dict (w : Option Nat) (unit : Option Str) (success : Option Bool) (tput : Option Rat) (etype : Option Str)
  | other                                   -- None or any other return value
  | transportErr (status : Option Nat)      -- elasticsearch.TransportError (generic), inner error with/without status
  | connectionErr                           -- exactly elasticsearch.ConnectionError: fatal
  | connectionTimeout
  | tlsErr                                  -- a subclass of ConnectionError: not fatal
  | apiErr (status : Nat)
  | keyErr
  | otherExc
deriving Repr

structure Meta where
  success : Bool
  errorType : Option Str
  httpStatus : Option Nat
  throughput : Option Rat
deriving Repr, DecidableEq

inductive ExecResult
  | ret (ops : Nat) (unit : Str) (m : Meta)
  | raise (c : Cause)
deriving Repr

def opsUnit : Str := ['o', 'p', 's']
def transportStr : Str := ['t', 'r', 'a', 'n', 's', 'p', 'o', 'r', 't']
def apiStr : Str := ['a', 'p', 'i']

/-- (total_ops, total_ops_unit, request_meta_data, fatal_error) before the abort decision -/
def uniform : Outcome → Except Cause (Nat × Str × Meta × Bool)
  | .tuple w u => .ok (w, u, ⟨true, none, none, none⟩, false)
  | .dict w u s tp et => .ok (w.getD 1, u.getD opsUnit, ⟨s.getD true, et, none, tp⟩, false)
  | .other => .ok (1, opsUnit, ⟨true, none, none, none⟩, false)
  | .transportErr st => .ok (0, opsUnit, ⟨false, some transportStr, st, none⟩, false)
  | .connectionErr => .ok (0, opsUnit, ⟨false, some transportStr, none, none⟩, true)
  | .connectionTimeout => .ok (0, opsUnit, ⟨false, some transportStr, none, none⟩, false)
  | .tlsErr => .ok (0, opsUnit, ⟨false, some transportStr, none, none⟩, false)
  | .apiErr st => .ok (0, opsUnit, ⟨false, some apiStr, if st != 0 then some st else none, none⟩, false)
  | .keyErr => .error .setup
  | .otherExc => .error .other

/-- `execute_single(runner, es, params, on_error)`; `abort` = (`on_error == "abort"`) -/
def executeSingle (abort : Bool) (o : Outcome) : ExecResult :=
  match uniform o with
  | .error c => .raise c
  | .ok (ops, unit, m, fatal) =>
    if !m.success && (abort || fatal) then .raise .assertion
    else .ret ops unit m

/-! ## request contexts (`esrally/client/context.py`) and what a runner does inside one logical request

A logical request (one call of the runner) is a *program*: wire requests, possibly grouped in nested
request contexts (`with es.new_request_context():` — what `composite` does per stream item through
`RequestTiming`), any of which may fail.  A failing wire request raises; the exception leaves every open
`with` block, whose `__exit__` still runs. -/

/-- the dict of one request context -/
structure RCtx where
  start : Option Rat
  stop : Option Rat
deriving Repr, DecidableEq

def RCtx.empty : RCtx := ⟨none, none⟩

/-- `update_request_start(new)`: ignore `None`, keep the earliest -/
def updStart (cur new : Option Rat) : Option Rat :=
  match new with
  | none => cur
  | some n =>
    match cur with
    | none => some n
    | some c => if n < c then some n else some c

/-- `update_request_end(new)`: ignore `None`, keep the latest -/
def updEnd (cur new : Option Rat) : Option Rat :=
  match new with
  | none => cur
  | some n =>
    match cur with
    | none => some n
    | some c => if n > c then some n else some c

/-- `on_request_start()` / `on_request_end()` at clock `t` -/
def RCtx.onStart (x : RCtx) (t : Rat) : RCtx := { x with start := updStart x.start (some t) }
def RCtx.onEnd (x : RCtx) (t : Rat) : RCtx := { x with stop := updEnd x.stop (some t) }

/-- `RequestContextManager.__exit__` of a nested context: propagate start and end to the parent
    (on every exit, also when the block is left by an exception) -/
def RCtx.exitInto (child parent : RCtx) : RCtx :=
  ⟨updStart parent.start child.start, updEnd parent.stop child.stop⟩

inductive Tok
  | enter                                        -- `with es.new_request_context():`
  | exit                                         -- end of that block
  | wire (gap service : Rat) (fails : Bool)      -- client-side work of `gap` s, then a wire request of `service` s
  | par (streams : List (List (Rat × Bool)))     -- concurrent streams (`asyncio.create_task` each, then `gather`): every stream
                                                 -- sends its wire requests (service, fails) one after the other, each in its
                                                 -- own nested request context (composite: `RequestTiming` per stream item)
deriving Repr, DecidableEq

structure PState where
  now : Rat
  stack : List RCtx            -- open request contexts, innermost first; the last one is the executor's
  log : List (Rat × Rat)       -- the endpoint's request log: (sent, received)
  failed : Bool
deriving Repr

def onTop (f : RCtx → RCtx) : List RCtx → List RCtx
  | c :: rest => f c :: rest
  | [] => []

/-- leave all open nested contexts (normal end of balanced blocks, or an exception passing through them) -/
def unwindInto (c : RCtx) : List RCtx → RCtx
  | [] => c
  | p :: rest => unwindInto (c.exitInto p) rest

def unwind : List RCtx → RCtx
  | [] => RCtx.empty
  | c :: rest => unwindInto c rest

/-- `await asyncio.sleep(d)` / synchronous work of `d` seconds on the virtual clock -/
def sleep (r : Rat → Rat) (now d : Rat) : Rat := if d > 0 then r (now + d) else now

/-- one stream in its own asyncio task, started at `t`: (clock when the task ends, endpoint log, failed) -/
def runStream (r : Rat → Rat) : List (Rat × Bool) → Rat → List (Rat × Rat) → Rat × List (Rat × Rat) × Bool
  | [], t, log => (t, log, false)
  | (service, fails) :: ws, t, log =>
    let t2 := sleep r t service
    if fails then (t2, log ++ [(t, t2)], true) else runStream r ws t2 (log ++ [(t, t2)])

/-- A child task inherits the context variable's *value*, a reference to the parent's context dict: the nested context of a
    stream's wire request (sent at `x.1`, response at `x.2`) exits into that very dict.  The updates are min/max updates, so
    they commute: the model applies them stream by stream. -/
def exitAllInto (top : RCtx) (log : List (Rat × Rat)) : RCtx :=
  log.foldl (fun c x => ((RCtx.empty.onStart x.1).onEnd x.2).exitInto c) top

def ratMax (a b : Rat) : Rat := if a < b then b else a

def runProg (r : Rat → Rat) : List Tok → PState → PState
  | [], s => s
  | .enter :: ts, s => runProg r ts { s with stack := RCtx.empty :: s.stack }
  | .exit :: ts, s =>
    match s.stack with
    | c :: p :: rest => runProg r ts { s with stack := c.exitInto p :: rest }
    | _ => runProg r ts s
  | .wire gap service fails :: ts, s =>
    let t1 := sleep r s.now gap
    let t2 := sleep r t1 service
    let s' : PState := { now := t2, stack := onTop (fun c => (c.onStart t1).onEnd t2) s.stack, log := s.log ++ [(t1, t2)], failed := fails }
    if fails then s' else runProg r ts s'
  | .par streams :: ts, s =>
    -- all streams start now (tasks are created back to back and first run when the parent awaits `gather`);
    -- the parent goes on when the last one has finished
    let rs := streams.map (fun ws => runStream r ws s.now [])
    let tEnd := rs.foldl (fun m x => ratMax m x.1) s.now
    let newLog := rs.flatMap (fun x => x.2.1)
    let failed := rs.any (fun x => x.2.2)
    let s' : PState := { now := tEnd, stack := onTop (fun c => exitAllInto c newLog) s.stack, log := s.log ++ newLog, failed := failed }
    if failed then s' else runProg r ts s'

/-- nesting is balanced (what Python's `with` guarantees) -/
def balanced : List Tok → Nat → Bool
  | [], d => d == 0
  | .enter :: ts, d => balanced ts (d + 1)
  | .exit :: ts, d => d != 0 && balanced ts (d - 1)
  | .wire _ _ _ :: ts, d => balanced ts d
  | .par _ :: ts, d => balanced ts d

/-! ## the executor -/

structure Req where
  gen : Rat            -- time spent in `params()`
  prog : List Tok      -- what the runner does: wire requests in (nested) request contexts
  post : Rat           -- runner time after the last response arrived (not spent when a wire request failed)
  draw : Rat           -- what `random.expovariate` returns when this request is scheduled
  out : Outcome
  rc : Option Bool     -- runner.completed after the call
  rp : Option Rat      -- runner.percent_completed after the call
  sp : Option Rat      -- parameter source's percent_completed before `params()`
deriving Repr

structure Cfg where
  r : Rat → Rat
  t0 : Rat                     -- perf_counter() when the executor starts (total_start)
  epoch : Rat                  -- time.time() - time.perf_counter()
  client : Nat
  clients : Nat                -- task.clients
  abort : Bool
  completesParent : Bool
  anyCompletesParent : Bool
  hasCompletion : Bool         -- runner exposes completed / percent_completed
  srcKnowsProgress : Bool      -- parameter source has `percent_completed`
  cancelAt : Option Nat        -- `cancel` gets set while the parameters of request k are generated
  completeAt : Option Nat      -- `complete` gets set while request k runs

structure St where
  now : Rat
  sched : Sched
  loop : Loop
  nextSched : Rat
  idx : Nat

structure Tuple where
  sched : Rat
  warmup : Bool
  pc : Option Rat
deriving Repr, DecidableEq

structure Sample where
  client : Nat
  warmup : Bool
  absTime : Rat
  reqStart : Rat
  latency : Rat
  service : Rat
  processing : Rat
  throughput : Option Rat
  ops : Nat
  unit : Str
  timePeriod : Rat
  progress : Option Rat
  success : Bool
  errorType : Option Str
  httpStatus : Option Nat
deriving Repr, DecidableEq

/-- one executed request that produced a sample, with the instants the executor read the clock -/
structure Rec where
  idx : Nat
  tup : Tuple
  throttled : Bool
  procStart : Rat
  reqStart : Rat
  reqEnd : Rat
  procEnd : Rat
  completed : Bool
  innerAfter : Inner           -- scheduler in force after this request's feedback
  wires : List (Rat × Rat)     -- the endpoint's log of this logical request: (sent, received) per wire request
  sample : Sample
deriving Repr

inductive StepOut
  | cancelled (tup : Tuple) (now : Rat)
  | raised (cause : Cause) (tup : Tuple) (wire : List (Rat × Rat)) (now : Rat)
  | sampled (rec : Rec) (st' : St)

def isSet (ev : Option Nat) (idx : Nat) : Bool :=
  match ev with
  | some k => k ≤ idx
  | none => false

/-! One round of `ScheduleHandle.__call__` (up to the `yield`) + the body of the `async for` in
`AsyncExecutor.__call__`, cut into named pieces in program order. -/

/-- generator: `next_scheduled = self.sched.next(next_scheduled)` -/
def schedOf (c : Cfg) (st : St) (q : Req) : Rat := st.sched.next c.r st.nextSched q.draw

/-- generator: the `percent_completed` component of the yielded tuple -/
def pcOf (c : Cfg) (st : St) (q : Req) : Option Rat :=
  if st.loop.infinite then (if c.srcKnowsProgress then q.sp else none) else some (st.loop.percent c.r)

/-- generator: the yielded tuple (scheduled time, sample type, percent completed) -/
def tupleOf (c : Cfg) (st : St) (q : Req) : Tuple := ⟨schedOf c st q, st.loop.warmup c.r, pcOf c st q⟩

/-- clock after `params()` -/
def genDone (c : Cfg) (st : St) (q : Req) : Rat := sleep c.r st.now q.gen

/-- `absolute_expected_schedule_time = total_start + expected_scheduled_time` -/
def absSchedOf (c : Cfg) (st : St) (q : Req) : Rat := c.r (c.t0 + schedOf c st q)

/-- `throughput_throttled = expected_scheduled_time > 0` -/
def throttledOf (c : Cfg) (st : St) (q : Req) : Bool := schedOf c st q > 0

/-- clock after `rest = abs - perf_counter(); if rest > 0: await asyncio.sleep(rest)`:
    the value of `processing_start = time.perf_counter()` -/
def procStartOf (c : Cfg) (st : St) (q : Req) : Rat :=
  let now1 := genDone c st q
  if throttledOf c st q then
    let rest := c.r (absSchedOf c st q - now1)
    if rest > 0 then c.r (now1 + rest) else now1
  else now1

/-- the runner call inside `with self.es["default"].new_request_context() as request_context:` -/
def progOf (c : Cfg) (st : St) (q : Req) : PState :=
  runProg c.r q.prog { now := procStartOf c st q, stack := [RCtx.empty], log := [], failed := false }

/-- the executor's request context when the runner has returned or raised -/
def reqCtxOf (c : Cfg) (st : St) (q : Req) : RCtx := unwind (progOf c st q).stack

/-- both `request_context.request_start` and `request_end` are set -/
def hasStamps (c : Cfg) (st : St) (q : Req) : Bool := (reqCtxOf c st q).start.isSome && (reqCtxOf c st q).stop.isSome

/-- `request_context.request_start` / `request_end` (only used when set) / `processing_end = time.perf_counter()` -/
def reqStartOf (c : Cfg) (st : St) (q : Req) : Rat := (reqCtxOf c st q).start.getD (procStartOf c st q)
def reqEndOf (c : Cfg) (st : St) (q : Req) : Rat := (reqCtxOf c st q).stop.getD (progOf c st q).now
def procEndOf (c : Cfg) (st : St) (q : Req) : Rat :=
  if (progOf c st q).failed then (progOf c st q).now else sleep c.r (progOf c st q).now q.post

/-- `completed = runner.completed` / `self.complete.is_set() or runner.completed` -/
def completedOf (c : Cfg) (st : St) (q : Req) : Bool :=
  let rc : Bool := c.hasCompletion && q.rc == some true
  if c.completesParent then rc else (isSet c.completeAt st.idx || rc)

/-- `1.0 if completed, else runner.percent_completed if truthy, else percent_completed` -/
def progressOf (c : Cfg) (st : St) (q : Req) : Option Rat :=
  let rp : Option Rat := if c.hasCompletion then q.rp else none
  if completedOf c st q then some 1
  else match rp with
    | some p => if p != 0 then some p else pcOf c st q
    | none => pcOf c st q

/-- the arguments of `self.sampler.add(...)` -/
def sampleOf (c : Cfg) (st : St) (q : Req) (ops : Nat) (unit : Str) (m : Meta) : Sample :=
  let service := c.r (reqEndOf c st q - reqStartOf c st q)
  { client := c.client
    warmup := (tupleOf c st q).warmup
    absTime := c.r (procStartOf c st q + c.epoch)           -- absolute_processing_start = time.time()
    reqStart := reqStartOf c st q
    latency := if throttledOf c st q then c.r (reqEndOf c st q - absSchedOf c st q) else service
    service := service
    processing := c.r (procEndOf c st q - procStartOf c st q)
    throughput := m.throughput
    ops := ops
    unit := unit
    timePeriod := c.r (reqEndOf c st q - c.t0)
    progress := progressOf c st q
    success := m.success
    errorType := m.errorType
    httpStatus := m.httpStatus }

def recOf (c : Cfg) (st : St) (q : Req) (ops : Nat) (unit : Str) (m : Meta) (sched' : Sched) : Rec :=
  { idx := st.idx, tup := tupleOf c st q, throttled := throttledOf c st q, procStart := procStartOf c st q,
    reqStart := reqStartOf c st q, reqEnd := reqEndOf c st q, procEnd := procEndOf c st q,
    completed := completedOf c st q, innerAfter := sched'.inner, wires := (progOf c st q).log,
    sample := sampleOf c st q ops unit m }

/-- state when the generator is resumed: `task_progress_control.next()` reads the clock at `processing_end` -/
def nextSt (c : Cfg) (st : St) (q : Req) (sched' : Sched) : St :=
  { now := procEndOf c st q, sched := sched', loop := st.loop.next (procEndOf c st q),
    nextSched := schedOf c st q, idx := st.idx + 1 }

def step (c : Cfg) (st : St) (q : Req) : StepOut :=
  if isSet c.cancelAt st.idx then .cancelled (tupleOf c st q) (genDone c st q)      -- `if self.cancel.is_set(): break`
  else
    match executeSingle c.abort q.out with
    | .raise cause => .raised cause (tupleOf c st q) (progOf c st q).log (procEndOf c st q)
    | .ret ops unit m =>
      -- `service_time = request_end - request_start`: a TypeError when no wire request stamped the context
      if !hasStamps c st q then .raised .noTimestamps (tupleOf c st q) (progOf c st q).log (procEndOf c st q)
      else
      match st.sched.afterRequest c.r c.clients ops unit with        -- schedule_handle.after_request(...)
      | .error cause => .raised cause (tupleOf c st q) (progOf c st q).log (procEndOf c st q)
      | .ok sched' => .sampled (recOf c st q ops unit m sched') (nextSt c st q sched')

inductive Stop
  | loopDone            -- the loop control says the task is complete
  | sourceExhausted     -- the parameter source raised StopIteration
  | cancelled
  | completed           -- runner / another client completed the task
  | raised (c : Cause)
deriving Repr, DecidableEq

structure Out where
  recs : List Rec              -- one per call of Sampler.add
  tuples : List Tuple          -- everything the schedule yielded
  wire : List (List (Rat × Rat))  -- per runner call, the requests that reached the endpoint (sent, received)
  rates : List Rat             -- arguments of random.expovariate
  stop : Stop
  endClock : Rat

def Out.done (stop : Stop) (now : Rat) (rates : List Rat := []) : Out :=
  { recs := [], tuples := [], wire := [], rates := rates, stop := stop, endClock := now }

/-- the `async for` loop over the schedule -/
def go (c : Cfg) : List Req → St → Out
  | [], st =>
    if st.loop.finished c.r then Out.done .loopDone st.now
    else Out.done .sourceExhausted st.now st.sched.rateLog   -- sched.next ran before params() raised StopIteration
  | q :: qs, st =>
    if st.loop.finished c.r then Out.done .loopDone st.now
    else
      match step c st q with
      | .cancelled tup now =>
        { recs := [], tuples := [tup], wire := [], rates := st.sched.rateLog, stop := .cancelled, endClock := now }
      | .raised cause tup w now =>
        { recs := [], tuples := [tup], wire := [w], rates := st.sched.rateLog, stop := .raised cause, endClock := now }
      | .sampled rec st' =>
        if rec.completed then
          { recs := [rec], tuples := [rec.tup], wire := [rec.wires], rates := st.sched.rateLog,
            stop := .completed, endClock := st'.now }
        else
          let o := go c qs st'
          { recs := rec :: o.recs, tuples := rec.tup :: o.tuples, wire := rec.wires :: o.wire,
            rates := st.sched.rateLog ++ o.rates, stop := o.stop, endClock := o.endClock }

/-- `Sampler.add`: `put_nowait` on a bounded queue, dropping when full -/
def samplerAdd (cap : Nat) (queue : List Sample) (s : Sample) : List Sample :=
  if queue.length < cap then queue ++ [s] else queue

/-- all `Sampler.add` calls of a run followed by one `Sampler.samples` -/
def drain (cap : Nat) (ss : List Sample) : List Sample := ss.foldl (samplerAdd cap) []

/-! ## `Sampler` with a concurrent reader

`Sampler.add` runs on the load generator's thread, `Sampler.samples` on the worker actor's thread.
`add` is `self.q.put_nowait(Sample(...))`: three atomic micro-steps — evaluate the bound method of the queue
`self.q` is bound to, build the `Sample`, call (the put itself is atomic under the queue's mutex).  The other
thread's drain can run between any two of them.  Queue objects are kept in a heap so that "which queue object"
is part of the state; the current code binds `self.q` once. -/

inductive SEv (α : Type)
  | evalPut            -- executor thread: evaluate `self.q.put_nowait`
  | build              -- executor thread: `Sample(...)`
  | call (s : α)       -- executor thread: the call `put_nowait(sample)`: append, or `queue.Full` → warning, sample dropped
  | drain              -- worker thread: `Sampler.samples` (`get_nowait` until `queue.Empty`) while the executor thread is paused

structure SState (α : Type) where
  queues : List (List α)       -- every `queue.Queue` object the sampler has created
  cur : Nat                    -- the one `self.q` is bound to
  ref : Nat                    -- the one whose `put_nowait` the executor thread has evaluated
  batches : List (List α)      -- what the drains returned, in order
  dropped : List α             -- samples for which the "Dropping sample" warning was logged

def SState.init (α : Type) : SState α := { queues := [[]], cur := 0, ref := 0, batches := [], dropped := [] }

def sstep {α : Type} (cap : Nat) (st : SState α) : SEv α → SState α
  | .evalPut => { st with ref := st.cur }
  | .build => st
  | .call s =>
    if (st.queues.getD st.ref []).length < cap then { st with queues := st.queues.set st.ref (st.queues.getD st.ref [] ++ [s]) }
    else { st with dropped := st.dropped ++ [s] }
  | .drain => { st with batches := st.batches ++ [st.queues.getD st.cur []], queues := st.queues.set st.cur [] }

def srun {α : Type} (cap : Nat) : List (SEv α) → SState α → SState α
  | [], st => st
  | e :: es, st => srun cap es (sstep cap st e)

/-- the samples handed to `put_nowait`, in order -/
def calls {α : Type} : List (SEv α) → List α
  | [] => []
  | .call s :: es => s :: calls es
  | _ :: es => calls es

/-- `ScheduleHandle.ramp_up_wait_time` -/
def rampUpWait (r : Rat → Rat) (rampUp : Option Rat) (globalIdx total : Nat) : Except Err Rat :=
  match rampUp with
  | some ramp =>
    if ramp != 0 then
      if total = 0 then .error .zeroDivision
      else .ok (r (ramp * r ((globalIdx : Rat) / (total : Rat))))
    else .ok 0
  | none => .ok 0

structure Final where
  out : Out
  samples : List Sample        -- what `Sampler.samples` returns afterwards
  completeSet : Bool           -- state of the `complete` event when the executor has returned / raised
  rampWait : Rat
  loop0 : Loop

/-- `schedule_for` + `AsyncExecutor.__call__` for one client -/
def runClient (c : Cfg) (t : TaskP) (tt ti : PVal) (globalIdx total : Nat) (srcInfinite : Bool)
    (queueCap : Nat) (reqs : List Req) : Except Err Final :=
  match targetThroughput c.r tt ti with
  | .error e => .error e
  | .ok tp =>
    match schedulerFor tp t.sched with
    | .error e => .error e
    | .ok sched =>
      let loop := scheduleLoop c.r t c.hasCompletion srcInfinite c.t0
      match rampUpWait c.r t.rampUp globalIdx total with
      | .error e => .error e
      | .ok wait =>
        let st0 : St := { now := sleep c.r c.t0 wait, sched := sched, loop := loop, nextSched := 0, idx := 0 }
        let o := go c reqs st0
        let completeSet := c.completesParent || c.anyCompletesParent || isSet (c.completeAt.map (· + 1)) o.wire.length
        .ok { out := o, samples := drain queueCap (o.recs.map (·.sample)), completeSet := completeSet,
              rampWait := wait, loop0 := loop }

/-! ## a `Task` object between loading and scheduling

`Task.params` is mutable and `Task.target_throughput` is a property that parses the parameters *each time it
is read*.  Between loading and scheduling the same object is read (logging, validation, `run_unthrottled`,
test mode) and rewritten (track processors, `--test-mode`).  The schedule is a function of the parameters
at schedule time. -/

structure TaskObj where
  t : TaskP
  tt : PVal          -- params.get("target-throughput")
  ti : PVal          -- params.get("target-interval")
deriving Repr

inductive TaskOp
  | readThroughput             -- anything that evaluates `task.target_throughput`
  | setThroughput (v : PVal)   -- `task.params["target-throughput"] = v` (`none`: pop)
  | setInterval (v : PVal)     -- `task.params["target-interval"] = v` (`none`: pop)
  | testMode                   -- `loader.TestModeTrackProcessor.on_after_load_track` for this leaf task
deriving Repr

/-- `str(sys.maxsize)` on a 64-bit platform -/
def maxsizeStr : Str := ['9', '2', '2', '3', '3', '7', '2', '0', '3', '6', '8', '5', '4', '7', '7', '5', '8', '0', '7']

/-- the leaf-task part of `TestModeTrackProcessor.on_after_load_track` -/
def testModeLeaf (r : Rat → Rat) (o : TaskObj) : Except Err TaskObj :=
  let t := o.t
  let t1 : TaskP :=
    { t with
      warmupIt := t.warmupIt.map (fun n => if n > t.clients then t.clients else n)
      iters := t.iters.map (fun n => if n > t.clients then t.clients else n)
      warmupT := t.warmupT.map (fun x => if x > 0 then 0 else x)
      period := t.period.map (fun x => if x > 10 then 10 else x) }
  -- `if leaf_task.target_throughput:` … `params["target-throughput"] = f"{sys.maxsize} {original_throughput.unit}"`
  match targetThroughput r o.tt o.ti with
  | .error e => .error e
  | .ok none => .ok { o with t := t1 }
  | .ok (some tp) => .ok { t := t1, tt := .str (maxsizeStr ++ [' '] ++ tp.unit), ti := .none }

def applyOp (r : Rat → Rat) (o : TaskObj) : TaskOp → Except Err TaskObj
  | .readThroughput =>
    match targetThroughput r o.tt o.ti with
    | .error e => .error e
    | .ok _ => .ok o
  | .setThroughput v => .ok { o with tt := v }
  | .setInterval v => .ok { o with ti := v }
  | .testMode => testModeLeaf r o

def applyOps (r : Rat → Rat) : List TaskOp → TaskObj → Except Err TaskObj
  | [], o => .ok o
  | op :: ops, o =>
    match applyOp r o op with
    | .error e => .error e
    | .ok o' => applyOps r ops o'

/-- everything that happens to the Task object, then `schedule_for` + the executor on what the object says *then* -/
def runClientOps (c : Cfg) (ops : List TaskOp) (t : TaskP) (tt ti : PVal) (globalIdx total : Nat) (srcInfinite : Bool)
    (queueCap : Nat) (reqs : List Req) : Except Err Final :=
  match applyOps c.r ops ⟨t, tt, ti⟩ with
  | .error e => .error e
  | .ok o => runClient c o.t o.tt o.ti globalIdx total srcInfinite queueCap reqs

/-! ## from the allocation matrix to a client's `TaskAllocation` -/

/-- `(task.clients, client_index_in_task, global_client_index, total_clients)` of a matrix entry -/
def allocClient : Alloc.Entry → Option (Nat × Nat × Nat × Nat)
  | .task sub i g total => some (sub.clients, i, g, total)
  | _ => none

/-- entry `pos` of row `row` of `Allocator(schedule).allocations` -/
def pickEntry (s : List Alloc.Element) (row pos : Nat) : Option Alloc.Entry :=
  ((Alloc.allocations s)[row]?).bind (fun r => r[pos]?)


/-! ## loop-control keys as they are read from a track file (`TrackSpecificationReader.parse_parallel` / `parse_task`)

`_r(spec, key, mandatory=False, default_value=d)`: a key that is *present* yields its value — also `0`, `0.0` and `null`
(`None`) —, only an *absent* key yields the default.  The tasks of a `parallel` element inherit the element's value as default. -/

inductive JVal
  | absent
  | null
  | num (q : Rat)        -- 0, 0.0, 3, 2.5 …
deriving Repr, DecidableEq

/-- `_r(ops_spec, key, mandatory=False)` on the `parallel` element -/
def parallelDefault : JVal → Option Rat
  | .num q => some q
  | _ => none

/-- `_r(task_spec, key, mandatory=False, default_value=default)` -/
def readKey (task : JVal) (default : Option Rat) : Option Rat :=
  match task with
  | .absent => default
  | .null => none
  | .num q => some q

/-- the five inheritable keys of a task / `parallel` element -/
structure LoopSpec where
  warmupIt : JVal
  iters : JVal
  warmupT : JVal
  period : JVal
  rampUp : JVal
deriving Repr, DecidableEq

def LoopSpec.none : LoopSpec := ⟨.absent, .absent, .absent, .absent, .absent⟩

/-- what `Task(...)` gets for the five keys -/
structure LoopVals where
  warmupIt : Option Rat
  iters : Option Rat
  warmupT : Option Rat
  period : Option Rat
  rampUp : Option Rat
deriving Repr, DecidableEq

/-- `parse_task`: read with the enclosing element's values as defaults, then the consistency rules (`TrackSyntaxError`) -/
def parseTaskLoop (par task : LoopSpec) : Option LoopVals :=
  let v : LoopVals :=
    { warmupIt := readKey task.warmupIt (parallelDefault par.warmupIt)
      iters := readKey task.iters (parallelDefault par.iters)
      warmupT := readKey task.warmupT (parallelDefault par.warmupT)
      period := readKey task.period (parallelDefault par.period)
      rampUp := readKey task.rampUp (parallelDefault par.rampUp) }
  if v.warmupIt.isSome && v.period.isSome then Option.none                              -- mixing warm-up iterations and a time period
  else if v.warmupT.isSome && v.iters.isSome then Option.none                           -- mixing a warm-up time period and iterations
  else if (v.warmupIt.isSome || v.iters.isSome) && v.rampUp.isSome then Option.none     -- ramp-up with iterations
  else
    match v.rampUp with
    | Option.none => some v
    | some ru =>
      match v.warmupT with
      | Option.none => Option.none                                                        -- ramp-up without warm-up time period
      | some w => if w < ru then Option.none else some v

/-- `parse_parallel`: all tasks in order, then "a task's ramp-up must be the element's" -/
def parseParallelLoops (par : LoopSpec) (tasks : List LoopSpec) : Option (List LoopVals) :=
  match tasks.mapM (parseTaskLoop par) with
  | Option.none => Option.none
  | some vs => if vs.all (fun v => v.rampUp == parallelDefault par.rampUp) then some vs else Option.none

/-- iteration counts are integers in every track the generators produce (0.0 and 3.0 are spellings of 0 and 3) -/
def ratToNat (q : Rat) : Nat := q.floor.toNat

def LoopVals.apply (v : LoopVals) (t : TaskP) : TaskP :=
  { t with warmupIt := v.warmupIt.map ratToNat, iters := v.iters.map ratToNat, warmupT := v.warmupT, period := v.period, rampUp := v.rampUp }

/-! ## the schedule alone: what `ScheduleHandle.__call__` yields for an inexhaustible parameter source -/

/-- (number of tuples, number flagged warm-up, last progress, largest progress) of an iteration-based loop control, with `fuel`
    as the harness's cap -/
def iterTrace (r : Rat → Rat) : Nat → Loop → Nat × Nat × Option Rat × Option Rat → Nat × Nat × Option Rat × Option Rat
  | 0, _, acc => acc
  | fuel + 1, l, (n, w, last, mx) =>
    if l.finished r then (n, w, last, mx)
    else
      let pc : Option Rat := if l.infinite then Option.none else some (l.percent r)
      let mx' := match mx, pc with
        | some a, some b => some (if a < b then b else a)
        | Option.none, p => p
        | a, Option.none => a
      iterTrace r fuel (l.next 0) (n + 1, (if l.warmup r then w + 1 else w), pc, mx')

/-! ## the sampler by numbers (for sizes beyond every constant in sight) -/

/-- queue length, sizes of the drained batches, number of reported drops -/
structure SCount where
  queue : Nat
  batches : List Nat
  dropped : Nat
deriving Repr, DecidableEq

inductive SBulk
  | adds (n : Nat)       -- n complete `Sampler.add` calls
  | drain                -- one `Sampler.samples`

def addsCount (cap : Nat) (st : SCount) (n : Nat) : SCount :=
  let room := cap - st.queue
  if n ≤ room then { st with queue := st.queue + n } else { st with queue := cap, dropped := st.dropped + (n - room) }

def sbulkStep (cap : Nat) (st : SCount) : SBulk → SCount
  | .adds n => addsCount cap st n
  | .drain => { st with queue := 0, batches := st.batches ++ [st.queue] }

def sbulkRun (cap : Nat) (es : List SBulk) : SCount := es.foldl (sbulkStep cap) ⟨0, [], 0⟩

end Exec
