import RallyModel.Team
/-
Sessions: several `team.load_car` / `BareProvisioner.prepare` calls in ONE process, interleaved
with changes of the team directories on disk (another team repository, or the same directory
switched in place by `git checkout` / `RallyRepository.update` between two races).

* esrally/mechanic/team.py : `load_car` creates `CarLoader(repo)` for every car name; a `CarLoader`
  has the instance attributes `cars_dir` (from `_path_for`, which raises when `<repo>/cars/v1` does
  not exist) and `logger`, and NO class attribute or module-level variable that is written during a
  load; `_config_loader` builds a new `configparser.ConfigParser` for every file on every call.
  So the only thing a load can see besides its arguments is what is on disk at that moment.

The process is modelled as a state machine over the disk (`Disk` = team directories by root path):
a `write` step replaces what is at a root, a `load` step reads the disk (and only the directory at
its own root) and leaves no trace.
-/
namespace Team

/-- team directories by root path (what is on disk) -/
abbrev Disk := List (Str × TeamDir)

def emptyTeam : TeamDir := ⟨[], []⟩

/-- replace / add the directory at `root` (position kept, like a directory that is rewritten in place) -/
def writeTeam : Disk → Str → TeamDir → Disk
  | [], r, t => [(r, t)]
  | (r', t') :: rest, r, t => if r' = r then (r', t) :: rest else (r', t') :: writeTeam rest r t

inductive SErr
  | noTeam            -- SystemSetupError "Path <repo>/cars/v1 for cars does not exist." (`_path_for`)
  | team (e : Err)
deriving Repr, DecidableEq

def liftErr {α : Type} : Except Err α → Except SErr α
  | .ok a => .ok a
  | .error e => .error (.team e)

/-- `team.load_car(root, names, params)` on the disk `d`.  `CarLoader(repo)` is created inside the loop
    over the names, so with no names at all a missing repository goes unnoticed and the call ends with
    "At least one config base is required". -/
def loadCarAt (d : Disk) (root : Str) (names : List Str) (params : Vars) : Except SErr Car :=
  match names with
  | [] => liftErr (loadCar emptyTeam [] params)
  | _ :: _ =>
    match assoc d root with
    | none => .error .noTeam
    | some t => liftErr (loadCar t names params)

def teamAt (d : Disk) (root : Str) : TeamDir := (assoc d root).getD emptyTeam

/-- a provisioning request that follows a load: the node and the content of the distribution archive -/
structure Prov where
  node : Node
  dist : FS
deriving Repr

inductive Step
  | write (root : Str) (t : TeamDir)
  | load (root : Str) (names : List Str) (params : Vars) (prov : Option Prov)
deriving Repr

/-- what a `load` step answers: the car (or the error), and what `BareProvisioner.prepare` makes of it -/
structure Answer where
  car : Except SErr Car
  prepared : Option Prepared
deriving Repr

/-- one load (and provisioning) on the disk as it is -/
def answer (d : Disk) (root : Str) (names : List Str) (params : Vars) (prov : Option Prov) : Answer :=
  match loadCarAt d root names params with
  | .error e => ⟨.error e, none⟩
  | .ok c => ⟨.ok c, prov.map (fun p => prepare (teamAt d root) c p.node p.dist)⟩

/-- the process: the disk is the only state that is carried from one step to the next -/
def step (d : Disk) : Step → Disk × Option Answer
  | .write root t => (writeTeam d root t, none)
  | .load root names params prov => (d, some (answer d root names params prov))

def run : Disk → List Step → List Answer
  | _, [] => []
  | d, s :: ss =>
    match step d s with
    | (d', none) => run d' ss
    | (d', some a) => a :: run d' ss

/-- the disk after the steps (only `write` steps count) -/
def diskAfter : Disk → List Step → Disk
  | d, [] => d
  | d, .write root t :: ss => diskAfter (writeTeam d root t) ss
  | d, .load .. :: ss => diskAfter d ss

def Step.isWrite : Step → Bool
  | .write .. => true
  | .load .. => false

end Team
