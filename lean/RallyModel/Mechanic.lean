/-!
# C12 — model of esrally/mechanic/mechanic.py (MechanicActor, Dispatcher, NodeMechanicActor, Mechanic)
and esrally/actor.py (RallyActor.transition_when_all_children_responded /
send_to_children_and_transition, no_retry) as a state machine over FIFO channels.

Actors: race control `rc` (environment + inbox, follows racecontrol.BenchmarkActor: one
StartEngine, StopEngine only after EngineStarted), the MechanicActor `mech`, the Dispatcher
`disp`, the actor system `sys` (source of ActorSystemConventionUpdate, sink of PoisonMessage), and
one NodeMechanicActor per host group, *named by the index `h` of the (ip, port) group it is
created for* (`nodes_by_host` order); the Dispatcher pairs every created actor with exactly one
sub-message, so this naming is a renaming of Thespian addresses (the harness checks injectivity).

`step : Config → State → Event → Option (State × List Out)`; one step = one atomic
`receiveMessage` (including Thespian's rule for escaping exceptions: retry once, then
PoisonMessage to the sender) or one environment action.  Channels are FIFO per ordered pair.

`Config.patched = true` is the CURRENT `Dispatcher.receiveMsg_ActorSystemConventionUpdate`
(`self.send(self.start_sender, BenchmarkFailure(...))`, repo commit 617c60f).  `false` is the pinned
code before that fix (`self.start_sender(...)`, a TypeError → PoisonMessage to the actor system), kept
for the historical witness and so that a revert stays expressible.  The harness probes the real class
to choose the flag.

Left out (not part of the property): ResetRelativeTime, MechanicActor wake-ups, death of
`mech`/`disp`, second StartEngine to the same actors.
-/

namespace Mechanic

inductive Aid where
  | rc | mech | disp | sys
  | node (h : Nat)
  deriving DecidableEq, Repr, Inhabited

/-- what a BenchmarkFailure is about (canonicalised from its text by the harness) -/
inductive FKind where
  | start (h : Nat)     -- NodeMechanicActor.receiveMsg_StartNodes, except branch
  | guard               -- actor.no_retry: traceback of an exception in a handler
  | hostError           -- NodeMechanicActor.receiveUnrecognizedMessage, except branch ("Error on host")
  | poisoned            -- built from PoisonMessage.details
  | startPoison         -- MechanicActor: the poisoned message was a StartEngine
  | childExited         -- MechanicActor.receiveMsg_ChildActorExited
  | daemonLeft (ip : Nat) -- Dispatcher: "Remote Rally node [..] has been shutdown prematurely."
  deriving DecidableEq, Repr

inductive Msg where
  | startEngine | stopEngine | engineStarted | engineStopped
  | startNodes (h : Nat) (replyTo : Aid)
  | nodesStarted | stopNodes | nodesStopped
  | failure (k : FKind)
  | exitReq
  | childExited (h : Nat)
  | conv (added : Bool) (ip : Nat)
  | poison (m : Msg)
  | wakeup
  deriving DecidableEq, Repr

/-- calls on the substituted collaborators of `Mechanic` (supplier, provisioners, launcher,
metrics store, race/results store, provisioner.cleanup) -/
inductive Call where
  | mopen
  | supply
  | prepare (id : Nat)
  | launch (ids : List Nat) (ok : Bool)
  | lstop (ids : List Nat)
  | flush (refresh : Bool)
  | store (id : Nat)
  | close
  | cleanup (id : Nat) (preserve : Bool)
  deriving DecidableEq, Repr

inductive Plan where
  | ok | failEarly | failSupply
  | failPrepare (j : Nat)
  | failLaunch
  deriving DecidableEq, Repr

structure Config where
  hosts : List (Nat × Nat)      -- (ip, port) after to_ip_port; ip 0 = "127.0.0.1"
  external : Bool
  preserve : Bool
  raceFound : Bool
  plans : List Plan             -- by host group; missing = ok
  patched : Bool
  deriving Repr

/-! ### nodes_by_host -/

def addNode : List ((Nat × Nat) × List Nat) → (Nat × Nat) → Nat → List ((Nat × Nat) × List Nat)
  | [], hp, id => [(hp, [id])]
  | (k, ids) :: rest, hp, id =>
    if k = hp then (k, ids ++ [id]) :: rest else (k, ids) :: addNode rest hp id

def groupsFrom : List (Nat × Nat) → Nat → List ((Nat × Nat) × List Nat) → List ((Nat × Nat) × List Nat)
  | [], _, g => g
  | hp :: rest, id, g => groupsFrom rest (id + 1) (addNode g hp id)

/-- `nodes_by_host(to_ip_port(hosts))` in dict insertion order -/
def groups (cfg : Config) : List ((Nat × Nat) × List Nat) := groupsFrom cfg.hosts 0 []

def nHosts (cfg : Config) : Nat := (groups cfg).length
def idsOf (cfg : Config) (h : Nat) : List Nat :=
  match (groups cfg)[h]? with
  | some (_, ids) => ids
  | none => []
def ipOf (cfg : Config) (h : Nat) : Nat :=
  match (groups cfg)[h]? with
  | some ((ip, _), _) => ip
  | none => 0
def planOf (cfg : Config) (h : Nat) : Plan := (cfg.plans[h]?).getD .ok

/-! ### effects of one handler run -/

inductive Eff where
  | tell (dst : Aid) (m : Msg)
  | call (h : Nat) (c : Call)
  | createNode (h : Nat)
  | createDisp
  | notify (on : Bool)
  | wake
  | exit
  deriving DecidableEq, Repr

structure Res (σ : Type) where
  st : σ
  effs : List Eff
  raised : Bool

/-- `actor.no_retry`: an exception becomes BenchmarkFailure(traceback) to the sender -/
def guard {σ : Type} (sender : Aid) (r : Res σ) : Res σ :=
  if r.raised then ⟨r.st, r.effs ++ [Eff.tell sender (.failure .guard)], false⟩ else r

/-! ### MechanicActor -/

inductive Status where
  | none | starting | clusterStarted | clusterStopping | clusterStopped
  deriving DecidableEq, Repr

structure MSt where
  status : Status
  children : List (Option Aid)
  received : Nat                 -- len(self.received_responses)
  external : Bool
  raceControl : Option Aid
  deriving Repr

def MSt.init : MSt := ⟨.none, [], 0, false, none⟩

def onStarted (st : MSt) : Res MSt :=
  match st.raceControl with
  | none => ⟨st, [], true⟩
  | some r => ⟨st, [Eff.tell r .engineStarted], false⟩

/-- `for m in self.children: self.send(m, ActorExitRequest())` — `send(None, …)` raises -/
def exitReqs : List (Option Aid) → List Eff × Bool
  | [] => ([], false)
  | none :: _ => ([], true)
  | some a :: r => (Eff.tell a .exitReq :: (exitReqs r).1, (exitReqs r).2)

def onStopped (st : MSt) : Res MSt :=
  match st.raceControl with
  | none => ⟨st, [], true⟩
  | some r =>
    if (exitReqs st.children).2 then ⟨st, Eff.tell r .engineStopped :: (exitReqs st.children).1, true⟩
    else ⟨{ st with children := [] }, Eff.tell r .engineStopped :: (exitReqs st.children).1, false⟩

/-- RallyActor.transition_when_all_children_responded -/
def transition (st : MSt) (expected new : Status) (k : MSt → Res MSt) : Res MSt :=
  if st.status = expected then
    let st1 := { st with received := st.received + 1 }
    if st1.received = st1.children.length then k { st1 with status := new, received := 0 }
    else if st1.received > st1.children.length then ⟨st1, [], true⟩
    else ⟨st1, [], false⟩
  else ⟨st, [], true⟩

def somes : List (Option Aid) → List Aid
  | [] => []
  | none :: r => somes r
  | some a :: r => a :: somes r

def tellRc (st : MSt) (m : Msg) : Res MSt :=
  match st.raceControl with
  | none => ⟨st, [], true⟩
  | some r => ⟨st, [Eff.tell r m], false⟩

/-- receiveMsg_StartEngine (body, before `no_retry`) -/
def mechStart (cfg : Config) (st : MSt) (sender : Aid) : Res MSt :=
  if cfg.hosts.isEmpty then ⟨{ st with raceControl := some sender }, [], true⟩
  else if cfg.external then
    ⟨{ st with raceControl := some sender, external := true, status := .clusterStarted, received := 0 },
      [Eff.tell sender .engineStarted], false⟩
  else
    ⟨{ st with raceControl := some sender, external := false, children := List.replicate (nHosts cfg) none,
               status := .starting, received := 0 },
      [Eff.createDisp, Eff.tell .disp .startEngine], false⟩

/-- receiveMsg_NodesStarted (body) -/
def mechNodesStarted (st : MSt) (sender : Aid) : Res MSt :=
  transition
    (if some sender ∈ st.children then st else { st with children := (some sender :: st.children).dropLast })
    .starting .clusterStarted onStarted

/-- receiveMsg_StopEngine (body) -/
def mechStop (st : MSt) : Res MSt :=
  if st.external then onStopped st
  else ⟨{ st with status := .clusterStopping }, (somes st.children).map (Eff.tell · .stopNodes), false⟩

/-- receiveMsg_NodesStopped (body) -/
def mechNodesStopped (st : MSt) : Res MSt := transition st .clusterStopping .clusterStopped onStopped

def recvMech (cfg : Config) (st : MSt) (msg : Msg) (sender : Aid) : Res MSt :=
  match msg with
  | .startEngine => guard sender (mechStart cfg st sender)
  | .nodesStarted => guard sender (mechNodesStarted st sender)
  | .failure k => tellRc st (.failure k)
  | .stopEngine => guard sender (mechStop st)
  | .nodesStopped => guard sender (mechNodesStopped st)
  | .childExited _ =>
    if st.status = .clusterStopping ∨ st.status = .clusterStopped then ⟨st, [], false⟩
    else tellRc st (.failure .childExited)
  | .poison pm => tellRc st (.failure (if pm = .startEngine then .startPoison else .poisoned))
  | .wakeup => ⟨st, [], true⟩
  | _ => ⟨st, [], false⟩

/-! ### Dispatcher -/

structure DSt where
  startSender : Option Aid
  /-- `(pending, remotes)`; `none` before StartEngine (both attributes are None) -/
  work : Option (List (Nat × Aid) × List (Nat × List (Nat × Aid)))
  registered : Bool
  deriving Repr

def DSt.init : DSt := ⟨none, none, false⟩

def addRemote : List (Nat × List (Nat × Aid)) → Nat → (Nat × Aid) → List (Nat × List (Nat × Aid))
  | [], ip, x => [(ip, [x])]
  | (k, xs) :: rest, ip, x => if k = ip then (k, xs ++ [x]) :: rest else (k, xs) :: addRemote rest ip x

def lookupRemote : List (Nat × List (Nat × Aid)) → Nat → List (Nat × Aid)
  | [], _ => []
  | (k, xs) :: rest, ip => if k = ip then xs else lookupRemote rest ip

def eraseRemote : List (Nat × List (Nat × Aid)) → Nat → List (Nat × List (Nat × Aid))
  | [], _ => []
  | (k, xs) :: rest, ip => if k = ip then rest else (k, xs) :: eraseRemote rest ip

def sendAll (pending : List (Nat × Aid)) : List Eff :=
  pending.map (fun p => Eff.tell (.node p.1) (.startNodes p.1 p.2))

/-- the loop over `all_nodes_by_host.items()` starting at group index `h` -/
def distribute (sender : Aid) : List ((Nat × Nat) × List Nat) → Nat →
    List Eff × List (Nat × Aid) × List (Nat × List (Nat × Aid)) →
    List Eff × List (Nat × Aid) × List (Nat × List (Nat × Aid))
  | [], _, acc => acc
  | ((ip, _), _) :: rest, h, (effs, pending, remotes) =>
    if ip = 0 then distribute sender rest (h + 1) (effs ++ [Eff.createNode h], pending ++ [(h, sender)], remotes)
    else distribute sender rest (h + 1) (effs, pending, addRemote remotes ip (h, sender))

def recvDisp (cfg : Config) (st : DSt) (msg : Msg) (sender : Aid) : Res DSt :=
  match msg with
  | .startEngine =>
    guard sender <|
      let (effs, pending, remotes) := distribute sender (groups cfg) 0 ([], [], [])
      if remotes.isEmpty then
        ⟨{ st with startSender := some sender, work := some ([], []) }, effs ++ sendAll pending, false⟩
      else
        ⟨{ startSender := some sender, work := some (pending, remotes), registered := true },
          effs ++ [Eff.notify true], false⟩
  | .conv false ip =>
    -- current code (617c60f): self.send(self.start_sender, BenchmarkFailure(...)); before: self.start_sender(...) raised
    if cfg.patched then
      match st.startSender with
      | none => ⟨st, [], true⟩
      | some a => ⟨st, [Eff.tell a (.failure (.daemonLeft ip))], false⟩
    else ⟨st, [], true⟩
  | .conv true ip =>
    match st.work with
    | none => ⟨st, [], true⟩
    | some (pending, remotes) =>
      let subs := lookupRemote remotes ip
      let pending' := pending ++ subs
      let remotes' := eraseRemote remotes ip
      let creates := subs.map (fun p => Eff.createNode p.1)
      if remotes'.isEmpty then
        ⟨{ st with work := some ([], []), registered := false }, creates ++ [Eff.notify false] ++ sendAll pending', false⟩
      else ⟨{ st with work := some (pending', remotes') }, creates, false⟩
  | .failure k =>
    match st.startSender with
    | none => ⟨st, [], true⟩
    | some a => ⟨st, [Eff.tell a (.failure k)], false⟩
  | .poison _ =>
    match st.startSender with
    | none => ⟨st, [], true⟩
    | some a => ⟨st, [Eff.tell a (.failure .poisoned)], false⟩
  | _ => ⟨st, [], false⟩

/-! ### NodeMechanicActor + Mechanic -/

structure Mech where
  host : Nat
  nodes : List Nat
  configs : List Nat
  deriving Repr, DecidableEq

structure NSt where
  created : Bool
  alive : Bool
  mech : Option Mech
  timers : Nat
  deriving Repr

def NSt.init : NSt := ⟨false, false, none, 0⟩
def NSt.fresh : NSt := ⟨true, true, none, 0⟩

/-- Mechanic.stop_engine -/
def stopEffs (cfg : Config) (m : Mech) : List Eff :=
  [Eff.call m.host (.lstop m.nodes), Eff.call m.host (.flush true)]
    ++ (if cfg.raceFound then m.nodes.map (fun id => Eff.call m.host (.store id)) else [])
    ++ [Eff.call m.host .close]
    ++ m.configs.map (fun id => Eff.call m.host (.cleanup id cfg.preserve))

/-- the provisioner loop of Mechanic.start_engine: `(calls, prepared configs, raised)` -/
def prepares (h : Nat) (failAt : Option Nat) : List Nat → Nat → List Eff × List Nat × Bool
  | [], _ => ([], [], false)
  | id :: rest, j =>
    if failAt = some j then ([Eff.call h (.prepare id)], [], true)
    else
      let r := prepares h failAt rest (j + 1)
      (Eff.call h (.prepare id) :: r.1, id :: r.2.1, r.2.2)

def failAtOf : Plan → Option Nat
  | .failPrepare j => some j
  | _ => none

/-- receiveMsg_StartNodes for sub-message `h` (ip, port, node ids of group `h`) -/
def startNodes (cfg : Config) (st : NSt) (h : Nat) (replyTo : Aid) : NSt × List Eff :=
  let fail := Eff.tell replyTo (.failure (.start h))
  let pr := prepares h (failAtOf (planOf cfg h)) (idsOf cfg h) 0
  if planOf cfg h = .failEarly ∨ cfg.external = true then
    -- metrics store not reachable / `create` refuses an external cluster: self.mechanic is not assigned
    (st, [Eff.call h .mopen, fail])
  else if planOf cfg h = .failSupply then
    ({ st with mech := some ⟨h, [], []⟩ }, [Eff.call h .mopen, Eff.call h .supply, fail])
  else if pr.2.2 = true then
    ({ st with mech := some ⟨h, [], pr.2.1⟩ }, [Eff.call h .mopen, Eff.call h .supply] ++ pr.1 ++ [fail])
  else if planOf cfg h = .failLaunch then
    ({ st with mech := some ⟨h, [], pr.2.1⟩ },
      [Eff.call h .mopen, Eff.call h .supply] ++ pr.1 ++ [Eff.call h (.launch pr.2.1 false), fail])
  else
    ({ st with mech := some ⟨h, pr.2.1, pr.2.1⟩, timers := st.timers + 1 },
      [Eff.call h .mopen, Eff.call h .supply] ++ pr.1
        ++ [Eff.call h (.launch pr.2.1 true), Eff.wake, Eff.tell replyTo .nodesStarted])

/-- Thespian: after the handler of an ActorExitRequest the actor exits and its creator (the
Dispatcher) is sent ChildActorExited -/
def exitEffs (self : Nat) : List Eff := [Eff.exit, Eff.tell .disp (.childExited self)]

def recvNode (cfg : Config) (self : Nat) (st : NSt) (msg : Msg) (sender : Aid) : NSt × List Eff :=
  match msg with
  | .startNodes h replyTo => startNodes cfg st h replyTo
  | .poison _ => if sender ≠ .node self then (st, [Eff.tell sender (.failure .poisoned)]) else (st, [])
  | .failure k => (st, [Eff.tell sender (.failure k)])
  | .wakeup =>
    match st.mech with
    | some m => ({ st with timers := st.timers + 1 }, [Eff.call m.host (.flush false), Eff.wake])
    | none => (st, [])
  | .stopNodes =>
    match st.mech with
    | some m => ({ st with mech := none }, stopEffs cfg m ++ [Eff.tell sender .nodesStopped])
    | none => (st, [Eff.tell sender (.failure .hostError)])
  | .exitReq =>
    match st.mech with
    | some m => ({ st with mech := none, alive := false, timers := 0 }, stopEffs cfg m ++ exitEffs self)
    | none => ({ st with alive := false, timers := 0 }, exitEffs self)
  | _ => (st, [])

/-! ### global state, events, observable outputs -/

structure RSt where
  sentStart : Bool
  sentStop : Bool
  started : Nat
  stopped : Nat
  failures : Nat
  deriving Repr

def RSt.init : RSt := ⟨false, false, 0, 0, 0⟩

def recvRc (st : RSt) : Msg → RSt
  | .engineStarted => { st with started := st.started + 1 }
  | .engineStopped => { st with stopped := st.stopped + 1 }
  | .failure _ => { st with failures := st.failures + 1 }
  | _ => st

structure State where
  m : MSt
  d : DSt
  dispCreated : Bool
  n : Nat → NSt
  r : RSt
  chan : Aid → Aid → List Msg

def State.init : State := ⟨MSt.init, DSt.init, false, fun _ => NSt.init, RSt.init, fun _ _ => []⟩

inductive Event where
  | rcStart | rcStop
  | sysConv (added : Bool) (ip : Nat)
  | deliver (src dst : Aid)
  | timer (h : Nat)
  deriving DecidableEq, Repr

inductive Out where
  | send (src dst : Aid) (m : Msg)
  | recv (dst src : Aid) (m : Msg)
  | dead (dst src : Aid) (m : Msg)
  | call (h : Nat) (c : Call)
  | createNode (h : Nat)
  | createDisp
  | notify (on : Bool)
  | wake (who : Aid)
  | exited (who : Aid)
  deriving DecidableEq, Repr

def updN (f : Nat → NSt) (h : Nat) (v : NSt) : Nat → NSt := fun i => if i = h then v else f i

def push (ch : Aid → Aid → List Msg) (a b : Aid) (m : Msg) : Aid → Aid → List Msg :=
  fun x y => if x = a ∧ y = b then ch x y ++ [m] else ch x y

def setChan (ch : Aid → Aid → List Msg) (a b : Aid) (l : List Msg) : Aid → Aid → List Msg :=
  fun x y => if x = a ∧ y = b then l else ch x y

def toOut (self : Aid) : Eff → Out
  | .tell dst m => .send self dst m
  | .call h c => .call h c
  | .createNode h => .createNode h
  | .createDisp => .createDisp
  | .notify b => .notify b
  | .wake => .wake self
  | .exit => .exited self

/-- enqueue every `tell`, instantiate every created node actor -/
def applyEff (self : Aid) (s : State) : Eff → State
  | .tell dst m => { s with chan := push s.chan self dst m }
  | .createNode h => { s with n := updN s.n h NSt.fresh }
  | .createDisp => { s with dispCreated := true }
  | _ => s

def applyEffs (self : Aid) (s : State) (effs : List Eff) : State := effs.foldl (applyEff self) s

/-- Thespian: a handler that lets an exception escape is retried once (on the already mutated
state); a second exception sends PoisonMessage to the sender (never for a PoisonMessage) -/
def runTwice {σ : Type} (hd : σ → Res σ) (st : σ) (sender : Aid) (msg : Msg) : σ × List Eff :=
  let r1 := hd st
  if r1.raised then
    let r2 := hd r1.st
    if r2.raised then
      (r2.st, r1.effs ++ r2.effs ++ (match msg with | .poison _ => [] | _ => [Eff.tell sender (.poison msg)]))
    else (r2.st, r1.effs ++ r2.effs)
  else (r1.st, r1.effs)

/-- the handler of actor `dst` on `(msg, sender = src)`: state with the actor-local update, and the
effects; `none` = the actor does not exist (any more): dead letter -/
def handle (cfg : Config) (s : State) (dst src : Aid) (msg : Msg) : Option (State × List Eff) :=
  match dst with
  | .rc => some ({ s with r := recvRc s.r msg }, [])
  | .sys => some (s, [])
  | .mech =>
    let r := runTwice (fun st => recvMech cfg st msg src) s.m src msg
    some ({ s with m := r.1 }, r.2)
  | .disp =>
    if s.dispCreated then
      let r := runTwice (fun st => recvDisp cfg st msg src) s.d src msg
      some ({ s with d := r.1 }, r.2)
    else none
  | .node h =>
    if (s.n h).alive then
      let r := recvNode cfg h (s.n h) msg src
      some ({ s with n := updN s.n h r.1 }, r.2)
    else none

/-- one atomic `receiveMessage(msg, sender)` at actor `dst` -/
def receive (cfg : Config) (s : State) (dst src : Aid) (msg : Msg) : State × List Out :=
  match handle cfg s dst src msg with
  | none => (s, [Out.dead dst src msg])
  | some (s1, effs) => (applyEffs dst s1 effs, Out.recv dst src msg :: effs.map (toOut dst))

def step (cfg : Config) (s : State) : Event → Option (State × List Out)
  | .rcStart =>
    if s.r.sentStart then none
    else some ({ s with r := { s.r with sentStart := true }, chan := push s.chan .rc .mech .startEngine },
                [Out.send .rc .mech .startEngine])
  | .rcStop =>
    if s.r.started > 0 ∧ ¬ s.r.sentStop then
      some ({ s with r := { s.r with sentStop := true }, chan := push s.chan .rc .mech .stopEngine },
            [Out.send .rc .mech .stopEngine])
    else none
  | .sysConv added ip =>
    if s.d.registered then
      some ({ s with chan := push s.chan .sys .disp (.conv added ip) }, [Out.send .sys .disp (.conv added ip)])
    else none
  | .deliver src dst =>
    match s.chan src dst with
    | [] => none
    | msg :: rest => some (receive cfg { s with chan := setChan s.chan src dst rest } dst src msg)
  | .timer h =>
    if (s.n h).alive ∧ (s.n h).timers > 0 then
      some (receive cfg { s with n := updN s.n h { s.n h with timers := (s.n h).timers - 1 } } (.node h) (.node h) .wakeup)
    else none

/-- run a whole history; `none` as soon as an event is not enabled -/
def run (cfg : Config) : State → List Event → Option (State × List Out)
  | s, [] => some (s, [])
  | s, e :: es =>
    match step cfg s e with
    | none => none
    | some (s1, o1) =>
      match run cfg s1 es with
      | none => none
      | some (s2, o2) => some (s2, o1 ++ o2)

/-! ### launcher.ProcessLauncher: working directory, relative pid file, process table

`ProcessLauncher.start` handles the nodes of one host one after the other; for each node
`_start_process` does `os.chdir(binary_path)`, runs `./bin/elasticsearch -d -p ./pid` (the daemon gets
a fresh pid and writes it into `./pid` *of the working directory it was launched in*) and then
`wait_for_pidfile("./pid")` reads `./pid` *of the working directory at that moment*.  The pid that
is read becomes `cluster.Node.pid`; `ProcessLauncher.stop` terminates `psutil.Process(node.pid)` for
every node (a pid without a process is only a warning).  Directories and pids are numbers. -/

namespace Launcher

structure World where
  cwd : Nat
  pidFile : Nat → Option Nat     -- content of <dir>/pid
  nextPid : Nat
  running : List Nat             -- live daemon processes
  terms : List Nat               -- every SIGTERM delivered, in order

def chdir (w : World) (d : Nat) : World := { w with cwd := d }

/-- run the daemon: fresh pid, alive, pid written to ./pid of the current working directory -/
def spawn (w : World) : World :=
  { w with nextPid := w.nextPid + 1, running := w.nextPid :: w.running,
           pidFile := fun d => if d = w.cwd then some w.nextPid else w.pidFile d }

/-- wait_for_pidfile("./pid") -/
def readPid (w : World) : Nat := (w.pidFile w.cwd).getD 0

/-- `_start_node`: the node (its installation directory, the pid the mechanic tracks) -/
def startNode (w : World) (dir : Nat) : World × (Nat × Nat) :=
  let w1 := spawn (chdir w dir)
  (w1, (dir, readPid w1))

/-- `ProcessLauncher.start` -/
def startAll : World → List Nat → World × List (Nat × Nat)
  | w, [] => (w, [])
  | w, d :: ds => ((startAll (startNode w d).1 ds).1, (startNode w d).2 :: (startAll (startNode w d).1 ds).2)

/-- one iteration of `ProcessLauncher.stop`: terminate the tracked pid if such a process exists -/
def stopNode (w : World) (pid : Nat) : World :=
  if pid ∈ w.running then { w with running := w.running.erase pid, terms := w.terms ++ [pid] } else w

/-- `ProcessLauncher.stop` -/
def stopAll (w : World) (nodes : List (Nat × Nat)) : World := nodes.foldl (fun w n => stopNode w n.2) w

end Launcher

end Mechanic
