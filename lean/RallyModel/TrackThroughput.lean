import RallyModel.Dbl
/-
Model of `track.Task.target_throughput` (esrally/track/track.py): how the `target-throughput` /
`target-interval` written in the track file become the task's throughput target (C10: "tasks (…
throughput targets …) are exactly those written in the file").

`matchThroughput` is a deterministic recogniser for `re.match(THROUGHPUT_PATTERN, s)` with
THROUGHPUT_PATTERN = `(?P<value>(\d*\.)?\d+)\s(?P<unit>\w+/s)` (a prefix match: text after the unit
is ignored).  Domain: ASCII (Python's `\d`, `\s`, `\w` also accept other Unicode characters).
Floats are exact rationals rounded with `Dbl.fl` (correctly rounded `float(str)` / `float(int)` / `1 / x`).
-/
namespace TrackThroughput

abbrev Str := List Char

def isDigit (c : Char) : Bool := decide ('0' ≤ c) && decide (c ≤ '9')
/-- `\s` on ASCII: blank, \t \n \v \f \r and the separators 0x1c–0x1f -/
def spaces : List Char :=
  [' ', '\t', '\n', Char.ofNat 11, Char.ofNat 12, '\r', Char.ofNat 28, Char.ofNat 29, Char.ofNat 30, Char.ofNat 31]
def isSpace (c : Char) : Bool := decide (c ∈ spaces)
/-- `\w` on ASCII -/
def isWord (c : Char) : Bool :=
  isDigit c || (decide ('a' ≤ c) && decide (c ≤ 'z')) || (decide ('A' ≤ c) && decide (c ≤ 'Z')) || c = '_'

/-- longest prefix of characters satisfying `p`, and the rest -/
def splitWhile (p : Char → Bool) : Str → Str × Str
  | [] => ([], [])
  | c :: rest => if p c then ((splitWhile p rest).1.cons c, (splitWhile p rest).2) else ([], c :: rest)

/-- `(\d*\.)?\d+` at the head of `s`: integer digits, the digits after the point (if that alternative matched), rest -/
def matchNumber (s : Str) : Option (Str × Option Str × Str) :=
  let ip := (splitWhile isDigit s).1
  let r1 := (splitWhile isDigit s).2
  match r1 with
  | '.' :: r2 =>
    let fp := (splitWhile isDigit r2).1
    if fp ≠ [] then some (ip, some fp, (splitWhile isDigit r2).2)
    else if ip ≠ [] then some (ip, none, r1) else none
  | _ => if ip ≠ [] then some (ip, none, r1) else none

/-- a successful match: the capture groups -/
structure Match where
  intPart : Str
  fracPart : Option Str
  unit : Str
deriving Repr, DecidableEq

def slashS : Str := ['/', 's']

/-- `re.match(THROUGHPUT_PATTERN, s)` -/
def matchThroughput (s : Str) : Option Match :=
  match matchNumber s with
  | none => none
  | some (ip, fp, r) =>
    match r with
    | [] => none
    | ws :: r' =>
      if isSpace ws then
        let w := (splitWhile isWord r').1
        match (splitWhile isWord r').2 with
        | '/' :: 's' :: _ => if w ≠ [] then some ⟨ip, fp, w ++ slashS⟩ else none
        | _ => none
      else none

/-- value of a digit string -/
def digitsVal (ds : Str) : Nat := ds.foldl (fun n c => 10 * n + (c.toNat - 48)) 0

/-- the decimal number the `value` group denotes -/
def Match.decimal (m : Match) : Rat :=
  match m.fracPart with
  | none => (digitsVal m.intPart : Rat)
  | some fp => (digitsVal (m.intPart ++ fp) : Rat) / ((10 ^ fp.length : Nat) : Rat)

/-- the text of the `value` group -/
def Match.valueText (m : Match) : Str :=
  match m.fracPart with
  | none => m.intPart
  | some fp => m.intPart ++ '.' :: fp

/-- a value of the rendered JSON as far as `target_throughput` looks at it -/
inductive JV
  | null
  | bool (b : Bool)
  | int (i : Int)
  | float (q : Rat)
  | str (s : Str)
  | other (truthy : Bool)     -- array / object
deriving Repr, DecidableEq

def JV.truthy : JV → Bool
  | .null => false
  | .bool b => b
  | .int i => decide (i ≠ 0)
  | .float q => decide (q ≠ 0)
  | .str s => !s.isEmpty
  | .other t => t

/-- `numeric(v)`: a number that is not a bool; the double it converts to -/
def JV.numeric : JV → Option Rat
  | .int i => some (Dbl.fl (i : Rat))
  | .float q => some q
  | _ => none

def opsPerS : Str := ['o', 'p', 's', '/', 's']

/-- `Task.target_throughput`: `.error ()` = InvalidSyntax, `.ok none` = unthrottled, `.ok (some (value, unit))` -/
def targetThroughput (tt ti : JV) : Except Unit (Option (Rat × Str)) :=
  if ti ≠ .null && tt ≠ .null then .error ()
  else
    let r : Except Unit (Option Rat × Str) :=
      if ti.truthy then
        match ti.numeric with
        | none => .error ()
        | some x => .ok (some (Dbl.fdiv 1 x), opsPerS)
      else if tt.truthy then
        match tt with
        | .str s => (match matchThroughput s with
                     | some m => .ok (some (Dbl.fl m.decimal), m.unit)
                     | none => .error ())
        | _ => match tt.numeric with
          | some x => .ok (some x, opsPerS)
          | none => .error ()
      else .ok (none, opsPerS)
    match r with
    | .error e => .error e
    | .ok (some v, u) => if v ≠ 0 then .ok (some (v, u)) else .ok none
    | .ok (none, _) => .ok none

end TrackThroughput
