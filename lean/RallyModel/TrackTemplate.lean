/-
Model of the template layer of esrally/track/loader.py that sits between the track directory and
`TrackSpecificationReader` (C10, anchors "template assembly and rendering"):

* `TemplateSource.replace_includes` / `read_glob_files`: the textual pre-expansion of
  `{{ rally.collect(parts="…") }}` (a fragment is a list of text chunks and collect calls; the regex
  tokenisation itself is exercised, not modelled).  `replaceIncludes` mirrors the code statement by
  statement, including the replacement dict `repl` that is keyed by the *pattern text* and lives for
  one call (= one base directory); `expand` is the declarative meaning: every collect call is
  replaced by the files its pattern selects *relative to the directory of the fragment that contains
  the call*, joined with ",\n", expanded recursively.
* `render_template`: where user track parameters and Rally's internal variables are put (environment
  globals, internal ones last) and which variables a reference sees depending on the place it
  occurs in (`Scope`): Jinja2's visibility rules are an assumption of the model, validated by the
  correspondence stream `param_scopes`.

Import-free.
-/
namespace TrackTemplate

abbrev Str := List Char
/-- directory components relative to the track directory -/
abbrev Path := List Str

inductive Piece
  | text (s : Str)
  | collect (pattern : Str)
deriving Repr, DecidableEq

abbrev Fragment := List Piece

/-- a file of the track directory: its directory, its name, its content -/
structure File where
  dir : Path
  name : Str
  content : Fragment
deriving Repr, DecidableEq

/-- the files of the track directory, in directory-listing order (`glob.glob` does not sort) -/
abbrev FS := List File

/-! ### paths and globbing -/

/-- split at '/' -/
def splitSlash : Str → List Str
  | [] => [[]]
  | c :: rest =>
    if c = '/' then [] :: splitSlash rest
    else match splitSlash rest with
      | [] => [[c]]
      | h :: t => (c :: h) :: t

/-- `fnmatch` with `*` as the only wildcard (`fuel` ≥ length of the name suffices) -/
def globMatch : Str → Str → Bool
  | [], [] => true
  | [], _ :: _ => false
  | '*' :: ps, [] => globMatch ps []
  | '*' :: ps, n :: ns => globMatch ps (n :: ns) || globMatch ('*' :: ps) ns
  | _ :: _, [] => false
  | p :: ps, n :: ns => p = n && globMatch ps ns
termination_by p n => p.length + n.length

/-- `glob`: a pattern that does not start with a dot never matches a hidden file -/
def nameMatches (glob name : Str) : Bool :=
  (decide (name.head? ≠ some '.') || decide (glob.head? = some '.')) && globMatch glob name

/-- `io.dirname(os.path.join(base_path, glob_pattern))` -/
def dirOf (base : Path) (pattern : Str) : Path := base ++ (splitSlash pattern).dropLast

/-- the last component of the pattern: the file glob -/
def fileGlobOf (pattern : Str) : Str := ((splitSlash pattern).getLast?).getD []

/-- `self.fileglobber(os.path.join(base_path, glob_pattern))` -/
def filesOf (fs : FS) (base : Path) (pattern : Str) : List File :=
  fs.filter (fun f => decide (f.dir = dirOf base pattern) && nameMatches (fileGlobOf pattern) f.name)

/-- `",\n".join(source)` on fragments -/
def joinFragments : List Fragment → Fragment
  | [] => []
  | [f] => f
  | f :: rest => f ++ [Piece.text [',', '\n']] ++ joinFragments rest

/-- `read_glob_files(os.path.join(base_path, glob_pattern))` -/
def readGlobFiles (fs : FS) (base : Path) (pattern : Str) : Fragment :=
  joinFragments ((filesOf fs base pattern).map (·.content))

def patternsOf (frag : Fragment) : List Str :=
  frag.filterMap (fun pc => match pc with
    | .collect p => some p
    | .text _ => none)

def concatOpt : List (Option Str) → Option Str
  | [] => some []
  | none :: _ => none
  | some s :: rest => match concatOpt rest with
    | none => none
    | some r => some (s ++ r)

/-! ### `TemplateSource.replace_includes`, statement by statement -/

/-- the replacement dict: pattern text ↦ expansion (`none` = the recursion did not finish) -/
abbrev Repl := Str → Option (Option Str)

def Repl.empty : Repl := fun _ => none
def Repl.set (r : Repl) (k : Str) (v : Option Str) : Repl := fun q => if q = k then some v else r q

/-- `replace_includes(base_path, track_fragment)`; `fuel` bounds the nesting depth (Python's recursion
    limit plays that role for a directory whose parts include each other); `none` = exceeded -/
def replaceIncludes (fs : FS) : Nat → Path → Fragment → Option Str
  | 0, _, frag =>
    if patternsOf frag = [] then
      concatOpt (frag.map (fun pc => match pc with
        | .text s => some s
        | .collect _ => none))
    else none
  | fuel + 1, base, frag =>
    -- for glob_pattern in match: repl[glob_pattern] = self.replace_includes(dirname(full_glob_path), sub_source)
    let repl : Repl := (patternsOf frag).foldl
      (fun r p => r.set p (replaceIncludes fs fuel (dirOf base p) (readGlobFiles fs base p))) Repl.empty
    -- collect_parts_re.sub(replstring, track_fragment)
    concatOpt (frag.map (fun pc => match pc with
      | .text s => some s
      | .collect p => match repl p with
        | some v => v
        | none => none))

/-! ### declarative meaning -/

/-- the assembled source: the text with every collect call replaced by the files of its pattern relative to the
    directory of the fragment that contains the call (joined with ",\n"), recursively -/
def expand (fs : FS) : Nat → Path → Fragment → Option Str
  | 0, _, frag =>
    concatOpt (frag.map (fun pc => match pc with
      | .text s => some s
      | .collect _ => none))
  | fuel + 1, base, frag =>
    concatOpt (frag.map (fun pc => match pc with
      | .text s => some s
      | .collect p => expand fs fuel (dirOf base p) (readGlobFiles fs base p)))

/-- `TemplateSource.load_template_from_file`: the main file is assembled relative to the track directory -/
def assemble (fs : FS) (fuel : Nat) (main : Fragment) : Option Str := replaceIncludes fs fuel [] main

/-! ### `render_template`: where variables live and what a reference sees -/

/-- the place a variable reference occurs in -/
inductive Scope
  | main                    -- the assembled track file (and everything textually pre-expanded into it)
  | included                -- a file pulled in by `{% include %}` from the main file
  | importedWithContext     -- a macro of a file imported `with context`
  | importedPlain           -- a macro of a file imported without context (the documented idiom)
  | collectedWithContext    -- a part included by the `rally.collect` macro, helpers imported `with context`
  | collectedPlain          -- a part included by the `rally.collect` macro, helpers imported without context
  | body                    -- an index body / template file rendered by `_load_template`
deriving Repr, DecidableEq

abbrev Vars := List (Str × Str)

def lookupVar (vs : Vars) (n : Str) : Option Str := (vs.find? (fun kv => decide (kv.1 = n))).map (·.2)

/-- a Jinja environment as far as variables are concerned -/
structure Env where
  globals : Vars      -- `env.globals`
  context : Vars      -- the variables passed to `template.render(...)`
deriving Repr, DecidableEq

/-- `render_template`: user variables become environment globals (on top of Jinja's built-in globals such as `range`),
    Rally's internal variables are written afterwards (so they win), nothing is passed to `render()` -/
def renderEnv (user internal builtins : Vars) : Env :=
  { globals := internal ++ user.filter (fun kv => decide (lookupVar internal kv.1 = none)) ++ builtins, context := [] }

/-- Jinja2's visibility rule (assumption, validated by correspondence): the render context is visible in the template
    itself, in what it includes and in what it imports `with context`; a module imported without context only sees the
    environment globals -/
def sees (e : Env) (sc : Scope) (n : Str) : Option Str :=
  match sc with
  | .importedPlain | .collectedPlain => lookupVar e.globals n
  | _ => match lookupVar e.context n with
    | some v => some v
    | none => lookupVar e.globals n

/-- what `{{ n | default(d) }}` renders to at a place of kind `sc` -/
def renderRef (user internal builtins : Vars) (sc : Scope) (n d : Str) : Str :=
  (sees (renderEnv user internal builtins) sc n).getD d

end TrackTemplate
