/-
Model of the template layer of esrally/track/loader.py that sits between the track directory and
`TrackSpecificationReader` (C10, anchors "template assembly and rendering"):

* `TemplateSource.replace_includes` / `read_glob_files`: the textual pre-expansion of
  `{{ rally.collect(parts="…") }}` (a fragment is a list of text chunks and collect calls; the regex
  tokenisation itself is exercised, not modelled).  `replaceIncludes` mirrors the code statement by
  statement, including the replacement dict `repl` that is keyed by the *pattern text* and lives for
  one call (= one base directory); `expand` is the declarative meaning: every collect call is
  replaced by the files its pattern selects *relative to the directory of the fragment that contains
  the call*, joined with ",\n", expanded recursively.
* `render_template`: where user track parameters and Rally's internal variables are put (environment
  globals, internal ones last) and which variables a reference sees depending on the place it
  occurs in (`Scope`): Jinja2's visibility rules are an assumption of the model, validated by the
  correspondence stream `param_scopes`.

Import-free.
-/
namespace TrackTemplate

abbrev Str := List Char
/-- directory components relative to the track directory -/
abbrev Path := List Str

inductive Piece
  | text (s : Str)
  | collect (pattern : Str)
deriving Repr, DecidableEq

abbrev Fragment := List Piece

/-- a file of the track directory: its directory, its name, its content -/
structure File where
  dir : Path
  name : Str
  content : Fragment
deriving Repr, DecidableEq

/-- the files of the track directory, in directory-listing order (`glob.glob` does not sort) -/
abbrev FS := List File

/-! ### paths and globbing -/

/-- split at '/' -/
def splitSlash : Str → List Str
  | [] => [[]]
  | c :: rest =>
    if c = '/' then [] :: splitSlash rest
    else match splitSlash rest with
      | [] => [[c]]
      | h :: t => (c :: h) :: t

/-- `fnmatch` with `*` as the only wildcard (`fuel` ≥ length of the name suffices) -/
def globMatch : Str → Str → Bool
  | [], [] => true
  | [], _ :: _ => false
  | '*' :: ps, [] => globMatch ps []
  | '*' :: ps, n :: ns => globMatch ps (n :: ns) || globMatch ('*' :: ps) ns
  | _ :: _, [] => false
  | p :: ps, n :: ns => p = n && globMatch ps ns
termination_by p n => p.length + n.length

/-- `glob`: a pattern that does not start with a dot never matches a hidden file -/
def nameMatches (glob name : Str) : Bool :=
  (decide (name.head? ≠ some '.') || decide (glob.head? = some '.')) && globMatch glob name

/-- `io.dirname(os.path.join(base_path, glob_pattern))` -/
def dirOf (base : Path) (pattern : Str) : Path := base ++ (splitSlash pattern).dropLast

/-- the last component of the pattern: the file glob -/
def fileGlobOf (pattern : Str) : Str := ((splitSlash pattern).getLast?).getD []

/-- `self.fileglobber(os.path.join(base_path, glob_pattern))` -/
def filesOf (fs : FS) (base : Path) (pattern : Str) : List File :=
  fs.filter (fun f => decide (f.dir = dirOf base pattern) && nameMatches (fileGlobOf pattern) f.name)

/-- `",\n".join(source)` on fragments -/
def joinFragments : List Fragment → Fragment
  | [] => []
  | [f] => f
  | f :: rest => f ++ [Piece.text [',', '\n']] ++ joinFragments rest

/-- `read_glob_files(os.path.join(base_path, glob_pattern))` -/
def readGlobFiles (fs : FS) (base : Path) (pattern : Str) : Fragment :=
  joinFragments ((filesOf fs base pattern).map (·.content))

def patternsOf (frag : Fragment) : List Str :=
  frag.filterMap (fun pc => match pc with
    | .collect p => some p
    | .text _ => none)

def concatOpt : List (Option Str) → Option Str
  | [] => some []
  | none :: _ => none
  | some s :: rest => match concatOpt rest with
    | none => none
    | some r => some (s ++ r)

/-! ### `TemplateSource.replace_includes`, statement by statement -/

/-- the replacement dict: pattern text ↦ expansion (`none` = the recursion did not finish) -/
abbrev Repl := Str → Option (Option Str)

def Repl.empty : Repl := fun _ => none
def Repl.set (r : Repl) (k : Str) (v : Option Str) : Repl := fun q => if q = k then some v else r q

/-- `replace_includes(base_path, track_fragment)`; `fuel` bounds the nesting depth (Python's recursion
    limit plays that role for a directory whose parts include each other); `none` = exceeded -/
def replaceIncludes (fs : FS) : Nat → Path → Fragment → Option Str
  | 0, _, frag =>
    if patternsOf frag = [] then
      concatOpt (frag.map (fun pc => match pc with
        | .text s => some s
        | .collect _ => none))
    else none
  | fuel + 1, base, frag =>
    -- for glob_pattern in match: repl[glob_pattern] = self.replace_includes(dirname(full_glob_path), sub_source)
    let repl : Repl := (patternsOf frag).foldl
      (fun r p => r.set p (replaceIncludes fs fuel (dirOf base p) (readGlobFiles fs base p))) Repl.empty
    -- collect_parts_re.sub(replstring, track_fragment)
    concatOpt (frag.map (fun pc => match pc with
      | .text s => some s
      | .collect p => match repl p with
        | some v => v
        | none => none))

/-! ### declarative meaning -/

/-- the assembled source: the text with every collect call replaced by the files of its pattern relative to the
    directory of the fragment that contains the call (joined with ",\n"), recursively -/
def expand (fs : FS) : Nat → Path → Fragment → Option Str
  | 0, _, frag =>
    concatOpt (frag.map (fun pc => match pc with
      | .text s => some s
      | .collect _ => none))
  | fuel + 1, base, frag =>
    concatOpt (frag.map (fun pc => match pc with
      | .text s => some s
      | .collect p => expand fs fuel (dirOf base p) (readGlobFiles fs base p)))

/-- `TemplateSource.load_template_from_file`: the main file is assembled relative to the track directory -/
def assemble (fs : FS) (fuel : Nat) (main : Fragment) : Option Str := replaceIncludes fs fuel [] main

/-! ### `render_template`: where variables live and what a reference sees -/

/-- the place a variable reference occurs in -/
inductive Scope
  | main                    -- the assembled track file (and everything textually pre-expanded into it)
  | included                -- a file pulled in by `{% include %}` from the main file
  | importedWithContext     -- a macro of a file imported `with context`
  | importedPlain           -- a macro of a file imported without context (the documented idiom)
  | collectedWithContext    -- a part included by the `rally.collect` macro, helpers imported `with context`
  | collectedPlain          -- a part included by the `rally.collect` macro, helpers imported without context
  | body                    -- an index body / template file rendered by `_load_template`
deriving Repr, DecidableEq

abbrev Vars := List (Str × Str)

def lookupVar (vs : Vars) (n : Str) : Option Str := (vs.find? (fun kv => decide (kv.1 = n))).map (·.2)

/-- a Jinja environment as far as variables are concerned -/
structure Env where
  globals : Vars      -- `env.globals`
  context : Vars      -- the variables passed to `template.render(...)`
deriving Repr, DecidableEq

/-- `render_template`: user variables become environment globals (on top of Jinja's built-in globals such as `range`),
    Rally's internal variables are written afterwards (so they win), nothing is passed to `render()` -/
def renderEnv (user internal builtins : Vars) : Env :=
  { globals := internal ++ user.filter (fun kv => decide (lookupVar internal kv.1 = none)) ++ builtins, context := [] }

/-- Jinja2's visibility rule (assumption, validated by correspondence): the render context is visible in the template
    itself, in what it includes and in what it imports `with context`; a module imported without context only sees the
    environment globals -/
def sees (e : Env) (sc : Scope) (n : Str) : Option Str :=
  match sc with
  | .importedPlain | .collectedPlain => lookupVar e.globals n
  | _ => match lookupVar e.context n with
    | some v => some v
    | none => lookupVar e.globals n

/-- what `{{ n | default(d) }}` renders to at a place of kind `sc` -/
def renderRef (user internal builtins : Vars) (sc : Scope) (n d : Str) : Str :=
  (sees (renderEnv user internal builtins) sc n).getD d

/-! ### track-parameter accounting: which names a template reads from the render context

`register_all_params_in_track` asks Jinja (`meta.find_undeclared_variables`) for the names a template reads without
binding them itself.  A template is abstracted to the statements that matter for that question; `undeclared` mirrors
Jinja's scope analysis (symbols are recorded in source order; `for`, `macro` and `with` open a scope of their own,
`set`, a macro definition and `import … as` bind a name for the rest of the enclosing scope). -/

inductive Stmt
  | read (n : Str)                                          -- any expression that loads `n`
  | set (n : Str) (rhs : List Str)                          -- {% set n = … rhs names … %}
  | forLoop (v : Str) (iter : List Str) (body : List Stmt)  -- {% for v in … %} body {% endfor %}
  | macro (name : Str) (args : List Str) (body : List Stmt) -- {% macro name(args) %} body {% endmacro %}
  | withBlock (n : Str) (rhs : List Str) (body : List Stmt) -- {% with n = … %} body {% endwith %}
  | importAs (n : Str)                                      -- {% import "…" as n %}

def loopName : Str := ['l', 'o', 'o', 'p']

/-- the names of `l` that are not bound -/
def free (bound : List Str) (l : List Str) : List Str := l.filter (fun n => decide (n ∉ bound))

/-- the names a statement binds for the statements that follow it in the same scope -/
def bindsAfter : Stmt → List Str
  | .set n _ => [n]
  | .macro name _ _ => [name]
  | .importAs n => [n]
  | _ => []

/-- the names a scope binds at its own level, anywhere in it -/
def storesOf : List Stmt → List Str
  | [] => []
  | s :: rest => bindsAfter s ++ storesOf rest

/-- Jinja's `find_undeclared_variables` on the abstraction.  Jinja resolves names at compile time, scope by scope:
    inside one scope a load that precedes the scope's own binding of the name is a context read, but a nested scope
    (`for` / `macro` / `with` body) is analysed against the *complete* symbol table of its enclosing scopes — a name the
    enclosing scope binds anywhere, even later, is not read from the context inside the nested scope (at run time it is
    undefined there).  `full` = everything visible from the enclosing scopes plus all own-level bindings of this scope,
    `b` = everything visible from the enclosing scopes plus the own-level bindings so far. -/
def undeclared : List Str → List Str → List Stmt → List Str
  | _, _, [] => []
  | full, b, .read n :: rest => free b [n] ++ undeclared full b rest
  | full, b, .set n rhs :: rest => free b rhs ++ undeclared full (n :: b) rest
  | full, b, .forLoop v it body :: rest =>
    free b it ++ undeclared (storesOf body ++ (v :: loopName :: full)) (v :: loopName :: full) body ++ undeclared full b rest
  | full, b, .macro name args body :: rest =>
    undeclared (storesOf body ++ (args ++ full)) (args ++ full) body ++ undeclared full (name :: b) rest
  | full, b, .withBlock n rhs body :: rest =>
    free b rhs ++ undeclared (storesOf body ++ (n :: full)) (n :: full) body ++ undeclared full b rest
  | full, b, .importAs n :: rest => undeclared full (n :: b) rest

/-- the undeclared names of a whole template -/
def undeclaredOf (tpl : List Stmt) : List Str := undeclared (storesOf tpl) [] tpl

/-- `register_all_params_in_track`: the undeclared names of the template minus the names the parsing environment knows
    as globals (Jinja's built-ins and Rally's internal variables) -/
def registeredParams (envGlobals : List Str) (tpl : List Stmt) : List Str :=
  (undeclaredOf tpl).filter (fun n => decide (n ∉ envGlobals))

/-- `CompleteTrackParams`: the names registered by the assembled track file and by every index body / template file -/
def trackDefinedParams (envGlobals : List Str) (templates : List (List Stmt)) : List Str :=
  templates.flatMap (registeredParams envGlobals)

/-- `unused_user_defined_track_params` -/
def unusedParams (envGlobals : List Str) (templates : List (List Stmt)) (user : List Str) : List Str :=
  user.filter (fun p => decide (p ∉ trackDefinedParams envGlobals templates))

/-- declarative: the scope reads `n` from the render context somewhere — at its own level before it binds `n`
    itself, or inside a nested scope that does not see `n` bound by itself (so far) or by any enclosing scope (anywhere) -/
inductive ReadsContext : List Str → List Str → List Stmt → Str → Prop
  | read {full b n rest} : n ∉ b → ReadsContext full b (.read n :: rest) n
  | setRhs {full b x rhs rest n} : n ∈ rhs → n ∉ b → ReadsContext full b (.set x rhs :: rest) n
  | forIter {full b v it body rest n} : n ∈ it → n ∉ b → ReadsContext full b (.forLoop v it body :: rest) n
  | forBody {full b v it body rest n} :
      ReadsContext (storesOf body ++ (v :: loopName :: full)) (v :: loopName :: full) body n →
      ReadsContext full b (.forLoop v it body :: rest) n
  | macroBody {full b name args body rest n} :
      ReadsContext (storesOf body ++ (args ++ full)) (args ++ full) body n →
      ReadsContext full b (.macro name args body :: rest) n
  | withRhs {full b x rhs body rest n} : n ∈ rhs → n ∉ b → ReadsContext full b (.withBlock x rhs body :: rest) n
  | withBody {full b x rhs body rest n} :
      ReadsContext (storesOf body ++ (x :: full)) (x :: full) body n →
      ReadsContext full b (.withBlock x rhs body :: rest) n
  | later {full b s rest n} : ReadsContext full (bindsAfter s ++ b) rest n → ReadsContext full b (s :: rest) n

/-- a whole template reads `n` from the render context -/
def TemplateReads (tpl : List Stmt) (n : Str) : Prop := ReadsContext (storesOf tpl) [] tpl n

end TrackTemplate
