/-
Model of esrally/driver/driver.py: Allocator (allocations, join_points, tasks_per_joinpoint, clients),
track.Parallel.clients, calculate_worker_assignments, ClientAllocations.tasks / is_joinpoint.
Import-free.
-/
namespace Alloc

/-- a leaf task as the allocator sees it -/
structure Sub where
  id : Nat                 -- identity of the leaf task (position in the track)
  clients : Nat
  completesParent : Bool
  anyCompletes : Bool
deriving Repr, DecidableEq

/-- one schedule element: a leaf task (`clientsOverride = none`, one sub-task — `Task.__iter__`
    yields the task itself) or a `Parallel` (optional explicit `clients`). -/
structure Element where
  clientsOverride : Option Nat
  tasks : List Sub
deriving Repr, DecidableEq

def sumClients (ts : List Sub) : Nat := (ts.map (·.clients)).sum

/-- `track.Parallel.clients` / `Task.clients` -/
def Element.clients (e : Element) : Nat :=
  match e.clientsOverride with
  | some c => c
  | none => sumClients e.tasks

/-- `Allocator.clients` -/
def maxClients (s : List Element) : Nat := s.foldl (fun m e => max m e.clients) 1

inductive Entry
  | join (id : Nat) (completing : List Nat) (anyCompleting : List Nat)
  | task (sub : Sub) (idxInTask globalIdx total : Nat)
  | none
deriving Repr, DecidableEq

def Entry.isJoin : Entry → Bool
  | .join .. => true
  | _ => false

def Entry.isTask : Entry → Bool
  | .task .. => true
  | _ => false

/-- logical clients of an element in allocation order: (sub-task, client index in task);
    the position in this list is the `global_client_index` -/
def expand (e : Element) : List (Sub × Nat) :=
  e.tasks.flatMap fun s => (List.range s.clients).map fun i => (s, i)

/-- total number of logical clients the loop walks (`start_client_index` after the sub-task loop) -/
def Element.total (e : Element) : Nat := sumClients e.tasks

/-- logical client indices that land on physical row `r` (`client_index % max_clients = r`), in order -/
def rowIdxs (m total r : Nat) : List Nat :=
  (List.range ((total + m - 1 - r) / m)).map fun k => r + k * m

/-- physical clients executing a completing / any-completing task, in allocation order -/
def completingClients (m : Nat) (e : Element) : List Nat :=
  (expand e).zipIdx.filterMap fun (p, c) => if p.1.completesParent then some (c % m) else Option.none

def anyCompletingClients (m : Nat) (e : Element) : List Nat :=
  (expand e).zipIdx.filterMap fun (p, c) =>
    if p.1.completesParent then Option.none else if p.1.anyCompletes then some (c % m) else Option.none

/-- the `TaskAllocation` of logical client `c` of element `e` -/
def taskEntry (e : Element) (c : Nat) : Entry :=
  match (expand e)[c]? with
  | some (s, i) => Entry.task s i c e.clients
  | Option.none => Entry.none          -- unreachable: every c in rowIdxs is < total = (expand e).length

/-- entries appended to row `r` while processing element `e` (tasks, padding, closing join point) -/
def elemRow (m : Nat) (e : Element) (joinId : Nat) (r : Nat) : List Entry :=
  let total := e.total
  let ts := (rowIdxs m total r).map (taskEntry e)
  let pad := if total % m > 0 ∧ total % m ≤ r then [Entry.none] else []
  ts ++ pad ++ [Entry.join joinId (completingClients m e) (anyCompletingClients m e)]

def rowFrom (m : Nat) (r : Nat) : List Element → Nat → List Entry
  | [], _ => []
  | e :: es, j => elemRow m e j r ++ rowFrom m r es (j + 1)

/-- one row of `Allocator.allocations` -/
def row (s : List Element) (r : Nat) : List Entry :=
  Entry.join 0 [] [] :: rowFrom (maxClients s) r s 1

/-- `Allocator.allocations` -/
def allocations (s : List Element) : List (List Entry) :=
  (List.range (maxClients s)).map (row s)

/-- `Allocator.join_points` (from row 0) -/
def joinPoints (s : List Element) : List Entry := (row s 0).filter Entry.isJoin

/-- sub-tasks of an element that get at least one client, first occurrence order -/
def allocatedSubs (e : Element) : List Sub := (e.tasks.filter (fun s => s.clients > 0)).eraseDups

/-- `Allocator.tasks_per_joinpoint` on the **pinned** code: an entry is appended at a join point only
    if tasks were seen since the previous one, so an element without any allocated task contributes nothing. -/
def tasksPerJoinpointPinned (s : List Element) : List (List Sub) :=
  s.filterMap fun e => if (allocatedSubs e).isEmpty then Option.none else some (allocatedSubs e)

/-- `Allocator.tasks_per_joinpoint` after the repair: one entry per step -/
def tasksPerJoinpoint (s : List Element) : List (List Sub) := s.map allocatedSubs

/-- `Driver.number_of_steps` -/
def numberOfSteps (s : List Element) : Nat := (joinPoints s).length - 1

/-! ### worker assignment -/

structure Host where
  name : Nat
  cores : Nat
deriving Repr, DecidableEq

def ceilDiv (n h : Nat) : Nat := (n + h - 1) / h

/-- clients per worker on one host: `clients_per_worker[c % workers] += 1` for c in range(cnt) -/
def perWorker (cores cnt : Nat) : List Nat :=
  (List.range cores).map fun j => cnt / cores + (if j < cnt % cores then 1 else 0)

/-- consecutive id ranges of the given sizes starting at `start` -/
def ranges : Nat → List Nat → List (List Nat)
  | _, [] => []
  | start, c :: cs => (List.range' start c) :: ranges (start + c) cs

def assignFrom (perHost : Nat) : List Host → Nat → Nat → List (Nat × List (List Nat))
  | [], _, _ => []
  | h :: hs, idx, remaining =>
    let cnt := min perHost remaining
    (h.name, ranges idx (perWorker h.cores cnt)) :: assignFrom perHost hs (idx + cnt) (remaining - cnt)

/-- `calculate_worker_assignments(host_configs, client_count)` (hosts non-empty, cores > 0) -/
def assign (hosts : List Host) (n : Nat) : List (Nat × List (List Nat)) :=
  assignFrom (ceilDiv n hosts.length) hosts 0 n

/-- the final `assert remaining_clients == 0` -/
def assignRemaining (perHost : Nat) : List Host → Nat → Nat
  | [], remaining => remaining
  | _ :: hs, remaining => assignRemaining perHost hs (remaining - min perHost remaining)

end Alloc
