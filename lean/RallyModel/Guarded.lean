import RallyModel.Dbl
/-
Model of `esrally/metrics.py : EsClient.guarded` (retry loop around every metrics-store call).

The wrapped client function is a *script*: the list of outcomes of its successive invocations.
An outcome is the class the `try/except` chain distinguishes.  Class hierarchy relied on
(elasticsearch 8 / elastic_transport 8), in the order of the `except` clauses:

    ConnectionTimeout(TransportError)            (not a ConnectionError)
    ConnectionError(TransportError)              (TlsError / SSLError are subclasses)
    AuthenticationException(ApiError)  401
    AuthorizationException(ApiError)   403
    elasticsearch.helpers.BulkIndexError(Exception)   `.errors` = list of per-item dicts
    ApiError(Exception)                          any other, `status_code`
    TransportError                               any other (SerializationError, SniffingError, …)
    anything else is not caught

`random.random()` is the function `rnd` (draw of iteration `k` = `rnd k`); the pause of iteration
`k` is the float sum `2**k + random.random()` (`Dbl.fadd`, exact IEEE double arithmetic).
A script that runs out before the loop ends gives `pending` (the function would be called again).
-/
namespace Guarded

/-- `self.retryable_status_codes` -/
def retryableStatusCodes : List Nat := [502, 503, 504, 429]
/-- `max_execution_count` -/
def maxExecutionCount : Nat := 10

inductive Outcome
  | success (tag : Nat)                      -- returns (tag = identity of the returned object)
  | connTimeout
  | connError
  | authn
  | authz
  | bulk (statuses : List (Option Nat))      -- BulkIndexError; per item `err.get("index", {}).get("status", None)`
  | api (status : Nat)                       -- other ApiError with `status_code`
  | transportOther
  | otherExc (tag : Nat)                     -- not caught (tag = identity of the exception)
deriving Repr, DecidableEq

/-- which message the raised Rally error carries -/
inductive Cause
  | timeoutExhausted          -- "A connection timeout occurred while running the operation [..]"
  | connExhausted             -- "Could not connect to your Elasticsearch metrics store. …"
  | authn                     -- "The configured user could not authenticate …"
  | authz                     -- "The configured user does not have enough privileges to run the operation [..] …"
  | bulkUnretryable (item : Nat)  -- "Unretryable error encountered when sending metrics …: [type of item]"
  | bulkExhausted             -- "Failed to send metrics to remote metrics store: [errors]"
  | apiError (status : Nat)   -- "An error [..] occurred while running the operation [..] …"
  | transportError            -- "Transport error(s) [..] occurred while running the operation [..] …"
deriving Repr, DecidableEq

inductive Res
  | returned (tag : Nat)
  | rallyError (c : Cause)          -- exceptions.RallyError
  | systemSetupError (c : Cause)    -- exceptions.SystemSetupError
  | propagated (tag : Nat)          -- uncaught exception, same object
  | loopExit                        -- `while` condition false: implicit `return None`
  | pending                         -- script exhausted: the function would be invoked again
deriving Repr, DecidableEq

inductive Ev
  | call
  | sleep (d : Rat)
deriving Repr, DecidableEq

structure Run where
  res : Res
  trace : List Ev
deriving Repr, DecidableEq

/-- `time_to_sleep = 2**execution_count + random.random()` (int + float, one rounding) -/
def pause (count : Nat) (r : Rat) : Rat := Dbl.fadd ((2 ^ count : Nat) : Rat) r

/-- `err.get("index", {}).get("status", None) in self.retryable_status_codes` -/
def itemRetryable : Option Nat → Bool
  | some n => retryableStatusCodes.contains n
  | none => false

/-- index of the first item whose status is not in `retryable_status_codes` (the `for err in e.errors` loop) -/
def firstUnretryable : List (Option Nat) → Option Nat
  | [] => none
  | s :: rest => if itemRetryable s then (firstUnretryable rest).map (· + 1) else some 0

inductive Step
  | done (r : Res)
  | sleepRetry
deriving Repr, DecidableEq

/-- the `try/except` chain; `count` is `execution_count` *after* the increment -/
def handle (count : Nat) : Outcome → Step
  | .success t => .done (.returned t)
  | .connTimeout => if count ≤ maxExecutionCount then .sleepRetry else .done (.rallyError .timeoutExhausted)
  | .connError => if count ≤ maxExecutionCount then .sleepRetry else .done (.rallyError .connExhausted)
  | .authn => .done (.systemSetupError .authn)
  | .authz => .done (.systemSetupError .authz)
  | .bulk sts =>
    match firstUnretryable sts with
    | some i => .done (.rallyError (.bulkUnretryable i))
    | none => if count ≤ maxExecutionCount then .sleepRetry else .done (.rallyError .bulkExhausted)
  | .api s =>
    if retryableStatusCodes.contains s && decide (count ≤ maxExecutionCount) then .sleepRetry
    else .done (.rallyError (.apiError s))
  | .transportOther => .done (.rallyError .transportError)
  | .otherExc t => .done (.propagated t)

/-- `while execution_count <= max_execution_count:` from `execution_count = count` on -/
def loop (rnd : Nat → Rat) (count : Nat) : List Outcome → Run
  | [] => if count ≤ maxExecutionCount then ⟨.pending, []⟩ else ⟨.loopExit, []⟩
  | o :: rest =>
    if count ≤ maxExecutionCount then
      match handle (count + 1) o with
      | .done r => ⟨r, [.call]⟩
      | .sleepRetry =>
        ⟨(loop rnd (count + 1) rest).res, .call :: .sleep (pause count (rnd count)) :: (loop rnd (count + 1) rest).trace⟩
    else ⟨.loopExit, []⟩

def guarded (rnd : Nat → Rat) (outs : List Outcome) : Run := loop rnd 0 outs

def nCalls : List Ev → Nat
  | [] => 0
  | .call :: t => nCalls t + 1
  | .sleep _ :: t => nCalls t

def sleepsOf : List Ev → List Rat
  | [] => []
  | .call :: t => sleepsOf t
  | .sleep d :: t => d :: sleepsOf t

def Run.calls (r : Run) : Nat := nCalls r.trace
def Run.sleeps (r : Run) : List Rat := sleepsOf r.trace

end Guarded
