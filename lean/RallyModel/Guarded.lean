import RallyModel.Dbl
/-
Model of `esrally/metrics.py : EsClient.guarded` (retry loop around every metrics-store call).

The wrapped client function is a *script*: the list of outcomes of its successive invocations.
An outcome is the class the `try/except` chain distinguishes.  Class hierarchy relied on
(elasticsearch 8 / elastic_transport 8), in the order of the `except` clauses:

    ConnectionTimeout(TransportError)            (not a ConnectionError)
    ConnectionError(TransportError)              (TlsError / SSLError are subclasses)
    AuthenticationException(ApiError)  401
    AuthorizationException(ApiError)   403
    elasticsearch.helpers.BulkIndexError(Exception)   `.errors` = list of per-item dicts
    ApiError(Exception)                          any other, `status_code`
    TransportError                               any other (SerializationError, SniffingError, …)
    anything else is not caught

`random.random()` is the function `rnd` (draw of iteration `k` = `rnd k`); the pause of iteration
`k` is the float sum `2**k + random.random()` (`Dbl.fadd`, exact IEEE double arithmetic).
A script that runs out before the loop ends gives `pending` (the function would be called again).
-/
namespace Guarded

/-- `self.retryable_status_codes` -/
def retryableStatusCodes : List Nat := [502, 503, 504, 429]
/-- `max_execution_count` -/
def maxExecutionCount : Nat := 10

inductive Outcome
  | success (tag : Nat)                      -- returns (tag = identity of the returned object)
  | connTimeout
  | connError
  | authn
  | authz
  | bulk (statuses : List (Option Nat))      -- BulkIndexError; per item `err.get("index", {}).get("status", None)`
  | api (status : Nat)                       -- other ApiError with `status_code`
  | transportOther
  | otherExc (tag : Nat)                     -- not caught (tag = identity of the exception)
deriving Repr, DecidableEq

/-- which message the raised Rally error carries -/
inductive Cause
  | timeoutExhausted          -- "A connection timeout occurred while running the operation [..]"
  | connExhausted             -- "Could not connect to your Elasticsearch metrics store. …"
  | authn                     -- "The configured user could not authenticate …"
  | authz                     -- "The configured user does not have enough privileges to run the operation [..] …"
  | bulkUnretryable (item : Nat)  -- "Unretryable error encountered when sending metrics …: [type of item]"
  | bulkExhausted             -- "Failed to send metrics to remote metrics store: [errors]"
  | apiError (status : Nat)   -- "An error [..] occurred while running the operation [..] …"
  | transportError            -- "Transport error(s) [..] occurred while running the operation [..] …"
deriving Repr, DecidableEq

inductive Res
  | returned (tag : Nat)
  | rallyError (c : Cause)          -- exceptions.RallyError
  | systemSetupError (c : Cause)    -- exceptions.SystemSetupError
  | propagated (tag : Nat)          -- uncaught exception, same object
  | loopExit                        -- `while` condition false: implicit `return None`
  | pending                         -- script exhausted: the function would be invoked again
deriving Repr, DecidableEq

inductive Ev
  | call
  | sleep (d : Rat)
deriving Repr, DecidableEq

structure Run where
  res : Res
  trace : List Ev
deriving Repr, DecidableEq

/-- `time_to_sleep = 2**execution_count + random.random()` (int + float, one rounding) -/
def pause (count : Nat) (r : Rat) : Rat := Dbl.fadd ((2 ^ count : Nat) : Rat) r

/-- `err.get("index", {}).get("status", None) in self.retryable_status_codes` -/
def itemRetryable : Option Nat → Bool
  | some n => retryableStatusCodes.contains n
  | none => false

/-- index of the first item whose status is not in `retryable_status_codes` (the `for err in e.errors` loop) -/
def firstUnretryable : List (Option Nat) → Option Nat
  | [] => none
  | s :: rest => if itemRetryable s then (firstUnretryable rest).map (· + 1) else some 0

inductive Step
  | done (r : Res)
  | sleepRetry
deriving Repr, DecidableEq

/-- the `try/except` chain; `count` is `execution_count` *after* the increment -/
def handle (count : Nat) : Outcome → Step
  | .success t => .done (.returned t)
  | .connTimeout => if count ≤ maxExecutionCount then .sleepRetry else .done (.rallyError .timeoutExhausted)
  | .connError => if count ≤ maxExecutionCount then .sleepRetry else .done (.rallyError .connExhausted)
  | .authn => .done (.systemSetupError .authn)
  | .authz => .done (.systemSetupError .authz)
  | .bulk sts =>
    match firstUnretryable sts with
    | some i => .done (.rallyError (.bulkUnretryable i))
    | none => if count ≤ maxExecutionCount then .sleepRetry else .done (.rallyError .bulkExhausted)
  | .api s =>
    if retryableStatusCodes.contains s && decide (count ≤ maxExecutionCount) then .sleepRetry
    else .done (.rallyError (.apiError s))
  | .transportOther => .done (.rallyError .transportError)
  | .otherExc t => .done (.propagated t)

/-- `while execution_count <= max_execution_count:` from `execution_count = count` on -/
def loop (rnd : Nat → Rat) (count : Nat) : List Outcome → Run
  | [] => if count ≤ maxExecutionCount then ⟨.pending, []⟩ else ⟨.loopExit, []⟩
  | o :: rest =>
    if count ≤ maxExecutionCount then
      match handle (count + 1) o with
      | .done r => ⟨r, [.call]⟩
      | .sleepRetry =>
        ⟨(loop rnd (count + 1) rest).res, .call :: .sleep (pause count (rnd count)) :: (loop rnd (count + 1) rest).trace⟩
    else ⟨.loopExit, []⟩

def guarded (rnd : Nat → Rat) (outs : List Outcome) : Run := loop rnd 0 outs

def nCalls : List Ev → Nat
  | [] => 0
  | .call :: t => nCalls t + 1
  | .sleep _ :: t => nCalls t

def sleepsOf : List Ev → List Rat
  | [] => []
  | .call :: t => sleepsOf t
  | .sleep d :: t => d :: sleepsOf t

def Run.calls (r : Run) : Nat := nCalls r.trace
def Run.sleeps (r : Run) : List Rat := sleepsOf r.trace

/-! ### what a successful invocation hands back

`guarded` does `return target(*args, **kwargs)`: the result object is handed back without being looked at.  Store
operations legitimately return objects that are *falsy* in Python: `HeadApiResponse(False)` (`exists` /
`template_exists` for a resource that is not there), `ObjectApiResponse({})` (empty body: `refresh` on some clusters,
`get_index` for a pattern that matches nothing), and a scripted target may return `None`, `False`, `0`, `{}`, `[]`, `""`.
The tag of `Outcome.success` carries both the attempt that produced the object and which kind of object it is. -/

inductive Value
  | object        -- an opaque truthy object
  | headTrue      -- HeadApiResponse(True)
  | headFalse     -- HeadApiResponse(False)            (falsy)
  | emptyBody     -- ObjectApiResponse({})             (falsy)
  | body          -- ObjectApiResponse({…non-empty…})
  | bulkTuple     -- (n, []) of elasticsearch.helpers.bulk
  | pyNone | pyFalse | pyZero | emptyDict | emptyList | emptyStr   -- (all falsy)
deriving Repr, DecidableEq

/-- Python truthiness of the result (`bool(result)`) — what the loop must NOT depend on -/
def Value.truthy : Value → Bool
  | .object => true
  | .headTrue => true
  | .body => true
  | .bulkTuple => true
  | _ => false

def nValues : Nat := 12

def Value.code : Value → Nat
  | .object => 0 | .headTrue => 1 | .headFalse => 2 | .emptyBody => 3 | .body => 4 | .bulkTuple => 5
  | .pyNone => 6 | .pyFalse => 7 | .pyZero => 8 | .emptyDict => 9 | .emptyList => 10 | .emptyStr => 11

def Value.ofCode : Nat → Value
  | 1 => .headTrue | 2 => .headFalse | 3 => .emptyBody | 4 => .body | 5 => .bulkTuple
  | 6 => .pyNone | 7 => .pyFalse | 8 => .pyZero | 9 => .emptyDict | 10 => .emptyList | 11 => .emptyStr
  | _ => .object

/-- identity of the object returned by attempt `attempt` (0-based script position) being a `v` -/
def resultTag (attempt : Nat) (v : Value) : Nat := attempt * nValues + v.code
def tagAttempt (t : Nat) : Nat := t / nValues
def tagValue (t : Nat) : Value := Value.ofCode (t % nValues)

/-- the invocation at script position `attempt` does not raise and returns a `v` -/
def succeeds (attempt : Nat) (v : Value) : Outcome := .success (resultTag attempt v)

/-- replace the objects the successful invocations return (everything else unchanged) -/
def retag (f : Nat → Nat) : Outcome → Outcome
  | .success t => .success (f t)
  | o => o

def retagRes (f : Nat → Nat) : Res → Res
  | .returned t => .returned (f t)
  | r => r

/-! ### `EsMetricsStore`: documents are buffered by `put_*` and sent by `flush()` / `close()`

State carried between calls on one store object: `_docs` (the buffer).  `flush(refresh)`:
`if self._docs: self._client.bulk_index(...)` (one guarded bulk call), then `self._docs = []`, then
`if refresh: self._client.refresh(...)` (one guarded call).  `close()` is `flush()`.
Documents are identified by serial numbers; `acked` lists what the cluster acknowledged, in order, with
repetitions if something is sent twice.  Every guarded call draws from the one global `random.random()`
sequence: `draws` is how many draws were made so far. -/

structure Store where
  buffer : List Nat
  acked : List Nat
  next : Nat
  draws : Nat
deriving Repr, DecidableEq

inductive StoreStep
  | put (n : Nat)                                           -- n documents added
  | flush (refresh : Bool) (bulk refr : List Outcome)       -- scripted faults of the bulk / the refresh call
deriving Repr

/-- a guarded client call whose scripted faults are followed by success (outcome tag = script length) -/
def callThenSucceed (rnd : Nat → Rat) (offset : Nat) (outs : List Outcome) : Run :=
  guarded (fun k => rnd (offset + k)) (outs ++ [.success outs.length])

structure StepResult where
  err : Option Res       -- what `flush` raised, if anything
  runs : List Run        -- the guarded calls that were made (bulk, refresh)
deriving Repr, DecidableEq

def isReturned : Res → Bool
  | .returned _ => true
  | _ => false

def flushStep (rnd : Nat → Rat) (s : Store) (refresh : Bool) (bulk refr : List Outcome) : Store × StepResult :=
  if s.buffer.isEmpty then
    -- nothing to send; `self._docs = []`; refresh
    if refresh then
      let r := callThenSucceed rnd s.draws refr
      ({ s with draws := s.draws + r.calls }, ⟨if isReturned r.res then none else some r.res, [r]⟩)
    else (s, ⟨none, []⟩)
  else
    let b := callThenSucceed rnd s.draws bulk
    if isReturned b.res then
      -- the bulk was acknowledged; the buffer is dropped *before* the refresh
      let s1 : Store := { s with acked := s.acked ++ s.buffer, buffer := [], draws := s.draws + b.calls }
      if refresh then
        let r := callThenSucceed rnd s1.draws refr
        ({ s1 with draws := s1.draws + r.calls }, ⟨if isReturned r.res then none else some r.res, [b, r]⟩)
      else (s1, ⟨none, [b]⟩)
    else
      -- bulk_index raised: flush is left, the buffer is kept
      ({ s with draws := s.draws + b.calls }, ⟨some b.res, [b]⟩)

def storeStep (rnd : Nat → Rat) (s : Store) : StoreStep → Store × StepResult
  | .put n => ({ s with buffer := s.buffer ++ (List.range n).map (s.next + ·), next := s.next + n }, ⟨none, []⟩)
  | .flush refresh bulk refr => flushStep rnd s refresh bulk refr

def runStore (rnd : Nat → Rat) : Store → List StoreStep → Store × List StepResult
  | s, [] => (s, [])
  | s, st :: rest =>
    let (s1, r) := storeStep rnd s st
    let (s2, rs) := runStore rnd s1 rest
    (s2, r :: rs)

def emptyStore : Store := ⟨[], [], 0, 0⟩

/-! ### `EsMetricsStore.open()`: which store operations it issues, driven by the (truthy / falsy) results of earlier ones

`open(create=True)`: `_ensure_index_template()` (`template_exists`; if truthy `get_template` and compare; `put_template` when there
is no template, or it differs and `datastore.overwrite_existing_templates` is set), then `exists(index)`; `create_index` iff the
answer is falsy; then `refresh`.  `open(create=False)`: `exists(<index>.new)` (truthy → use that name), then `refresh`.
Every operation is one guarded call with its own fault script; the first one that raises ends `open`. -/

inductive StoreOp
  | templateExists | getTemplate | putTemplate
  | existsIndex (migrated : Bool)     -- `exists(index)` / `exists(index + ".new")`
  | createIndex
  | refresh (migrated : Bool)
deriving Repr, DecidableEq

structure Cluster where
  /-- `none`: no template "rally-metrics" (HEAD answers 404 → falsy); `some none`: it exists but the listing is empty;
      `some (some same)`: listed, and its body is identical to Rally's (`same`) or not -/
  template : Option (Option Bool)
  /-- `datastore.overwrite_existing_templates` -/
  overwrite : Bool
  /-- the index `open` looks for exists (create: this month's index; otherwise `<index>.new`) -/
  index : Bool
deriving Repr, DecidableEq

/-- the operations of `open` in order when no call raises -/
def openPlan (create : Bool) (c : Cluster) : List StoreOp :=
  if create then
    [StoreOp.templateExists] ++
    (match c.template with
      | none => [.putTemplate]
      | some none => [.getTemplate, .putTemplate]
      | some (some same) => [StoreOp.getTemplate] ++ (if same then [] else if c.overwrite then [.putTemplate] else [])) ++
    [StoreOp.existsIndex false] ++ (if c.index then [] else [.createIndex]) ++ [StoreOp.refresh false]
  else
    [.existsIndex true, .refresh c.index]

/-- the operations one after the other, each a guarded call (scripted faults, then an answer); the first that raises ends it -/
def runOps (rnd : Nat → Rat) (draws : Nat) : List StoreOp → List (List Outcome) → List (StoreOp × Run) × Option Res
  | [], _ => ([], none)
  | op :: ops, scripts =>
    if isReturned (callThenSucceed rnd draws (scripts.headD [])).res then
      ((op, callThenSucceed rnd draws (scripts.headD [])) ::
          (runOps rnd (draws + (callThenSucceed rnd draws (scripts.headD [])).calls) ops scripts.tail).1,
        (runOps rnd (draws + (callThenSucceed rnd draws (scripts.headD [])).calls) ops scripts.tail).2)
    else ([(op, callThenSucceed rnd draws (scripts.headD []))], some (callThenSucceed rnd draws (scripts.headD [])).res)

def openStore (rnd : Nat → Rat) (create : Bool) (c : Cluster) (scripts : List (List Outcome)) :
    List (StoreOp × Run) × Option Res :=
  runOps rnd 0 (openPlan create c) scripts

/-! ### one level below `EsClient`: `RallySyncElasticsearch.perform_request` (esrally/client/synchronous.py)

Every metrics-store request goes through it.  On a client object that has not verified the product yet it first
asks `GET /` (a non-2xx answer or a transport error there ends the call), *then* sends the request; the answer is
raised as `ApiError` (by status) unless it is 2xx (`200 <= status < 299`), a 404 to a `HEAD` (used as "exists"), or a
status the caller asked to ignore. -/

/-- the status rule of `perform_request` -/
def statusRaises (head : Bool) (status : Nat) (ignore : List Nat) : Bool :=
  !(head && status == 404) && (!(decide (200 ≤ status) && decide (status < 299)) && !ignore.contains status)

inductive Reply
  | status (s : Nat)
  | connError
  | connTimeout
deriving Repr, DecidableEq

inductive Exchange
  | info       -- GET / (product check)
  | target     -- the request itself
deriving Repr, DecidableEq

inductive CallOutcome
  | response (s : Nat)        -- returned to the caller as a normal response
  | raisedStatus (s : Nat)    -- ApiError subclass for the status
  | raisedConnError
  | raisedConnTimeout
deriving Repr, DecidableEq

def raiseReply : Reply → CallOutcome
  | .status s => .raisedStatus s
  | .connError => .raisedConnError
  | .connTimeout => .raisedConnTimeout

/-- the request itself: last exchange of the call -/
def sendTarget (head : Bool) (ignore : List Nat) : Reply → CallOutcome
  | .status s => if statusRaises head s ignore then .raisedStatus s else .response s
  | r => raiseReply r

/-- one `perform_request`: the exchanges in order and how the call ends (`verified`: product check already passed) -/
def clientCall (verified head : Bool) (ignore : List Nat) (info target : Reply) : List Exchange × CallOutcome :=
  if verified then ([.target], sendTarget head ignore target)
  else
    match info with
    | .status s =>
      if decide (200 ≤ s) && decide (s < 299) then ([.info, .target], sendTarget head ignore target)
      else ([.info], .raisedStatus s)
    | r => ([.info], raiseReply r)

end Guarded
