import RallyModel.Dbl
/-
C18 — the way of a sub-request's timing from its request context into the metrics store.

What is modelled, statement by statement:

* `runner.RequestTiming.__call__` (`mkRec`): after the delegate has run inside `new_request_context()`, the record
  `{"operation": params.get("name"), "operation-type": params.get("operation-type"), "absolute_time", "request_start":
  start, "request_end": end, "service_time": end - start}` is built from the values the context carries.  `end - start` is
  a float subtraction (`Dbl.fsub`); a context that carries no start or no end (`None`) makes it raise `TypeError`.
* `driver.Sample.dependent_timings` (`depDoc`, first half): one `Sample` per record of the `dependent_timing` list the
  sample was created with (nothing for `None` / `[]`): client id, task and task start of the enclosing sample,
  `absolute_time`, `request_start`, `service_time` of the RECORD, latency / processing time 0, and the record's
  `operation` / `operation-type`, which the properties `operation_name` / `operation_type` replace by the task's operation
  when they are falsy (`None` or `""`).
* `driver.SamplePostprocessor.__call__` (`postGo`, the documents named `service_time` only): `for idx, sample in
  enumerate(raw_samples): if idx % self.downsample_factor == 0:` one document for the sample itself, then one per dependent
  timing: `value = convert.seconds_to_ms(service_time)` (`s * 1000 if s else s`), `relative_time = request_start -
  task_start`, operation / operation type as above.  `downsample_factor = 0` raises `ZeroDivisionError` at the first
  sample; an empty list returns at once.
-/
namespace SubTimings

/-- `params.get("name")`: `none` = Python `None` -/
abbrev PyStr := Option (List Char)

inductive Err
  | typeError          -- `end - start` with `None`
  | zeroDivision       -- `idx % 0`
  deriving DecidableEq, Repr

/-- the `dependent_timing` dict of one sub-request -/
structure TimingRec where
  operation : PyStr
  opType : PyStr
  absTime : Rat
  start : Rat
  stop : Rat
  svc : Rat
  deriving DecidableEq

/-- `RequestTiming.__call__`: the record built from what the sub-request's own context carries -/
def mkRec (name opType : PyStr) (absTime : Rat) (start stop : Option Rat) : Except Err TimingRec :=
  match start, stop with
  | some st, some en => .ok ⟨name, opType, absTime, st, en, Dbl.fsub en st⟩
  | _, _ => .error .typeError

/-- a raw sample as the Sampler holds it (fields the `service_time` documents are built from) -/
structure Smp where
  client : Nat
  taskStart : Rat
  taskOp : List Char
  taskType : List Char
  absTime : Rat
  start : Rat
  svc : Rat
  deps : Option (List TimingRec)

/-- a `service_time` document handed to `put_value_cluster_level` -/
structure Doc where
  client : Nat
  sub : Bool
  operation : List Char
  opType : List Char
  valueMs : Rat
  absTime : Rat
  relTime : Rat
  deriving DecidableEq

/-- `x if x else default` for an optional string: `None` and `""` are falsy -/
def orElse (x : PyStr) (d : List Char) : List Char :=
  match x with
  | some (c :: cs) => c :: cs
  | _ => d

/-- `convert.seconds_to_ms`: `s * 1000 if s else s` -/
def toMs (s : Rat) : Rat := if s = 0 then s else Dbl.fmul s 1000

/-- the document of the sample itself (`_operation_name` / `_operation_type` are `None`) -/
def ownDoc (s : Smp) : Doc :=
  ⟨s.client, false, s.taskOp, s.taskType, toMs s.svc, s.absTime, Dbl.fsub s.start s.taskStart⟩

/-- `Sample.dependent_timings` followed by the `put_value_cluster_level` of the postprocessor, for one record -/
def depDoc (s : Smp) (r : TimingRec) : Doc :=
  ⟨s.client, true, orElse r.operation s.taskOp, orElse r.opType s.taskType, toMs r.svc, r.absTime, Dbl.fsub r.start s.taskStart⟩

/-- `if self._dependent_timing: for t in self._dependent_timing: …` -/
def depDocs (s : Smp) : List Doc :=
  match s.deps with
  | none => []
  | some l => l.map (depDoc s)

/-- everything one kept sample contributes, in the order of the calls -/
def docsOf (s : Smp) : List Doc := ownDoc s :: depDocs s

/-- the loop of `SamplePostprocessor.__call__`: `idx` = `enumerate` counter, `acc` = documents stored so far -/
def postGo (factor : Nat) : Nat → List Smp → List Doc → Except Err (List Doc)
  | _, [], acc => .ok acc
  | idx, s :: rest, acc =>
    if factor = 0 then .error .zeroDivision
    else postGo factor (idx + 1) rest (if idx % factor = 0 then acc ++ docsOf s else acc)

def postprocess (factor : Nat) (smps : List Smp) : Except Err (List Doc) := postGo factor 0 smps []

/-! ### specification side -/

/-- the samples that survive down-sampling, with `enumerate` starting at `idx` -/
def keptFrom (factor : Nat) : Nat → List Smp → List Smp
  | _, [] => []
  | idx, s :: rest => if idx % factor = 0 then s :: keptFrom factor (idx + 1) rest else keptFrom factor (idx + 1) rest

def kept (factor : Nat) (smps : List Smp) : List Smp := keptFrom factor 0 smps

end SubTimings
