/-
Model of esrally/utils/versions.py (components, VersionVariants, best_match,
latest_bounded_minor, _latest_major) and of the branch/tag decision of
esrally/utils/repo.py:RallyRepository.update.

Import-free. Strings are `List Char`; the model's domain is ASCII text without
'\n' (Python's `\d` also accepts other Unicode digits and `$` accepts a trailing
newline; the driver rejects such inputs as out-of-domain instead of guessing).
-/
namespace Versions

abbrev Str := List Char

def isDig (c : Char) : Bool := decide ('0' ≤ c) && decide (c ≤ '9')

/-- value of a digit string, as Python's `int` -/
def digitsVal (ds : Str) : Nat := ds.foldl (fun n c => 10 * n + (c.toNat - 48)) 0

/-- decimal rendering, as Python's `str(int)` / f"{int}" -/
def natStr (n : Nat) : Str := (toString n).toList

/-- `(?:\.(\d+))?` at the head of `s` -/
def optDot (s : Str) : Option Str × Str :=
  match s with
  | '.' :: t =>
    let p := t.span isDig
    if p.1.isEmpty then (none, s) else (some p.1, p.2)
  | _ => (none, s)

/-- the capture groups of a successful match -/
structure Groups where
  g1 : Str
  g2 : Option Str
  g3 : Option Str
  g4 : Option Str
deriving Repr, DecidableEq

/-- `(?:-(.+))?$` -/
def tailSuffix (s : Str) : Option (Option Str) :=
  match s with
  | [] => some none
  | '-' :: t => if t.isEmpty then none else some (some t)
  | _ => none

/-- VERSIONS_OPTIONAL = ^(\d+)(?:\.(\d+))?(?:\.(\d+))?(?:-(.+))?$ -/
def matchOptional (s : Str) : Option Groups :=
  let p1 := s.span isDig
  if p1.1.isEmpty then none else
  let q2 := optDot p1.2
  let q3 := optDot q2.2
  match tailSuffix q3.2 with
  | none => none
  | some g4 => some ⟨p1.1, q2.1, q3.1, g4⟩

/-- VERSIONS = ^(\d+)\.(\d+)\.(\d+)(?:-(.+))?$ -/
def matchStrict (s : Str) : Option Groups :=
  match matchOptional s with
  | some g => if g.g2.isSome && g.g3.isSome then some g else none
  | none => none

def isVersionIdentifier (s : Str) (strict : Bool) : Bool :=
  if strict then (matchStrict s).isSome else (matchOptional s).isSome

structure Comp where
  major : Nat
  minor : Option Nat
  patch : Option Nat
  suffix : Option Str
deriving Repr, DecidableEq

inductive Err
  | invalidSyntax   -- exceptions.InvalidSyntax
  | typeError       -- int(None) inside components()
deriving Repr, DecidableEq

/-- `components(version, strict)` — the if/elif chain on `matches.start(k) > 0` -/
def componentsOfGroups (g : Groups) : Except Err Comp :=
  match g.g4 with
  | some s => .ok ⟨digitsVal g.g1, g.g2.map digitsVal, g.g3.map digitsVal, some s⟩
  | none =>
    match g.g3 with
    | some b =>
      match g.g2 with
      | some a => .ok ⟨digitsVal g.g1, some (digitsVal a), some (digitsVal b), none⟩
      | none => .error .typeError
    | none =>
      match g.g2 with
      | some a => .ok ⟨digitsVal g.g1, some (digitsVal a), none, none⟩
      | none => .ok ⟨digitsVal g.g1, none, none, none⟩

def components (s : Str) (strict : Bool) : Except Err Comp :=
  match (if strict then matchStrict s else matchOptional s) with
  | none => .error .invalidSyntax
  | some g => componentsOfGroups g

/-- VersionVariants of a *strict* version -/
structure Variants where
  major : Nat
  minor : Nat
  patch : Nat
  suffix : Option Str
deriving Repr, DecidableEq

def Variants.withMajor (v : Variants) : Str := natStr v.major
def Variants.withMinor (v : Variants) : Str := natStr v.major ++ ['.'] ++ natStr v.minor
def Variants.withPatch (v : Variants) : Str := v.withMinor ++ ['.'] ++ natStr v.patch
def Variants.withSuffix (v : Variants) : Option Str := v.suffix.map (fun s => v.withPatch ++ ['-'] ++ s)

def variantsOf (s : Str) : Option Variants :=
  match matchStrict s with
  | some ⟨g1, some g2, some g3, g4⟩ => some ⟨digitsVal g1, digitsVal g2, digitsVal g3, g4⟩
  | _ => none

/-- one step of the loop in `latest_bounded_minor` / `_latest_major`: parse a branch name -/
def parseAlt (a : Str) : Except Err (Option Comp) :=
  match matchOptional a with
  | none => .ok none
  | some g => (componentsOfGroups g).map some

def parseAlts : List Str → Except Err (List Comp)
  | [] => .ok []
  | a :: as =>
    match parseAlt a with
    | .error e => .error e
    | .ok none => parseAlts as
    | .ok (some c) =>
      match parseAlts as with
      | .error e => .error e
      | .ok cs => .ok (c :: cs)

/-- is `minor` counted as a usable minor?  Pinned code: `minor and …` (0 is falsy).
    After the repair: `minor is not None`. The model follows the *current* tree; the
    correspondence check detects which one that is. -/
def minorUsable (minor : Option Nat) : Option Nat := minor

/-- eligible minors of `latest_bounded_minor` -/
def eligibleMinors (cs : List Comp) (major minor : Nat) : List Nat :=
  cs.filterMap fun c =>
    if c.patch.isSome || c.suffix.isSome then none
    else if c.major == major then
      match minorUsable c.minor with
      | some m => if m ≤ minor then some m else none
      | none => none
    else none

def maxList : List Nat → Option Nat
  | [] => none
  | x :: xs => match maxList xs with
    | none => some x
    | some y => some (max x y)

/-- `latest_bounded_minor`: all eligible are ≤ target.minor, so the closest is the maximum -/
def latestBoundedMinor (alts : List Str) (v : Variants) : Except Err (Option Nat) :=
  (parseAlts alts).map fun cs => maxList (eligibleMinors cs v.major v.minor)

/-- `_latest_major`, as an Int (−1 when no versioned alternative) -/
def latestMajor (alts : List Str) : Except Err Int :=
  (parseAlts alts).map fun cs => cs.foldl (fun m c => max m (c.major : Int)) (-1)

def master : Str := ['m', 'a', 's', 't', 'e', 'r']
def serverless : Str := ['s', 'e', 'r', 'v', 'e', 'r', 'l', 'e', 's', 's']

/-- which rule of the precedence fired -/
inductive Pick
  | suffix (w : Str) | patch | minor | prior (k : Nat) | major | master | none
deriving Repr, DecidableEq

def suffixIn (alts : List Str) (v : Variants) : Bool :=
  match v.withSuffix with
  | some w => alts.contains w
  | none => false

/-- the loop over `all_versions` (most specific first) and the master fallback of `best_match` -/
def pickFor (alts : List Str) (v : Variants) : Except Err Pick :=
  if suffixIn alts v then .ok (.suffix (v.withSuffix.getD []))
  else if alts.contains v.withPatch then .ok .patch
  else if alts.contains v.withMinor then .ok .minor
  else
    match latestBoundedMinor alts v with
    | .error e => .error e
    | .ok (some m) => .ok (.prior m)
    | .ok none =>
      if alts.contains v.withMajor then .ok .major
      else
        match latestMajor alts with
        | .error e => .error e
        | .ok lm => if (v.major : Int) > lm then .ok .master else .ok .none

def renderPick (v : Variants) : Pick → Option Str
  | .suffix w => some w
  | .patch => some v.withPatch
  | .minor => some v.withMinor
  | .prior k => some (natStr v.major ++ ['.'] ++ natStr k)
  | .major => some v.withMajor
  | .master => some master
  | .none => none

/-- `best_match(available_alternatives, distribution_version)` -/
def bestMatch (alts : List Str) (dv : Option Str) : Except Err (Option Str) :=
  match dv with
  | none => .ok (some master)
  | some s =>
    match variantsOf s with
    | some v => (pickFor alts v).map (renderPick v)
    | none =>
      if s == serverless then .ok (some master)
      else if s.isEmpty then .ok (some master)
      else .ok none

/-! ### repository layer (repo.py: RallyRepository.update) -/

deriving instance DecidableEq for Except

inductive Checkout
  | remoteBranch (b : Str)     -- checkout + rebase on origin
  | localBranch (b : Str)
  | tag (t : Str)
deriving Repr, DecidableEq

inductive RepoErr
  | versions (e : Err)
  | notFound                   -- SystemSetupError "Cannot find … for distribution version"
deriving Repr, DecidableEq

def findMatchingTag (tags : List Str) (dv : Option Str) : Except RepoErr (Option Str) :=
  match dv with
  | none => .error (.versions .typeError)     -- components(None) → re.match(None) TypeError
  | some s =>
    match variantsOf s with
    | none => .error (.versions .invalidSyntax)
    | some v =>
      let cands := (match v.withSuffix with | some w => [w] | none => []) ++ [v.withPatch, v.withMinor, v.withMajor]
      .ok ((cands.map (fun c => 'v' :: c)).find? (fun t => tags.contains t))

def repoUpdate (remote : Bool) (remoteBr localBr tags : List Str) (dv : Option Str) : Except RepoErr Checkout :=
  let localPart : Except RepoErr Checkout :=
    match bestMatch localBr dv with
    | .error e => .error (.versions e)
    | .ok (some b) => .ok (.localBranch b)
    | .ok none =>
      match findMatchingTag tags dv with
      | .error e => .error e
      | .ok (some t) => .ok (.tag t)
      | .ok none => .error .notFound
  if remote then
    match bestMatch remoteBr dv with
    | .error e => .error (.versions e)
    | .ok (some b) => .ok (.remoteBranch b)
    | .ok none => localPart
  else localPart

end Versions
