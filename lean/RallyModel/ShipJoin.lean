/-! Worker side of a step end at sub-handler granularity (C07).

`Worker.receiveMsg_WakeupMessage` and `Worker.drive` (esrally/driver/driver.py) run on the actor's thread while the load generator
(`AsyncIoAdapter` submitted to the worker's `ThreadPoolExecutor`) runs on another one and calls `Sampler.add`. The handler is not atomic
with respect to that thread. Its steps, in program order:

    current_samples = self.send_samples()                      -- wakeDrain : drain the sampler queue, ship it if non-empty
    elif self.executor_future is not None and ….done():        -- checkDone : read done(); not done → re-arm the wake-up (back to idle)
        self.executor_future = None; self.drive()               --             done → clear the future, enter drive()
    drive(): at a join point
        if self.executor_future is not None: ….result()         -- driveWait : blocks until the thread has finished (if a future is set)
        self.send_samples()                                     -- driveDrain: drain + ship again
        …; self.executor_future = None; self.sampler = None     -- driveDrop : whatever is still queued is gone with the sampler
        self.send(self.driver_actor, JoinPointReached(…))       -- sendJoin

and the thread's steps: `add` (Sampler.add of its next sample) and `finish` (the future becomes done; it may finish early — cancelled /
completed by another client — so `finish` is enabled at any time and the samples not yet added are never added).

`jd` (join-point drain) is the rule that matters: with `jd = false` driveDrain ships nothing (a `drive()` that relies on the handler's drain). -/

namespace ShipJoin

inductive Msg where
  | update (ids : List Nat)
  | joinPoint
deriving DecidableEq, Repr

inductive Pc where
  | idle | drained | cleared | waited | shipped | dropped | joined
deriving DecidableEq, Repr

inductive Ev where
  | add | finish | wakeDrain | checkDone | driveWait | driveDrain | driveDrop | sendJoin
deriving DecidableEq, Repr

structure St where
  todo : List Nat        -- what the thread would still add
  added : List Nat       -- what it has added (Sampler.add calls, in order)
  finished : Bool        -- executor_future.done()
  q : List Nat           -- Sampler.q
  futureSet : Bool       -- self.executor_future is not None
  pc : Pc
  sent : List Msg        -- messages sent to the driver, in order
  lost : List Nat        -- samples that were in the queue when the sampler was dropped
deriving DecidableEq, Repr

def init (todo : List Nat) : St := ⟨todo, [], false, [], true, .idle, [], []⟩

/-- `Worker.send_samples`: drain the queue; an `UpdateSamples` message only if there is something to send -/
def ship (s : St) : St :=
  match s.q with
  | [] => s
  | x :: r => { s with sent := s.sent ++ [Msg.update (x :: r)], q := [] }

def step (jd : Bool) (e : Ev) (s : St) : Option St :=
  match e with
  | .add =>
    match s.todo with
    | [] => none
    | x :: r => if s.finished then none else some { s with todo := r, added := s.added ++ [x], q := s.q ++ [x] }
  | .finish => if s.finished then none else some { s with finished := true }
  | .wakeDrain => if s.pc = .idle then some { ship s with pc := .drained } else none
  | .checkDone =>
    if s.pc = .drained then
      (if s.futureSet && s.finished then some { s with futureSet := false, pc := .cleared } else some { s with pc := .idle })
    else none
  | .driveWait =>
    if s.pc = .cleared then (if s.futureSet && !s.finished then none else some { s with pc := .waited }) else none
  | .driveDrain => if s.pc = .waited then some { (if jd then ship s else s) with pc := .shipped } else none
  | .driveDrop =>
    if s.pc = .shipped then some { s with lost := s.lost ++ s.q, q := [], futureSet := false, pc := .dropped } else none
  | .sendJoin => if s.pc = .dropped then some { s with sent := s.sent ++ [Msg.joinPoint], pc := .joined } else none

def run (jd : Bool) : List Ev → St → Option St
  | [], s => some s
  | e :: es, s => (step jd e s).bind (run jd es)

/-- the ids in the `UpdateSamples` messages of a message list, in sending order -/
def shipped : List Msg → List Nat
  | [] => []
  | .update ids :: r => ids ++ shipped r
  | .joinPoint :: r => shipped r

/-- the ids shipped before the first `JoinPointReached` -/
def shippedBefore : List Msg → List Nat
  | [] => []
  | .update ids :: r => ids ++ shippedBefore r
  | .joinPoint :: _ => []

end ShipJoin
