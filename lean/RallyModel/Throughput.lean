import RallyModel.Dbl
/-!
# Model of `esrally.driver.driver.ThroughputCalculator` (property C06)

Statement-by-statement mirror of `ThroughputCalculator.calculate`, `calculate_task_throughput`,
`map_task_throughput` and the nested `TaskStats`.  Floats are the rationals they denote
(`RallyModel/Dbl.lean`): `a - b` on floats is `Dbl.fsub`, `total_count / interval` is
`Dbl.fdiv (Dbl.ofNat total) interval`, `int(interval)` is `Dbl.ftrunc`; comparisons are exact.

`fix : Bool`: `fix = true` is the code as it is now (`current.unprocessed = []` right after
`current = self.task_stats[task]`, /repo commit d4fc0e7); `fix = false` is the code before that commit, kept
only for the historical witness in `RallyProps/C06.lean` (the carried-over samples were appended a second time
by a call that completed no bucket).  `current` names the variant that mirrors the code; the line-protocol
driver and the correspondence check use `current`.
-/
namespace Throughput

/-- the fields of `driver.Sample` the calculator reads -/
structure TSample where
  abs : Rat            -- absolute_time
  rel : Rat            -- relative_time (= request_start - task_start, computed by Sample)
  period : Rat         -- time_period
  ops : Nat            -- total_ops
  unit : List Char     -- total_ops_unit
  normal : Bool        -- sample_type == SampleType.Normal (Warmup = 0 < Normal = 1)
  tput : Option Rat    -- throughput supplied by the runner (None = calculate)
deriving Repr, DecidableEq

/-- one returned tuple `(absolute_time, relative_time, sample_type, throughput, unit)` -/
structure Out where
  abs : Rat
  rel : Rat
  normal : Bool
  value : Option Rat   -- `None` only when map_task_throughput copies a sample without throughput
  unit : List Char
deriving Repr, DecidableEq

/-- `ThroughputCalculator.TaskStats` -/
structure TaskStats where
  unprocessed : List TSample
  total : Nat          -- total_count
  interval : Rat
  bucketInterval : Nat
  bucket : Int         -- int(interval) + bucket_interval
  normal : Bool        -- sample_type
  hasSamples : Bool    -- has_samples_in_sample_type
  start : Rat          -- start_time
deriving Repr, DecidableEq

/-- Python `max(a, b)` on numbers: the first argument unless the second is strictly greater -/
def pyMax (a b : Rat) : Rat := if a < b then b else a

def sumOps : List TSample → Nat
  | [] => 0
  | s :: l => s.ops + sumOps l

/-- `sorted(xs, key=lambda s: s.absolute_time)`: stable, so it is *the* stable insertion sort -/
def insertByAbs (s : TSample) : List TSample → List TSample
  | [] => [s]
  | t :: ts => if t.abs < s.abs then t :: insertByAbs s ts else s :: t :: ts

def sortByAbs : List TSample → List TSample
  | [] => []
  | s :: l => insertByAbs s (sortByAbs l)

namespace TaskStats

def init (bi : Nat) (first : TSample) : TaskStats :=
  { unprocessed := [], total := 0, interval := 0, bucketInterval := bi, bucket := (bi : Int),
    normal := first.normal, hasSamples := false, start := Dbl.fsub first.abs first.period }

/-- `total_count / interval` -/
def throughput (t : TaskStats) : Rat := Dbl.fdiv (Dbl.ofNat t.total) t.interval

def maybeUpdateSampleType (t : TaskStats) (cur : Bool) : TaskStats :=
  if !t.normal && cur then { t with normal := cur, hasSamples := false } else t

def updateInterval (t : TaskStats) (a : Rat) : TaskStats :=
  { t with interval := pyMax (Dbl.fsub a t.start) t.interval }

def canCalculate (t : TaskStats) : Bool :=
  decide (0 < t.interval) && decide ((t.bucket : Rat) ≤ t.interval)

def canAddFinal (t : TaskStats) : Bool :=
  decide (0 < t.interval) && !t.hasSamples

def finishBucket (t : TaskStats) (newTotal : Nat) : TaskStats :=
  { t with unprocessed := [], total := newTotal, hasSamples := true,
           bucket := Dbl.ftrunc t.interval + (t.bucketInterval : Int) }

end TaskStats

def mkOut (s : TSample) (cur : TaskStats) : Out :=
  { abs := s.abs, rel := s.rel, normal := cur.normal, value := some cur.throughput,
    unit := s.unit ++ ['/', 's'] }

/-- state after the sample's bookkeeping, before the bucket test -/
def touch (cur : TaskStats) (s : TSample) : TaskStats :=
  (cur.maybeUpdateSampleType s.normal).updateInterval s.abs

/-- the `for sample in current_samples` loop; returns (state, count, emitted tuples) -/
def loop (cur : TaskStats) (count : Nat) : List TSample → TaskStats × Nat × List Out
  | [] => (cur, count, [])
  | s :: rest =>
    let cur1 := touch cur s
    let count1 := count + s.ops
    if cur1.canCalculate then
      let cur2 := cur1.finishBucket count1
      let r := loop cur2 count1 rest
      (r.1, r.2.1, mkOut s cur2 :: r.2.2)
    else
      loop { cur1 with unprocessed := cur1.unprocessed ++ [s] } count1 rest

/-- the trailing `if last_sample is not None and current.can_add_final_throughput_sample()` -/
def finalStep (cur : TaskStats) (count : Nat) (last : TSample) : TaskStats × List Out :=
  if cur.canAddFinal then
    let c := cur.finishBucket count
    (c, [mkOut last c])
  else (cur, [])

/-- `self.task_stats[task]`, created from the first (earliest) sample of the call if the task is new -/
def startState (bi : Nat) (st : Option TaskStats) (first : TSample) : TaskStats :=
  match st with
  | some t => t
  | none => TaskStats.init bi first

/-- body of `calculate_task_throughput` once `current = self.task_stats[task]` is known -/
def processFrom (fix : Bool) (cur0 : TaskStats) (cs : List TSample) : TaskStats × List Out :=
  let cur := if fix then { cur0 with unprocessed := [] } else cur0
  let r := loop cur cur.total cs
  match cs.getLast? with
  | none => (r.1, r.2.2)
  | some last =>
    let f := finalStep r.1 r.2.1 last
    (f.1, r.2.2 ++ f.2)

/-- `calculate_task_throughput(task, current_samples, bucket_interval_secs)`, `first = current_samples[0]` -/
def calcTaskThroughput (fix : Bool) (bi : Nat) (st : Option TaskStats) (first : TSample)
    (cs : List TSample) : TaskStats × List Out :=
  processFrom fix (startState bi st first) cs

/-- `map_task_throughput(current_samples)` -/
def mapTaskThroughput (cs : List TSample) : List Out :=
  cs.map fun s => { abs := s.abs, rel := s.rel, normal := s.normal, value := s.tput,
                    unit := s.unit ++ ['/', 's'] }

def carried : Option TaskStats → List TSample
  | some t => t.unprocessed
  | none => []

/-- what one `calculate(samples)` call does for one task, `batch` = the samples of that task in
    `samples` (in order).  A task without samples in the call is not touched at all. -/
def calcTask (fix : Bool) (bi : Nat) (st : Option TaskStats) (batch : List TSample) :
    Option TaskStats × List Out :=
  match batch with
  | [] => (st, [])
  | _ :: _ =>
    match sortByAbs (batch ++ carried st) with
    | [] => (st, [])
    | first :: rest =>
      match first.tput with
      | some _ => (st, mapTaskThroughput (first :: rest))
      | none =>
        let r := calcTaskThroughput fix bi st first (first :: rest)
        (some r.1, r.2)

/-- successive `calculate` calls on one calculator instance, one task -/
def run (fix : Bool) (bi : Nat) : Option TaskStats → List (List TSample) → Option TaskStats × List (List Out)
  | st, [] => (st, [])
  | st, b :: bs =>
    let r := calcTask fix bi st b
    let r2 := run fix bi r.1 bs
    (r2.1, r.2 :: r2.2)

/-- the variant that mirrors the code (repaired by /repo commit d4fc0e7) -/
def current : Bool := true

/-! ## several tasks: `calculate(samples)` with the `task_stats` dictionary -/

/-- `samples_per_task`: group by task key, keys in first-occurrence order, samples in order -/
def addToGroup (k : Nat) (s : TSample) : List (Nat × List TSample) → List (Nat × List TSample)
  | [] => [(k, [s])]
  | (k', v) :: g => if k' = k then (k', v ++ [s]) :: g else (k', v) :: addToGroup k s g

def groupByTask (samples : List (Nat × TSample)) : List (Nat × List TSample) :=
  samples.foldl (fun g ks => addToGroup ks.1 ks.2 g) []

def lookupStats (k : Nat) : List (Nat × TaskStats) → Option TaskStats
  | [] => none
  | (k', t) :: l => if k' = k then some t else lookupStats k l

def setStats (k : Nat) (t : TaskStats) : List (Nat × TaskStats) → List (Nat × TaskStats)
  | [] => [(k, t)]
  | (k', t') :: l => if k' = k then (k, t) :: l else (k', t') :: setStats k t l

def calcGroups (fix : Bool) (bi : Nat) (stats : List (Nat × TaskStats)) :
    List (Nat × List TSample) → List (Nat × TaskStats) × List (Nat × List Out)
  | [] => (stats, [])
  | (k, v) :: g =>
    let r := calcTask fix bi (lookupStats k stats) v
    let stats' := match r.1 with
      | some t => setStats k t stats
      | none => stats
    let r2 := calcGroups fix bi stats' g
    (r2.1, (k, r.2) :: r2.2)

/-- `ThroughputCalculator.calculate(samples, bucket_interval_secs)`; samples tagged with their task key -/
def calculate (fix : Bool) (bi : Nat) (stats : List (Nat × TaskStats)) (samples : List (Nat × TSample)) :
    List (Nat × TaskStats) × List (Nat × List Out) :=
  calcGroups fix bi stats (groupByTask samples)

/-- successive `calculate` calls on one calculator instance, all tasks -/
def runAll (fix : Bool) (bi : Nat) : List (Nat × TaskStats) → List (List (Nat × TSample)) →
    List (Nat × TaskStats) × List (List (Nat × List Out))
  | stats, [] => (stats, [])
  | stats, c :: cs =>
    let r := calculate fix bi stats c
    let r2 := runAll fix bi r.1 cs
    (r2.1, r.2 :: r2.2)

/-- the samples of task `k` in one call, in order -/
def samplesOf (k : Nat) (samples : List (Nat × TSample)) : List TSample :=
  (samples.filter (fun ks => ks.1 == k)).map (·.2)

/-- the tuples returned for task `k` by one call (`[]` if the task is not in the returned dictionary) -/
def outsOf (k : Nat) : List (Nat × List Out) → List Out
  | [] => []
  | (k', o) :: l => if k' = k then o else outsOf k l

/-! ## the owner of the calculator: `SamplePostprocessor.__call__` and the driver's sample buffer

Only the throughput part.  The post-processor owns ONE calculator for the whole race and hands it every raw sample of
the batch (the down-sampling factor applies to the latency / service-time records only); nothing of a sample but the
fields in `TSample` reaches the calculator — in particular not `percent_completed` or the client id — and the
per-task state is never dropped or reset between batches. -/

/-- the `put_value_cluster_level(name="throughput", …)` calls of one batch: task by task in dictionary order -/
def recordsOf (aggr : List (Nat × List Out)) : List (Nat × Out) :=
  aggr.flatMap (fun ko => ko.2.map (fun o => (ko.1, o)))

/-- `SamplePostprocessor.__call__(raw_samples)`: returns at once for an empty list, otherwise
    `aggregates = self.throughput_calculator.calculate(raw_samples)` (default bucket of 1 s) and one record per tuple -/
def postprocess (stats : List (Nat × TaskStats)) (raw : List (Nat × TSample)) :
    List (Nat × TaskStats) × List (Nat × Out) :=
  match raw with
  | [] => (stats, [])
  | _ :: _ =>
    let r := calculate current 1 stats raw
    (r.1, recordsOf r.2)

/-- successive post-processing runs of one race -/
def postprocessAll : List (Nat × TaskStats) → List (List (Nat × TSample)) →
    List (Nat × TaskStats) × List (List (Nat × Out))
  | stats, [] => (stats, [])
  | stats, c :: cs =>
    let r := postprocess stats c
    let r2 := postprocessAll r.1 cs
    (r2.1, r.2 :: r2.2)

/-- what happens at the driver: a shipment of samples from a worker (`Driver.update_samples`) or a post-processing
    run (`Driver.post_process_samples`: snapshot the buffer, empty it, post-process the snapshot) -/
inductive DEvent where
  | update (samples : List (Nat × TSample))
  | postProcess

/-- records written by each post-processing run; state = (`raw_samples` buffer, calculator) -/
def driverRun (buf : List (Nat × TSample)) (stats : List (Nat × TaskStats)) :
    List DEvent → (List (Nat × TSample) × List (Nat × TaskStats)) × List (List (Nat × Out))
  | [] => ((buf, stats), [])
  | .update samples :: evs => driverRun (buf ++ samples) stats evs
  | .postProcess :: evs =>
    let r := postprocess stats buf
    let r2 := driverRun [] r.1 evs
    (r2.1, r.2 :: r2.2)

/-- the batches the events cut the shipped stream into -/
def driverBatches (buf : List (Nat × TSample)) : List DEvent → List (List (Nat × TSample))
  | [] => []
  | .update samples :: evs => driverBatches (buf ++ samples) evs
  | .postProcess :: evs => buf :: driverBatches [] evs

/-- everything shipped, in arrival order -/
def shipped : List DEvent → List (Nat × TSample)
  | [] => []
  | .update samples :: evs => samples ++ shipped evs
  | .postProcess :: evs => shipped evs

/-- the throughput records of task `k` among the records of one run -/
def recsOf (k : Nat) (recs : List (Nat × Out)) : List Out :=
  (recs.filter (fun r => r.1 == k)).map (·.2)

/-! ## before the calculator: runner result → `execute_single` → `AsyncExecutor` → `Sampler.add` → `Sample`

Only what reaches the throughput calculation: `total_ops`, `total_ops_unit` and the `throughput` entry. -/

/-- what one runner call produced -/
inductive RResult where
  /-- a 2-tuple `(weight, unit)` -/
  | pair (w : Nat) (unit : List Char)
  /-- a dict: the entries `"weight"`, `"unit"` (absent = `none`) and `"throughput"` (absent = `none`,
      present with value `None` = `some none`, present with a number = `some (some v)`) -/
  | dict (w : Option Nat) (unit : Option (List Char)) (tput : Option (Option Rat))
  /-- anything else (e.g. `None`) -/
  | other
  /-- the runner raised an error that `execute_single` turns into a failed request -/
  | failed

/-- `execute_single` (`weight` defaults to 1, `unit` to "ops") followed by
    `throughput = request_meta_data.pop("throughput", None)` in `AsyncExecutor.__call__`:
    (total_ops, total_ops_unit, throughput) -/
def resultOps : RResult → Nat × List Char × Option Rat
  | .pair w u => (w, u, none)
  | .dict w u t => (w.getD 1, u.getD ['o', 'p', 's'], match t with
      | some v => v
      | none => none)
  | .other => (1, ['o', 'p', 's'], none)
  | .failed => (0, ['o', 'p', 's'], none)

/-- the throughput the runner supplied with this call, if any -/
def supplied (r : RResult) : Option Rat := (resultOps r).2.2

/-- the time stamps and the sample type the executor attaches -/
structure Timing where
  abs : Rat
  rel : Rat
  period : Rat
  normal : Bool

/-- the `Sample` that `Sampler.add` enqueues -/
def sampleOf (tm : Timing) (r : RResult) : TSample :=
  { abs := tm.abs, rel := tm.rel, period := tm.period, ops := (resultOps r).1, unit := (resultOps r).2.1,
    normal := tm.normal, tput := supplied r }

/-- the clock readings `AsyncExecutor.__call__` turns into a sample's time stamps.  `totalStart` is the performance counter
    read when the executor starts working on the task — *before* the ramp-up wait, which therefore does not appear here;
    `epoch` is the constant offset between `time.time()` and `time.perf_counter()` -/
structure ReqClock where
  epoch : Rat
  totalStart : Rat
  samplerStart : Rat
  processingStart : Rat
  requestStart : Rat
  requestEnd : Rat

/-- `absolute_time = absolute_processing_start`, `relative_time = request_start - task_start`,
    `time_period = request_end - total_start` -/
def execTiming (c : ReqClock) (normal : Bool) : Timing :=
  { abs := c.epoch + c.processingStart, rel := c.requestStart - c.samplerStart, period := c.requestEnd - c.totalStart,
    normal := normal }

/-! ## a metrics store that fails

`Driver.post_process_samples` does not catch anything: an error raised by the store while a batch is post-processed
leaves it, the actor reports a benchmark failure and the race is aborted.  Nothing is retried. -/

inductive FEvent where
  | update (samples : List (Nat × TSample))
  | postProcess
  /-- a post-processing run during which the store raises: after `written = some j` throughput records of the run were
      stored, or (`none`) in the final `flush()`, i.e. after all of them -/
  | faultyRun (written : Option Nat)

/-- throughput records written by each post-processing run of a race whose store may fail -/
def driverRunF (buf : List (Nat × TSample)) (stats : List (Nat × TaskStats)) : List FEvent → List (List (Nat × Out))
  | [] => []
  | .update samples :: evs => driverRunF (buf ++ samples) stats evs
  | .postProcess :: evs =>
    let r := postprocess stats buf
    r.2 :: driverRunF [] r.1 evs
  | .faultyRun w :: _ =>
    [match w with
     | none => (postprocess stats buf).2
     | some j => (postprocess stats buf).2.take j]

/-- the same events with a store that never fails -/
def healed : FEvent → DEvent
  | .update s => .update s
  | .postProcess => .postProcess
  | .faultyRun _ => .postProcess

/-! ## the transport in front of the driver: samplers, worker shipments, messages in flight

A worker's `send_samples()` (at every wake-up while its executor runs, and before it moves on when the executor is done —
to a join point or to the next task of its clients) drains its sampler completely into ONE `UpdateSamples` message (no message
if there is nothing); messages of one worker arrive in the order they were sent; the driver appends them to its buffer. -/

inductive TEvent where
  /-- `Sampler.add` accepts a sample on worker `w` -/
  | accept (w : Nat) (s : Nat × TSample)
  /-- worker `w` ships -/
  | ship (w : Nat)
  /-- the oldest message of worker `w` still in flight is delivered to the driver -/
  | deliver (w : Nat)
  /-- `Driver.post_process_samples` -/
  | postProcess

structure TState where
  queued : List (Nat × (Nat × TSample))            -- (worker, sample) in the samplers, in acceptance order
  inflight : List (Nat × List (Nat × TSample))     -- (worker, message) sent, not yet delivered
  buf : List (Nat × TSample)                       -- `Driver.raw_samples`
  stats : List (Nat × TaskStats)                   -- the calculator

/-- the oldest message of worker `w`, and the messages that stay in flight -/
def takeMsg (w : Nat) : List (Nat × List (Nat × TSample)) →
    Option (List (Nat × TSample) × List (Nat × List (Nat × TSample)))
  | [] => none
  | (w', c) :: l =>
    if w' = w then some (c, l)
    else match takeMsg w l with
      | some (c', l') => some (c', (w', c) :: l')
      | none => none

def tstep (st : TState) : TEvent → TState
  | .accept w s => { st with queued := st.queued ++ [(w, s)] }
  | .ship w =>
    match (st.queued.filter (fun x => x.1 == w)).map (·.2) with
    | [] => st
    | c :: cs => { st with queued := st.queued.filter (fun x => !(x.1 == w)), inflight := st.inflight ++ [(w, c :: cs)] }
  | .deliver w =>
    match takeMsg w st.inflight with
    | none => st
    | some (c, rest) => { st with inflight := rest, buf := st.buf ++ c }
  | .postProcess => { st with buf := [], stats := (postprocess st.stats st.buf).1 }

def tfinal (st : TState) : List TEvent → TState
  | [] => st
  | e :: evs => tfinal (tstep st e) evs

/-- the batches the post-processing runs see -/
def tbatches (st : TState) : List TEvent → List (List (Nat × TSample))
  | [] => []
  | .postProcess :: evs => st.buf :: tbatches (tstep st .postProcess) evs
  | e :: evs => tbatches (tstep st e) evs

/-- the throughput records each post-processing run writes -/
def trecords (st : TState) : List TEvent → List (List (Nat × Out))
  | [] => []
  | .postProcess :: evs => (postprocess st.stats st.buf).2 :: trecords (tstep st .postProcess) evs
  | e :: evs => trecords (tstep st e) evs

/-- every sample that is somewhere between a sampler and the calculator -/
def TState.held (st : TState) : List (Nat × TSample) :=
  st.buf ++ ((st.inflight.map (·.2)).flatten ++ st.queued.map (·.2))

/-- the samples the samplers accepted -/
def acceptedOf : List TEvent → List (Nat × TSample)
  | [] => []
  | .accept _ s :: evs => s :: acceptedOf evs
  | _ :: evs => acceptedOf evs

def TState.empty : TState := { queued := [], inflight := [], buf := [], stats := [] }

/-! ## the configuration in front of the post-processor (`Driver.prepare_benchmark`) and the driver buffer under it

`reporting/metrics.request.downsample.factor` (absent = 1) is read once in `Driver.prepare_benchmark` and handed to the
`SamplePostprocessor`; `Driver.update_samples` appends EVERY sample of every `UpdateSamples` message to `raw_samples`
whatever the factor is; in `SamplePostprocessor.__call__` the factor selects the samples that get latency / service-time /
processing-time records (`idx % factor == 0`), the calculator gets the complete batch. -/

/-- `int(config.opts("reporting", "metrics.request.downsample.factor", mandatory=False, default_value=1))` -/
def downsampleFactor (opt : Option Nat) : Nat := opt.getD 1

/-- `for idx, sample in enumerate(raw_samples): if idx % factor == 0`, `idx` starting at `i` -/
def everyNthFrom {α : Type} (f : Nat) : Nat → List α → List α
  | _, [] => []
  | i, x :: xs => if i % f = 0 then x :: everyNthFrom f (i + 1) xs else everyNthFrom f (i + 1) xs

/-- the samples of one batch that get request-metric records -/
def requestMetricSamples {α : Type} (f : Nat) (raw : List α) : List α := everyNthFrom f 0 raw

/-- a race with the option set to `opt`: per post-processing run (samples with request-metric records, throughput records);
    state = (`raw_samples` buffer, calculator) -/
def driverRunCfg (opt : Option Nat) (buf : List (Nat × TSample)) (stats : List (Nat × TaskStats)) :
    List DEvent → (List (Nat × TSample) × List (Nat × TaskStats)) × List (List (Nat × TSample) × List (Nat × Out))
  | [] => ((buf, stats), [])
  | .update samples :: evs => driverRunCfg opt (buf ++ samples) stats evs
  | .postProcess :: evs =>
    let r := postprocess stats buf
    let r2 := driverRunCfg opt [] r.1 evs
    (r2.1, (requestMetricSamples (downsampleFactor opt) buf, r.2) :: r2.2)

/-! ## the throttling wait in front of a request (`AsyncExecutor.__call__`, target throughput)

`expected_scheduled_time` comes from the schedule (0 = not throttled).  A throttled client sleeps until
`total_start + expected_scheduled_time` if that lies ahead (`rest > 0`) and does not sleep at all when it is behind
schedule; AFTER that the wall clock is read (`absolute_processing_start = time.time()`), which becomes the sample's
`absolute_time` — the time the calculator derives the elapsed time of the task from. -/

/-- performance counter at `processing_start`; `free` = performance counter when the schedule hands out the request -/
def throttleStart (totalStart free expected : Rat) : Rat :=
  if expected > 0 then
    (if totalStart + expected - free > 0 then free + (totalStart + expected - free) else free)
  else free

/-- one scheduled request: its `expected_scheduled_time` and how long it takes from `processing_start` until the
    client asks the schedule for the next one -/
structure SchedReq where
  expected : Rat
  busy : Rat

/-- the requests of one client, one after the other: (performance counter at `processing_start`, when the client is free again) -/
def clientRun (totalStart : Rat) : Rat → List SchedReq → List (Rat × Rat)
  | _, [] => []
  | free, q :: qs =>
    let s := throttleStart totalStart free q.expected
    (s, s + q.busy) :: clientRun totalStart (s + q.busy) qs

/-- the clock readings of a request that started at performance counter `s` (request sent `lat` later, answered after `svc`) -/
def reqClockAt (epoch totalStart samplerStart s lat svc : Rat) : ReqClock :=
  { epoch := epoch, totalStart := totalStart, samplerStart := samplerStart, processingStart := s,
    requestStart := s + lat, requestEnd := s + lat + svc }

def sumBusy : List SchedReq → Rat
  | [] => 0
  | q :: qs => q.busy + sumBusy qs

end Throughput
