import RallyModel.JsonFast
/-!
# C19, second model file: what the bulk paths SAY about the failures, and searches in flight together

1. `BulkIndex.error_description` / `_error_status_summary`: the text both bulk paths report under
   `error-description`, as a function of the set of `(status, reason)` pairs collected from the failed items.
2. Small-step view of `Query._search_after_query`: one quantum = one page request (the `await` at which
   `asyncio` switches to another search that is in flight on the SAME registered `Query` object).
-/
namespace JsonFast

/-! ## 1. error description -/

/-- Python `str < str`: lexicographic by code point -/
def strLt : Str → Str → Bool
  | [], [] => false
  | [], _ :: _ => true
  | _ :: _, [] => false
  | a :: as, b :: bs => if a.val < b.val then true else if b.val < a.val then false else strLt as bs

/-- `key=lambda detail: (detail[0], detail[1] or "")` -/
def detKey (d : Int × Option Str) : Int × Str :=
  (d.1, match d.2 with
        | some r => r
        | none => [])

/-- `k₁ <= k₂` on the sort keys (tuple comparison) -/
def keyLe (a b : Int × Str) : Bool := decide (a.1 < b.1) || (decide (a.1 = b.1) && !strLt b.2 a.2)

/-- stable insertion: before the first element whose key is not smaller -/
def insertDetail (x : Int × Option Str) : List (Int × Option Str) → List (Int × Option Str)
  | [] => [x]
  | y :: ys => if keyLe (detKey x) (detKey y) then x :: y :: ys else y :: insertDetail x ys

/-- `sorted(error_details, key=...)` -/
def sortDetails : List (Int × Option Str) → List (Int × Option Str)
  | [] => []
  | d :: ds => insertDetail d (sortDetails ds)

def intStr (i : Int) : Str := (toString i).toList
def natStr (n : Nat) : Str := (toString n).toList

def sHttp : Str := ['H','T','T','P',' ','s','t','a','t','u','s',':',' ']
def sMsg : Str := [',',' ','m','e','s','s','a','g','e',':',' ']
def sBar : Str := [' ','|',' ']
def sTrunc : Str := [' ','|',' ','T','R','U','N','C','A','T','E','D',' ']
def sComma : Str := [',',' ']

/-- one entry: `HTTP status: {status}, message: {reason}` if the reason is truthy, else `HTTP status: {status}` -/
def descEntry (d : Int × Option Str) : Str :=
  match d.2 with
  | some (c :: r) => sHttp ++ intStr d.1 ++ sMsg ++ (c :: r)
  | _ => sHttp ++ intStr d.1

def joinWith (sep : Str) : List Str → Str
  | [] => []
  | [x] => x
  | x :: y :: r => x ++ sep ++ joinWith sep (y :: r)

/-- `status_counts`, kept sorted by status (the code sorts the keys afterwards) -/
def insertStatus (s : Int) : List (Int × Nat) → List (Int × Nat)
  | [] => [(s, 1)]
  | (t, n) :: r => if s < t then (s, 1) :: (t, n) :: r else if s = t then (t, n + 1) :: r else (t, n) :: insertStatus s r

def statusCounts : List (Int × Option Str) → List (Int × Nat)
  | [] => []
  | d :: ds => insertStatus d.1 (statusCounts ds)

/-- `_error_status_summary`: `"{count}x{status}"` joined by `", "` -/
def statusSummary (ds : List (Int × Option Str)) : Str :=
  joinWith sComma ((statusCounts ds).map fun p => natStr p.2 ++ ['x'] ++ intStr p.1)

/-- what the description consists of: the entries shown and, if it was cut, the per-status counts -/
structure Desc where
  shown : List (Int × Option Str)
  truncated : Option (List (Int × Nat))
deriving Repr, DecidableEq

def descOf (ds : List (Int × Option Str)) : Desc :=
  { shown := (sortDetails ds).take 5, truncated := if ds.length > 5 then some (statusCounts ds) else none }

/-- `BulkIndex.error_description(error_details)` -/
def errorDescription (ds : List (Int × Option Str)) : Str :=
  let d := joinWith sBar (((sortDetails ds).take 5).map descEntry)
  if ds.length > 5 then d ++ sTrunc ++ statusSummary ds else d

/-- `stats["error-description"]` — present iff `bulk_error_count > 0`, in BOTH paths -/
def BulkStats.description (s : BulkStats) : Option Str :=
  if s.errorCount > 0 then some (errorDescription s.details) else none

/-! ## 2. paginated searches in flight on one `Query` object -/

/-- a `_search_after_query` invocation in flight: everything it works with is its own (read from its own params when
    it started); there is nothing on the `Query` object -/
structure SaInv where
  pit : Bool
  size : Nat
  total : Nat
  rest : List Json
  page : Nat
  acc : PageAcc
  res : Option (Except Err PageAcc)

def saStart (c : SaQCall) : SaInv := ⟨c.pit, c.size, c.total, c.resps, 1, {}, none⟩

inductive SaNext where
  | done (r : Except Err PageAcc)
  | more (acc : PageAcc)

/-- what happens with one served page (one loop body of `_search_after_query`) -/
def saPage (st : Style) (pit : Bool) (size total : Nat) (r : Json) (page : Nat) (acc : PageAcc) : SaNext :=
  if page > total then .done (.ok acc) else
  match saExtract st pit acc.hits r with
  | .error e => .done (.error e)
  | .ok (v, ls) =>
    match accountPage pit page v acc with
    | .error e => .done (.error e)
    | .ok acc =>
      match morePages acc.hits size page with
      | .error e => .done (.error e)
      | .ok true => .more { acc with cursors := acc.cursors ++ [ls] }
      | .ok false => .done (.ok acc)

/-- one scheduling quantum: the next page request of this invocation and what follows it up to the next `await` -/
def saStep (st : Style) (v : SaInv) : SaInv :=
  match v.res with
  | some _ => v
  | none =>
    match v.rest with
    | [] => { v with res := some (if v.page > v.total then .ok v.acc else .error .exhausted) }
    | r :: rest =>
      match saPage st v.pit v.size v.total r v.page v.acc with
      | .done x => { v with res := some x }
      | .more a => { v with rest := rest, page := v.page + 1, acc := a }

def saQuanta (st : Style) : Nat → SaInv → SaInv
  | 0, v => v
  | n + 1, v => saQuanta st n (saStep st v)

/-- a schedule names, quantum after quantum, the search that runs next -/
def saSchedule (st : Style) (sched : List Nat) (invs : List SaInv) : List SaInv :=
  sched.foldl (fun s i => s.modify i (saStep st)) invs

end JsonFast
