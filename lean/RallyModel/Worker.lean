import RallyModel.Exec

/-!
# What sits one call around `schedule_for` / `AsyncExecutor` (C05)

* `AsyncIoAdapter.run` (esrally/driver/driver.py): the coroutine a load-generator worker runs for one step
  of the schedule.  For every `(client_id, task_allocation)` pair the worker simulates it builds ONE
  schedule (`schedule_for`), ONE connection set and ONE `AsyncExecutor`, collects `final_executor()` in
  `awaitables` and awaits `asyncio.gather(*awaitables)`.  All executors write into the worker's one sampler.
* what a runner's answer says about its own weight, read from the answer alone (`reported`) — the
  contract `execute_single` has towards `ScheduleHandle.after_request`: a returned value carries its
  weight and unit whatever it says about `success`; only a raised error carries none.
-/

namespace Worker
open Exec

/-- weight and unit the runner itself reports for an outcome (`None`: it raised, nothing is known) -/
def reported : Outcome → Option (Nat × Str)
  | .tuple w u => some (w, u)
  | .dict w u _ _ _ => some (w.getD 1, u.getD opsUnit)
  | .other => some (1, opsUnit)
  | _ => none

/-- everything the objects built in one round of the loop of `AsyncIoAdapter.run` are made from: the client id,
    its task allocation (task, global index, total), the task's parameters and what this client's partition of the
    parameter source / its connection will do -/
structure ClientSpec where
  c : Cfg
  t : TaskP
  tt : PVal
  ti : PVal
  gidx : Nat
  total : Nat
  srcInfinite : Bool
  reqs : List Req

/-- `schedule_for(task_allocation, params_per_task[task])` + `AsyncExecutor(client_id, task, schedule, es, …)()` -/
def ClientSpec.run (cap : Nat) (s : ClientSpec) : Except Err Final :=
  runClient s.c s.t s.tt s.ti s.gidx s.total s.srcInfinite cap s.reqs

/-- the `for client_id, task_allocation in self.task_allocations:` loop: one awaitable per pair, each bound to the
    schedule and executor created in ITS round of the loop -/
def awaitables (cap : Nat) : List ClientSpec → List (Nat × Except Err Final)
  | [] => []
  | s :: rest => (s.c.client, s.run cap) :: awaitables cap rest

/-- `await asyncio.gather(*awaitables)`: the results in the order of the awaitables (the executors only meet in the
    sampler, which is assumed not to fill up, and in the `cancel` / `complete` events, which are part of each `Cfg`) -/
def adapterRun (cap : Nat) (cs : List ClientSpec) : List (Nat × Except Err Final) := awaitables cap cs

/-- what the worker's one sampler holds for client `k` afterwards -/
def samplesOf (k : Nat) (rs : List (Nat × Except Err Final)) : List Sample :=
  rs.flatMap (fun p =>
    match p.2 with
    | .ok f => f.samples.filter (fun s => s.client == k)
    | .error _ => [])

end Worker
