/-
C18 — request contexts (esrally/client/context.py) under asyncio / contextvars semantics.

What is modelled, statement by statement:

* `RequestContextHolder.request_context` is ONE class-level `ContextVar` shared by every client object.
  Each asyncio task owns a `contextvars.Context`; `asyncio.create_task` / `gather` copy the creating
  task's context (shallow: the *dict objects* stored in the variable are shared by reference).
  A task therefore holds a *current pointer* to a context dict; here `Task.chain.head?`.
* `RequestContextManager.__enter__` = `init_request_context`: a fresh dict `{}` becomes current, the
  token remembers the old value (`Token.MISSING` = `none`).  Event `open_`.
* `on_request_start` / `on_request_end` (= `update_request_start/_end (time.perf_counter())`) write into the
  dict the variable points to.  CURRENT code (`fx = true`, since fix 65587fe): a `None` argument is ignored; the
  start is stored if `meta.get("request_start")` is `None` (key absent or present with `None`) or later than the new
  value — i.e. the minimum is kept; symmetrically the maximum for the end.
  PINNED pre-fix code (`fx = false`, kept for the historical `…_pinned` witnesses): start only
  `if "request_start" not in meta`, end unconditionally (also `None`).
  `LookupError` when the variable is unset.  Events `wireStart`, `wireEnd`.
* `RequestContextManager.__exit__`: `reset(token)`; if the old value is not MISSING, the values
  `self.ctx.get("request_start")`, `self.ctx.get("request_end")` (Python `None` when the key is absent) are
  written into the parent dict with the same two update functions.  Event `close τ exc`: `exc = true` is an exit
  with an exception (`exc_type is not None`: a sub-request that timed out / raised ApiError, a cancelled stream).
  The code does not look at `exc_type` and returns `False` (the exception goes on), so both exit kinds propagate
  alike; the flag is part of the event so that traces with failing requests are first-class citizens of the
  theorems and of the correspondence check.
* a wire request that FAILS still ends: factory.py registers `on_request_end` for aiohttp's `on_request_exception`
  (as for `on_response_chunk_received` / `on_request_end`), so a failed request is `wireStart … wireEnd` followed by
  the `close τ true` of every context the exception passes through.
  `with` blocks are LIFO per task, so the token's old value is the second element of `chain`.
* `spawn p c` = `asyncio.create_task` inside a request (Composite.run_stream): `c` starts with `p`'s pointer.
  `client c` = a task created where the variable is unset (AsyncIoAdapter.run → `gather`).

Object identities (task names, dict names) are explicit natural numbers chosen by the caller; reusing
a name is rejected.  `fx = true` is the CURRENT code; `fx = false` is the code as pinned before fix 65587fe
(first start wins / last end wins, `None` propagated) and only serves the historical witnesses.

Ghost state (never read by the modelled code): `Rec.anc`, `Rec.opener`, `Rec.closed`, `St.log`, `St.late`,
`St.emptyClose`, `St.names`, `St.tnames`.   Import-free.
-/
namespace Ctx

/-- a Python value stored under a key / returned by `dict.get`: `none` = Python `None` -/
abbrev PyVal := Option Rat

/-- a request-context dict; `start = none` means the key "request_start" is absent,
    `some none` means it is present with value `None`. -/
structure Rec where
  parent : Option Nat
  anc : List Nat
  opener : Nat
  start : Option PyVal
  stop : Option PyVal
  closed : Bool

/-- `ctx.get("request_start")`, `ctx.get("request_end")` -/
def Rec.getStart (r : Rec) : PyVal := r.start.join
def Rec.getStop (r : Rec) : PyVal := r.stop.join

structure Task where
  /-- value of the context variable (head) and the enclosing dicts (old values of the tokens / inherited) -/
  chain : List Nat
  /-- number of managers entered and not yet exited by this task itself -/
  depth : Nat

structure LogE where
  task : Nat
  chain : List Nat
  isStart : Bool
  t : Rat

structure St where
  tasks : Nat → Option Task
  ctxs : Nat → Option Rec
  log : List LogE
  late : Bool
  emptyClose : Bool
  names : List Nat
  tnames : List Nat

def init : St := ⟨fun _ => none, fun _ => none, [], false, false, [], []⟩

inductive CEv
  | client (task : Nat)
  | spawn (task child : Nat)
  | open_ (task ctx : Nat)
  | wireStart (task : Nat) (t : Rat)
  | wireEnd (task : Nat) (t : Rat)
  | close (task : Nat) (exc : Bool)
  deriving DecidableEq

/-- the task an event belongs to (a task's creation belongs to the created task for `client`,
    to the creating task for `spawn`) -/
def CEv.task : CEv → Nat
  | .client c => c
  | .spawn p _ => p
  | .open_ τ _ => τ
  | .wireStart τ _ => τ
  | .wireEnd τ _ => τ
  | .close τ _ => τ

def CEv.isSpawn : CEv → Bool
  | .spawn _ _ => true
  | _ => false

inductive Err
  | lookupError   -- ContextVar.get() on an unset variable (real: LookupError)
  | noTask        -- event of an unknown task (ill-formed trace)
  | nameReuse     -- task / dict name already in use (ill-formed trace)
  | noOpen        -- exit without an entered manager (not expressible with `with`)
  | dangling      -- pointer to an unallocated dict (unreachable)
  | clock         -- perf_counter went backwards (inadmissible trace)
  deriving DecidableEq, Repr

def upd {α : Type} (f : Nat → Option α) (i : Nat) (v : α) : Nat → Option α :=
  fun j => if j = i then some v else f j

/-- `update_request_start`: `fx = true` current code (keep the minimum, ignore `None`), `fx = false` pre-fix code -/
def setStart (fx : Bool) (r : Rec) (v : PyVal) : Rec :=
  if fx then
    match v with
    | none => r
    | some t =>
      match r.start with
      | some (some m) => if t < m then { r with start := some (some t) } else r
      | _ => { r with start := some (some t) }
  else
    match r.start with
    | none => { r with start := some v }
    | some _ => r

/-- `update_request_end`: `fx = true` current code (keep the maximum, ignore `None`), `fx = false` pre-fix code -/
def setStop (fx : Bool) (r : Rec) (v : PyVal) : Rec :=
  if fx then
    match v with
    | none => r
    | some t =>
      match r.stop with
      | some (some m) => if m < t then { r with stop := some (some t) } else r
      | _ => { r with stop := some (some t) }
  else { r with stop := some v }

def isClosed (s : St) (x : Nat) : Bool :=
  match s.ctxs x with
  | some r => r.closed
  | none => false

def anyClosed (s : St) (chain : List Nat) : Bool := chain.any (isClosed s)

/-- the monotone clock: a new reading is not smaller than any earlier one -/
def clockOk (s : St) (t : Rat) : Bool := s.log.all (fun e => decide (e.t ≤ t))

def wire (fx : Bool) (s : St) (τ : Nat) (isStart : Bool) (t : Rat) : Except Err St :=
  match s.tasks τ with
  | none => .error .noTask
  | some tk =>
    match tk.chain with
    | [] => .error .lookupError
    | x :: _ =>
      match s.ctxs x with
      | none => .error .dangling
      | some r =>
        if clockOk s t then
          .ok { s with
                ctxs := upd s.ctxs x (if isStart then setStart fx r (some t) else setStop fx r (some t)),
                log := s.log ++ [⟨τ, tk.chain, isStart, t⟩],
                late := s.late || anyClosed s tk.chain }
        else .error .clock

def step (fx : Bool) (s : St) : CEv → Except Err St
  | .client c =>
    if (s.tasks c).isSome then .error .nameReuse
    else .ok { s with tasks := upd s.tasks c ⟨[], 0⟩, tnames := c :: s.tnames }
  | .spawn p c =>
    match s.tasks p with
    | none => .error .noTask
    | some tp =>
      if (s.tasks c).isSome then .error .nameReuse
      else .ok { s with tasks := upd s.tasks c ⟨tp.chain, 0⟩, tnames := c :: s.tnames }
  | .open_ τ c =>
    match s.tasks τ with
    | none => .error .noTask
    | some tk =>
      if (s.ctxs c).isSome then .error .nameReuse
      else .ok { s with
                 ctxs := upd s.ctxs c ⟨tk.chain.head?, c :: tk.chain, τ, none, none, false⟩,
                 tasks := upd s.tasks τ ⟨c :: tk.chain, tk.depth + 1⟩,
                 names := c :: s.names }
  | .wireStart τ t => wire fx s τ true t
  | .wireEnd τ t => wire fx s τ false t
  | .close τ _ =>
    match s.tasks τ with
    | none => .error .noTask
    | some tk =>
      if tk.depth = 0 then .error .noOpen
      else
        match tk.chain with
        | [] => .error .noOpen
        | c :: rest =>
          match s.ctxs c with
          | none => .error .dangling
          | some rc =>
            let ctxs1 := upd s.ctxs c { rc with closed := true }
            let tasks1 := upd s.tasks τ ⟨rest, tk.depth - 1⟩
            match rest with
            | [] => .ok { s with ctxs := ctxs1, tasks := tasks1 }
            | p :: _ =>
              match s.ctxs p with
              | none => .error .dangling
              | some rp =>
                .ok { s with
                      ctxs := upd ctxs1 p (setStop fx (setStart fx rp rc.getStart) rc.getStop),
                      tasks := tasks1,
                      late := s.late || anyClosed s rest,
                      emptyClose := s.emptyClose || rc.getStart.isNone || rc.getStop.isNone }

def runFrom (fx : Bool) (s : St) : List CEv → Except Err St
  | [] => .ok s
  | e :: es =>
    match step fx s e with
    | .ok s' => runFrom fx s' es
    | .error err => .error err

def runCtx (fx : Bool) (evs : List CEv) : Except Err St := runFrom fx init evs

/-! ### the specification side: what was issued on behalf of a context -/

def minOpt : List Rat → Option Rat
  | [] => none
  | x :: xs =>
    match minOpt xs with
    | none => some x
    | some m => some (if x ≤ m then x else m)

def maxOpt : List Rat → Option Rat
  | [] => none
  | x :: xs =>
    match maxOpt xs with
    | none => some x
    | some m => some (if m ≤ x then x else m)

/-- times of the wire starts / ends issued while `c` or one of its descendants was current -/
def timesFor (log : List LogE) (isStart : Bool) (c : Nat) : List Rat :=
  (log.filter (fun e => e.isStart == isStart && e.chain.contains c)).map (·.t)

/-- times of the wire starts / ends issued while `c` itself was current -/
def directTimes (log : List LogE) (isStart : Bool) (c : Nat) : List Rat :=
  (log.filter (fun e => e.isStart == isStart && e.chain.head? == some c)).map (·.t)

def specStart (s : St) (c : Nat) : PyVal := minOpt (timesFor s.log true c)
def specStop (s : St) (c : Nat) : PyVal := maxOpt (timesFor s.log false c)

/-- every strict descendant of `c` has exited -/
def settled (s : St) (c : Nat) : Bool :=
  s.names.all (fun d =>
    match s.ctxs d with
    | some rd => d == c || !rd.anc.contains c || rd.closed
    | none => true)

/-- no context has `c` as parent -/
def isLeaf (s : St) (c : Nat) : Bool :=
  s.names.all (fun d =>
    match s.ctxs d with
    | some rd => rd.parent != some c
    | none => true)

/-! ### `Composite.run_stream`: how the timings of the sub-requests are collected

A stream is a sequence of items; an item is a sub-request (`op id`, executed inside `RequestTiming`, which yields
one timing record) or a nested stream (started as a task; its records are gathered — in the order in which the
streams were created — right before the next sub-request of the enclosing stream, or at its end).
`collect` mirrors the `timings` list of `run_stream` statement by statement (`timings.append(response)`,
`timings += stream_timings`); `id`s stand for the executed sub-requests (position in the specification).
The records carry no key: sub-requests may share a `name` or have none. -/
inductive Items
  | nil
  | op (id : Nat) (rest : Items)
  | stream (sub : Items) (rest : Items)

/-- `go items pending`: `pending` = results of the streams created and not yet gathered (`streams`) -/
def collectGo : Items → List (List Nat) → List Nat
  | .nil, pending => pending.flatten
  | .op id rest, pending => pending.flatten ++ id :: collectGo rest []
  | .stream sub rest, pending => collectGo rest (pending ++ [collectGo sub []])

/-- the `dependent_timing` list of a composite whose `requests` are `items` (ids of the sub-requests, in order) -/
def collect (items : Items) : List Nat := collectGo items []

/-- every sub-request that is executed, in specification order -/
def allOps : Items → List Nat
  | .nil => []
  | .op id rest => id :: allOps rest
  | .stream sub rest => allOps sub ++ allOps rest

/-! ### the aiohttp trace hooks (esrally/client/factory.py): which wire events one HTTP request produces

`EsClientFactory.create_async` registers callbacks for signals of aiohttp's `TraceConfig`; the callbacks call
`RequestContextHolder.on_request_start` / `on_request_end`.  Which signals aiohttp emits for one HTTP request
depends on how the request ends (aiohttp `ClientSession._request` + elastic_transport's node, which reads the whole
body with `response.read()`; validated against the real stack by the correspondence stream `real_client`):

* `complete` — response received completely (any status, also HEAD): `on_request_start`, `on_request_end` when the
  response headers have arrived, `on_response_chunk_received` once, when the body is complete;
* `failBeforeHeaders` — time-out / connection error / cancellation before the headers: `on_request_start`,
  `on_request_exception`;
* `failAfterHeaders` — time-out / connection loss / cancellation while the body is read (outside `_request`):
  `on_request_start`, `on_request_end` — and **no further signal** (elastic/rally#1860). -/
inductive Signal
  | requestStart | requestEnd | chunkReceived | requestException | other
  deriving DecidableEq, Repr

inductive HookAct
  | start | stop | other
  deriving DecidableEq, Repr

inductive Outcome
  | complete | failBeforeHeaders | failAfterHeaders
  deriving DecidableEq, Repr

def signalsOf : Outcome → List Signal
  | .complete => [.requestStart, .requestEnd, .chunkReceived]
  | .failBeforeHeaders => [.requestStart, .requestException]
  | .failAfterHeaders => [.requestStart, .requestEnd]

def Signal.ofCode : Nat → Signal
  | 0 => .requestStart | 1 => .requestEnd | 2 => .chunkReceived | 3 => .requestException | _ => .other

def HookAct.ofCode : Nat → HookAct
  | 0 => .start | 1 => .stop | _ => .other

/-- the registration table as generated from factory.py (`RallyGen/TraceHooks.lean`) -/
def decodeReg (l : List (Nat × Nat)) : List (Signal × HookAct) := l.map (fun p => (Signal.ofCode p.1, HookAct.ofCode p.2))

/-- the request-context callbacks (wire events) one HTTP request with outcome `o` produces, in order: those of the
    registered trace hooks, followed — when `RallyAsyncElasticsearch.perform_request` itself handles a failing
    transport call (`eof ≥ 1`: `except …: self.on_request_end(); raise`; `eof = 3`: in a `finally:`, for every request) — by one more end for a failed request that is
    the `last` attempt of the transport (elastic_transport may re-send a failed request before it gives up) -/
def hookActs (reg : List (Signal × HookAct)) (eof : Nat) (o : Outcome) (last : Bool := true) : List HookAct :=
  (signalsOf o).flatMap (fun sg => (reg.filter (fun p => p.1 == sg && p.2 != .other)).map (·.2)) ++
  (if last && (eof == 3 || (eof ≥ 1 && o != .complete)) then [.stop] else [])

/-- is an end recorded at the moment the exchange is over?  `complete`: the last signal (`on_response_chunk_received`,
    body complete) is wired to the end; `failBeforeHeaders`: `on_request_exception` is emitted at the moment of the
    failure; `failAfterHeaders`: aiohttp emits nothing at that moment — only a handler in `perform_request` that covers
    every exception (`eof = 2`, also cancellation) can record it. -/
def endsWhenOver (reg : List (Signal × HookAct)) (eof : Nat) : Outcome → Bool
  | .complete => reg.contains (.chunkReceived, .stop)
  | .failBeforeHeaders => reg.contains (.requestException, .stop) || eof ≥ 2
  | .failAfterHeaders => eof ≥ 2

/-- is the end never (re-)recorded after the exchange is over?  A handler that also runs when the transport call
    succeeds (`eof = 3`, a `finally:`) records the end once more after the response has been received completely —
    and deserialised: client-side parsing time would count as service time. -/
def noEndAfterOver (eof : Nat) : Outcome → Bool
  | .complete => eof != 3
  | _ => true

/-- one start, first; then at least one end and nothing else: "every wire request that starts also ends" -/
def startsAndEnds : List HookAct → Bool
  | .start :: rest => !rest.isEmpty && rest.all (· == .stop)
  | _ => false

end Ctx
