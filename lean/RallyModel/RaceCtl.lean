/-
Model of race control's decision logic (esrally/racecontrol.py): BenchmarkActor.receiveMsg_* and
BenchmarkCoordinator.on_task_finished / on_benchmark_complete, plus `race()`'s classification of the FIRST reply it
receives from the benchmark actor (`actor_system.ask`).  Import-free.
-/
namespace RaceCtl

/-- messages the benchmark actor can receive after `Setup` -/
inductive Msg
  | engineStarted
  | preparationComplete
  | taskFinished
  | benchComplete
  | failure            -- actor.BenchmarkFailure (from the driver, the mechanic, or its own no_retry guard via the sender)
  | poison             -- thespian PoisonMessage
  | cancelled          -- actor.BenchmarkCancelled (from a worker via the driver, or from `race()` on KeyboardInterrupt)
  | engineStopped
deriving Repr, DecidableEq

/-- replies sent to the start sender (what `race()`'s ask sees, in order) -/
inductive Reply
  | success | failure | cancelled | poison
deriving Repr, DecidableEq

structure State where
  error : Bool := false
  cancelled : Bool := false
  resultsStored : Bool := false     -- store_race(with results) + store_results + reporter.summarize executed
  metricsAdded : Nat := 0           -- number of bulk_add calls
  replies : List Reply := []
  stopSent : Nat := 0               -- StopEngine messages sent to the mechanic
  faultSeen : Bool := false         -- history: a failure / poison / cancel message has been handled
deriving Repr, DecidableEq

def step (s : State) : Msg → State
  | .engineStarted => s
  | .preparationComplete => s
  | .taskFinished => { s with metricsAdded := s.metricsAdded + 1 }
  | .benchComplete =>
    { s with metricsAdded := s.metricsAdded + 1,
             resultsStored := s.resultsStored || (!s.cancelled && !s.error),
             stopSent := s.stopSent + 1 }
  | .failure => { s with error := true, replies := s.replies ++ [.failure], faultSeen := true }
  | .poison => { s with error := true, replies := s.replies ++ [.poison], faultSeen := true }
  | .cancelled => { s with cancelled := true, replies := s.replies ++ [.cancelled], faultSeen := true }
  | .engineStopped => { s with replies := s.replies ++ [.success] }

def run (s : State) (ms : List Msg) : State := ms.foldl step s

def isFault : Msg → Bool
  | .failure | .poison | .cancelled => true
  | _ => false

/-- `race()`: the outcome is decided by the first reply only -/
inductive Outcome | success | failed | cancelled | pending
deriving Repr, DecidableEq

def outcome (s : State) : Outcome :=
  match s.replies with
  | [] => .pending
  | .success :: _ => .success
  | .failure :: _ => .failed
  | .poison :: _ => .failed        -- "Got an unexpected result during benchmarking" → RallyError
  | .cancelled :: _ => .cancelled

/-! ### the forwarding relay: who passes a BenchmarkFailure on to whom -/

inductive Actor
  | taskExecutor | trackPreparator | worker | driver | benchmark | startSender
deriving Repr, DecidableEq

/-! ### the worker's poll: `Worker.receiveMsg_WakeupMessage` as a decision -/

/-- `Worker.executor_future` as the handler sees it -/
inductive Fut
  | none | running | doneOk | doneExc
deriving Repr, DecidableEq

/-- what one wake-up of a worker does, in order -/
inductive PollAct
  | clearStartDriving | drive | shipSamples | sendCancelled | sendFailure | clearFuture | rearm | sendReady
deriving Repr, DecidableEq

def poll (startDriving cancel : Bool) (f : Fut) : List PollAct :=
  if startDriving then [.clearStartDriving, .drive]
  else .shipSamples ::
    (if cancel then [.sendCancelled]
     else match f with
       | .doneExc => [.sendFailure]
       | .doneOk => [.clearFuture, .drive]
       | .none => [.rearm]
       | .running => [.rearm])

/-- the four ways a wake-up can end -/
def PollAct.isOutcome : PollAct → Bool
  | .drive | .sendCancelled | .sendFailure | .rearm | .sendReady => true
  | _ => false

/-- one wake-up of a task executor (`TaskExecutionActor.receiveMsg_WakeupMessage`, track preparation): report the failure,
    or ask for the next task, or keep polling -/
def pollTaskExecutor (f : Fut) : List PollAct :=
  match f with
  | .doneExc => [.sendFailure]
  | .doneOk => [.clearFuture, .sendReady]
  | .none => [.rearm]
  | .running => [.rearm]

end RaceCtl
