import RallyModel.Retry
/-
Model of race control's decision logic (esrally/racecontrol.py): BenchmarkActor.receiveMsg_* and
BenchmarkCoordinator.on_task_finished / on_benchmark_complete, plus `race()`'s classification of the FIRST reply it
receives from the benchmark actor (`actor_system.ask`).  Imports only the model of `runner.Retry` (for requests behind the retry wrapper).
-/
namespace RaceCtl

/-- messages the benchmark actor can receive after `Setup` -/
inductive Msg
  | engineStarted
  | preparationComplete
  | taskFinished
  | benchComplete
  | failure            -- actor.BenchmarkFailure (from the driver, the mechanic, or its own no_retry guard via the sender)
  | poison             -- thespian PoisonMessage
  | cancelled          -- actor.BenchmarkCancelled (from a worker via the driver, or from `race()` on KeyboardInterrupt)
  | engineStopped
deriving Repr, DecidableEq

/-- replies sent to the start sender (what `race()`'s ask sees, in order) -/
inductive Reply
  | success | failure | cancelled | poison
deriving Repr, DecidableEq

structure State where
  error : Bool := false
  cancelled : Bool := false
  resultsStored : Bool := false     -- store_race(with results) + store_results + reporter.summarize executed
  metricsAdded : Nat := 0           -- number of bulk_add calls
  replies : List Reply := []
  stopSent : Nat := 0               -- StopEngine messages sent to the mechanic
  faultSeen : Bool := false         -- history: a failure / poison / cancel message has been handled
deriving Repr, DecidableEq

def step (s : State) : Msg → State
  | .engineStarted => s
  | .preparationComplete => s
  | .taskFinished => { s with metricsAdded := s.metricsAdded + 1 }
  | .benchComplete =>
    { s with metricsAdded := s.metricsAdded + 1,
             resultsStored := s.resultsStored || (!s.cancelled && !s.error),
             stopSent := s.stopSent + 1 }
  | .failure => { s with error := true, replies := s.replies ++ [.failure], faultSeen := true }
  | .poison => { s with error := true, replies := s.replies ++ [.poison], faultSeen := true }
  | .cancelled => { s with cancelled := true, replies := s.replies ++ [.cancelled], faultSeen := true }
  | .engineStopped => { s with replies := s.replies ++ [.success] }

def run (s : State) (ms : List Msg) : State := ms.foldl step s

def isFault : Msg → Bool
  | .failure | .poison | .cancelled => true
  | _ => false

/-- `race()`: the outcome is decided by the first reply only -/
inductive Outcome | success | failed | cancelled | pending
deriving Repr, DecidableEq

def outcome (s : State) : Outcome :=
  match s.replies with
  | [] => .pending
  | .success :: _ => .success
  | .failure :: _ => .failed
  | .poison :: _ => .failed        -- "Got an unexpected result during benchmarking" → RallyError
  | .cancelled :: _ => .cancelled

/-! ### the forwarding relay: who passes a BenchmarkFailure on to whom -/

inductive Actor
  | taskExecutor | trackPreparator | worker | driver | benchmark | startSender
deriving Repr, DecidableEq

/-! ### the worker's poll: `Worker.receiveMsg_WakeupMessage` as a decision -/

/-- `Worker.executor_future` as the handler sees it -/
inductive Fut
  | none | running | doneOk | doneExc
deriving Repr, DecidableEq

/-- what one wake-up of a worker does, in order -/
inductive PollAct
  | clearStartDriving | drive | shipSamples | sendCancelled | sendFailure | clearFuture | rearm | sendReady
deriving Repr, DecidableEq

def poll (startDriving cancel : Bool) (f : Fut) : List PollAct :=
  if startDriving then [.clearStartDriving, .drive]
  else .shipSamples ::
    (if cancel then [.sendCancelled]
     else match f with
       | .doneExc => [.sendFailure]
       | .doneOk => [.clearFuture, .drive]
       | .none => [.rearm]
       | .running => [.rearm])

/-- the four ways a wake-up can end -/
def PollAct.isOutcome : PollAct → Bool
  | .drive | .sendCancelled | .sendFailure | .rearm | .sendReady => true
  | _ => false

/-- one wake-up of a task executor (`TaskExecutionActor.receiveMsg_WakeupMessage`, track preparation): report the failure,
    or ask for the next task, or keep polling -/
def pollTaskExecutor (f : Fut) : List PollAct :=
  match f with
  | .doneExc => [.sendFailure]
  | .doneOk => [.clearFuture, .sendReady]
  | .none => [.rearm]
  | .running => [.rearm]

/-! ### track preparation: `TrackPreparationActor`'s handlers as decisions, and the preparation run -/

/-- `TrackPreparationActor.status` (`none` = the value `RallyActor.__init__` leaves) -/
inductive PrepStatus
  | none | initializing | running | complete
deriving Repr, DecidableEq

/-- what `processors.get()` / `on_prepare_track` of the next track processor does when `resume()` asks for it -/
inductive NextProc
  | noneLeft | seeds | raises
deriving Repr, DecidableEq

inductive PrepEv
  | benchmarkFailure                                   -- from a task executor (its own failure or a relayed one)
  | poison                                             -- PoisonMessage
  | readyForWork (tasksLeft : Bool)
  | workerIdle (lastChild : Bool) (next : NextProc)    -- `lastChild`: every other child has already answered
deriving Repr, DecidableEq

/-- messages the handler sends, in order (a StartTaskLoop to every child counts once) -/
inductive PrepSend
  | forwardToDriver      -- the received BenchmarkFailure itself, to the driver
  | failureToDriver      -- a new BenchmarkFailure to the driver
  | failureToSender      -- the `no_retry` guard: the handler raised, BenchmarkFailure to the sender of the message
  | doTask | doNothing   -- DoTask(task) / DoTask(None) to the task executor
  | startTaskLoop | trackPrepared
deriving Repr, DecidableEq

/-- one message handled by the track preparator in status `st`: what it sends and the status it is left in -/
def prepHandle (st : PrepStatus) : PrepEv → List PrepSend × PrepStatus
  | .benchmarkFailure => ([.forwardToDriver], st)
  | .poison => ([.failureToDriver], st)
  | .readyForWork true => ([.doTask], st)
  | .readyForWork false => ([.doNothing], st)
  | .workerIdle last next =>
    -- transition_when_all_children_responded(expected = PROCESSOR_RUNNING, new = PROCESSOR_COMPLETE, resume)
    if st ≠ .running then ([.failureToSender], st)
    else if !last then ([], st)
    else match next with
      | .noneLeft => ([.trackPrepared], .complete)
      | .seeds => ([.startTaskLoop], .running)
      | .raises => ([.failureToSender], .complete)

/-- a track processor: does asking it for its tasks raise, and which of its tasks fail -/
structure Proc where
  seedRaises : Bool
  taskFails : List Bool
deriving Repr, DecidableEq

inductive PrepOutcome
  | prepared                -- TrackPrepared sent to the driver
  | failed (hops : Nat)     -- a BenchmarkFailure arrives at the driver after `hops` messages
deriving Repr, DecidableEq

/-- the preparation run over the queue of processors (`first`: the processor is seeded inside `receiveMsg_PrepareTrack`, whose sender
    is the driver; later ones inside `receiveMsg_WorkerIdle`, whose sender is a task executor that relays the failure back):
    guard → driver (1 hop) | task executor → preparator → driver (2 hops) | guard → task executor → preparator → driver (3 hops) -/
def prepRun : Bool → List Proc → PrepOutcome
  | _, [] => .prepared
  | first, p :: ps =>
    if p.seedRaises then .failed (if first then 1 else 3)
    else if p.taskFails.any id then .failed 2
    else prepRun false ps

/-! ### one request: `execute_single` as a decision on what the registered runner did -/

/-- what the call of the runner ended with, as far as `execute_single` distinguishes -/
inductive RunOut
  | tuple2 | dictSuccess | dictNoKey | dictFail | otherValue     -- return values (dictNoKey: a dict without "success")
  | connErrorExact      -- `type(e) is elasticsearch.ConnectionError`
  | connErrorSub        -- a subclass of ConnectionError (TlsError, …)
  | connTimeout | transportOther | apiError
  | keyError | otherExc
deriving Repr, DecidableEq

inductive ExecRes
  | sample (success : Bool)   -- returns (ops, unit, meta) with meta["success"]
  | assertionError            -- RallyAssertionError("Request returned an error …")
  | setupError                -- SystemSetupError (KeyError: missing parameters)
  | propagates                -- the runner's exception, unchanged
deriving Repr, DecidableEq

def RunOut.isRequestFailure : RunOut → Bool
  | .dictFail | .connErrorExact | .connErrorSub | .connTimeout | .transportOther | .apiError => true
  | _ => false

def execSingle (abort : Bool) : RunOut → ExecRes
  | .tuple2 | .dictSuccess | .dictNoKey | .otherValue => .sample true
  | .dictFail => if abort then .assertionError else .sample false
  | .connErrorExact => .assertionError                       -- fatal_error
  | .connErrorSub | .connTimeout | .transportOther | .apiError => if abort then .assertionError else .sample false
  | .keyError => .setupError
  | .otherExc => .propagates

/-- the outcome classes of the Retry model as `execute_single` sees them (the simulated runner raises the exact ConnectionError) -/
def ofRetryKind : Retry.Kind → RunOut
  | .dictOk => .dictSuccess
  | .dictFail => .dictFail
  | .nonDict => .otherValue
  | .sockTimeout => .otherExc
  | .connError => .connErrorExact
  | .connTimeout => .connTimeout
  | .api408 => .apiError
  | .apiOther => .apiError
  | .transportOther => .transportOther
  | .otherExc => .otherExc

/-- a request whose runner is registered behind `Retry`: `none` = the script of answers is used up, a further attempt follows -/
def retriedRequest (abort : Bool) (p : Retry.Params) (outs : List Retry.Outcome) : Option ExecRes :=
  match (Retry.retry p outs).res with
  | .returned o => some (execSingle abort (ofRetryKind o.kind))
  | .raised o => some (execSingle abort (ofRetryKind o.kind))
  | .fellThrough => some (execSingle abort .otherValue)      -- implicit `return None`
  | .pending => none

end RaceCtl
