/-
Model of car composition and bare-metal provisioning:

* esrally/mechanic/team.py        : CarLoader.load_car, team.load_car
* esrally/mechanic/provisioner.py : ElasticsearchInstaller.variables / _data_paths,
                                    BareProvisioner._provisioner_variables / prepare,
                                    _apply_config / _render_template / plain_text, cleanup

Import-free.  Strings are `List Char`, file contents are byte lists, paths are lists of
components.  Python dicts are association lists with Python's insertion-order semantics
(`dset` replaces in place or appends, `dupdate` = `dict.update`).

Exercised, not modelled: `configparser` (the model starts from the parsed sections), Jinja2
beyond the `{{ name }}` subset (a template is a list of literal-text and variable segments),
tar extraction, bootstrap hooks (only `can_load` = "config.py exists").
Domain assumptions are listed in harness/c13.py (ASSUMPTIONS) and enforced by the driver.
-/
namespace Team

abbrev Str := List Char
abbrev Bytes := List UInt8
abbrev Path := List Str

/-- string literal → list of `Char` literals at elaboration time (so that `decide` can evaluate) -/
macro "cl!" s:str : term => do
  let cs := s.getString.toList.map (fun c => Lean.Syntax.mkCharLit c)
  `([$(cs.toArray),*])

/-! ### values and Python dicts -/

/-- values a variable can have: strings from `.ini` files, JSON scalars / string lists from
    `--car-params`, and the dict Rally puts under `cluster_settings` -/
inductive Val
  | str (s : Str)
  | strs (l : List Str)
  | int (n : Int)
  | bool (b : Bool)
  | null
  | settings (mandatory : List Str)   -- {} or {"plugin.mandatory": [...]}
deriving Repr, DecidableEq

abbrev Vars := List (Str × Val)

/-- `d[k]` / `k in d` -/
def dget : Vars → Str → Option Val
  | [], _ => none
  | (k', v) :: t, k => if k' = k then some v else dget t k

/-- `d[k] = v` (existing key keeps its position, new key goes last) -/
def dset : Vars → Str → Val → Vars
  | [], k, v => [(k, v)]
  | (k', v') :: t, k, v => if k' = k then (k', v) :: t else (k', v') :: dset t k v

/-- `d.update(u)` -/
def dupdate (d u : Vars) : Vars := u.foldl (fun acc kv => dset acc kv.1 kv.2) d

/-! ### team directory -/

structure CarIni where
  base : Option Str          -- `[config] base`, if present
  vars : Vars                -- items of `[variables]` ([] when the section is absent)
deriving Repr, DecidableEq

inductive Seg
  | text (s : Str)
  | var (name : Str) (pad : Nat)     -- `{{` pad spaces name pad spaces `}}`
deriving Repr, DecidableEq

inductive Body
  | tmpl (segs : List Seg)           -- UTF-8 text in the `{{ name }}` subset of Jinja2
  | blob (bs : Bytes)                -- arbitrary bytes
deriving Repr, DecidableEq

structure SrcFile where
  name : Str
  body : Body
deriving Repr, DecidableEq

/-- one step of `os.walk(<base>/templates)`: directory relative to the templates root, its files -/
structure WalkDir where
  rel : Path
  files : List SrcFile
deriving Repr, DecidableEq

structure Base where
  vars : Vars                -- `[variables]` of `<base>/config.ini` ([] when file or section absent)
  hook : Bool                -- `<base>/config.py` exists
  walk : List WalkDir        -- [] when `<base>/templates` does not exist
deriving Repr, DecidableEq

structure TeamDir where
  cars : List (Str × CarIni)       -- `<name>.ini` files in cars/v1
  bases : List (Str × Base)        -- directories in cars/v1
deriving Repr

def assoc {β : Type} : List (Str × β) → Str → Option β
  | [], _ => none
  | (k', v) :: t, k => if k' = k then some v else assoc t k

def findCar (t : TeamDir) (n : Str) : Option CarIni := assoc t.cars n

/-- a config base that does not exist on disk contributes no variables, no hook, no files
    (`io.exists(config.ini)` false, `os.walk` of a missing directory yields nothing) -/
def baseOf (t : TeamDir) (b : Str) : Base := (assoc t.bases b).getD ⟨[], false, []⟩

inductive Err
  | unknownCar        -- SystemSetupError "Unknown car"
  | noConfigBase      -- SystemSetupError "At least one config base is required"
  | dataPathsType     -- SystemSetupError "Expected [data_paths] to be either a string or a list"
  | noBundledConfig   -- OSError from shutil.rmtree(<es home>/config)
  | missingVar        -- SystemSetupError from Car.mandatory_var
  | notABool          -- ValueError from convert.to_bool
deriving Repr, DecidableEq

/-- `config_base.split(",")` followed by `if base:` -/
def splitBases (s : Str) : List Str := (s.splitOn ',').filter (fun b => !b.isEmpty)

def basesOf (ini : CarIni) : List Str := splitBases (ini.base.getD [])

/-- CarDescriptor (root paths and config paths are identified by the base name:
    root path = cars/v1/<base>, config path = cars/v1/<base>/templates) -/
structure Descriptor where
  rootPaths : List Str
  configPaths : List Str
  baseVars : Vars
  vars : Vars
deriving Repr, DecidableEq

/-- `CarLoader.load_car` after the car file was found -/
def describe (t : TeamDir) (params : Vars) (ini : CarIni) : Descriptor :=
  let bases := basesOf ini
  -- for base in config_bases: self._copy_section(base_config, "variables", config_base_vars)
  let baseVars := bases.foldl (fun acc b => dupdate acc (baseOf t b).vars) []
  -- variables = self._copy_section(config, "variables", {}); variables.update(car_params)
  let vars := dupdate (dupdate [] ini.vars) params
  ⟨bases, bases, baseVars, vars⟩

/-- the car files of all names, or "Unknown car" for the first missing one -/
def findCars (t : TeamDir) : List Str → Except Err (List CarIni)
  | [] => .ok []
  | n :: ns =>
    match findCar t n with
    | none => .error .unknownCar
    | some ini =>
      match findCars t ns with
      | .error e => .error e
      | .ok inis => .ok (ini :: inis)

/-- `if p not in acc: acc.append(p)` -/
def addUnique (acc : List Str) (p : Str) : List Str := if p ∈ acc then acc else acc ++ [p]

structure Car where
  names : List Str
  rootPaths : List Str
  configPaths : List Str
  vars : Vars
deriving Repr, DecidableEq

/-- `team.load_car(repo, names, car_params)` -/
def loadCar (t : TeamDir) (names : List Str) (params : Vars) : Except Err Car :=
  match findCars t names with
  | .error e => .error e
  | .ok inis =>
    let descs := inis.map (describe t params)
    let configPaths := descs.foldl (fun acc d => d.configPaths.foldl addUnique acc) []
    let rootPaths := descs.foldl
      (fun acc d => d.rootPaths.foldl (fun acc p => if (baseOf t p).hook then addUnique acc p else acc) acc) []
    let allBaseVars := descs.foldl (fun acc d => dupdate acc d.baseVars) []
    let allCarVars := descs.foldl (fun acc d => dupdate acc d.vars) []
    if configPaths.isEmpty then .error .noConfigBase
    else .ok ⟨names, rootPaths, configPaths, dupdate (dupdate [] allBaseVars) allCarVars⟩

/-! ### ElasticsearchInstaller / BareProvisioner variables -/

structure Node where
  nodeName : Str
  clusterName : Str
  nodeRoot : Str            -- absolute, no trailing '/'
  allIps : List Str
  allNames : List Str
  ip : Str
  httpPort : Nat
  distName : Str            -- the `elasticsearch*` directory inside the archive
deriving Repr, DecidableEq

/-- `os.path.join(a, b)` for non-empty `a` without trailing '/' and relative `b` -/
def pjoin (a b : Str) : Str := a ++ '/' :: b

def Node.esHome (n : Node) : Str := pjoin (pjoin n.nodeRoot (cl!"install")) n.distName
def Node.logDir (n : Node) : Str := pjoin (pjoin n.nodeRoot (cl!"logs")) (cl!"server")
def Node.heapDir (n : Node) : Str := pjoin n.nodeRoot (cl!"heapdump")

def natStr (n : Nat) : Str := (toString n).toList

/-- `'["%s"]' % '","'.join(xs)` -/
def quoteJoin (xs : List Str) : Str := (cl!"[\"") ++ (cl!"\",\"").intercalate xs ++ (cl!"\"]")

def kDataPaths : Str := cl!"data_paths"
def kClusterSettings : Str := cl!"cluster_settings"
def kRuntimeJdk : Str := cl!"runtime.jdk"
def kRuntimeJdkBundled : Str := cl!"runtime.jdk.bundled"

/-- `ElasticsearchInstaller._data_paths` -/
def dataPaths (carVars : Vars) (esHome : Str) : Except Err (List Str) :=
  match dget carVars kDataPaths with
  | some (.str s) => .ok [s]
  | some (.strs l) => .ok l
  | some _ => .error .dataPathsType
  | none => .ok [pjoin esHome (cl!"data")]

/-- the `defaults` dict of `ElasticsearchInstaller.variables` -/
def defaults (n : Node) (dp : List Str) : Vars :=
  [ (cl!"cluster_name", .str n.clusterName),
    (cl!"node_name", .str n.nodeName),
    (kDataPaths, .strs dp),
    (cl!"log_path", .str n.logDir),
    (cl!"heap_dump_path", .str n.heapDir),
    (cl!"node_ip", .str n.ip),
    (cl!"network_host", .str n.ip),
    (cl!"http_port", .str (natStr n.httpPort)),
    (cl!"transport_port", .str (natStr (n.httpPort + 100))),
    (cl!"all_node_ips", .str (quoteJoin n.allIps)),
    (cl!"all_node_names", .str (quoteJoin n.allNames)),
    (cl!"minimum_master_nodes", .int n.allIps.length),
    (cl!"install_root_path", .str n.esHome) ]

/-- `ElasticsearchInstaller.variables`: car variables, then Rally's own -/
def installerVars (carVars : Vars) (n : Node) (dp : List Str) : Vars :=
  dupdate (dupdate [] carVars) (defaults n dp)

structure Plugin where
  name : Str
  movedToModule : Bool
  vars : Vars
deriving Repr, DecidableEq

/-- `PluginDescriptor.moved_to_module` -/
def movedToModule (name : Str) (corePlugin : Bool) : Bool :=
  [cl!"repository-s3", cl!"repository-gcs", cl!"repository-azure"].contains name && !corePlugin

/-- `BareProvisioner._provisioner_variables` -/
def provisionerVars (iv : Vars) (plugins : List Plugin) : Vars :=
  let pluginVars := plugins.foldl (fun acc p => dupdate acc p.vars) []
  let mandatory := (plugins.filter (fun p => !p.movedToModule)).map (·.name)
  dset (dupdate (dupdate [] iv) pluginVars) kClusterSettings (.settings mandatory)

/-! ### templates -/

/-- `repr(s)` for strings of the driver's domain (printable ASCII without `'` and `\`) -/
def pyRepr (s : Str) : Str := '\'' :: s ++ ['\'']

def intStr (i : Int) : Str := (toString i).toList

def strsStr (l : List Str) : Str := '[' :: (cl!", ").intercalate (l.map pyRepr) ++ [']']

/-- `str(v)`, which is what `{{ name }}` prints -/
def renderVal : Val → Str
  | .str s => s
  | .strs l => strsStr l
  | .int n => intStr n
  | .bool true => cl!"True"
  | .bool false => cl!"False"
  | .null => cl!"None"
  | .settings [] => cl!"{}"
  | .settings (m :: ms) => (cl!"{'plugin.mandatory': ") ++ strsStr (m :: ms) ++ ['}']

/-- an undefined variable prints nothing (jinja2.Undefined) -/
def renderSeg (vars : Vars) : Seg → Str
  | .text s => s
  | .var name _ => match dget vars name with
    | some v => renderVal v
    | none => []

def segSource : Seg → Str
  | .text s => s
  | .var name pad => (cl!"{{") ++ List.replicate pad ' ' ++ name ++ List.replicate pad ' ' ++ (cl!"}}")

def Seg.isEmptyText : Seg → Bool
  | .text [] => true
  | _ => false

def dropLastNl (s : Str) : Str :=
  match s.reverse with
  | '\n' :: r => r.reverse
  | _ => s

/-- Jinja2's lexer removes one trailing newline of the template *source* -/
def stripLastNl : List Seg → List Seg
  | [] => []
  | [.text s] => [.text (dropLastNl s)]
  | [x] => [x]
  | x :: y :: r => x :: stripLastNl (y :: r)

/-- `_render_template`: `template.render(variables) + "\n"` -/
def renderTemplate (vars : Vars) (segs : List Seg) : Str :=
  (stripLastNl (segs.filter (fun s => !s.isEmptyText))).flatMap (renderSeg vars) ++ ['\n']

def utf8 (s : Str) : Bytes := s.flatMap String.utf8EncodeChar

/-- the bytes of the file as it lies in the team directory -/
def srcBytes : Body → Bytes
  | .tmpl segs => utf8 (segs.flatMap segSource)
  | .blob bs => bs

/-- what gets appended for a plain-text file.  A `.blob` body under a plain-text name is outside
    the modelled Jinja subset (the driver rejects such teams); the value here is never compared. -/
def renderBytes (vars : Vars) : Body → Bytes
  | .tmpl segs => utf8 (renderTemplate vars segs)
  | .blob bs => bs

def endsWith (s suf : Str) : Bool := suf.reverse.isPrefixOf s.reverse

/-- `os.path.splitext(name)[1]` for a single path component -/
def osExt (name : Str) : Str :=
  let r := name.reverse
  let afterDot := r.takeWhile (· != '.')
  match r.dropWhile (· != '.') with
  | [] => []
  | _ :: before => if before.any (· != '.') then '.' :: afterDot.reverse else []

/-- `io.splitext(name)[1]` -/
def extOf (name : Str) : Str :=
  if endsWith name (cl!".tar.gz") then cl!".tar.gz"
  else if endsWith name (cl!".tar.bz2") then cl!".tar.bz2"
  else osExt name

def plainExts : List Str :=
  [cl!".ini", cl!".txt", cl!".json", cl!".yml", cl!".yaml", cl!".options", cl!".properties"]

/-- `plain_text(file)` -/
def plainText (name : Str) : Bool := plainExts.contains (extOf name)

/-! ### the installation directory (relative to the Elasticsearch home) -/

structure FS where
  files : List (Path × Bytes)
  dirs : List Path                 -- the root itself is not listed
deriving Repr, DecidableEq

def getF : List (Path × Bytes) → Path → Option Bytes
  | [], _ => none
  | (p', b) :: t, p => if p' = p then some b else getF t p

def putF : List (Path × Bytes) → Path → Bytes → List (Path × Bytes)
  | [], p, b => [(p, b)]
  | (p', b') :: t, p, b => if p' = p then (p', b) :: t else (p', b') :: putF t p b

/-- non-empty prefixes, shortest first: what `os.makedirs` creates -/
def prefixes : Path → List Path
  | [] => []
  | x :: xs => [x] :: (prefixes xs).map (x :: ·)

def addDir (dirs : List Path) (q : Path) : List Path := if q ∈ dirs then dirs else dirs ++ [q]

/-- `io.ensure_dir(os.path.join(target_root, relative_root))` -/
def ensureDir (fs : FS) (p : Path) : FS := { fs with dirs := (prefixes p).foldl addDir fs.dirs }

/-- body of the inner loop of `_apply_config` -/
def applyFile (vars : Vars) (dir : Path) (fs : FS) (f : SrcFile) : FS :=
  let target := dir ++ [f.name]
  if plainText f.name then
    -- open(target_file, mode="a").write(_render_template(...))
    { fs with files := putF fs.files target ((getF fs.files target).getD [] ++ renderBytes vars f.body) }
  else
    -- shutil.copy(source_file, target_file)
    { fs with files := putF fs.files target (srcBytes f.body) }

def applyDir (vars : Vars) (fs : FS) (wd : WalkDir) : FS :=
  wd.files.foldl (applyFile vars wd.rel) (ensureDir fs wd.rel)

/-- `_apply_config(source_root_path, target_root_path, config_vars)` -/
def applyConfig (vars : Vars) (fs : FS) (walk : List WalkDir) : FS := walk.foldl (applyDir vars) fs

/-- `for p in self.es_installer.config_source_paths: self.apply_config(p, target_root_path, provisioner_vars)` -/
def applyConfigs (vars : Vars) (fs : FS) (walks : List (List WalkDir)) : FS := walks.foldl (applyConfig vars) fs

def kConfig : Str := cl!"config"

/-- `delete_pre_bundled_configuration`: `shutil.rmtree(<es home>/config)` -/
def deleteConfig (fs : FS) : Except Err FS :=
  if [kConfig] ∈ fs.dirs then
    .ok ⟨fs.files.filter (fun e => e.1.head? != some kConfig), fs.dirs.filter (fun d => d.head? != some kConfig)⟩
  else .error .noBundledConfig

/-- `convert.to_bool` -/
def toBool : Val → Except Err Bool
  | .bool b => .ok b
  | .int 1 => .ok true        -- `1 in [..., True]`
  | .int 0 => .ok false       -- `0 in [..., False]`
  | .str s =>
    if s ∈ [cl!"True", cl!"true", cl!"Yes", cl!"yes", cl!"t", cl!"y", cl!"1"] then .ok true
    else if s ∈ [cl!"False", cl!"false", cl!"No", cl!"no", cl!"f", cl!"n", cl!"0"] then .ok false
    else .error .notABool
  | _ => .error .notABool

structure NodeCfg where
  runtimeJdk : Val
  bundledJdk : Bool
  ip : Str
  nodeName : Str
  nodeRoot : Str
  binaryPath : Str
  dataPaths : List Str
deriving Repr, DecidableEq

/-- the `NodeConfiguration(...)` expression at the end of `prepare` -/
def nodeCfg (car : Car) (n : Node) (dp : List Str) : Except Err NodeCfg :=
  match dget car.vars kRuntimeJdk with
  | none => .error .missingVar
  | some jdk =>
    match dget car.vars kRuntimeJdkBundled with
    | none => .error .missingVar
    | some b =>
      match toBool b with
      | .error e => .error e
      | .ok bb => .ok ⟨jdk, bb, n.ip, n.nodeName, n.nodeRoot, n.esHome, dp⟩

structure Prepared where
  fs : FS                        -- content of the Elasticsearch home afterwards (also on error)
  vars : Vars                    -- the provisioner variables ([] if not reached)
  result : Except Err NodeCfg
deriving Repr

/-- `BareProvisioner.prepare` without plugins; `dist` = content of the `elasticsearch*` directory
    of the archive -/
def prepare (t : TeamDir) (car : Car) (n : Node) (dist : FS) : Prepared :=
  match dataPaths car.vars n.esHome with
  | .error e => ⟨dist, [], .error e⟩
  | .ok dp =>
    match deleteConfig dist with
    | .error e => ⟨dist, [], .error e⟩
    | .ok fs0 =>
      let pv := provisionerVars (installerVars car.vars n dp) []
      let fs1 := applyConfigs pv fs0 (car.configPaths.map (fun b => (baseOf t b).walk))
      ⟨fs1, pv, nodeCfg car n dp⟩

/-! ### cleanup -/

inductive Kind
  | dir | file | link
deriving Repr, DecidableEq

/-- a listing of absolute paths (components from `/`) with the kind `lstat` reports -/
abbrev Listing := List (Path × Kind)

def kindOf : Listing → Path → Option Kind
  | [], _ => none
  | (p', k) :: t, p => if p' = p then some k else kindOf t p

/-- `delete_path(p)`: `shutil.rmtree` removes a real directory with everything below it; on a
    regular file or a symbolic link it raises `OSError`, which is logged and swallowed; a missing
    path (or a dangling link: `os.path.exists` is false) is skipped -/
def deletePath (l : Listing) (p : Path) : Listing :=
  match kindOf l p with
  | some .dir => l.filter (fun e => !p.isPrefixOf e.1)
  | _ => l

/-- `provisioner.cleanup(preserve, install_dir, data_paths)` -/
def cleanup (preserve : Bool) (installDir : Path) (dataPaths : List Path) (l : Listing) : Listing :=
  if preserve then l else deletePath (dataPaths.foldl deletePath l) installDir

end Team
