/-
Model of `esrally/driver/runner.py : Retry.__call__` (the retry wrapper around runners).

Import-free.  The delegate is a *script*: the list of outcomes of its successive invocations.
An outcome is the class the `try/except` chain of `Retry.__call__` distinguishes plus a tag that
stands for the identity of the returned object / raised exception.  The class hierarchy that the
`except` clauses rely on (elasticsearch 8 / elastic_transport 8):

    socket.timeout                = TimeoutError  (an OSError, unrelated to the ES classes)
    ConnectionError(TransportError)   (TlsError / SSLError are subclasses)
    ConnectionTimeout(TransportError) (NOT a ConnectionError)
    ApiError(Exception)               (NOT a TransportError; status_code = meta.status)
    SerializationError, SniffingError, plain TransportError  → "other transport error": not caught
        (the former trailing `except TransportError` clause, which swallowed them and retried without
        sleeping, was removed by the fix 9eaa174)

The run is a trace of events (delegate call / `asyncio.sleep(d)`) and a final result.  When the
script is used up before the loop terminates the result is `pending` (the delegate would be
invoked once more): this is how `retry-until-success` (max_attempts = sys.maxsize) is covered for
scripts of every finite length.
-/
namespace Retry

inductive Kind
  | dictOk          -- a dict whose `.get("success", True)` is truthy
  | dictFail        -- a dict whose `"success"` is falsy
  | nonDict         -- any value that is not a dict (tuple, None, number, ...)
  | sockTimeout     -- socket.timeout
  | connError       -- elasticsearch.exceptions.ConnectionError (and subclasses)
  | connTimeout     -- elasticsearch.exceptions.ConnectionTimeout
  | api408          -- elasticsearch.ApiError with status_code == 408
  | apiOther        -- elasticsearch.ApiError with any other status code
  | transportOther  -- any other elastic_transport.TransportError
  | otherExc        -- any other Exception (KeyError, RallyError, ...)
deriving Repr, DecidableEq

structure Outcome where
  kind : Kind
  tag : Nat
deriving Repr, DecidableEq

/-- does the delegate return (as opposed to raise) with this outcome? -/
def Kind.isValue : Kind → Bool
  | .dictOk | .dictFail | .nonDict => true
  | _ => false

/-- the operation parameters as given (absent key = `none`) and the constructor argument -/
structure Params where
  ctorUntilSuccess : Bool          -- Retry(delegate, retry_until_success=…)
  untilSuccess : Option Bool       -- params.get("retry-until-success", self.retry_until_success)
  retries : Option Int             -- params.get("retries", 0)
  retryOnError : Option Bool       -- params.get("retry-on-error", False)
  wait : Option Rat                -- params.get("retry-wait-period", 0.5)
  retryOnTimeout : Option Bool     -- params.get("retry-on-timeout", True)
deriving Repr

structure Cfg where
  maxAttempts : Nat
  retryOnError : Bool
  retryOnTimeout : Bool
  sleepTime : Rat
deriving Repr, DecidableEq

/-- sys.maxsize on CPython 64 bit -/
def sysMaxsize : Nat := 9223372036854775807

def Params.untilSuccessEff (p : Params) : Bool := p.untilSuccess.getD p.ctorUntilSuccess

/-- the first lines of `__call__`; `range(max_attempts)` is empty for max_attempts ≤ 0 -/
def cfg (p : Params) : Cfg :=
  if p.untilSuccessEff then
    { maxAttempts := sysMaxsize, retryOnError := true,
      retryOnTimeout := p.retryOnTimeout.getD true, sleepTime := p.wait.getD (1/2) }
  else
    { maxAttempts := ((p.retries.getD 0) + 1).toNat, retryOnError := p.retryOnError.getD false,
      retryOnTimeout := p.retryOnTimeout.getD true, sleepTime := p.wait.getD (1/2) }

inductive Ev
  | call
  | sleep (d : Rat)
deriving Repr, DecidableEq

inductive Res
  | returned (o : Outcome)   -- `return return_value`
  | raised (o : Outcome)     -- the exception propagates (same object)
  | fellThrough              -- the `for` ran to completion without a call: implicit `return None`
  | pending                  -- script exhausted: the delegate would be invoked again
deriving Repr, DecidableEq

structure Run where
  res : Res
  trace : List Ev
deriving Repr, DecidableEq

inductive Step
  | ret
  | raise
  | retrySleep
deriving Repr, DecidableEq

/-- one pass through the `try/except` chain for an outcome of class `k`;
    `last = (attempt + 1 == max_attempts)` -/
def classify (c : Cfg) (last : Bool) : Kind → Step
  -- try-body: `if last_attempt or not retry_on_error: return`, `elif isinstance(dict)` …
  | .dictOk => .ret
  | .dictFail => if last || !c.retryOnError then .ret else .retrySleep
  | .nonDict => .ret
  -- except (socket.timeout, elasticsearch.exceptions.ConnectionError)
  | .sockTimeout => if last || !c.retryOnTimeout then .raise else .retrySleep
  | .connError => if last || !c.retryOnTimeout then .raise else .retrySleep
  -- except elasticsearch.ApiError
  | .api408 => if last || !c.retryOnTimeout then .raise else .retrySleep
  | .apiOther => .raise
  -- except elasticsearch.exceptions.ConnectionTimeout
  | .connTimeout => if last || !c.retryOnTimeout then .raise else .retrySleep
  -- not caught: other transport errors and every other exception propagate
  | .transportOther => .raise
  | .otherExc => .raise

/-- `for attempt in range(max_attempts)` from iteration `attempt` on, against the remaining script -/
def loop (c : Cfg) (attempt : Nat) : List Outcome → Run
  | [] => if attempt ≥ c.maxAttempts then ⟨.fellThrough, []⟩ else ⟨.pending, []⟩
  | o :: rest =>
    if attempt ≥ c.maxAttempts then ⟨.fellThrough, []⟩ else
    match classify c (attempt + 1 == c.maxAttempts) o.kind with
    | .ret => ⟨.returned o, [.call]⟩
    | .raise => ⟨.raised o, [.call]⟩
    | .retrySleep =>
      let r := loop c (attempt + 1) rest
      ⟨r.res, .call :: .sleep c.sleepTime :: r.trace⟩

def retry (p : Params) (outs : List Outcome) : Run := loop (cfg p) 0 outs

/-- number of delegate invocations in a trace -/
def nCalls : List Ev → Nat
  | [] => 0
  | .call :: t => nCalls t + 1
  | .sleep _ :: t => nCalls t

def sleepsOf : List Ev → List Rat
  | [] => []
  | .call :: t => sleepsOf t
  | .sleep d :: t => d :: sleepsOf t

def Run.calls (r : Run) : Nat := nCalls r.trace
def Run.sleeps (r : Run) : List Rat := sleepsOf r.trace

/-! ### how a registered operation type runs (for the generated table of `register_default_runners`) -/

/-- a runner registered without `Retry(...)`: one invocation, outcome passed through -/
def passThrough : List Outcome → Run
  | [] => ⟨.pending, []⟩
  | o :: _ => if o.kind.isValue then ⟨.returned o, [.call]⟩ else ⟨.raised o, [.call]⟩

/-- the runner registered for an operation type: `Retry(X(), retry_until_success=u)` or plain `X()`;
    `p.ctorUntilSuccess` is overridden by the registration -/
def runRegistered (wrapped untilSuccess : Bool) (p : Params) (outs : List Outcome) : Run :=
  if wrapped then retry { p with ctorUntilSuccess := untilSuccess } outs else passThrough outs

/-! ### consecutive invocations of one task

The driver obtains the params dict from the task's parameter source before every invocation; the default
`ParamSource.params()` hands out *the same dict object* every time (and to every client of the worker), so
whatever a runner writes into it is seen by the next invocation.  `Retry.__call__` reads its configuration
from the dict once, before the loop; the delegate receives the very same dict on every attempt.
The retry-relevant content of the dict is `Params`; what an attempt does to it is `effect`. -/

structure Attempt where
  out : Outcome
  effect : Params → Params      -- in-place update of the dict by the delegate during this attempt

/-- one invocation against the dict `store`: the run, and the dict afterwards (effects of the attempts that were made) -/
def invoke (wrapped untilSuccess : Bool) (store : Params) (atts : List Attempt) : Run × Params :=
  let r := runRegistered wrapped untilSuccess store (atts.map (·.out))
  (r, (atts.take r.calls).foldl (fun s a => a.effect s) store)

/-- the invocations of a task one after the other; `shared` = the parameter source hands out the same dict
    (default `ParamSource`), otherwise a fresh copy of the task's parameters `p0` each time -/
def runSeq (wrapped untilSuccess shared : Bool) (p0 : Params) : Params → List (List Attempt) → List Run
  | _, [] => []
  | store, inv :: rest =>
    (invoke wrapped untilSuccess store inv).1 ::
      runSeq wrapped untilSuccess shared p0 (if shared then (invoke wrapped untilSuccess store inv).2 else p0) rest

def runTask (wrapped untilSuccess shared : Bool) (p0 : Params) (invs : List (List Attempt)) : List Run :=
  runSeq wrapped untilSuccess shared p0 p0 invs

/-- an observed in-place update of the retry-relevant keys: `none` = key untouched, `some none` = key deleted,
    `some (some v)` = key set to `v` (used by the line-protocol driver to replay observed effects) -/
structure Update where
  untilSuccess : Option (Option Bool)
  retries : Option (Option Int)
  retryOnError : Option (Option Bool)
  wait : Option (Option Rat)
  retryOnTimeout : Option (Option Bool)

def Update.apply (u : Update) (p : Params) : Params :=
  { p with
    untilSuccess := u.untilSuccess.getD p.untilSuccess,
    retries := u.retries.getD p.retries,
    retryOnError := u.retryOnError.getD p.retryOnError,
    wait := u.wait.getD p.wait,
    retryOnTimeout := u.retryOnTimeout.getD p.retryOnTimeout }

/-! ### what the cluster answers inside an attempt

The property's outcome classes (time-out, connection error, HTTP 408, other API error …) are answers of
Elasticsearch to the requests an attempt issues.  A runner body is *transparent for client errors* when the
first client call that raises ends the attempt with that very error, and otherwise the body returns the value it
computes from the documents (this is what the harness checks on every real runner body). -/

inductive Answer
  | doc                          -- a response document, whatever it says
  | error (k : Kind) (tag : Nat) -- the client raised (k: one of the exception classes)
deriving Repr, DecidableEq

def Answer.isError : Answer → Bool
  | .error _ _ => true
  | .doc => false

/-- outcome of an attempt of a transparent body -/
def bodyOutcome (answers : List Answer) (value : Outcome) : Outcome :=
  match answers.find? Answer.isError with
  | some (.error k t) => ⟨k, t⟩
  | _ => value

structure ClusterAttempt where
  answers : List Answer
  value : Outcome      -- what the body returns if no client call raises
deriving Repr

def retryCluster (p : Params) (atts : List ClusterAttempt) : Run :=
  retry p (atts.map (fun a => bodyOutcome a.answers a.value))

/-! ### several invocations in flight on one registered runner (clients of a worker share the runner object)

Small-step view of `Retry.__call__`: an invocation in flight is its own configuration (read from its own params
when it started), its own iteration counter and what is left of its own delegate script.  There is no state on the
`Retry` object.  A scheduler interleaves the steps of the invocations in any order (`asyncio` switches between them
whenever one of them sleeps between attempts). -/

structure InFlight where
  cfg : Cfg
  attempt : Nat
  rest : List Outcome
  trace : List Ev
  res : Option Res          -- `none` while in flight
deriving Repr, DecidableEq

def startInv (p : Params) (outs : List Outcome) : InFlight := ⟨cfg p, 0, outs, [], none⟩

/-- one scheduling quantum of an invocation: the next attempt up to and including the pause that follows it -/
def stepInv (v : InFlight) : InFlight :=
  match v.res with
  | some _ => v
  | none =>
    if v.attempt ≥ v.cfg.maxAttempts then { v with res := some .fellThrough } else
    match v.rest with
    | [] => { v with res := some .pending }
    | o :: rest =>
      match classify v.cfg (v.attempt + 1 == v.cfg.maxAttempts) o.kind with
      | .ret => { v with rest := rest, trace := v.trace ++ [.call], res := some (.returned o) }
      | .raise => { v with rest := rest, trace := v.trace ++ [.call], res := some (.raised o) }
      | .retrySleep => { v with rest := rest, trace := v.trace ++ [.call, .sleep v.cfg.sleepTime], attempt := v.attempt + 1 }

/-- `n` quanta of one invocation -/
def runQuanta : Nat → InFlight → InFlight
  | 0, v => v
  | n + 1, v => runQuanta n (stepInv v)

/-- a schedule names, quantum after quantum, the invocation that runs next -/
def runSchedule (sched : List Nat) (invs : List InFlight) : List InFlight :=
  sched.foldl (fun st i => st.modify i stepInv) invs

/-! ### what an attempt produces, before it is classified

The `try/except` chain of `Retry.__call__` looks at an attempt's product only through `isinstance` tests (in the
order of the `except` clauses), `e.status_code == 408` and the truthiness of `return_value.get("success", True)`.
`Raw` is the product with everything else it carries — what the error *says* (message, Elasticsearch error type,
response body) is the opaque `what`; nothing in the chain may depend on it, nor on what earlier attempts produced. -/

/-- the `isinstance` facts of a raised exception object (any class, also one that inherits from several of these) -/
structure Facts where
  sockTimeout : Bool      -- isinstance(e, socket.timeout)            (= builtin TimeoutError)
  connError : Bool        -- isinstance(e, elasticsearch.exceptions.ConnectionError)
  apiError : Bool         -- isinstance(e, elasticsearch.ApiError)
  connTimeout : Bool      -- isinstance(e, elasticsearch.exceptions.ConnectionTimeout)
  transportError : Bool   -- isinstance(e, elastic_transport.TransportError)
deriving Repr, DecidableEq

inductive Raw
  /-- the delegate returned: is it a dict, and `"success"` absent (`none`) / its truthiness -/
  | value (isDict : Bool) (success : Option Bool) (what : Nat)
  /-- the delegate raised: class facts, `e.status_code` (read only for API errors), what the error says -/
  | exc (f : Facts) (status : Nat) (what : Nat)
deriving Repr, DecidableEq

/-- the clause of the `try/except` chain that takes the product — **first matching `except` clause wins** -/
def Raw.kind : Raw → Kind
  | .value false _ _ => .nonDict
  | .value true none _ => .dictOk                       -- `.get("success", True)`
  | .value true (some b) _ => if b then .dictOk else .dictFail
  | .exc f status _ =>
    if f.sockTimeout then .sockTimeout                  -- except (socket.timeout, ConnectionError)
    else if f.connError then .connError
    else if f.apiError then (if status = 408 then .api408 else .apiOther)   -- except ApiError
    else if f.connTimeout then .connTimeout             -- except ConnectionTimeout
    else if f.transportError then .transportOther       -- not caught
    else .otherExc

/-- a script of raw products, each with the tag that stands for the object's identity -/
def rawOutcomes (rs : List (Raw × Nat)) : List Outcome := rs.map (fun r => ⟨r.1.kind, r.2⟩)

def retryRaw (p : Params) (rs : List (Raw × Nat)) : Run := retry p (rawOutcomes rs)

/-- the same product saying something else -/
def Raw.withWhat : Raw → Nat → Raw
  | .value d s _, w => .value d s w
  | .exc f st _, w => .exc f st w

end Retry
