import RallyModel.Bulk
/-!
# C03 — what a LINE of a data file is, at byte level, for every byte content

`RallyModel/Bulk.lean` (section 6) models `mm.readline()` as `lineLen`: a line ends at byte 10 (`\n`) and only
there.  Bytes 13 (`\r`), 11, 12, 28–30, the UTF-8 sequences of U+0085 / U+2028 / U+2029 are ordinary content of a
line for the mmap reader (`MmapSource.readline/readlines`, `skip_lines`).

The other reader of a data file is `prepare_file_offset_table`: `open(path, encoding="utf-8")` – TEXT mode with
universal newlines.  There a line also ends at `\r\n` (one line, same end as for the mmap reader) and at a `\r` that
is NOT followed by `\n` (a line end the mmap reader does not see).  `textLines` mirrors that split; `noBareCR`
is the class of files on which both notions agree (CRLF files included).
-/

namespace Bulk

/-- the lines a text-mode reader with universal newlines sees (original bytes kept): a line ends at `\n`, at
    `\r\n` and at a `\r` not followed by `\n` -/
def textLines : List Byte → List (List Byte)
  | [] => []
  | [b] => [[b]]
  | b :: c :: r =>
    if b = 10 then [b] :: textLines (c :: r)
    else if b = 13 then
      if c = 10 then [13, 10] :: textLines r else [13] :: textLines (c :: r)
    else
      match textLines (c :: r) with
      | [] => [[b]]
      | l :: ls => (b :: l) :: ls

/-- every `\r` of the file is directly followed by `\n` -/
def noBareCR : List Byte → Bool
  | [] => true
  | [b] => b != 13
  | b :: c :: r => (b != 13 || c == 10) && noBareCR (c :: r)

/-- `prepare_file_offset_table(path)` as the code runs it: line numbers and `tell()` of the TEXT-mode reader
    (the offsets are those of `tell()` for lines that do not end in a bare `\r`) -/
def prepareOffsetTableText (every : Nat) (bs : List Byte) : List (Nat × Nat) × Nat :=
  tableLoop every (textLines bs) 0 0

/-- `DocumentSetPreparator.create_file_offset_table`: the file is accepted iff the text-mode line count is the
    expected number of lines (otherwise `DataError`, the table is removed) -/
def preparatorAccepts (bs : List Byte) (expectedLines : Nat) : Bool :=
  (prepareOffsetTableText 50000 bs).2 == expectedLines

/-- number of `\n` bytes -/
def countNL : List Byte → Nat
  | [] => 0
  | b :: bs => (if b = 10 then 1 else 0) + countNL bs

/-- does the file end in `\n` (an empty file counts as terminated) -/
def endsNL : List Byte → Bool
  | [] => true
  | [b] => b == 10
  | _ :: c :: r => endsNL (c :: r)

end Bulk
