import RallyModel.Ctx
import RallyProofs.Ctx
import RallyGen.TraceHooks
import RallyModel.SubTimings
import RallyProofs.SubTimings
/-!
# C18 — request timings span all sub-requests and never leak between clients

Model: `RallyModel/Ctx.lean` (request-context dicts, asyncio tasks with a context-variable pointer copied at
task creation, events `client / spawn / open_ / wireStart / wireEnd / close` in **any** interleaving that keeps
the clock monotone).  `runCtx true` is the CURRENT code (esrally/client/context.py since fix 65587fe);
`runCtx false` is the code as pinned before that fix and appears only in the historical `…_pinned` results.

* what a context *should* carry: `specStart s c` / `specStop s c` = minimum of the wire starts / maximum of the wire
  ends issued while `c` or a descendant of `c` was the current context (`spec_is_earliest_latest`).
* `settled s c`: every strict descendant of `c` has exited (the moment `AsyncExecutor` / `RequestTiming` read the
  timing, and any later moment).   `s.late = false`: nothing was written into / on behalf of an exited context
  (structured concurrency: `Composite.run_stream` awaits its sub-streams).
* `outer_span`         — the full statement, for the current code: any tree, any number of tasks and clients, any
  admissible interleaving.
* `exit_kind_irrelevant` — contexts left by an exception (failed / cancelled sub-requests) propagate like any other.
* `sub_request_exact`  — every trace (stated for both code versions); `dependent_timings_complete` / `_exact` lift it
  to the whole `dependent_timing` list of a composite (one record per executed sub-request, unkeyed).
* `client_isolation`   — every trace (stated for both code versions).
* historical (`…_pinned`, code before 65587fe): the full statement was **false** (`outer_span_false_pinned`,
  `outer_span_false_end_pinned`, `outer_span_false_empty_child_pinned`; the same traces are regression cases in
  corpus/C18) and held only for sequential nesting (`outer_span_partial_pinned`).
-/
namespace C18
open Ctx

/-! ### the specification values are the earliest start / the latest end -/

theorem spec_is_earliest_latest (s : St) (c : Nat) :
    (∀ m, specStart s c = some m → m ∈ timesFor s.log true c ∧ ∀ x ∈ timesFor s.log true c, m ≤ x) ∧
    (∀ m, specStop s c = some m → m ∈ timesFor s.log false c ∧ ∀ x ∈ timesFor s.log false c, x ≤ m) ∧
    (specStart s c = none ↔ timesFor s.log true c = []) ∧
    (specStop s c = none ↔ timesFor s.log false c = []) :=
  ⟨fun _ h => minOpt_spec h, fun _ h => maxOpt_spec h, minOpt_eq_none, maxOpt_eq_none⟩

/-! ### sub_request_exact -/

/-- **sub_request_exact**: in every reachable state (any interleaving, any number of tasks and clients; `fx = true` is the
    current code, the statement also holds for the pre-fix code) a context that has no child context carries exactly the first start and the last end of
    the wire requests issued while it was itself the current context — nothing of any other context. -/
theorem sub_request_exact (fx : Bool) (evs : List CEv) (s : St) (c : Nat) (r : Rec)
    (hrun : runCtx fx evs = .ok s) (hc : s.ctxs c = some r) (hleaf : isLeaf s c = true) :
    r.start = (minOpt (directTimes s.log true c)).map some ∧
    r.stop = (maxOpt (directTimes s.log false c)).map some := by
  have hi := exact_runFrom exact_init hrun
  exact hi.leaf c r hc (isLeaf_noChild hi.wf hleaf)

/-- what `request_context.request_start / request_end` return for such a context -/
theorem sub_request_exact_read (fx : Bool) (evs : List CEv) (s : St) (c : Nat) (r : Rec)
    (hrun : runCtx fx evs = .ok s) (hc : s.ctxs c = some r) (hleaf : isLeaf s c = true) :
    r.getStart = minOpt (directTimes s.log true c) ∧ r.getStop = maxOpt (directTimes s.log false c) := by
  obtain ⟨h1, h2⟩ := sub_request_exact fx evs s c r hrun hc hleaf
  unfold Rec.getStart Rec.getStop
  rw [h1, h2]
  constructor
  · cases minOpt (directTimes s.log true c) <;> rfl
  · cases maxOpt (directTimes s.log false c) <;> rfl

/-! ### client_isolation -/

/-- **client_isolation** (non-interference).  Let `P` be any set of tasks closed under task creation inside a
    request (`spawn`) — e.g. one client task and the stream tasks of its composite requests.  Whatever the other
    tasks do and however the events interleave, the run restricted to `P`'s own events succeeds and ends with
    exactly the same tasks, the same dicts (all fields) and the same wire log for `P`. -/
theorem client_isolation (fx : Bool) (P : Nat → Bool) (evs : List CEv) (s : St)
    (hrun : runCtx fx evs = .ok s) (hclosed : ∀ p c, CEv.spawn p c ∈ evs → P c = P p) :
    ∃ s', runCtx fx (evs.filter (fun e => P e.task)) = .ok s' ∧
      (∀ τ, P τ = true → s'.tasks τ = s.tasks τ) ∧
      (∀ x, s'.ctxs x = (s.ctxs x).filter (fun r => P r.opener)) ∧
      s'.log = s.log.filter (fun e => P e.task) := by
  obtain ⟨s', h1, h2⟩ := sim_runFrom (sim_init P) hrun hclosed
  exact ⟨s', h1, fun τ hτ => h2.task_in hτ, h2.ctxs, h2.log⟩

/-- two interleavings in which the tasks of `P` do the same things (in the same order, reading the same clock
    values) give `P` the same dicts — whatever else happens around them. -/
theorem client_isolation_two_runs (fx : Bool) (P : Nat → Bool) (evs₁ evs₂ : List CEv) (s₁ s₂ : St)
    (h₁ : runCtx fx evs₁ = .ok s₁) (h₂ : runCtx fx evs₂ = .ok s₂)
    (hc₁ : ∀ p c, CEv.spawn p c ∈ evs₁ → P c = P p) (hc₂ : ∀ p c, CEv.spawn p c ∈ evs₂ → P c = P p)
    (hsame : evs₁.filter (fun e => P e.task) = evs₂.filter (fun e => P e.task)) :
    ∀ x, (s₁.ctxs x).filter (fun r => P r.opener) = (s₂.ctxs x).filter (fun r => P r.opener) := by
  obtain ⟨a, ha, _, hca, _⟩ := client_isolation fx P evs₁ s₁ h₁ hc₁
  obtain ⟨b, hb, _, hcb, _⟩ := client_isolation fx P evs₂ s₂ h₂ hc₂
  rw [hsame, hb] at ha
  cases ha
  intro x
  rw [← hca x, ← hcb x]

/-! ### outer_span -/

/-- the outer-span statement for the code version `fx`: whenever every strict descendant of a context has exited
    and nothing was written late, the context carries the earliest start and the latest end of all wire requests
    issued on its behalf. -/
def OuterSpan (fx : Bool) : Prop :=
  ∀ (evs : List CEv) (s : St) (c : Nat) (r : Rec),
    runCtx fx evs = .ok s → s.late = false → s.ctxs c = some r → settled s c = true →
    r.getStart = specStart s c ∧ r.getStop = specStop s c

/-- **outer_span** (current code, full statement): for every tree of nested contexts, every number of tasks and
    clients, every admissible interleaving: once every strict descendant of a context has exited (and nothing
    was written into an exited context), it carries the earliest start and the latest end of all wire requests
    issued on its behalf. -/
theorem outer_span : OuterSpan true := by
  intro evs s c r hrun hl hc hset
  exact pinv_settled (pinv_runFrom pinv_init hrun hl) hc hset

/-! ### failing requests: exits with an exception -/

/-- forget how the contexts were left -/
def normalExits : List CEv → List CEv
  | [] => []
  | .close τ _ :: es => .close τ false :: normalExits es
  | e :: es => e :: normalExits es

/-- **exit_kind_irrelevant**: a request context left by an exception (a sub-request that timed out or raised an
    `ApiError`, a cancelled stream) hands its start and end over to the enclosing context exactly like one left
    normally: replacing every exceptional exit by a normal one changes nothing at all.  Together with
    `outer_span` (which quantifies over all traces, exceptional exits and failed wire requests included): the
    timing of a logical request spans the failed sub-requests too. -/
theorem exit_kind_irrelevant (fx : Bool) (evs : List CEv) : runCtx fx evs = runCtx fx (normalExits evs) := by
  unfold runCtx
  generalize init = s
  induction evs generalizing s with
  | nil => rfl
  | cons e es ih =>
    cases e with
    | close τ exc =>
      simp only [normalExits, runFrom]
      have : step fx s (.close τ exc) = step fx s (.close τ false) := rfl
      rw [this]
      cases step fx s (.close τ false) with
      | ok s' => exact ih s'
      | error _ => rfl
    | client c => simp only [normalExits, runFrom]; cases step fx s (.client c) with
      | ok s' => exact ih s'
      | error _ => rfl
    | spawn p c => simp only [normalExits, runFrom]; cases step fx s (.spawn p c) with
      | ok s' => exact ih s'
      | error _ => rfl
    | open_ τ c => simp only [normalExits, runFrom]; cases step fx s (.open_ τ c) with
      | ok s' => exact ih s'
      | error _ => rfl
    | wireStart τ t => simp only [normalExits, runFrom]; cases step fx s (.wireStart τ t) with
      | ok s' => exact ih s'
      | error _ => rfl
    | wireEnd τ t => simp only [normalExits, runFrom]; cases step fx s (.wireEnd τ t) with
      | ok s' => exact ih s'
      | error _ => rfl

/-- composite of three sequential raw requests [10,11], [12,13], [14,17]; the third one times out at 17 (the
    exception hook records the end, its `RequestTiming` context is left by the exception): the logical request
    spans 10 … 17. -/
def exFailSeq : List CEv :=
  [.client 0, .open_ 0 10,
   .open_ 0 11, .wireStart 0 10, .wireEnd 0 11, .close 0 false,
   .open_ 0 12, .wireStart 0 12, .wireEnd 0 13, .close 0 false,
   .open_ 0 13, .wireStart 0 14, .wireEnd 0 17, .close 0 true]

example : chk true exFailSeq (fun s => !s.late && settled s 10 &&
    view s 10 == some (some 10, some 17, some 10, some 17)) = true := by decide

/-- r0 = [5,6], then two concurrent streams: a1 = [10,12] succeeds, b1 = [11,15] times out: 5 … 15 -/
def exFailConc : List CEv :=
  [.client 0, .open_ 0 10, .open_ 0 11, .wireStart 0 5, .wireEnd 0 6, .close 0 false,
   .spawn 0 1, .spawn 0 2, .open_ 1 12, .open_ 2 13, .wireStart 1 10, .wireStart 2 11,
   .wireEnd 1 12, .close 1 false, .wireEnd 2 15, .close 2 true]

example : chk true exFailConc (fun s => !s.late && settled s 10 &&
    view s 10 == some (some 5, some 15, some 5, some 15)) = true := by decide

/-- before fix e1fd341 a stream that was still in flight when its sibling failed was not awaited by
    `Composite.run_stream` (it was cancelled, or — when the failure surfaced in the final `gather` — simply kept
    running): it left its context only after the logical request had been recorded and exited.  That is the `late` case which `outer_span`
    excludes by hypothesis, and indeed the recorded start (11) misses the sibling's earlier start (10); the
    correspondence check reports such runs under the oracle class `cancelled-sibling-in-flight`
    (here: a1 = [10, unwound at 15], b1 = [11,15] times out; the outer context is read right after `close 2 true`). -/
example : chk true
    [.client 0, .open_ 0 10, .spawn 0 1, .spawn 0 2, .open_ 1 12, .open_ 2 13, .wireStart 1 10, .wireStart 2 11,
     .wireEnd 2 15, .close 2 true, .close 0 false, .wireEnd 1 15, .close 1 true]
    (fun s => s.late && view s 10 == some (some 10, some 15, some 10, some 15)) = true := by decide

/-! ### the `dependent_timing` list of a composite: one record per executed sub-request -/

/-- **dependent_timings_complete**: the list `Composite.run_stream` returns (model: `collect`, which mirrors its
    `timings.append` / `timings += stream_timings` with the pending-streams buffer) contains every executed
    sub-request of the specification — nested and concurrent streams included — exactly once, in specification
    order.  Records are not keyed by anything: sub-requests that share a `name`, or have none, stay apart. -/
theorem dependent_timings_complete (items : Items) : collect items = allOps items := by
  unfold collect
  rw [collectGo_eq]
  rfl

/-- as a multiset and as a count (what the property needs) -/
theorem dependent_timings_one_per_sub_request (items : Items) :
    (collect items).Perm (allOps items) ∧ (collect items).length = (allOps items).length := by
  rw [dependent_timings_complete]
  exact ⟨List.Perm.refl _, rfl⟩

/-- what `RequestTiming` puts into the record of the sub-request that ran in context `c` -/
def timingOf (s : St) (c : Nat) : Option (PyVal × PyVal) := (s.ctxs c).map (fun r => (r.getStart, r.getStop))

/-- **dependent_timings_exact** = `sub_request_exact` lifted to the whole list: if `ctxOf id` is the (leaf) context
    in which sub-request `id` ran, the list of records is, entry by entry, the first start / last end of exactly
    that sub-request's own wire requests (any interleaving of the streams, any sharing of names). -/
theorem dependent_timings_exact (fx : Bool) (evs : List CEv) (s : St) (items : Items) (ctxOf : Nat → Nat)
    (hrun : runCtx fx evs = .ok s)
    (hleaf : ∀ id ∈ allOps items, (s.ctxs (ctxOf id)).isSome ∧ isLeaf s (ctxOf id) = true) :
    (collect items).map (fun id => (id, timingOf s (ctxOf id))) =
    (allOps items).map (fun id => (id, some (minOpt (directTimes s.log true (ctxOf id)),
                                            maxOpt (directTimes s.log false (ctxOf id))))) := by
  rw [dependent_timings_complete]
  apply List.map_congr_left
  intro id hid
  obtain ⟨hsome, hl⟩ := hleaf id hid
  cases hc : s.ctxs (ctxOf id) with
  | none => rw [hc] at hsome; cases hsome
  | some r =>
    obtain ⟨h1, h2⟩ := sub_request_exact_read fx evs s (ctxOf id) r hrun hc hl
    simp [timingOf, hc, h1, h2]

/-- streams three levels deep, streams before / between / after sub-requests -/
example : collect (.stream (.op 0 (.stream (.op 1 .nil) (.op 2 .nil))) (.stream (.op 3 .nil) (.op 4 (.stream (.op 5 .nil) .nil))))
    = [0, 1, 2, 3, 4, 5] := by decide

/-! ### the trace hooks: every HTTP request that starts also ends (whatever its outcome)

`reg` is regenerated on every check from the AST of `EsClientFactory.create_async` (`RallyGen/TraceHooks.lean`): a
hook that is no longer registered (or registered for the wrong callback) breaks these proofs. -/

def reg : List (Signal × HookAct) := decodeReg Gen.TraceHooks.registered

/-- **hooks_start_and_end**: for every outcome class of an HTTP request — completely received, failed before the
    response headers, failed while the body was being read — the registered hooks call `on_request_start` exactly
    once, first, and then `on_request_end` at least once and nothing else.  This is the premise under which the
    wire log of the context model (`wireStart … wireEnd`) describes what the client really does, i.e. under which
    `outer_span` / `sub_request_exact` speak about *all* HTTP requests. -/
theorem hooks_start_and_end :
    ∀ (o : Outcome) (last : Bool), startsAndEnds (hookActs reg Gen.TraceHooks.endOnFailure o last) = true := by
  intro o last; cases o <;> cases last <;> decide

/-- the end is (re-)recorded at the **last** signal aiohttp emits for the request, for every outcome class -/
theorem end_recorded_at_last_signal :
    ∀ o : Outcome, ∃ sg, (signalsOf o).getLast? = some sg ∧ (sg, HookAct.stop) ∈ reg ∧ (sg, HookAct.start) ∉ reg := by
  intro o; cases o
  · exact ⟨.chunkReceived, by decide⟩
  · exact ⟨.requestException, by decide⟩
  · exact ⟨.requestEnd, by decide⟩

/-- **the full statement about the end of a single HTTP request**: an end is recorded at the moment the exchange is
    over, for every outcome class. -/
def EveryRequestEndsWhenItIsOver : Prop := ∀ o : Outcome, endsWhenOver reg Gen.TraceHooks.endOnFailure o = true

/-- … which holds exactly if `RallyAsyncElasticsearch.perform_request` records the end of a failing transport call
    for every exception: the trace hooks alone cannot do it, because aiohttp emits no signal when a request fails
    while its body is being read (time-out / connection loss / cancellation after the response headers have arrived;
    the recorded end then is the arrival of the headers).  The statement is true for both states of the code; the
    constant is regenerated from the AST of asynchronous.py. -/
theorem request_ends_when_over_iff : EveryRequestEndsWhenItIsOver ↔ Gen.TraceHooks.endOnFailure ≥ 2 := by
  unfold EveryRequestEndsWhenItIsOver
  constructor
  · intro h
    have := h .failAfterHeaders
    simpa [endsWhenOver] using this
  · intro h o
    cases o <;> simp [endsWhenOver, h] <;> decide

/-- **the current code does both**: every request ends when it is over … -/
theorem request_ends_when_over : EveryRequestEndsWhenItIsOver :=
  request_ends_when_over_iff.mpr (by decide)

/-- … and never later: no end is recorded after a response has been received completely (in particular not after
    the client has deserialised it), whatever the outcome class. -/
theorem no_end_after_request_is_over : ∀ o : Outcome, noEndAfterOver Gen.TraceHooks.endOnFailure o = true := by
  intro o; cases o <;> decide

/-- what the trace hooks do guarantee: requests that are received completely or fail before the response headers
    end when they are over -/
theorem request_ends_when_over_partial :
    ∀ o : Outcome, o ≠ .failAfterHeaders → endsWhenOver reg Gen.TraceHooks.endOnFailure o = true := by
  intro o ho; cases o
  · decide
  · decide
  · exact absurd rfl ho

/-- and the start at the first one, only there -/
theorem start_recorded_at_first_signal_only :
    ∀ o : Outcome, ∀ sg ∈ signalsOf o, ((sg, HookAct.start) ∈ reg ↔ sg = .requestStart) := by
  intro o; cases o <;> decide

/-! ### every wire request belongs to exactly one logical request and lies inside its recorded span -/

/-- **wire_requests_inside_recorded_span**: under the hypotheses of `outer_span`, every wire request issued on behalf
    of a context lies inside its recorded [start, end]: no start before the recorded start, no end after the
    recorded end (multi-request runners: scroll pages + clear-scroll, point-in-time open / pages / close, composite-agg
    pages, async search, retries of the transport …). -/
theorem wire_requests_inside_recorded_span (evs : List CEv) (s : St) (c : Nat) (r : Rec)
    (hrun : runCtx true evs = .ok s) (hl : s.late = false) (hc : s.ctxs c = some r) (hset : settled s c = true) :
    (∀ t ∈ timesFor s.log true c, ∃ m, r.getStart = some m ∧ m ≤ t) ∧
    (∀ t ∈ timesFor s.log false c, ∃ m, r.getStop = some m ∧ t ≤ m) := by
  obtain ⟨h1, h2⟩ := outer_span evs s c r hrun hl hc hset
  constructor
  · intro t ht
    cases hm : minOpt (timesFor s.log true c) with
    | none => rw [minOpt_eq_none.mp hm] at ht; cases ht
    | some m => exact ⟨m, by rw [h1]; exact hm, (minOpt_spec hm).2 t ht⟩
  · intro t ht
    cases hm : maxOpt (timesFor s.log false c) with
    | none => rw [maxOpt_eq_none.mp hm] at ht; cases ht
    | some m => exact ⟨m, by rw [h2]; exact hm, (maxOpt_spec hm).2 t ht⟩

/-- **wire_event_belongs_to_one_request**: the contexts on whose behalf a wire event was logged contain at most one
    top-level context (one logical request) — every trace, both code versions. -/
theorem wire_event_belongs_to_one_request (fx : Bool) (evs : List CEv) (s : St) (hrun : runCtx fx evs = .ok s)
    (e : LogE) (he : e ∈ s.log) (x y : Nat) (rx ry : Rec) (hx : x ∈ e.chain) (hy : y ∈ e.chain)
    (hrx : s.ctxs x = some rx) (hry : s.ctxs y = some ry) (hpx : rx.parent = none) (hpy : ry.parent = none) :
    x = y := by
  have hi := lc_runFrom lc_init hrun
  have h1 := chainOK_root_is_last hi.wf (hi.logChain e he) hx hrx hpx
  have h2 := chainOK_root_is_last hi.wf (hi.logChain e he) hy hry hpy
  rw [h1] at h2
  exact Option.some.inj h2

/-- **wire_after_exit_is_late**: a wire event on behalf of a context that has already exited (a clean-up request
    started in the background on an error path, a stream that was not awaited) sets `late` — and `late` never
    goes back (`late_mono_run`), so a run that ends with `late = false` (the hypothesis of `outer_span`, established
    for the real runners by the correspondence check) had no HTTP request on the wire after its logical request
    was recorded. -/
theorem wire_after_exit_is_late (fx : Bool) (s s' : St) (τ : Nat) (b : Bool) (t : Rat) (tk : Task) (c : Nat)
    (h : wire fx s τ b t = .ok s') (htk : s.tasks τ = some tk) (hc : c ∈ tk.chain) (hcl : isClosed s c = true) :
    s'.late = true :=
  wire_after_exit_is_late_aux h htk hc hcl

/-- a scroll whose second page fails, with the clear-scroll request sent from a background task after the failed
    request has been recorded: `late`. -/
example : chk true
    [.client 0, .open_ 0 10, .wireStart 0 1, .wireEnd 0 2, .wireStart 0 2, .wireEnd 0 4, .spawn 0 1, .close 0 true,
     .wireStart 1 4, .wireEnd 1 5]
    (fun s => s.late && view s 10 == some (some 1, some 5, some 1, some 5)) = true := by decide

/-! ### historical: the code before fix 65587fe (`runCtx false`)

Before the fix `update_request_start` kept the first value written and `update_request_end` the last one, also
on propagation from nested contexts (including `None`).  The following results document that finding; the three
traces are regression cases of the correspondence check (corpus/C18) and come out right for the current code
(examples below). -/

/-- Witness 1 (real: two concurrent streams of a composite): stream task 1 sends at 1 and is answered at 5,
    stream task 2 sends at 2, is answered at 3 and leaves its `RequestTiming` context first.
    Pre-fix, the outer context then held start 2 — the earliest start is 1. -/
def wStart : List CEv :=
  [.client 0, .open_ 0 10, .spawn 0 1, .spawn 0 2, .open_ 1 11, .open_ 2 12,
   .wireStart 1 1, .wireStart 2 2, .wireEnd 2 3, .close 2 false, .wireEnd 1 5, .close 1 false]

theorem wStart_facts_pinned : chk false wStart (fun s =>
    !s.late && !s.emptyClose && settled s 10 && view s 10 == some (some 2, some 5, some 1, some 5)) = true := by
  decide

/-- the full statement was false for the pre-fix code -/
theorem outer_span_false_pinned : ¬ OuterSpan false := by
  intro h
  obtain ⟨s, hrun, hf⟩ := chk_ok wStart_facts_pinned
  simp only [Bool.and_eq_true, Bool.not_eq_true', beq_iff_eq] at hf
  obtain ⟨⟨⟨hl, _⟩, hs⟩, hv⟩ := hf
  unfold view at hv
  cases hc : s.ctxs 10 with
  | none => rw [hc] at hv; cases hv
  | some r =>
    rw [hc] at hv
    simp only [Option.map_some, Option.some.injEq, Prod.mk.injEq] at hv
    obtain ⟨h1, _, h3, _⟩ := hv
    have := (h wStart s 10 r hrun hl hc hs).1
    rw [h1, h3] at this
    exact absurd this (by decide)

/-- Witness 2: the child that received the *latest* answer (5) leaves before a child whose answer came at 3:
    pre-fix, the outer context ended at 3. -/
def wEnd : List CEv :=
  [.client 0, .open_ 0 10, .spawn 0 1, .spawn 0 2, .open_ 1 11, .open_ 2 12,
   .wireStart 1 1, .wireStart 2 2, .wireEnd 2 3, .wireEnd 1 5, .close 1 false, .close 2 false]

theorem wEnd_facts_pinned : chk false wEnd (fun s =>
    !s.late && !s.emptyClose && settled s 10 && view s 10 == some (some 1, some 3, some 1, some 5)) = true := by
  decide

theorem outer_span_false_end_pinned :
    ∃ evs s c r, runCtx false evs = .ok s ∧ s.late = false ∧ s.ctxs c = some r ∧ settled s c = true ∧
      r.getStop ≠ specStop s c := by
  obtain ⟨s, hrun, hf⟩ := chk_ok wEnd_facts_pinned
  simp only [Bool.and_eq_true, Bool.not_eq_true', beq_iff_eq] at hf
  obtain ⟨⟨⟨hl, _⟩, hs⟩, hv⟩ := hf
  unfold view at hv
  cases hc : s.ctxs 10 with
  | none => rw [hc] at hv; cases hv
  | some r =>
    rw [hc] at hv
    simp only [Option.map_some, Option.some.injEq, Prod.mk.injEq] at hv
    obtain ⟨_, h2, _, h4⟩ := hv
    exact ⟨wEnd, s, 10, r, hrun, hl, hc, hs, by rw [h2, h4]; decide⟩

/-- Witness 3 (no concurrency at all): a nested context in which no wire request was issued exits — pre-fix its
    `None`s were written into the parent: the parent's end became `None` and its start could never be set again. -/
def wEmpty : List CEv :=
  [.client 0, .open_ 0 10, .open_ 0 11, .close 0 false, .wireStart 0 1, .wireEnd 0 2]

theorem wEmpty_facts_pinned : chk false wEmpty (fun s =>
    !s.late && s.emptyClose && settled s 10 && wEmpty.all (fun e => !e.isSpawn) &&
    view s 10 == some (none, some 2, some 1, some 2)) = true := by
  decide

theorem outer_span_false_empty_child_pinned :
    ∃ evs s c r, runCtx false evs = .ok s ∧ (∀ e ∈ evs, e.isSpawn = false) ∧ s.late = false ∧
      s.ctxs c = some r ∧ settled s c = true ∧ r.getStart ≠ specStart s c := by
  obtain ⟨s, hrun, hf⟩ := chk_ok wEmpty_facts_pinned
  simp only [Bool.and_eq_true, Bool.not_eq_true', beq_iff_eq, List.all_eq_true] at hf
  obtain ⟨⟨⟨⟨hl, _⟩, hs⟩, hns⟩, hv⟩ := hf
  unfold view at hv
  cases hc : s.ctxs 10 with
  | none => rw [hc] at hv; cases hv
  | some r =>
    rw [hc] at hv
    simp only [Option.map_some, Option.some.injEq, Prod.mk.injEq] at hv
    obtain ⟨h1, _, h3, _⟩ := hv
    exact ⟨wEmpty, s, 10, r, hrun, hns, hl, hc, hs, by rw [h1, h3]; decide⟩

/-- what did hold for the pre-fix code: if no task is created inside a request (sequential nesting, any depth, any
    number of clients interleaved) and no nested context exits without a start and an end, every settled context
    carries the earliest start and the latest end of the wire requests issued on its behalf. -/
theorem outer_span_partial_pinned (evs : List CEv) (s : St) (c : Nat) (r : Rec)
    (hrun : runCtx false evs = .ok s) (hseq : ∀ e ∈ evs, e.isSpawn = false) (hne : s.emptyClose = false)
    (hc : s.ctxs c = some r) (hset : settled s c = true) :
    r.getStart = specStart s c ∧ r.getStop = specStop s c :=
  seq_settled (seq_runFrom seq_init hrun hseq hne) hc hset

/-! ### the hypotheses are satisfiable by non-trivial inputs (current code) -/

/-- the three historical witnesses come out right: hypotheses of `outer_span` hold, values = specification -/
example : chk true wStart (fun s => !s.late && settled s 10 &&
    view s 10 == some (some 1, some 5, some 1, some 5)) = true := by decide
example : chk true wEnd (fun s => !s.late && settled s 10 &&
    view s 10 == some (some 1, some 5, some 1, some 5)) = true := by decide
example : chk true wEmpty (fun s => !s.late && settled s 10 &&
    view s 10 == some (some 1, some 2, some 1, some 2)) = true := by decide

/-- two clients interleaved, each with nested sequential sub-requests three levels deep -/
def exSeq : List CEv :=
  [.client 0, .client 1, .open_ 0 10, .open_ 1 20, .open_ 0 11, .wireStart 0 1, .open_ 1 21, .wireStart 1 1,
   .wireEnd 0 2, .open_ 0 12, .wireStart 0 3, .wireEnd 1 4, .wireEnd 0 4, .wireEnd 0 6, .close 0 false, .close 0 false,
   .close 1 false, .open_ 0 13, .wireStart 0 7, .wireEnd 0 9, .close 0 false, .wireStart 1 9, .wireEnd 1 10]

example : chk true exSeq (fun s => !s.late && settled s 10 && settled s 20 && settled s 11 &&
    view s 10 == some (some 1, some 9, some 1, some 9) &&
    view s 20 == some (some 1, some 10, some 1, some 10)) = true := by decide

/-- the same trace satisfies the hypotheses of the historical `outer_span_partial_pinned` -/
example : chk false exSeq (fun s =>
    exSeq.all (fun e => !e.isSpawn) && !s.emptyClose && settled s 10 && settled s 20 &&
    view s 10 == some (some 1, some 9, some 1, some 9)) = true := by decide

/-- leaf contexts next to a sibling, written by concurrent tasks: each carries its own requests only -/
example : chk true wStart (fun s => isLeaf s 11 && isLeaf s 12 && !isLeaf s 10 &&
    directTimes s.log true 11 == [1] && directTimes s.log false 12 == [3] &&
    view s 11 == some (some 1, some 5, some 1, some 5) &&
    view s 12 == some (some 2, some 3, some 2, some 3)) = true := by decide

/-- client 0 (tasks 0,1,2) of `wStart` interleaved with a second client: the projection is `wStart` itself -/
def exTwo : List CEv :=
  [.client 0, .client 7, .open_ 7 70, .open_ 0 10, .spawn 0 1, .wireStart 7 0, .spawn 0 2, .open_ 1 11,
   .open_ 2 12, .wireStart 1 1, .spawn 7 8, .wireStart 2 2, .wireEnd 8 2, .wireEnd 2 3, .close 2 false, .wireEnd 1 5,
   .close 1 false, .close 7 false]

example : exTwo.filter (fun e => (fun τ => decide (τ < 7)) e.task) = wStart := by decide
example : chk true exTwo (fun s => view s 70 == some (some 0, some 2, some 0, some 2) &&
    view s 10 == some (some 1, some 5, some 1, some 5)) = true := by decide
example : ∀ p c, CEv.spawn p c ∈ exTwo → (fun τ => decide (τ < 7)) c = (fun τ => decide (τ < 7)) p := by
  intro p c h
  simp only [exTwo, List.mem_cons, List.not_mem_nil, or_false, reduceCtorEq, false_or, CEv.spawn.injEq] at h
  rcases h with ⟨rfl, rfl⟩ | ⟨rfl, rfl⟩ | ⟨rfl, rfl⟩ <;> decide

/-! ### from the sub-request's own context into the metrics store
`RallyModel/SubTimings.lean`: `RequestTiming.__call__` builds the record (`mkRec`), `Sample.dependent_timings` turns every
record of a sample into a sample of its own and `SamplePostprocessor.__call__` stores one `service_time` document for it
(`postprocess`, the loop with `enumerate` / `downsample_factor`). -/
section Stored
open SubTimings

/-- what is stored is exactly what the samples that survive down-sampling contribute, sample by sample, in order -/
theorem stored_timings_of_kept_samples (factor : Nat) (hf : factor ≠ 0) (smps : List Smp) :
    postprocess factor smps = .ok ((kept factor smps).flatMap docsOf) := by
  unfold postprocess kept
  rw [postGo_eq factor hf]
  simp

/-- without down-sampling every sub-request record of every sample is stored exactly once, in order, and nothing else is
    stored as a sub-request timing -/
theorem every_sub_request_stored_once (smps : List Smp) :
    ∃ docs, postprocess 1 smps = .ok docs ∧
      docs.filter (·.sub) = smps.flatMap depDocs ∧
      (docs.filter (·.sub)).length = (smps.map (fun s => (s.deps.getD []).length)).sum := by
  refine ⟨_, postprocess_one smps, filter_sub_flatMap smps, ?_⟩
  rw [filter_sub_flatMap, length_flatMap_depDocs]

/-- the stored document of a sub-request is made of THAT sub-request's context values: service time = (its last end − its
    first start) in ms, relative time = its start − the task's start, its own absolute time, its own name / type unless
    they are falsy; of the enclosing sample only the client and the task are used -/
theorem sub_request_document_is_its_own (s : Smp) (name ty : PyStr) (absT st en : Rat) :
    ∃ r, mkRec name ty absT (some st) (some en) = .ok r ∧
      (depDoc s r).valueMs = toMs (Dbl.fsub en st) ∧
      (depDoc s r).relTime = Dbl.fsub st s.taskStart ∧
      (depDoc s r).absTime = absT ∧
      (depDoc s r).client = s.client ∧
      (depDoc s r).operation = orElse name s.taskOp ∧
      (depDoc s r).opType = orElse ty s.taskType :=
  ⟨_, rfl, rfl, rfl, rfl, rfl, rfl, rfl⟩

/-- the documents of one sample do not depend on the samples stored with it (other clients, other requests) -/
theorem stored_documents_ignore_other_samples (a b : List Smp) (s : Smp) :
    ∃ X Y, postprocess 1 a = .ok X ∧ postprocess 1 b = .ok Y ∧
      postprocess 1 (a ++ s :: b) = .ok (X ++ docsOf s ++ Y) := by
  refine ⟨_, _, postprocess_one a, postprocess_one b, ?_⟩
  rw [postprocess_one]
  simp [List.flatMap_append, List.append_assoc]

/-- a record exists iff the sub-request's context carries a start and an end (otherwise `end - start` raises) -/
theorem record_needs_start_and_end (name ty : PyStr) (absT : Rat) (st en : Option Rat) :
    (∃ r, mkRec name ty absT st en = .ok r) ↔ (st.isSome ∧ en.isSome) := by
  cases st <;> cases en <;> simp [mkRec]

/-- the task's operation name replaces a sub-request's name exactly when the latter is `None` or empty -/
theorem name_falls_back_only_when_falsy (x : PyStr) (d : List Char) :
    orElse x d = (match x with | some n => if n = [] then d else n | none => d) := by
  cases x with
  | none => rfl
  | some n => cases n <;> simp [orElse]

/-- `downsample_factor = 0` fails at the first sample, stores nothing -/
theorem zero_factor_raises (s : Smp) (rest : List Smp) : postprocess 0 (s :: rest) = .error .zeroDivision := rfl

def exRec1 : TimingRec := ⟨some ['a'], some ['s', 'e', 'a', 'r', 'c', 'h'], 100, 1, 3, 2⟩
def exRec2 : TimingRec := ⟨none, some [], 101, 2, 7, 5⟩
def exSmp : Smp := ⟨3, 0, ['t'], ['c', 'o', 'm', 'p'], 100, 1, 6, some [exRec1, exRec2]⟩
def exSmp2 : Smp := ⟨4, 0, ['u'], ['r', 'a', 'w'], 100, 1, 6, none⟩

example : (kept 2 [exSmp, exSmp2, exSmp]).length = 2 := by decide
example : (docsOf exSmp).map (·.operation) = [['t'], ['a'], ['t']] := by decide
example : (docsOf exSmp).map (·.opType) = [['c', 'o', 'm', 'p'], ['s', 'e', 'a', 'r', 'c', 'h'], ['c', 'o', 'm', 'p']] := by decide
example : (docsOf exSmp).map (·.sub) = [false, true, true] ∧ (docsOf exSmp2).map (·.sub) = [false] := by decide
example : ([exSmp, exSmp2, exSmp].map (fun s => (s.deps.getD []).length)).sum = 4 := by decide
example : (2 : Nat) ≠ 0 := by decide
example : ∃ r, mkRec none none 0 (some 1) (some 2) = .ok r := ⟨_, rfl⟩
example : ¬ ∃ r, mkRec none none 0 none (some 2) = .ok r := by simp [mkRec]

end Stored

end C18
