import RallyModel.Retry
import RallyProofs.Retry
import RallyGen.RetryWrapped
/-!
# C16 — retryable operations retry exactly as configured

Property theorems only (helper lemmas: `RallyProofs/Retry.lean`).  `retry p outs` is the model of
`runner.Retry.__call__` run against a delegate whose successive invocations produce `outs`
(**any** finite script — `retry-until-success` included, a script that runs out gives `pending`),
for **every** parameter combination `p` (keys present or absent, constructor default).

The specification side is written here independently of the model's `classify`:
`Retryable` (what the property allows to be retried), `IsSuccess`, `verbatim`, `FollowedByAnother`.

History: until the fix 9eaa174 a trailing `except TransportError` clause swallowed other transport
errors under `retry-on-timeout` and retried them without any pause; `FullStatement` was then false
(see `pinned_defect_witness` at the end, and the regression case in `corpus/C16/`).  The model now
mirrors the fixed code and `fullStatement` is proved outright.
-/
namespace C16
open Retry

/-- the outcomes the property allows to be retried: time-outs / connection errors with
    `retry-on-timeout`, unsuccessful results with `retry-on-error` -/
def Retryable (c : Cfg) (k : Kind) : Prop :=
  (c.retryOnTimeout = true ∧ (k = .sockTimeout ∨ k = .connError ∨ k = .connTimeout ∨ k = .api408)) ∨
  (c.retryOnError = true ∧ k = .dictFail)

/-- a successful attempt: a dict that does not say `success: false`, or any non-dict value -/
def IsSuccess (k : Kind) : Prop := k = .dictOk ∨ k = .nonDict

/-- exactly what the attempt produced: its value returned, or its exception raised -/
def verbatim (o : Outcome) : Res := if o.kind.isValue then .returned o else .raised o

/-- attempt `i` (0-based) was followed by another invocation of the delegate
    (or would have been: the script ran out) -/
def FollowedByAnother (r : Run) (i : Nat) : Prop :=
  i + 1 < r.calls ∨ (i + 1 = r.calls ∧ r.res = .pending)

/-! ### the effective configuration is the documented one (docs/track.rst, "Retries") -/

/-- defaults: `retries` 0 (one attempt), `retry-on-error` false, `retry-on-timeout` true, `retry-wait-period` 0.5 -/
theorem defaults_as_documented :
    cfg ⟨false, none, none, none, none, none⟩ = ⟨1, false, true, 1/2⟩ := by
  simp [cfg, Params.untilSuccessEff]

/-- without retry-until-success: at most `retries + 1` attempts, parameters taken as given -/
theorem cfg_plain (p : Params) (h : p.untilSuccessEff = false) :
    ((cfg p).maxAttempts : Int) = max 0 (p.retries.getD 0 + 1) ∧
    (cfg p).retryOnError = p.retryOnError.getD false ∧
    (cfg p).retryOnTimeout = p.retryOnTimeout.getD true ∧ (cfg p).sleepTime = p.wait.getD (1/2) := by
  simp [cfg, h]; omega

/-- retry-until-success (parameter, or the constructor default when the parameter is absent):
    the attempt budget is `sys.maxsize` and `retry-on-error` is forced on -/
theorem cfg_until_success (p : Params) (h : p.untilSuccessEff = true) :
    (cfg p).maxAttempts = sysMaxsize ∧ (cfg p).retryOnError = true ∧
    (cfg p).retryOnTimeout = p.retryOnTimeout.getD true ∧ (cfg p).sleepTime = p.wait.getD (1/2) := by
  simp [cfg, h]

/-! ### clause 1: at most `retries + 1` attempts (no bound under retry-until-success) -/

theorem attempts_bounded (p : Params) (outs : List Outcome) :
    (retry p outs).calls ≤ (cfg p).maxAttempts ∧ (retry p outs).calls ≤ outs.length := by
  have := loop_calls_le (cfg p) 0 outs
  simpa [retry, Run.calls] using this

theorem attempts_at_most_retries_plus_one (p : Params) (outs : List Outcome) (h : p.untilSuccessEff = false) :
    ((retry p outs).calls : Int) ≤ max 0 (p.retries.getD 0 + 1) := by
  have h1 := (attempts_bounded p outs).1
  have h2 := (cfg_plain p h).1
  omega

/-- as long as every attempt fails in a retryable way and the budget is not used up, the delegate is
    invoked again: a script of `n < max_attempts` retryable outcomes is consumed entirely and a
    further invocation is pending.  With retry-until-success this holds for every `n < sys.maxsize`. -/
theorem keeps_retrying (p : Params) (outs : List Outcome) (hlen : outs.length < (cfg p).maxAttempts)
    (h : ∀ o ∈ outs, Retryable (cfg p) o.kind) :
    (retry p outs).res = .pending ∧ (retry p outs).calls = outs.length := by
  refine loop_keeps_retrying (cfg p) 0 outs (by simpa using hlen) ?_
  intro o ho
  rcases h o ho with ⟨ht, hk⟩ | ⟨he, hk⟩
  · rcases hk with hk | hk | hk | hk <;> simp [hk, classify, ht, Step.isRetry]
  · simp [hk, classify, he, Step.isRetry]

theorem until_success_unbounded (p : Params) (outs : List Outcome) (hu : p.untilSuccessEff = true)
    (hlen : outs.length < sysMaxsize) (h : ∀ o ∈ outs, o.kind = .dictFail) :
    (retry p outs).res = .pending ∧ (retry p outs).calls = outs.length := by
  have hc := cfg_until_success p hu
  refine keeps_retrying p outs (by rw [hc.1]; exact hlen) ?_
  intro o ho
  exact Or.inr ⟨hc.2.1, h o ho⟩

/-! ### clause 4: stops at the first successful attempt and returns that attempt's result -/

theorem stops_at_first_success (p : Params) (outs : List Outcome) (i : Nat) (o : Outcome)
    (ho : outs[i]? = some o) (hs : IsSuccess o.kind) (hi : i < (retry p outs).calls) :
    (retry p outs).calls = i + 1 ∧ (retry p outs).res = .returned o := by
  have h := (loop_at (cfg p) 0 outs i o ho hi).1
  apply h
  rcases hs with hs | hs <;> simp [stepAt, hs, classify]

/-! ### clause 5: non-retryable errors propagate immediately -/

/-- API errors other than 408, transport errors that are neither time-outs nor connection errors,
    any other exception, and — with `retry-on-timeout` off — every exception: raised at once, same
    object, no further attempt -/
theorem non_retryable_immediate (p : Params) (outs : List Outcome) (i : Nat) (o : Outcome)
    (ho : outs[i]? = some o) (hi : i < (retry p outs).calls)
    (hk : o.kind = .apiOther ∨ o.kind = .transportOther ∨ o.kind = .otherExc ∨
      ((cfg p).retryOnTimeout = false ∧ o.kind.isValue = false)) :
    (retry p outs).calls = i + 1 ∧ (retry p outs).res = .raised o := by
  have h := (loop_at (cfg p) 0 outs i o ho hi).2.1
  apply h
  rcases hk with hk | hk | hk | ⟨ht, hv⟩
  · simp [stepAt, hk, classify]
  · simp [stepAt, hk, classify]
  · simp [stepAt, hk, classify]
  · cases hkk : o.kind <;> simp [hkk, Kind.isValue] at hv <;> simp [stepAt, hkk, classify, ht]

/-- an unsuccessful result is returned as it is when `retry-on-error` is off -/
theorem unsuccessful_returned_when_retry_on_error_off (p : Params) (outs : List Outcome) (i : Nat) (o : Outcome)
    (ho : outs[i]? = some o) (hi : i < (retry p outs).calls)
    (hk : o.kind = .dictFail) (he : (cfg p).retryOnError = false) :
    (retry p outs).calls = i + 1 ∧ (retry p outs).res = .returned o := by
  have h := (loop_at (cfg p) 0 outs i o ho hi).1
  apply h
  simp [stepAt, hk, classify, he]

/-! ### clause 6: what comes out is exactly what the last attempt produced -/

/-- whenever the run ends with a value or an exception, it is the outcome of the last invocation
    that was made, returned resp. raised verbatim -/
theorem result_is_last_attempts (p : Params) (outs : List Outcome) (o : Outcome)
    (h : (retry p outs).res = .returned o ∨ (retry p outs).res = .raised o) :
    0 < (retry p outs).calls ∧ outs[(retry p outs).calls - 1]? = some o ∧ (retry p outs).res = verbatim o := by
  have hr := loop_res (cfg p) 0 outs
  unfold retry at h
  unfold retry Run.calls
  rcases h with h | h <;> rw [h] at hr ⊢ <;> obtain ⟨i, h1, h2, h3⟩ := hr <;> rw [h1] <;>
    refine ⟨by omega, by simpa using h2, ?_⟩
  · simp [verbatim, classify_ret_isValue _ _ _ h3]
  · simp [verbatim, classify_raise_isValue _ _ _ h3]

/-- the last allowed attempt always ends the run with that attempt's outcome, whatever it is -/
theorem last_attempt_verbatim (p : Params) (outs : List Outcome)
    (hpos : 0 < (cfg p).maxAttempts) (h : (retry p outs).calls = (cfg p).maxAttempts) :
    ∃ o, outs[(cfg p).maxAttempts - 1]? = some o ∧ (retry p outs).res = verbatim o := by
  have hr := loop_res (cfg p) 0 outs
  unfold retry Run.calls at h
  cases hres : (loop (cfg p) 0 outs).res with
  | returned o =>
    have := result_is_last_attempts p outs o (Or.inl hres)
    unfold retry Run.calls at this
    exact ⟨o, by rw [← h]; exact this.2.1, by unfold retry; exact this.2.2⟩
  | raised o =>
    have := result_is_last_attempts p outs o (Or.inr hres)
    unfold retry Run.calls at this
    exact ⟨o, by rw [← h]; exact this.2.1, by unfold retry; exact this.2.2⟩
  | fellThrough => rw [hres] at hr; simp at hr; omega
  | pending => rw [hres] at hr; simp at hr; omega

/-- no attempt at all happens only for a non-positive budget (`retries < 0`) -/
theorem fell_through_only_without_budget (p : Params) (outs : List Outcome)
    (h : (retry p outs).res = .fellThrough) : (cfg p).maxAttempts = 0 := by
  have hr := loop_res (cfg p) 0 outs
  unfold retry at h
  rw [h] at hr
  simpa using hr.1

/-! ### clauses 2 and 3: wait `retry-wait-period` between attempts; retry only when configured -/

/-- a further attempt is made only after an outcome the property allows to be retried -/
def RetriedOnlyWhenConfigured (p : Params) (outs : List Outcome) : Prop :=
  ∀ i o, outs[i]? = some o → FollowedByAnother (retry p outs) i → Retryable (cfg p) o.kind

/-- consecutive attempts are separated by exactly one pause of `retry-wait-period` -/
def WaitsBetween (p : Params) (outs : List Outcome) : Prop :=
  (retry p outs).trace =
    spaced (cfg p).sleepTime ((retry p outs).res == .pending) (retry p outs).calls

/-- the property's statement for these two clauses, at full strength -/
def FullStatement : Prop := ∀ p outs, RetriedOnlyWhenConfigured p outs ∧ WaitsBetween p outs

theorem retry_only_when_configured (p : Params) (outs : List Outcome) : RetriedOnlyWhenConfigured p outs := by
  intro i o ho hf
  have hf' : i + 1 < nCalls (loop (cfg p) 0 outs).trace ∨
      (i + 1 = nCalls (loop (cfg p) 0 outs).trace ∧ (loop (cfg p) 0 outs).res = .pending) := hf
  have hi : i < nCalls (loop (cfg p) 0 outs).trace := by
    rcases hf' with hf' | hf' <;> omega
  have hat := loop_at (cfg p) 0 outs i o ho hi
  -- the step taken at position i is a retry step: the two terminal steps contradict `hf`
  have hstep : (stepAt (cfg p) 0 i o).isRetry = true := by
    cases hs : stepAt (cfg p) 0 i o with
    | ret =>
      have := hat.1 hs
      rcases hf' with hf' | hf'
      · omega
      · rw [this.2] at hf'; simp at hf'
    | raise =>
      have := hat.2.1 hs
      rcases hf' with hf' | hf'
      · omega
      · rw [this.2] at hf'; simp at hf'
    | retrySleep => rfl
  -- which outcome classes can take a retry step
  rcases classify_retry_kind _ _ _ hstep with ⟨hk, he⟩ | ⟨hk, ht⟩
  · exact Or.inr ⟨he, hk⟩
  · exact Or.inl ⟨ht, hk⟩

theorem waits_between (p : Params) (outs : List Outcome) : WaitsBetween p outs := by
  unfold WaitsBetween retry Run.calls
  exact loop_trace (cfg p) 0 outs

/-- **both clauses hold for every parameter combination and every outcome script** -/
theorem fullStatement : FullStatement := fun p outs =>
  ⟨retry_only_when_configured p outs, waits_between p outs⟩

/-- every pause that is made has the configured length -/
theorem every_pause_is_the_wait_period (p : Params) (outs : List Outcome) :
    ∀ d ∈ (retry p outs).sleeps, d = (cfg p).sleepTime := by
  unfold retry Run.sleeps
  exact loop_sleeps (cfg p) 0 outs

/-! ### which operations are wrapped (generated from `register_default_runners` + docs/track.rst) -/

open Gen.RetryWrapped in
/-- every operation type the documentation marks as retryable is registered wrapped in `Retry` -/
theorem documented_retryable_is_wrapped :
    ∀ r ∈ table, r.docRetryable = true → r.registered = true ∧ r.wrapped = true := by
  decide +kernel

open Gen.RetryWrapped in
/-- … hence runs as `retry` (all theorems above apply), with the registration's retry-until-success default -/
theorem documented_retryable_runs_retry (r : Row) (hr : r ∈ table) (hd : r.docRetryable = true)
    (p : Params) (outs : List Outcome) :
    runRegistered r.wrapped r.untilSuccess p outs = retry { p with ctorUntilSuccess := r.untilSuccess } outs := by
  have := (documented_retryable_is_wrapped r hr hd).2
  simp [runRegistered, this]

open Gen.RetryWrapped in
/-- every operation type has a registered runner and a documentation section -/
theorem every_operation_registered_and_documented :
    ∀ r ∈ table, r.registered = true ∧ r.hasDoc = true := by
  decide +kernel

/-! ### exactly when a further attempt is made -/

/-- a further attempt is made **iff** the outcome is one the configuration allows to be retried and the
    attempt was not the last one of the budget -/
theorem retried_iff (p : Params) (outs : List Outcome) (i : Nat) (o : Outcome)
    (ho : outs[i]? = some o) (hi : i < (retry p outs).calls) :
    FollowedByAnother (retry p outs) i ↔ (Retryable (cfg p) o.kind ∧ i + 1 ≠ (cfg p).maxAttempts) := by
  constructor
  · intro hf
    refine ⟨retry_only_when_configured p outs i o ho hf, ?_⟩
    intro hlast
    have hb := (attempts_bounded p outs).1
    rcases hf with hf | ⟨hf, hp⟩
    · omega
    · -- pending needs room for another attempt
      have hr := loop_res (cfg p) 0 outs
      have hp' : (loop (cfg p) 0 outs).res = .pending := hp
      rw [hp'] at hr
      have hc : nCalls (loop (cfg p) 0 outs).trace = (retry p outs).calls := rfl
      simp at hr
      omega
  · intro ⟨hr, hnl⟩
    have hat := (loop_at (cfg p) 0 outs i o ho hi).2.2
    apply hat
    have hl : (0 + i + 1 == (cfg p).maxAttempts) = false := by simp; omega
    unfold stepAt
    rw [hl, classify_retry_of (cfg p) o.kind (by
      rcases hr with ⟨ht, hk⟩ | ⟨he, hk⟩
      · exact Or.inr ⟨hk, ht⟩
      · exact Or.inl ⟨hk, he⟩)]
    rfl

/-! ### at the level of Elasticsearch's answers (runner bodies transparent for client errors) -/

/-- the class of the first client error of an attempt is the class of the attempt -/
theorem first_error_is_the_outcome (answers : List Answer) (value : Outcome) (k : Kind) (t : Nat)
    (h : answers.find? Answer.isError = some (.error k t)) : bodyOutcome answers value = ⟨k, t⟩ := by
  simp [bodyOutcome, h]

/-- an attempt in which Elasticsearch answered a request with a time-out, a connection error or HTTP 408 is
    followed by another attempt iff `retry-on-timeout` is on and the budget is not used up; otherwise that very
    error is raised -/
theorem timeout_answer_retried_iff (p : Params) (atts : List ClusterAttempt) (i : Nat) (a : ClusterAttempt) (k : Kind) (t : Nat)
    (ha : atts[i]? = some a) (he : a.answers.find? Answer.isError = some (.error k t))
    (hk : k = .sockTimeout ∨ k = .connError ∨ k = .connTimeout ∨ k = .api408)
    (hi : i < (retryCluster p atts).calls) :
    (FollowedByAnother (retryCluster p atts) i ↔ ((cfg p).retryOnTimeout = true ∧ i + 1 ≠ (cfg p).maxAttempts)) ∧
    (¬ FollowedByAnother (retryCluster p atts) i →
      (retryCluster p atts).calls = i + 1 ∧ (retryCluster p atts).res = .raised ⟨k, t⟩) := by
  have ho : (atts.map (fun a => bodyOutcome a.answers a.value))[i]? = some ⟨k, t⟩ := by
    simp [ha, first_error_is_the_outcome _ _ k t he]
  have hiff := retried_iff p _ i ⟨k, t⟩ ho hi
  constructor
  · unfold retryCluster
    rw [hiff]
    constructor
    · rintro ⟨hr, hn⟩
      rcases hr with ⟨ht, _⟩ | ⟨_, hd⟩
      · exact ⟨ht, hn⟩
      · rcases hk with hk | hk | hk | hk <;> rw [hk] at hd <;> cases hd
    · rintro ⟨ht, hn⟩
      exact ⟨Or.inl ⟨ht, hk⟩, hn⟩
  · intro hnf
    unfold retryCluster at hnf hi ⊢
    -- not followed: the step at position i is terminal, and for an exception class that is `raise`
    have hat := loop_at (cfg p) 0 _ i ⟨k, t⟩ ho hi
    cases hs : stepAt (cfg p) 0 i ⟨k, t⟩ with
    | ret =>
      exfalso
      have := classify_ret_isValue _ _ _ hs
      rcases hk with hk | hk | hk | hk <;> simp [hk, Kind.isValue] at this
    | raise => exact hat.2.1 hs
    | retrySleep => exact absurd (hat.2.2 (by rw [hs]; rfl)) hnf

/-- an attempt in which Elasticsearch answered a request with any other API error (400, 403, 404, 409, 429, 5xx …),
    another transport error or anything unexpected ends the operation at once with that very error -/
theorem error_answer_propagates (p : Params) (atts : List ClusterAttempt) (i : Nat) (a : ClusterAttempt) (k : Kind) (t : Nat)
    (ha : atts[i]? = some a) (he : a.answers.find? Answer.isError = some (.error k t))
    (hk : k = .apiOther ∨ k = .transportOther ∨ k = .otherExc)
    (hi : i < (retryCluster p atts).calls) :
    (retryCluster p atts).calls = i + 1 ∧ (retryCluster p atts).res = .raised ⟨k, t⟩ := by
  have ho : (atts.map (fun a => bodyOutcome a.answers a.value))[i]? = some ⟨k, t⟩ := by
    simp [ha, first_error_is_the_outcome _ _ k t he]
  exact non_retryable_immediate p _ i ⟨k, t⟩ ho hi (by
    rcases hk with hk | hk | hk
    · exact Or.inl hk
    · exact Or.inr (Or.inl hk)
    · exact Or.inr (Or.inr (Or.inl hk)))

/-! ### consecutive invocations of a task: every invocation retries as the *task* is configured

`runTask wrapped u shared p invs` runs the invocations `invs` of one task one after the other against the
params dict the parameter source hands out (`shared`: the same dict object every time, as the default
`ParamSource` does).  An attempt of the delegate may write into that dict (`Attempt.effect`). -/

/-- the configuration of an invocation is read once, from the dict as it is when the invocation starts:
    what the delegate writes during the invocation cannot change the run of that invocation -/
theorem config_read_once (wrapped u : Bool) (store : Params) (atts atts' : List Attempt)
    (h : atts.map (·.out) = atts'.map (·.out)) :
    (invoke wrapped u store atts).1 = (invoke wrapped u store atts').1 := by
  simp [invoke, h]

/-- **k invocations behave like k independent ones**: if no attempt changes the retry-relevant keys of the
    dict (or every invocation gets a fresh copy), each invocation is exactly `runRegistered … p` on the task's
    own parameters `p` — so all theorems above (`attempts_bounded`, `fullStatement`, …) hold per invocation -/
theorem invocations_independent (wrapped u shared : Bool) (p : Params) (invs : List (List Attempt))
    (h : shared = false ∨ ∀ inv ∈ invs, ∀ a ∈ inv, ∀ s, a.effect s = s) :
    runTask wrapped u shared p invs = invs.map (fun inv => runRegistered wrapped u p (inv.map (·.out))) :=
  runSeq_independent wrapped u shared p invs h

/-- … in particular every invocation of a wrapped operation stays within the task's `retries + 1` -/
theorem every_invocation_bounded (u shared : Bool) (p : Params) (invs : List (List Attempt))
    (h : shared = false ∨ ∀ inv ∈ invs, ∀ a ∈ inv, ∀ s, a.effect s = s) :
    ∀ r ∈ runTask true u shared p invs, r.calls ≤ (cfg { p with ctorUntilSuccess := u }).maxAttempts := by
  rw [invocations_independent true u shared p invs h]
  intro r hr
  obtain ⟨inv, _, rfl⟩ := List.mem_map.mp hr
  simp only [runRegistered, if_true]
  exact (attempts_bounded _ _).1

/-- the hypothesis is needed: a delegate that writes `retries = sys.maxsize` into a shared dict (as an inner
    health check with its own budget might) makes the *next* invocation retry without the task's bound -/
theorem leaked_budget_breaks_next_invocation :
    let leak : Attempt := ⟨⟨.dictOk, 0⟩, fun p => { p with retries := some (sysMaxsize : Int) }⟩
    let timeout (i : Nat) : Attempt := ⟨⟨.connTimeout, i⟩, id⟩
    let p : Params := ⟨false, none, some 1, none, none, none⟩
    (runTask true false true p [[leak], [timeout 0, timeout 1, timeout 2]]).map (·.res) = [.returned ⟨.dictOk, 0⟩, .pending] ∧
    (runTask true false false p [[leak], [timeout 0, timeout 1, timeout 2]]).map (·.res)
      = [.returned ⟨.dictOk, 0⟩, .raised ⟨.connTimeout, 1⟩] := by
  decide

/-! ### several invocations in flight on one shared runner object: each behaves as if it were alone -/

/-- **no instance state**: whatever the interleaving of the invocations' attempts (any schedule that gives invocation
    `j` enough quanta to finish), invocation `j` ends exactly as `retry` says for *its own* parameters and *its own*
    delegate outcomes — the settings of the invocations that run in between are irrelevant -/
theorem interleaving_irrelevant (calls : List (Params × List Outcome)) (sched : List Nat) (j : Nat)
    (p : Params) (outs : List Outcome) (hj : calls[j]? = some (p, outs)) (hfair : outs.length + 1 ≤ sched.count j) :
    ((runSchedule sched (calls.map (fun c => startInv c.1 c.2)))[j]?).map (fun v => (v.res, v.trace))
      = some (some (retry p outs).res, (retry p outs).trace) := by
  rw [runSchedule_get]
  simp only [List.getElem?_map, hj, Option.map_some, startInv]
  have := iterate_stepInv (cfg p) 0 outs [] (sched.count j) hfair
  simp [this, retry]

/-! ### what an attempt's product *says* is irrelevant — only its class counts, whatever happened before

`retryRaw p rs` runs `retry` on products that are classified by the model itself (`Raw.kind`: the `isinstance` facts in the
order of the `except` clauses, `status_code == 408`, truthiness of `"success"`).  `what` stands for the message / the
Elasticsearch error type / the response body of an error, resp. everything else in a returned value. -/

/-- which raised objects are retryable, in terms of their `isinstance` facts: socket time-outs and connection errors
    (first clause), API errors iff their status is 408 (second clause, **before** the `ConnectionTimeout` clause),
    connection time-outs that are not API errors; nothing else — and all of them only with `retry-on-timeout` -/
theorem raw_exception_retryable_iff (c : Cfg) (f : Facts) (status what : Nat) :
    Retryable c (Raw.exc f status what).kind ↔
      (c.retryOnTimeout = true ∧ (f.sockTimeout = true ∨ f.connError = true ∨
        (f.apiError = true ∧ status = 408) ∨ (f.apiError = false ∧ f.connTimeout = true))) := by
  rcases f with ⟨a, b, c', d, e⟩
  cases a <;> cases b <;> cases c' <;> cases d <;> cases e <;> by_cases hs : status = 408 <;>
    simp [Raw.kind, Retryable, hs]

/-- a returned value is retryable iff it is a dict whose `"success"` is present and falsy, and `retry-on-error` is on -/
theorem raw_value_retryable_iff (c : Cfg) (isDict : Bool) (success : Option Bool) (what : Nat) :
    Retryable c (Raw.value isDict success what).kind ↔
      (c.retryOnError = true ∧ isDict = true ∧ success = some false) := by
  cases isDict <;> rcases success with _ | b <;> try cases b
  all_goals simp [Raw.kind, Retryable]

theorem kind_withWhat (r : Raw) (w : Nat) : (r.withWhat w).kind = r.kind := by
  cases r with
  | value d s w' => cases d <;> rcases s with _ | b <;> rfl
  | exc f st w' => rfl

/-- **what the products say is irrelevant**: re-word every product in any way (the new wording may depend on the
    position in the script, hence on the whole history) — the run is the same: same attempts, same pauses, the result is
    the same attempt's product -/
theorem what_it_says_is_irrelevant (p : Params) (rs : List (Raw × Nat)) (g : Raw × Nat → Nat) :
    retryRaw p (rs.map (fun r => (r.1.withWhat (g r), r.2))) = retryRaw p rs := by
  simp [retryRaw, rawOutcomes, List.map_map, Function.comp_def, kind_withWhat]

/-- an API error whose status is not 408 (and that is neither a socket time-out nor a connection error) ends the
    operation at once with that very error — **whatever it says** (`what`: 400 / 409 `resource_already_exists_exception`
    included) and **whatever the earlier attempts produced** (the prefix of `rs` is arbitrary: time-outs that were
    retried, unsuccessful results …) -/
theorem api_error_propagates_whatever_it_says (p : Params) (rs : List (Raw × Nat)) (i : Nat)
    (f : Facts) (status what tag : Nat)
    (hr : rs[i]? = some (.exc f status what, tag))
    (hf : f.sockTimeout = false ∧ f.connError = false ∧ f.apiError = true) (hs : status ≠ 408)
    (hi : i < (retryRaw p rs).calls) :
    (retryRaw p rs).calls = i + 1 ∧ (retryRaw p rs).res = .raised ⟨.apiOther, tag⟩ := by
  have hk : (Raw.exc f status what).kind = .apiOther := by
    simp [Raw.kind, hf.1, hf.2.1, hf.2.2, hs]
  have ho : (rawOutcomes rs)[i]? = some ⟨.apiOther, tag⟩ := by
    simp [rawOutcomes, hr, hk]
  exact non_retryable_immediate p _ i _ ho hi (Or.inl rfl)

/-- **the result is never made up**: whatever is returned or raised is the product of the last attempt that was made
    (its tag = the identity of that object), returned if it is a value and raised if it is an exception -/
theorem result_is_an_attempts_product (p : Params) (rs : List (Raw × Nat)) (o : Outcome)
    (h : (retryRaw p rs).res = .returned o ∨ (retryRaw p rs).res = .raised o) :
    ∃ r, rs[(retryRaw p rs).calls - 1]? = some (r, o.tag) ∧ r.kind = o.kind ∧ (retryRaw p rs).res = verbatim o := by
  have h3 := result_is_last_attempts p (rawOutcomes rs) o h
  obtain ⟨_, h2, h4⟩ := h3
  simp only [rawOutcomes, List.getElem?_map, Option.map_eq_some_iff] at h2
  obtain ⟨a, ha, hao⟩ := h2
  refine ⟨a.1, ?_, ?_, h4⟩
  · rw [← hao]; simpa [retryRaw, rawOutcomes] using ha
  · rw [← hao]

/-! ### non-vacuity: concrete inputs meeting the hypotheses (tests, labelled as tests) -/

-- the unit-test scenario "mixed timeout and application errors", retries = 5
example : retry ⟨false, none, some 5, some true, some (1/100), some true⟩
    [⟨.connError, 0⟩, ⟨.dictFail, 1⟩, ⟨.connError, 2⟩, ⟨.connError, 3⟩, ⟨.dictFail, 4⟩, ⟨.dictOk, 5⟩]
    = ⟨.returned ⟨.dictOk, 5⟩, spaced (1/100) false 6⟩ := by decide +kernel
example : spaced (1/2) false 3 = [.call, .sleep (1/2), .call, .sleep (1/2), .call] := by decide +kernel
example : spaced (1/2) true 2 = [.call, .sleep (1/2), .call, .sleep (1/2)] := by decide +kernel
-- last attempt: a time-out on attempt retries+1 is raised verbatim
example : retry ⟨false, none, some 1, none, none, none⟩ [⟨.connTimeout, 0⟩, ⟨.connTimeout, 1⟩, ⟨.dictOk, 2⟩]
    = ⟨.raised ⟨.connTimeout, 1⟩, [.call, .sleep (1/2), .call]⟩ := by decide +kernel
-- retry-until-success from the constructor default keeps going
example : (retry ⟨true, none, none, none, none, none⟩ [⟨.dictFail, 0⟩, ⟨.dictFail, 1⟩, ⟨.dictFail, 2⟩]).res = .pending := by decide
-- FollowedByAnother / Retryable are satisfiable
example : FollowedByAnother (retry ⟨false, none, some 3, some true, none, none⟩ [⟨.dictFail, 0⟩, ⟨.api408, 1⟩, ⟨.nonDict, 2⟩]) 1 :=
  Or.inl (by decide)
example : (retry ⟨false, none, some 3, none, none, none⟩ [⟨.connError, 0⟩, ⟨.apiOther, 1⟩, ⟨.dictOk, 2⟩]).res = .raised ⟨.apiOther, 1⟩ := by decide
example : (retry ⟨false, none, some (-1), none, none, none⟩ [⟨.dictOk, 0⟩]).res = .fellThrough := by decide
open Gen.RetryWrapped in
example : (⟨"get-async-search", true, true, true, true, true⟩ : Row) ∈ table := by decide +kernel
open Gen.RetryWrapped in
example : (⟨"create-snapshot", true, false, false, true, false⟩ : Row) ∈ table := by decide +kernel


-- a 408 answer to the second request of the first attempt, then a healthy attempt: retried once, waits once
example : retryCluster ⟨false, none, some 2, none, some 2, none⟩
    [⟨[.doc, .error .api408 7, .doc], ⟨.dictOk, 0⟩⟩, ⟨[.doc, .doc], ⟨.dictOk, 1⟩⟩]
    = ⟨.returned ⟨.dictOk, 1⟩, [.call, .sleep 2, .call]⟩ := by decide +kernel
-- a 404 answer propagates at once
example : retryCluster ⟨false, none, some 2, some true, none, none⟩ [⟨[.error .apiOther 4], ⟨.dictOk, 0⟩⟩, ⟨[.doc], ⟨.dictOk, 1⟩⟩]
    = ⟨.raised ⟨.apiOther, 4⟩, [.call]⟩ := by decide

-- two invocations with different settings, interleaved attempt by attempt: each ends as it would alone
example : (runSchedule [0, 1, 0, 1, 0, 1, 0, 1]
      [startInv ⟨false, none, some 3, none, some 1, none⟩ [⟨.connTimeout, 0⟩, ⟨.connTimeout, 1⟩, ⟨.connTimeout, 2⟩, ⟨.connTimeout, 3⟩],
       startInv ⟨false, none, none, none, none, none⟩ [⟨.dictOk, 0⟩]]).map (·.res)
    = [some (.raised ⟨.connTimeout, 3⟩), some (.returned ⟨.dictOk, 0⟩)] := by decide +kernel

-- a connection time-out that is retried, then HTTP 400 saying 17 (e.g. resource_already_exists_exception): raised as it is
example : retryRaw ⟨false, none, some 2, none, none, none⟩
    [(.exc ⟨false, false, false, true, true⟩ 0 3, 0), (.exc ⟨false, false, true, false, false⟩ 400 17, 1), (.value true none 0, 2)]
    = ⟨.raised ⟨.apiOther, 1⟩, [.call, .sleep (1/2), .call]⟩ := by decide +kernel
-- an object that is both an API error (404) and a connection time-out: the API clause comes first, not retried
example : (retryRaw ⟨false, none, some 2, none, none, none⟩
    [(.exc ⟨false, false, true, true, true⟩ 404 0, 0), (.value true none 0, 1)]).res = .raised ⟨.apiOther, 0⟩ := by decide +kernel
example : Retryable ⟨3, false, true, 1/2⟩ (Raw.exc ⟨false, false, true, false, false⟩ 408 5).kind :=
  (raw_exception_retryable_iff _ _ _ _).2 ⟨rfl, Or.inr (Or.inr (Or.inl ⟨rfl, rfl⟩))⟩
example : (Raw.value true (some false) 4).kind = .dictFail ∧ (Raw.value true none 4).kind = .dictOk ∧ (Raw.value false (some false) 4).kind = .nonDict := by decide

/-! ### historical witness (labelled as such): the behaviour before the fix 9eaa174

`classifyPinned` / `loopPinned` pin the *former* code: its trailing `except TransportError` clause
swallowed other transport errors under `retry-on-timeout` and went to the next iteration without
sleeping.  They are not a model of the current code and nothing above depends on them. -/

/-- former behaviour: `none` = swallowed, next iteration, no pause -/
def classifyPinned (c : Cfg) (last : Bool) (k : Kind) : Option Step :=
  match k with
  | .transportOther => if last || !c.retryOnTimeout then some .raise else none
  | k => some (classify c last k)

def loopPinned (c : Cfg) (attempt : Nat) : List Outcome → Run
  | [] => if attempt ≥ c.maxAttempts then ⟨.fellThrough, []⟩ else ⟨.pending, []⟩
  | o :: rest =>
    if attempt ≥ c.maxAttempts then ⟨.fellThrough, []⟩ else
    match classifyPinned c (attempt + 1 == c.maxAttempts) o.kind with
    | some .ret => ⟨.returned o, [.call]⟩
    | some .raise => ⟨.raised o, [.call]⟩
    | some .retrySleep =>
      ⟨(loopPinned c (attempt + 1) rest).res, .call :: .sleep c.sleepTime :: (loopPinned c (attempt + 1) rest).trace⟩
    | none => ⟨(loopPinned c (attempt + 1) rest).res, .call :: (loopPinned c (attempt + 1) rest).trace⟩

/-- `retries = 1`, a `SerializationError` then a success: the former code made two calls, no pause,
    and returned the success; the current code raises the error after one call -/
theorem pinned_defect_witness :
    loopPinned (cfg ⟨false, none, some 1, none, none, none⟩) 0 [⟨.transportOther, 0⟩, ⟨.dictOk, 1⟩]
      = ⟨.returned ⟨.dictOk, 1⟩, [.call, .call]⟩ ∧
    retry ⟨false, none, some 1, none, none, none⟩ [⟨.transportOther, 0⟩, ⟨.dictOk, 1⟩]
      = ⟨.raised ⟨.transportOther, 0⟩, [.call]⟩ := by
  decide

end C16
