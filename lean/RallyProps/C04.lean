import RallyModel.Exec
import RallyProofs.Exec
import RallyProofs.ExecSpelled
/-!
# C04 — latency, service time and processing time mean what the docs say

Property theorems only (helper lemmas: `RallyProofs/Exec.lean`).  `R : Run` bundles **all** inputs of
one client's executor run (task parameters, target throughput, client indices, on-error policy,
cancel/complete events, queue capacity, and the whole per-request plan `R.reqs` with arbitrary
durations and outcomes) together with the model's output `R.f`; `R.exact` fixes exact rational
arithmetic.  Every theorem is for every `R`, i.e. for all parameters and all plan sequences.

`rec ∈ R.f.out.recs` = one call of `Sampler.add`, with the instants at which the executor and the
endpoint read the clock (`procStart ≤ reqStart ≤ reqEnd ≤ procEnd`), the tuple the schedule yielded
for it and the sample.
-/
namespace C04
open Exec

/-- how long after its scheduled time a request goes on the wire -/
def lateness (c : Cfg) (x : Rec) : Rat := x.reqStart - (c.t0 + x.tup.sched)

/-- **service_nonneg_le_processing.**  For every sample: service time is exactly the span between
    sending the request and receiving its response, processing time is the span between the two
    clock reads of the executor around the runner call, that span contains the wire span, hence
    `0 ≤ service_time ≤ processing_time`. -/
theorem service_nonneg_le_processing (R : Run) :
    ∀ rec ∈ R.f.out.recs,
      rec.sample.service = rec.reqEnd - rec.reqStart ∧
      rec.sample.processing = rec.procEnd - rec.procStart ∧
      rec.procStart ≤ rec.reqStart ∧ rec.reqEnd ≤ rec.procEnd ∧
      0 ≤ rec.sample.service ∧ rec.sample.service ≤ rec.sample.processing := by
  apply R.recs_forall
  intro st q ops unit m sched'
  have hr := R.exact
  have h1 := procStart_le_reqStart hr st q
  have h2 := reqStart_le_reqEnd hr st q
  have h3 := reqEnd_le_procEnd hr st q
  simp only [recOf, sampleOf, hr]
  refine ⟨trivial, trivial, h1, h3, by linarith, by linarith⟩

/-- the same for what `Sampler.samples` hands to the rest of Rally -/
theorem drained_service_nonneg_le_processing (R : Run) :
    ∀ s ∈ R.f.samples, 0 ≤ s.service ∧ s.service ≤ s.processing := by
  obtain ⟨_, _, _, _, _, _, _, hs⟩ := R.inv
  intro s hs'
  rw [hs] at hs'
  have := List.mem_of_mem_take hs'
  obtain ⟨rec, hrec, rfl⟩ := List.mem_map.mp this
  have := service_nonneg_le_processing R rec hrec
  exact ⟨this.2.2.2.2.1, this.2.2.2.2.2⟩

/-- **throttled_not_early.**  A request is treated as throttled iff its scheduled time is `> 0`, and
    such a request is neither started by the executor nor put on the wire before
    `total_start + scheduled time`. -/
theorem throttled_not_early (R : Run) :
    ∀ rec ∈ R.f.out.recs,
      (rec.throttled = true ↔ 0 < rec.tup.sched) ∧
      (rec.throttled = true → R.c.t0 + rec.tup.sched ≤ rec.procStart ∧ R.c.t0 + rec.tup.sched ≤ rec.reqStart) := by
  apply R.recs_forall
  intro st q ops unit m sched'
  have hr := R.exact
  simp only [recOf, tupleOf]
  refine ⟨by simp [throttledOf], fun ht => ?_⟩
  have h1 := absSched_le_procStart hr st q ht
  exact ⟨h1, le_trans h1 (procStart_le_reqStart hr st q)⟩

/-- **latency_def.**  Throttled: latency is measured from the scheduled time,
    `latency = request_end − (total_start + scheduled)`, which is service time plus the (non-negative)
    lateness of the request, hence `latency ≥ service_time`.  Unthrottled: `latency = service_time`. -/
theorem latency_def (R : Run) :
    ∀ rec ∈ R.f.out.recs,
      (rec.throttled = true →
        rec.sample.latency = rec.reqEnd - (R.c.t0 + rec.tup.sched) ∧
        rec.sample.latency = rec.sample.service + lateness R.c rec ∧
        0 ≤ lateness R.c rec ∧ rec.sample.service ≤ rec.sample.latency) ∧
      (rec.throttled = false → rec.sample.latency = rec.sample.service) := by
  apply R.recs_forall
  intro st q ops unit m sched'
  have hr := R.exact
  simp only [recOf, sampleOf, tupleOf, lateness, absSchedOf, hr]
  constructor
  · intro ht
    have h1 := absSched_le_procStart hr st q ht
    have h2 := procStart_le_reqStart hr st q
    simp only [ht, if_true]
    refine ⟨trivial, by linarith, by linarith, by linarith⟩
  · intro ht
    simp [ht]

/-- **latency grows while the client is behind schedule.**  For two consecutive throttled requests
    `a`, `b` the lateness changes by at least `service_time(a) − (scheduled(b) − scheduled(a))`: when
    the service time is at least the target interval the lateness (and with it `latency − service_time`)
    never shrinks. -/
theorem latency_grows_while_behind (R : Run) :
    Adj (fun a b => lateness R.c a + (a.sample.service - (b.tup.sched - a.tup.sched)) ≤ lateness R.c b) R.f.out.recs := by
  obtain ⟨tp, sched, _, _, _, _, hout, _⟩ := R.inv
  rw [hout]
  have hr := R.exact
  refine go_recs_adj (c := R.c) (fun _ => True) (fun _ => True) _ (fun _ _ _ _ _ _ _ => trivial) ?_ R.reqs _ trivial (fun _ _ => trivial)
  intro st q rec st' q' rec' st'' _ _ _ _ hs _ _ hs'
  obtain ⟨ops, unit, m, sched', _, _, _, hrec, hst'⟩ := step_sampled_inv hs
  obtain ⟨ops', unit', m', sched'', _, _, _, hrec', _⟩ := step_sampled_inv hs'
  subst hrec hrec'
  have h1 : st'.now = procEndOf R.c st q := by rw [hst']; rfl
  have h2 := reqEnd_le_procEnd hr st q
  have h3 : st'.now ≤ reqStartOf R.c st' q' :=
    le_trans (now_le_genDone hr st' q') (le_trans (genDone_le_procStart hr st' q') (procStart_le_reqStart hr st' q'))
  simp only [recOf, sampleOf, tupleOf, lateness, hr]
  linarith

/-- **one_sample_per_request.**  The samples correspond one-to-one, in order, to the runner calls whose
    wire requests reached the endpoint (`R.f.out.wire`: per call the endpoint's log of that call) —
    except for one last call when the executor raised — and
    to the tuples the schedule yielded; each sample carries its client id, the sample type of its
    tuple and the instant its request was issued; the drained queue holds exactly the first
    `queue capacity` of them (drops only when the queue is full). -/
theorem one_sample_per_request (R : Run) :
    R.f.out.recs.map (·.wires) = R.f.out.wire.take R.f.out.recs.length ∧
    R.f.out.wire.length = R.f.out.recs.length + raisedCount R.f.out.stop ∧
    R.f.out.recs.map (·.tup) = R.f.out.tuples.take R.f.out.recs.length ∧
    R.f.out.tuples.length = R.f.out.recs.length + unsampledTuples R.f.out.stop ∧
    R.f.samples = (R.f.out.recs.map (·.sample)).take R.cap ∧
    R.f.samples.length = min R.cap R.f.out.recs.length ∧
    (∀ rec ∈ R.f.out.recs, rec.sample.client = R.c.client ∧ rec.sample.warmup = rec.tup.warmup ∧
      rec.sample.reqStart = rec.reqStart ∧ rec.sample.absTime = rec.procStart + R.c.epoch) := by
  obtain ⟨tp, sched, _, _, _, _, hout, hs⟩ := R.inv
  have ⟨h1, h2, h3, h4⟩ := go_shape R.c R.reqs (R.st0 sched)
  rw [← hout] at h1 h2 h3 h4
  refine ⟨h1, h3, h2, h4, hs, by rw [hs]; simp, ?_⟩
  apply R.recs_forall
  intro st q ops unit m sched'
  simp [recOf, sampleOf, R.exact]

/-- **service_spans_wire_requests.**  A logical request may consist of several wire requests: grouped in nested request
    contexts of any depth, sent from concurrent streams that run as separate asyncio tasks (composite operations), any of
    them failing.  For every sample: the runner call sent at least one wire request; `request_start` is the instant the
    *earliest* of them was sent and `request_end` the instant the *latest* response was received — wherever they sit: at the
    top level, inside a nested context, inside a child task, the response of a failing request included — so service time is
    exactly that span (and latency ends there); every wire request lies inside the processing span. -/
theorem service_spans_wire_requests (R : Run) :
    ∀ rec ∈ R.f.out.recs, ∃ first ∈ rec.wires, ∃ last ∈ rec.wires,
      rec.reqStart = first.1 ∧ rec.reqEnd = last.2 ∧ rec.sample.service = last.2 - first.1 ∧
      (∀ w ∈ rec.wires, first.1 ≤ w.1 ∧ w.2 ≤ last.2 ∧ rec.procStart ≤ w.1 ∧ w.1 ≤ w.2 ∧ w.2 ≤ rec.procEnd) := by
  obtain ⟨tp, sched, _, _, _, _, hout, _⟩ := R.inv
  have hr := R.exact
  rw [hout]
  refine go_recs_forall (c := R.c) (fun _ => True) (fun _ => True) _ ?_ R.reqs _ trivial (fun _ _ => trivial)
  intro st q rec st' _ _ _ hs
  obtain ⟨ops, unit, m, sched', _, _, _, hrec, _⟩ := step_sampled_inv hs
  obtain ⟨first, hf, last, hl, h3, h4, hall⟩ := stamps_span hr st q (step_sampled_stamps hs)
  subst hrec
  refine ⟨⟨first, hf, last, hl, h3, h4, by simp [recOf, sampleOf, hr, h3, h4], ?_⟩, trivial⟩
  intro w hw
  have hb := (progOf_inv hr st q).bounds w hw
  have := hall w hw
  exact ⟨this.1, this.2, hb.1, hb.2.1, le_trans hb.2.2 (progNow_le_procEnd hr st q)⟩

/-- **nested_contexts_transparent.**  Clock, endpoint log and the executor's request context after a runner
    call are those of the same wire requests and streams issued directly in the executor's context: opening and leaving
    nested request contexts — also by an exception — never loses or shifts a timestamp.  (Streams: a child task inherits a
    reference to the context dict, `exitAllInto_eq`: its updates are updates of that dict.) -/
theorem nested_contexts_transparent (c : Cfg) (hr : ∀ x, c.r x = x) (st : St) (q : Req) :
    reqCtxOf c st q = reqCtxOf c st { q with prog := flat q.prog } ∧
    (progOf c st q).log = (progOf c st { q with prog := flat q.prog }).log ∧
    (progOf c st q).now = (progOf c st { q with prog := flat q.prog }).now :=
  reqCtx_flat hr st q

/-- **sampler_exactly_once_under_preemption.**  `Sampler.add` (evaluate the queue's bound `put_nowait`, build
    the `Sample`, call) interleaved in any way with drains by the worker thread (`Sampler.samples`), for every
    capacity and every sequence of events: every sample handed to the queue is, exactly once, in one of the
    drained batches, still in the queue, or a reported queue-full drop (`List.Perm` = same multiset). -/
theorem sampler_exactly_once_under_preemption {α : Type} (cap : Nat) (es : List (SEv α)) :
    List.Perm ((srun cap es (SState.init α)).batches.flatten ++
      (srun cap es (SState.init α)).queues.getD (srun cap es (SState.init α)).cur [] ++
      (srun cap es (SState.init α)).dropped) (calls es) := by
  have h := srun_content cap es (SState.init α) ⟨rfl, rfl, [], rfl⟩
  simpa [SState.content, SState.init] using h

/-! ## the feedback path: runner result → `execute_single` → `UnitAwareScheduler` → due time of the next request -/

/-- **reported_failure_keeps_weight.**  With on-error=continue a failure the runner *reports* in its result
    (`{"success": False, "weight": w, "unit": u}`) is handed on with the reported weight and unit (default 1 "ops"): it feeds
    the scheduler like a success; only *raised* errors count 0 ops. -/
theorem reported_failure_keeps_weight (w : Option Nat) (u : Option Str) (s : Option Bool) (tp : Option Rat) (et : Option Str) :
    executeSingle false (.dict w u s tp et) = .ret (w.getD 1) (u.getD opsUnit) ⟨s.getD true, et, none, tp⟩ := by
  cases s with
  | none => rfl
  | some b => cases b <;> rfl

/-- **ops_target_other_unit_due_times.**  Target throughput `T` given in ops/s (a plain number, `target-interval`, or
    "… ops/s"), deterministic schedule, `C` clients, and a runner that reports in another unit (docs, pages, …): after EVERY
    response with a positive weight — the first, the second, the hundredth, whatever the weights are and however they change —
    the next request of the client is due exactly `C / T` seconds after the previous one (one *request* per slot: the weight
    is normalised to 1 each time); until such a response has been seen everything is due at 0. -/
theorem ops_target_other_unit_due_times (R : Run) (tp : Throughput)
    (htp : targetThroughput R.c.r R.tt R.ti = .ok (some tp)) (hu : tp.unit = opsPerS)
    (hdet : R.t.sched = none ∨ R.t.sched = some detName) (hother : ∀ q ∈ R.reqs, OtherUnit R.c tp q) :
    Adj (fun a b =>
      (0 < a.sample.ops → b.tup.sched = a.tup.sched + (R.c.clients : Rat) / tp.value) ∧
      (a.innerAfter = .unthrottled → b.tup.sched = 0)) R.f.out.recs := by
  have hr := R.exact
  obtain ⟨tp', sched, htp', hs, _, _, hout, _⟩ := R.inv
  rw [htp] at htp'
  injection htp' with htp'
  subst htp'
  have hsched : sched = .unitAware .deterministic tp true none .unthrottled := by
    rcases schedulerFor_ok hs with h | ⟨kind, t, ht, h, hk⟩
    · exfalso
      unfold schedulerFor at hs
      simp [runUnthrottled] at hs
      rcases hdet with hd | hd <;> simp [hd] at hs <;> rw [h] at hs <;> cases hs
    · injection ht with ht
      subst ht
      have : kind = .deterministic := hk.mpr (by rcases hdet with hd | hd <;> simp [hd])
      rw [h, this]
  have hI0 : FbInv tp R.c.clients (R.st0 sched) := ⟨true, none, .unthrottled, by simp [Run.st0, hsched], Or.inl ⟨rfl, rfl, rfl⟩⟩
  rw [hout]
  refine go_recs_adj (c := R.c) (FbInv tp R.c.clients) (OtherUnit R.c tp) _ ?_ ?_ R.reqs _ hI0 hother
  · intro st q rec st' hI hq hs
    exact (fbInv_step hr hu hI hq hs).1
  · intro st q rec st' q' rec' st'' hI hq _ _ hs _ _ hs'
    have ⟨_, hin, hval⟩ := fbInv_step hr hu hI hq hs
    obtain ⟨ops', unit', m', sched'', _, _, _, hrec', _⟩ := step_sampled_inv hs'
    obtain ⟨ops, unit, m, sched', _, _, _, hrec, hst'⟩ := step_sampled_inv hs
    have hnext : st'.nextSched = rec.tup.sched := by rw [hst', hrec]; rfl
    have hb : rec'.tup.sched = st'.sched.inner.next R.c.r st'.nextSched q'.draw := by rw [hrec']; rfl
    refine ⟨?_, ?_⟩
    · intro hops
      rw [hb, ← hin, hval hops, hnext]
      simp [Inner.next, hr]
    · intro hun
      rw [hb, ← hin, hun]; rfl

/-! ## the target throughput as the track spells it (`Task.target_throughput`, the producer of what the scheduler divides) -/

/-- **spelled_target_is_its_decimal_value.**  A `target-throughput` string `<number><one white-space character><word>/s…`
    is read as the exact decimal value of its number in the unit `<word>/s`: for `<digits>` as well as for
    `<digits>.<digits>` — and the digits before the point may be missing altogether (".5 ops/s" is 1/2 ops/s, exactly what
    "0.5 ops/s" is; a leading zero changes nothing). -/
theorem spelled_target_is_its_decimal_value (ip fp : Str) (hip : Digits ip) (hfp : Digits fp) (hne : fp ≠ [])
    (sp : Char) (hsp : isSpace sp = true) (w : Str) (hw0 : w ≠ []) (hw : Word w) (rest : Str) :
    (decimal ip fp ≠ 0 →
      targetThroughput id (.str (spelled (ip ++ '.' :: fp) sp w rest)) .none = .ok (some ⟨decimal ip fp, w ++ ['/', 's']⟩)) ∧
    (ip ≠ [] → digitsVal ip ≠ 0 →
      targetThroughput id (.str (spelled ip sp w rest)) .none = .ok (some ⟨(digitsVal ip : Rat), w ++ ['/', 's']⟩)) ∧
    decimal [] fp = decimal ['0'] fp ∧ decimal [] fp = (digitsVal fp : Rat) / ((10 ^ fp.length : Nat) : Rat) := by
  refine ⟨fun hv => ?_, fun hi hv => ?_, ?_, ?_⟩
  · exact targetThroughput_of_spelled id (fun _ => rfl) (IsNumber.frac ip fp hne hip hfp) hv sp hsp w hw0 hw rest
  · exact targetThroughput_of_spelled id (fun _ => rfl) (IsNumber.int ip hi hip) (by exact_mod_cast hv) sp hsp w hw0 hw rest
  · simp [decimal, digitsVal]
  · simp [decimal, digitsVal]
example : targetThroughput id (.str ['.', '5', ' ', 'o', 'p', 's', '/', 's']) .none = .ok (some ⟨1 / 2, opsPerS⟩) := by decide +kernel
example : targetThroughput id (.str ['.', '2', '5', '\t', 'p', 'a', 'g', 'e', 's', '/', 's', 'e', 'c']) .none =
    .ok (some ⟨1 / 4, ['p', 'a', 'g', 'e', 's', '/', 's']⟩) := by decide +kernel
example : targetThroughput id (.str ['0', '0', '.', '5', '0', ' ', 'o', 'p', 's', '/', 's']) .none = .ok (some ⟨1 / 2, opsPerS⟩) := by
  decide +kernel

/-- **spelled_target_due_times.**  A task whose target throughput is *written* `<number> <word>/s` with a number of value
    `v ≠ 0` (any legal spelling: "5", "5.0", "0.5", ".5", "00.50"), deterministic schedule, `C` clients: the first request
    of the client is due at 0, and after EVERY response that reports a positive weight `n` in the unit `<word>` the next
    request is due exactly `n · C / v` seconds after its predecessor — `v` being the value the text denotes, nothing else
    (with ".5 ops/s" and one client: every 2 s, not every 0.2 s). -/
theorem spelled_target_due_times (R : Run) (num : Str) (v : Rat) (hn : IsNumber num v) (hv : v ≠ 0)
    (sp : Char) (hsp : isSpace sp = true) (w : Str) (hw0 : w ≠ []) (hw : Word w) (rest : Str)
    (htt : R.tt = .str (spelled num sp w rest)) (hti : R.ti = .none)
    (hdet : R.t.sched = none ∨ R.t.sched = some detName) :
    (∀ rec, R.f.out.recs.head? = some rec → rec.tup.sched = 0) ∧
    Adj (fun a b => 0 < a.sample.ops → a.sample.unit = w →
      b.tup.sched = a.tup.sched + (a.sample.ops : Rat) * (R.c.clients : Rat) / v) R.f.out.recs := by
  have htp : targetThroughput R.c.r R.tt R.ti = .ok (some ⟨v, w ++ ['/', 's']⟩) := by
    rw [htt, hti]
    exact targetThroughput_of_spelled R.c.r R.exact hn hv sp hsp w hw0 hw rest
  obtain ⟨h0, hadj⟩ := det_due_times_of_target R _ htp hdet
  refine ⟨h0, Adj.imp ?_ hadj⟩
  intro a b h hops hunit
  exact h.1 hops (by rw [hunit])

/-- **spelled_zero_target_is_unthrottled.**  A number of value 0 ("0", ".0", "0.00") means "no target throughput": with a
    built-in schedule name the task runs unthrottled — every request is due at 0 and latency is service time. -/
theorem spelled_zero_target_is_unthrottled (num : Str) (hn : IsNumber num 0)
    (sp : Char) (hsp : isSpace sp = true) (w : Str) (hw0 : w ≠ []) (hw : Word w) (rest : Str) :
    targetThroughput id (.str (spelled num sp w rest)) .none = .ok none ∧
    schedulerFor none none = .ok .plain ∧ schedulerFor none (some detName) = .ok .plain := by
  exact ⟨targetThroughput_of_spelled_zero id (fun _ => rfl) hn sp hsp w hw0 hw rest, by simp [schedulerFor, runUnthrottled], by simp [schedulerFor, runUnthrottled]⟩
example : IsNumber ['.', '0'] 0 := by
  have h := IsNumber.frac [] ['0'] (by decide) (by intro c hc; cases hc) (by unfold Digits; decide)
  simpa [digitsVal] using h

/-- ".5 ops/s", one client, 1/8 s per request: a request every 2 s (the second one 1/4 s → still every 2 s) -/
def demoSpelled : Run :=
  Run.ofInputs { demoCfg with clients := 1, t0 := 0 } (fun _ => rfl) { demoTask with warmupIt := some 0, iters := some 4, clients := 1 }
    (.str ['.', '5', ' ', 'o', 'p', 's', '/', 's']) .none 0 1 true 100
    [okReq (1 / 8), okReq (1 / 4), okReq (1 / 8), okReq (1 / 8)] (by decide +kernel)
example : demoSpelled.f.out.recs.map (fun r => (r.tup.sched, r.sample.ops)) = [(0, 1), (2, 1), (4, 1), (6, 1)] := by decide +kernel
example : demoSpelled.tt = .str (spelled ['.', '5'] ' ' opsUnit []) ∧ IsNumber ['.', '5'] (1 / 2) := by
  refine ⟨rfl, ?_⟩
  have h := IsNumber.frac [] ['5'] (by decide) (by intro c hc; cases hc) (by unfold Digits; decide)
  have e : ((digitsVal [] : Nat) : Rat) + ((digitsVal ['5'] : Nat) : Rat) / ((10 ^ ['5'].length : Nat) : Rat) = 1 / 2 := by
    simp [digitsVal]; norm_num
  rw [e] at h
  exact h

/-- **sampler_sizes_conserved.**  For any capacity and any sequence of "n complete adds" / "one drain" — any sizes, far beyond
    every constant in the code —: the sizes of the drained batches, the queue length and the number of reported drops of the
    micro-step model are those of the count model, and they add up to the number of adds: one `Sampler.samples` hands out
    everything that is buffered, however much that is. -/
theorem sampler_sizes_conserved (cap : Nat) (es : List SBulk) :
    (srun cap (expandBulk es) (SState.init Unit)).counts = sbulkRun cap es ∧
    (sbulkRun cap es).batches.sum + (sbulkRun cap es).queue + (sbulkRun cap es).dropped = (calls (expandBulk es)).length := by
  have h1 := sbulk_counts cap es (SState.init Unit) ⟨rfl, rfl, [], rfl⟩ (by simp [SState.init])
  have h2 := sampler_exactly_once_under_preemption cap (expandBulk es)
  refine ⟨by simpa [sbulkRun, SState.counts, SState.init] using h1, ?_⟩
  have h3 : sbulkRun cap es = (srun cap (expandBulk es) (SState.init Unit)).counts := by
    simpa [sbulkRun, SState.counts, SState.init] using h1.symm
  rw [h3, ← h2.length_eq]
  simp [SState.counts, List.length_flatten, Nat.add_assoc]

/-- on-error=abort: a failed request never yields a sample (`execute_single` raises instead) -/
theorem abort_policy (o : Outcome) (ops : Nat) (unit : Str) (m : Meta)
    (h : executeSingle true o = .ret ops unit m) : m.success = true := by
  unfold executeSingle at h
  split at h
  · cases h
  · rename_i ops' unit' m' fatal _
    split at h
    · cases h
    · rename_i hc
      injection h with _ _ h3
      subst h3
      simpa using hc

/-- a refused connection (exactly `elasticsearch.ConnectionError`) is fatal whatever the policy says -/
theorem fatal_connection_error (abort : Bool) : executeSingle abort .connectionErr = .raise .assertion := by
  cases abort <;> rfl

/-- on-error=continue: only a refused connection, a `KeyError` or a foreign exception end the run;
    every other failure is recorded as a sample with 0 ops and `success = false` -/
theorem continue_policy (o : Outcome) (cause : Cause) (h : executeSingle false o = .raise cause) :
    (o = .connectionErr ∧ cause = .assertion) ∨ (o = .keyErr ∧ cause = .setup) ∨ (o = .otherExc ∧ cause = .other) := by
  cases o <;> simp [executeSingle, uniform] at h <;> simp_all

/-- **abort_raises.**  The records pair up, in plan order, with the plan entries `execute_single`
    turned into a result; when the executor raised (on-error=abort, fatal connection error, `KeyError`,
    unit mismatch …) the failing entry is the first one without a record: exactly one more tuple was
    yielded and one more request reached the endpoint than there are samples, so no sample is recorded
    for the failing request.  A run that ended because the source was exhausted sampled every entry. -/
theorem abort_raises (R : Run) :
    ∃ rest, Consumed (Produces R.c) R.reqs R.f.out.recs rest ∧
      (R.f.out.stop = .sourceExhausted → rest = []) ∧
      (∀ cause, R.f.out.stop = .raised cause →
        R.f.out.wire.length = R.f.out.recs.length + 1 ∧ R.f.out.tuples.length = R.f.out.recs.length + 1 ∧
        ∃ q rest', rest = q :: rest' ∧
          (executeSingle R.c.abort q.out = .raise cause ∨ cause = .unitMismatch ∨ cause = .zeroDivision ∨
            cause = .noTimestamps)) := by
  obtain ⟨tp, sched, _, _, _, _, hout, _⟩ := R.inv
  obtain ⟨rest, h1, h2, h3⟩ := go_consumed R.c R.reqs (R.st0 sched)
  have ⟨_, _, h5, h6⟩ := go_shape R.c R.reqs (R.st0 sched)
  rw [← hout] at h1 h2 h3 h5 h6
  refine ⟨rest, h1, h2, fun cause hc => ⟨?_, ?_, h3 cause hc⟩⟩
  · rw [h5, hc]; rfl
  · rw [h6, hc]; rfl

/-- with on-error=abort every recorded sample is a success -/
theorem abort_samples_all_successful (R : Run) (hab : R.c.abort = true) :
    ∀ rec ∈ R.f.out.recs, rec.sample.success = true := by
  obtain ⟨rest, h, _, _⟩ := abort_raises R
  intro rec hrec
  obtain ⟨q, _, ops, unit, m, he, _, _, hsucc, _⟩ := h.forall_rec rec hrec
  rw [hab] at he
  rw [hsucc]
  exact abort_policy _ _ _ _ he

/-! ## non-vacuity: a throttled run (4 ops/s over 2 clients = one request every 0.5 s per client) with a
    3 s request in the middle and a failing request, on-error=continue resp. abort -/

def demoReqs : List Req := [okReq (1 / 4), okReq 3, { okReq (1 / 4) with out := .apiErr 404 }, okReq (1 / 4), okReq (1 / 4)]

def demoRun : Run :=
  Run.ofInputs demoCfg (fun _ => rfl) demoTask (.int 4) .none 0 2 true 100 demoReqs (by decide +kernel)

def demoAbort : Run :=
  Run.ofInputs { demoCfg with abort := true } (fun _ => rfl) demoTask (.int 4) .none 0 2 true 100 demoReqs (by decide +kernel)

/-- four samples (1 warm-up + 3), scheduled 0.5 s apart -/
example : demoRun.f.out.tuples.map (·.sched) = [0, 1 / 2, 1, 3 / 2] := by decide +kernel
example : demoRun.f.out.stop = .loopDone ∧ demoRun.f.samples.length = 4 := by decide +kernel
/-- the second request waits for its slot (lateness 0 + pre-overhead), the third is 2.5 s late after the 3 s request -/
example : demoRun.f.out.recs.map (fun r => (r.throttled, lateness demoRun.c r)) =
    [(false, 1 / 1024), (true, 1 / 1024), (true, 2563 / 1024), (true, 2309 / 1024)] := by decide +kernel
example : demoRun.f.out.recs.map (fun r => (r.sample.service, r.sample.latency, r.sample.processing, r.sample.success)) =
    [(1 / 4, 1 / 4, 129 / 512, true), (3, 3073 / 1024, 1537 / 512, true), (1 / 4, 2819 / 1024, 129 / 512, false),
     (1 / 4, 2565 / 1024, 129 / 512, true)] := by decide +kernel
/-- on-error=abort: the executor raises on the third request, two samples, three wire requests -/
example : demoAbort.f.out.stop = .raised .assertion ∧ demoAbort.f.out.recs.length = 2 ∧ demoAbort.f.out.wire.length = 3 := by
  decide +kernel

/-! ## non-vacuity: composite requests (two wire requests, each in its own nested request context) at 1 ops/s,
    on-error=continue: plain / second wire request fails / far slower than the interval / first wire request fails / plain -/

def compReq (a b : Rat) (fa fb : Bool) (out : Outcome) : Req :=
  { gen := 0, prog := [.enter, .wire 0 a fa, .exit, .enter, .wire 0 b fb, .exit], post := 0, draw := 0, out := out,
    rc := none, rp := none, sp := none }

def compOk : Outcome := .dict (some 1) (some opsUnit) none none none

def demoComposite : Run :=
  Run.ofInputs { demoCfg with clients := 1, t0 := 0 } (fun _ => rfl) { demoTask with warmupIt := some 0, iters := some 5, clients := 1 }
    (.int 1) .none 0 1 true 100
    [compReq (3 / 10) (2 / 10) false false compOk, compReq (3 / 10) (4 / 10) false true (.apiErr 500),
     compReq (15 / 10) (2 / 10) false false compOk, compReq (2 / 10) (1 / 10) true false (.apiErr 503),
     compReq (1 / 10) (1 / 10) false false compOk] (by decide +kernel)

/-- five samples; the failing wire requests' responses are inside the service time (0.7 = 0.3 + 0.4; 0.2 for the failing first one) -/
example : demoComposite.f.out.stop = .loopDone ∧
    demoComposite.f.out.recs.map (fun r => (r.tup.sched, r.reqStart, r.reqEnd, r.sample.service, r.sample.latency, r.sample.success)) =
      [(0, 0, 1 / 2, 1 / 2, 1 / 2, true), (1, 1, 17 / 10, 7 / 10, 7 / 10, false), (2, 2, 37 / 10, 17 / 10, 17 / 10, true),
       (3, 37 / 10, 39 / 10, 1 / 5, 9 / 10, false), (4, 4, 21 / 5, 1 / 5, 1 / 5, true)] := by decide +kernel
example : demoComposite.f.out.recs.map (fun r => r.wires.length) = [2, 2, 2, 1, 2] := by decide +kernel
/-- a runner call that sends nothing leaves the request context unstamped: the executor raises, no sample -/
example : (Run.ofInputs demoCfg (fun _ => rfl) demoTask .none .none 0 2 true 100
    [{ okReq (1 / 4) with prog := [.enter, .exit] }] (by decide +kernel)).f.out.stop = .raised .noTimestamps := by decide +kernel
/-- capacity 2, the worker drains between the evaluation of `put_nowait` and the call of the second add: nothing is lost,
    the fourth sample is a reported drop -/
example : (srun 2 [SEv.evalPut, .build, .call 0, .evalPut, .drain, .build, .call 1, .evalPut, .build, .call 2,
      .evalPut, .build, .call 3, .drain] (SState.init Nat)).batches = [[0], [1, 2]] ∧
    (srun 2 [SEv.evalPut, .build, .call 0, .evalPut, .drain, .build, .call 1, .evalPut, .build, .call 2,
      .evalPut, .build, .call 3, .drain] (SState.init Nat)).dropped = [3] := by decide

/-- 2 ops/s, one client, the runner reports 20 pages per request; the first response is a runner-reported failure (with
    its weight): every request is due 0.5 s after its predecessor, from the very first response on -/
def pagesReq (out : Outcome) : Req := { okReq (1 / 8) with out := out }
def pages : Str := ['p', 'a', 'g', 'e', 's']
def demoPages : Run :=
  Run.ofInputs { demoCfg with clients := 1 } (fun _ => rfl) { demoTask with warmupIt := some 0, iters := some 4, clients := 1 }
    (.int 2) .none 0 1 true 100
    [pagesReq (.dict (some 20) (some pages) (some false) none none), pagesReq (.tuple 20 pages), pagesReq (.tuple 20 pages),
     pagesReq (.tuple 20 pages)] (by decide +kernel)
example : demoPages.f.out.recs.map (fun r => (r.tup.sched, r.sample.ops, r.sample.success)) =
    [(0, 20, false), (1 / 2, 20, true), (1, 20, true), (3 / 2, 20, true)] := by decide +kernel

/-! ## non-vacuity: wire requests sent from concurrent streams (child asyncio tasks), 1 ops/s: last response inside a stream /
    first send inside a stream (1.5 s: the client falls behind) / every wire request inside streams -/

def streamReq (prog : List Tok) : Req :=
  { gen := 0, prog := prog, post := 0, draw := 0, out := compOk, rc := none, rp := none, sp := none }

def demoStreams : Run :=
  Run.ofInputs { demoCfg with clients := 1, t0 := 0 } (fun _ => rfl) { demoTask with warmupIt := some 0, iters := some 3, clients := 1 }
    (.int 1) .none 0 1 true 100
    [streamReq [.enter, .wire 0 (1 / 10) false, .exit, .par [[(2 / 10, false)], [(4 / 10, false)]]],
     streamReq [.par [[(15 / 10, false)], [(1 / 10, false)]], .enter, .wire 0 (1 / 10) false, .exit],
     streamReq [.par [[(1 / 10, false), (2 / 10, false)], [(2 / 10, false)]]]] (by decide +kernel)

example : demoStreams.f.out.stop = .loopDone ∧
    demoStreams.f.out.recs.map (fun r => (r.tup.sched, r.reqStart, r.reqEnd, r.sample.service, r.sample.latency)) =
      [(0, 0, 1 / 2, 1 / 2, 1 / 2), (1, 1, 13 / 5, 8 / 5, 8 / 5), (2, 13 / 5, 29 / 10, 3 / 10, 9 / 10)] ∧
    demoStreams.f.out.recs.map (fun r => r.wires.length) = [3, 3, 3] := by decide +kernel

end C04
