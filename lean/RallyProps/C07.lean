import RallyModel.Samples
import RallyProofs.Samples
/-!
# C07 — every request sample reaches the metrics store exactly once

Theorems about `RallyModel/Samples.lean` for every sequence of pipeline events of any length: any interleaving of
requests, shipments, deliveries, periodic or step-boundary post-processing calls, hand-overs and their delivery,
any number of workers, any queue capacity and any down-sampling factor.  `s.accepted.count a` is how often sample
`a` was accepted by a worker's queue (once, when the harness hands out fresh ids).
-/
namespace C07
open Samples

/-- **sample_conservation** — in every reachable state each accepted sample is in exactly as many places as it was
    accepted: sampler queue, shipment in flight, raw_samples, driver store, hand-over in flight, race-control store
    (or its request records were removed by down-sampling).  Never lost, never duplicated. -/
theorem sample_conservation (cfg : Cfg) (evs : List Event) (s : State) (h : run cfg init evs = some s) (a : Sid) :
    located a s = s.accepted.count a :=
  run_induction (cfg := cfg) (fun s => located a s = s.accepted.count a)
    (fun _ _ _ hs hp => step_located hs a hp) evs init s h rfl

/-- fresh sample ids ⇒ every accepted sample is in exactly one place -/
theorem each_sample_in_exactly_one_place (cfg : Cfg) (evs : List Event) (s : State) (h : run cfg init evs = some s)
    (hfresh : s.accepted.Nodup) (a : Sid) (ha : a ∈ s.accepted) : located a s = 1 := by
  rw [sample_conservation cfg evs s h a]
  rw [List.Nodup.count hfresh]
  simp [ha]

/-- **records_exact_at_end** — with the default factor 1, once everything has been shipped, post-processed, handed
    over and delivered, race control's store holds the records of every accepted sample exactly as often as it
    was accepted (a permutation of `accepted`). -/
theorem records_exact_at_end (cfg : Cfg) (hf : cfg.factor = 1) (evs : List Event) (s : State)
    (h : run cfg init evs = some s)
    (hq : s.samplers = []) (hw : s.w2d = []) (hr : s.raw = []) (hd : s.dstore = []) (hh : s.d2r = []) :
    s.rstore.Perm s.accepted := by
  have hds : s.downsampled = [] :=
    run_induction (cfg := cfg) (fun s => s.downsampled = []) (fun _ _ _ hs hp => step_downsampled hf hs hp) evs init s h rfl
  rw [List.perm_iff_count]
  intro a
  have := sample_conservation cfg evs s h a
  simp only [located, hq, hw, hr, hd, hh, hds] at this
  simpa using this

/-- **only_queue_or_downsampling_reduce** — for any factor: at the end the store holds exactly the accepted samples
    minus those removed by down-sampling, and a down-sampled sample is one at a position ≢ 0 (mod factor) of some
    post-processing call; the only other way a request yields no record is a full queue (`dropped`). -/
theorem only_queue_or_downsampling_reduce (cfg : Cfg) (evs : List Event) (s : State)
    (h : run cfg init evs = some s)
    (hq : s.samplers = []) (hw : s.w2d = []) (hr : s.raw = []) (hd : s.dstore = []) (hh : s.d2r = []) (a : Sid) :
    s.rstore.count a + s.downsampled.count a = s.accepted.count a := by
  have := sample_conservation cfg evs s h a
  simp only [located, hq, hw, hr, hd, hh] at this
  simpa using this

/-- one post-processing call keeps exactly the positions ≡ 0 (mod factor) and loses the others -/
theorem downsampling_positions (f : Nat) (l : List Sid) (a : Sid) :
    (keep f l).count a + (lose f l).count a = l.count a ∧ keep 1 l = l ∧ lose 1 l = [] :=
  ⟨keep_lose_count f l a, keep_one l, lose_one l⟩

/-- **throughput_uses_all** — whatever the factor, the throughput calculator has been fed every post-processed
    sample exactly once (kept or down-sampled alike). -/
theorem throughput_uses_all (cfg : Cfg) (evs : List Event) (s : State) (h : run cfg init evs = some s) (a : Sid) :
    s.fed.count a = s.dstore.count a + s.d2r.flatten.count a + s.rstore.count a + s.downsampled.count a :=
  run_induction (cfg := cfg) (fun s => s.fed.count a = processed a s)
    (fun _ _ _ hs hp => step_fed hs a hp) evs init s h rfl

/-! ### non-vacuity (tests, labelled as tests) -/

example : (run ⟨2, 2⟩ init [.request 0 1, .request 0 2, .request 0 3, .request 1 4, .ship 0, .deliverU 0, .ship 1, .deliverU 1,
    .postprocess, .handover, .deliverR]).map (fun s => (s.rstore, s.downsampled, s.dropped, s.accepted, s.fed)) =
    some ([1, 4], [2], [3], [1, 2, 4], [1, 2, 4]) := by decide

end C07
